(* pipeline operations of the model driver: configuration from `cfg` lines, Proxy.state, events *)
open Model
type string = Stdlib.String.t
open Util
open Ops

let t0 = 1000000

let opt_default = { o_ttl0 = n_of_int 27262; o_ttl1 = n_of_int 1; o_addttl = N0; o_loopprev = false; o_verifyeap = true }
let options = ref opt_default
let clients : (int * clconf) list ref = ref []
let servers : (int * srvconf) list ref = ref []
let realms : (int * realm) list ref = ref []
let st : state option ref = ref None
let display : (int, int) Hashtbl.t = Hashtbl.create 64
let diverged = ref false   (* implementation and model already differ in this case: state-dependent specs are meaningless *)

(* C12 runtime spec: transmissions of the implementation per occupied slot (server, identifier) *)
type txrec = { tx_bytes : string; mutable tx_times : int list; mutable tx_resets : int; mutable tx_after_reset : bool }
let txhist : (int * int, txrec) Hashtbl.t = Hashtbl.create 64

(* implementation state per server as dumped after the previous operation *)
type isl = { i_id : int; i_tries : int; i_exp : int; i_h : string }
let impl_prev : (int, int * int * isl list) Hashtbl.t = Hashtbl.create 8
let impl_prev_cl : (int, (int * string) list) Hashtbl.t = Hashtbl.create 8
let impl_prev_state : (int, int) Hashtbl.t = Hashtbl.create 8   (* connection state of each server as the implementation showed it last *)
let impl_prev_replied : (int * int, unit) Hashtbl.t = Hashtbl.create 8   (* (client, id): the cached request has a stored reply *)
(* C10 runtime spec: what the implementation's duplicate cache remembers, (client, id) -> record *)
type duprec = { d_h : string; d_pkt : string; d_created : int; mutable d_reply : string option }
let dupcache : (int * int, duprec) Hashtbl.t = Hashtbl.create 64
let gone : (int, unit) Hashtbl.t = Hashtbl.create 8
let gone_srv : (int, unit) Hashtbl.t = Hashtbl.create 8
let pending_reset : (int, unit) Hashtbl.t = Hashtbl.create 8

(* allocation-failure oracle handed to the model (C19); the proxy's ordinary behaviour is fs_none *)
let fs_none (_ : n) = false
let cur_fs : (n -> bool) ref = ref fs_none
let fs (k : n) = !cur_fs k
let case_exit : bool ref = ref false      (* the harness reports that the case ended in exit(1) *)
let dead = ref false
let in_fault = ref false    (* the current operation ran with a failed allocation: specs that presuppose memory do not apply *)

let connecting : (int, unit) Hashtbl.t = Hashtbl.create 4   (* servers whose connection is being made by the real connecter *)
let realmode : (int, unit) Hashtbl.t = Hashtbl.create 4     (* servers that write through the real transport *)
let strict_empty_username = ref false   (* cfg strict empty-username: judge a zero-length User-Name by the property text (C08) *)
let reset () =
  cur_fs := fs_none; dead := false; in_fault := false; strict_empty_username := false; Hashtbl.reset connecting; Hashtbl.reset realmode;
  Hashtbl.reset txhist; Hashtbl.reset impl_prev; Hashtbl.reset pending_reset; Hashtbl.reset impl_prev_cl; Hashtbl.reset impl_prev_state; Hashtbl.reset impl_prev_replied; Hashtbl.reset dupcache; Hashtbl.reset gone; Hashtbl.reset gone_srv;
  options := opt_default; clients := []; servers := []; realms := []; st := None; Hashtbl.reset display; diverged := false

let b01 s = (s = "1")
let rw_opt (name : string) : rewrite option = if name = "-" then None else Hashtbl.find_opt rewrites name
let ints s = List.map int_of_string (split_list s)

let cfg_line (rest : string list) =
  match rest with
  | [ "strict"; "empty-username" ] -> strict_empty_username := true
  | "options" :: toks ->
      let k = kv toks in
      options := { o_ttl0 = n_of_int (int_of_string (get k "ttl0" "27262")); o_ttl1 = n_of_int (int_of_string (get k "ttl1" "1"));
                   o_addttl = n_of_int (int_of_string (get k "addttl" "0")); o_loopprev = b01 (get k "loopprev" "0");
                   o_verifyeap = b01 (get k "verifyeap" "1") }
  | "client" :: idx :: toks ->
      let k = kv toks in
      let i = int_of_string idx in
      let rwuser = match get k "rwuser" "-" with
        | "-" -> None
        | repl -> Some { mod_t = n_of_int 1; mod_vendor = N0; mod_rx = rxid (Printf.sprintf "cl:%d:user" i); mod_repl = bytes_of_hex repl } in
      clients := !clients @ [ (i, { cc_name = bytes_of_hex (get k "name" "-"); cc_type = n_of_int (int_of_string (get k "type" "0"));
                                   cc_secret = bytes_of_hex (get k "secret" "-"); cc_dupint = n_of_int (int_of_string (get k "dupint" "10"));
                                   cc_addttl = n_of_int (int_of_string (get k "addttl" "0"));
                                   cc_rwin = rw_opt (get k "rwin" "-"); cc_rwout = rw_opt (get k "rwout" "-"); cc_rwuser = rwuser;
                                   cc_reqma = b01 (get k "reqma" "0"); cc_reqmap = b01 (get k "reqmap" "0") }) ]
  | "server" :: idx :: toks ->
      let k = kv toks in
      servers := !servers @ [ (int_of_string idx, { sc_name = bytes_of_hex (get k "name" "-"); sc_type = n_of_int (int_of_string (get k "type" "0"));
                                   sc_secret = bytes_of_hex (get k "secret" "-"); sc_statsrv = n_of_int (int_of_string (get k "statsrv" "0"));
                                   sc_retryint = n_of_int (int_of_string (get k "retryint" "5")); sc_retrycount = n_of_int (int_of_string (get k "retrycount" "2"));
                                   sc_addttl = n_of_int (int_of_string (get k "addttl" "0")); sc_loopprev = n_of_int (int_of_string (get k "loopprev" "255"));
                                   sc_rwin = rw_opt (get k "rwin" "-"); sc_rwout = rw_opt (get k "rwout" "-"); sc_reqma = b01 (get k "reqma" "0") }) ]
  | "realm" :: idx :: toks ->
      let k = kv toks in
      let i = int_of_string idx in
      realms := !realms @ [ (i, { rl_rx = rxid (Printf.sprintf "realm:%d" i);
                                  rl_msg = (match get k "msg" "-" with "-" -> None | h -> Some (bytes_of_hex h));
                                  rl_accresp = b01 (get k "accresp" "0");
                                  rl_srv = List.map nat_of_int (ints (get k "srv" "-")); rl_acc = List.map nat_of_int (ints (get k "acc" "-")) }) ]
  | _ -> ()

let config () : config =
  { cf_opt = !options; cf_clients = List.map snd !clients; cf_servers = List.map snd !servers; cf_realms = List.map snd !realms }

let rec repeat x n = if n = 0 then [] else x :: repeat x (n - 1)

let init_state () : state =
  let cl = { c_rqs = repeat None 256; c_replyq = [] } in
  let sv (sc : srvconf) = { s_slots = repeat empty_slot 256; s_nextid = N0; s_lostrqs = N0; s_connstate = n_of_int 2; s_statsrv = sc.sc_statsrv;
                            s_lastrcv = z_of_int t0; s_lastreply = z_of_int t0; s_laststatsrv = z_of_int t0; s_timeout = Z0;
                            s_newrq = false; s_conreset = false; s_statsrv_requested = false } in
  { st_heap = []; st_clients = List.map (fun _ -> cl) !clients; st_servers = List.map (fun (_, sc) -> sv sc) !servers }

let get_state () : state =
  match !st with Some s -> s | None -> let s = init_state () in st := Some s; s

let disp (h : int) : int =
  match Hashtbl.find_opt display h with
  | Some d -> d
  | None -> let d = Hashtbl.length display in Hashtbl.add display h d; d

let refcount (s : state) (h : int) : int =
  match get_rq s (nat_of_int h) with Some r -> int_of_n r.rq_refcount | None -> -1

let print_state opidx (s : state) =
  List.iteri (fun i (sv : server) ->
      if not (Hashtbl.mem gone_srv i) then
      let b = Buffer.create 256 in
      List.iteri (fun id (sl : slot) ->
          match sl.sl_rq with
          | Some h -> let h = int_of_nat h in
              Buffer.add_string b (Printf.sprintf "%d:%d:%d:h%d:rc%d," id (int_of_n sl.sl_tries) (int_of_z sl.sl_expiry) (disp h) (refcount s h))
          | None -> ()) sv.s_slots;
      pr "obs %d srv %d next=%d lost=%d state=%d mode=%d slots=%s\n" opidx i (int_of_n sv.s_nextid) (int_of_n sv.s_lostrqs)
        (int_of_n sv.s_connstate) (int_of_n sv.s_statsrv) (Buffer.contents b)) s.st_servers;
  List.iteri (fun i (cl : client) ->
      if not (Hashtbl.mem gone i) then
      let b = Buffer.create 256 in
      List.iteri (fun id e ->
          match e with
          | Some h -> let h = int_of_nat h in
              let replied = match get_rq s (nat_of_int h) with Some r -> r.rq_replybuf <> None | None -> false in
              Buffer.add_string b (Printf.sprintf "%d:h%d:rc%d:%s," id (disp h) (refcount s h) (if replied then "r" else "p"))
          | None -> ()) cl.c_rqs;
      let q = String.concat "" (List.map (fun h -> Printf.sprintf "h%d," (disp (int_of_nat h))) cl.c_replyq) in
      pr "obs %d cl %d cache=%s q=%s\n" opidx i (Buffer.contents b) q) s.st_clients

let print_outs opidx (o : out list) ~(wake_first : bool) =
  List.iter (function ORet r -> pr "obs %d ret %d\n" opidx (int_of_n r) | _ -> ()) o;
  List.iter (function OTx (s, id, p) -> pr "obs %d tx %d %d %s\n" opidx (int_of_nat s) (int_of_n id) (hex_of_bytes p) | _ -> ()) o;
  if wake_first then List.iter (function OWake t -> pr "obs %d wake %d\n" opidx (int_of_z t) | _ -> ()) o;
  (* enq events sorted by (server, id), replies by client then order *)
  let enqs = List.filter_map (function OEnq (s, id, p) -> Some (int_of_nat s, int_of_n id, p) | _ -> None) o in
  List.iter (fun (s, id, p) -> pr "obs %d enq %d %d %s\n" opidx s id (hex_of_bytes p)) (List.sort compare enqs);
  let reps = List.filter_map (function OReply (c, p) -> Some (int_of_nat c, p) | _ -> None) o in
  List.iter (fun (c, p) -> pr "obs %d reply %d %s\n" opidx c (hex_of_bytes p)) (List.stable_sort (fun (a, _) (b, _) -> compare a b) reps)

(* ---- runtime specs on what the IMPLEMENTATION emitted (C06, C05, C02) ---- *)
let attr_list (b : n list) : (int * int * n list) list =
  List.map (fun ((t, off), v) -> (int_of_n t, int_of_nat off, v)) (attrs_of b)

let check_request_out opidx (srv : int) (pkt : n list) =
  (* a request placed in a server's table / transmitted *)
  let secret = (List.assoc srv !servers).sc_secret in
  let code = match pkt with c :: _ -> int_of_n c | [] -> -1 in
  spec opidx "C06_emit_wf" (wf_packet pkt) (Printf.sprintf "request to server %d len=%d" srv (List.length pkt));
  if wf_packet pkt then begin
    if code = 1 || code = 12 then
      spec opidx "C06_emit_msgauth" (first_is_msgauth pkt && all_msgauth_ok md5 pkt None secret) (Printf.sprintf "code %d to server %d" code srv);
    if code = 4 then spec opidx "C06_emit_acct_auth" (acct_request_auth_ok md5 pkt secret) ""
  end

let check_reply_out opidx (c : int) (pkt : n list) (reqauth : n list) (reqid : int) =
  let secret = (List.assoc c !clients).cc_secret in
  let code = match pkt with x :: _ -> int_of_n x | [] -> -1 in
  spec opidx "C06_emit_wf" (wf_packet pkt) (Printf.sprintf "reply to client %d len=%d" c (List.length pkt));
  if wf_packet pkt then begin
    spec opidx "C02_reply_id" ((match pkt with _ :: i :: _ -> int_of_n i | _ -> -1) = reqid) "";
    spec opidx "C06_emit_response_auth" (response_auth_ok md5 pkt reqauth secret) (Printf.sprintf "code %d to client %d" code c);
    if List.mem code [ 2; 3; 11; 42; 45 ] then
      spec opidx "C06_emit_msgauth" (first_is_msgauth pkt && all_msgauth_ok md5 pkt (Some reqauth) secret) (Printf.sprintf "code %d to client %d" code c);
    if (code = 42 || code = 45) && not !in_fault then
      spec opidx "C05_nak_error_cause"
        (List.exists (fun (t, _, v) -> t = 101 && List.map int_of_n v = [ 0; 0; 1; 150 ]) (attr_list pkt)) "Error-Cause must be 406, big-endian"
  end

(* hidden attributes of a packet, in order: Tunnel-Password values and MS-MPPE key sub-attribute values *)
let hidden_attrs (b : n list) : (string * n list) list =
  List.concat_map (fun (t, _, v) ->
      if t = 69 then [ ("tunnel", v) ]
      else if t = 26 && List.length v > 4 && List.map int_of_n (List.filteri (fun i _ -> i < 4) v) = [ 0; 0; 1; 55 ] then begin
        (* walk the sub-attributes *)
        let rec walk l acc = match l with
          | st :: sl :: rest when int_of_n sl >= 2 && List.length rest >= int_of_n sl - 2 ->
              let vl = int_of_n sl - 2 in
              let sv = List.filteri (fun i _ -> i < vl) rest and tl = List.filteri (fun i _ -> i >= vl) rest in
              walk tl (if int_of_n st = 16 || int_of_n st = 17 then ("mppe", sv) :: acc else acc)
          | _ -> List.rev acc in
        walk (List.filteri (fun i _ -> i >= 4) v) []
      end else []) (attr_list b)

let drop k l = List.filteri (fun i _ -> i >= k) l
let take k l = List.filteri (fun i _ -> i < k) l

(* C03 for a delivered reply: every hidden attribute decrypts for the client to what the server encrypted *)
let check_hidden opidx (sent : n list) (delivered : n list) ~ssecret ~sauth ~csecret ~cauth =
  if wf_packet sent && wf_packet delivered then begin
    let hs = hidden_attrs sent and hd = hidden_attrs delivered in
    let code = match delivered with c :: _ -> int_of_n c | [] -> 0 in
    let hs = List.filter (fun (k, _) -> k <> "tunnel" || code = 2) hs and hd = List.filter (fun (k, _) -> k <> "tunnel" || code = 2) hd in
    if List.length hs = List.length hd then
      List.iter2 (fun (k, v) (k', v') ->
          if k = k' then begin
            let plain_s, plain_c =
              if k = "tunnel" then
                (rfc_dec md5 ssecret (sauth @ take 2 (drop 1 v)) (drop 3 v), rfc_dec md5 csecret (cauth @ take 2 (drop 1 v')) (drop 3 v'))
              else (rfc_dec md5 ssecret (sauth @ take 2 v) (drop 2 v), rfc_dec md5 csecret (cauth @ take 2 v') (drop 2 v')) in
            spec opidx "C03_reply_hidden" (plain_s = plain_c) (Printf.sprintf "%s len=%d" k (List.length v))
          end) hs hd
  end

(* does a rewrite block name the hidden attributes (then their delivered form is a configured transformation)? *)
let rw_touches_hidden (rw : rewrite option) : bool =
  match rw with
  | None -> false
  | Some w ->
      w.rw_whitelist
      || (match w.rw_rm with Some l -> List.exists (fun t -> int_of_n t = 26 || int_of_n t = 69) l | None -> false)
      || (match w.rw_rmv with Some l -> List.exists (fun (v, _) -> int_of_n v = 311) l | None -> false)
      || List.exists (fun m -> int_of_n m.mod_t = 69) w.rw_mod
      || List.exists (fun m -> int_of_n m.mod_vendor = 311) w.rw_modv
      || List.exists (fun a -> int_of_n a.tlv_t = 69) (w.rw_add @ w.rw_sup)
      || List.exists (fun a -> int_of_n a.tlv_t = 26 && List.length a.tlv_v > 4 && List.map int_of_n (take 4 a.tlv_v) = [ 0; 0; 1; 55 ]) (w.rw_add @ w.rw_sup)

(* does a rewrite block name plain attribute type t? *)
let rw_touches (t : int) (rw : rewrite option) : bool =
  match rw with
  | None -> false
  | Some w ->
      w.rw_whitelist
      || (match w.rw_rm with Some l -> List.exists (fun x -> int_of_n x = t) l | None -> false)
      || List.exists (fun m -> int_of_n m.mod_t = t) w.rw_mod
      || List.exists (fun a -> int_of_n a.tlv_t = t) (w.rw_add @ w.rw_sup)

let impl_events (impl_all : string list list) (kind : string) : string list list =
  List.filter_map (function k :: rest when k = kind -> Some rest | _ -> None) impl_all

let parse_impl_srv (toks : string list) : (int * (int * int * isl list)) option =
  match toks with
  | sv :: rest ->
      let k = kv rest in
      let slots = List.filter_map (fun e -> match String.split_on_char ':' e with
          | id :: tries :: exp :: h :: _ -> Some { i_id = int_of_string id; i_tries = int_of_string tries; i_exp = int_of_string exp; i_h = h }
          | _ -> None) (String.split_on_char ',' (get k "slots" "")) in
      (try Some (int_of_string sv, (int_of_string (get k "lost" "0"), int_of_string (get k "mode" "0"), slots)) with _ -> None)
  | [] -> None

let parse_impl_cl (toks : string list) : (int * (int * string) list) option =
  match toks with
  | c :: rest ->
      let k = kv rest in
      let cache = List.filter_map (fun e -> match String.split_on_char ':' e with
          | id :: h :: _ -> (try Some (int_of_string id, h) with _ -> None)
          | _ -> None) (String.split_on_char ',' (get k "cache" "")) in
      (try Some (int_of_string c, cache) with _ -> None)
  | [] -> None

(* C11 on the implementation's own observations: the packet put in slot i carries identifier i; with
   status-server enabled slot 0 holds Status-Server probes and nothing else; the cursor stays in the table *)
let check_slots opidx impl_all =
  List.iter (function
      | [ sv; id; p ] ->
          let idb = if String.length p >= 4 then int_of_string ("0x" ^ String.sub p 2 2) else -1 in
          spec opidx "C11_wire_id" (idb = int_of_string id) (Printf.sprintf "server %s slot %s carries identifier %d" sv id idb);
          let mode = List.find_map (fun t -> match parse_impl_srv t with Some (s', (_, m, _)) when s' = int_of_string sv -> Some m | _ -> None)
              (impl_events impl_all "srv") in
          let isprobe = String.length p >= 2 && String.sub p 0 2 = "0c" in
          (match mode with
           | Some m when m <> 0 ->
               spec opidx "C11_id0_reserved" ((int_of_string id = 0) = isprobe) (Printf.sprintf "server %s mode %d slot %s code %s" sv m id (String.sub p 0 2))
           | _ -> ())
      | _ -> ()) (impl_events impl_all "enq");
  List.iter (fun t -> match t with
      | sv :: rest ->
          let nx = try int_of_string (get (kv rest) "next" "0") with _ -> 0 in
          spec opidx "C11_cursor_in_table" (nx >= 0 && nx <= int_of_n Consts.coq_MAX_REQUESTS) (Printf.sprintf "server %s next=%d" sv nx)
      | [] -> ()) (impl_events impl_all "srv")

(* C11 at a client request: the only outstanding requests that may leave their slots are this client's own
   (the one superseded, and those whose cache entry expired and is purged); everything else stays where it was *)
let check_no_displace opidx impl_all c (_pkt : n list) =
  let allowed = match Hashtbl.find_opt impl_prev_cl c with Some cache -> List.map snd cache | None -> [] in
  List.iter (fun t -> match parse_impl_srv t with
      | Some (sv, (_, _, post)) ->
          (match Hashtbl.find_opt impl_prev sv with
           | Some (_, _, pre) ->
               List.iter (fun sl ->
                   if not (List.exists (fun q -> q.i_id = sl.i_id && q.i_h = sl.i_h) post) then
                     spec opidx "C11_no_displace" (List.mem sl.i_h allowed)
                       (Printf.sprintf "server %d slot %d held %s, now %s" sv sl.i_id sl.i_h
                          (match List.find_opt (fun q -> q.i_id = sl.i_id) post with Some q -> q.i_h | None -> "empty"))) pre
           | None -> ())
      | None -> ()) (impl_events impl_all "srv")

(* C10 on the implementation's observations at a client packet *)
let check_dup opidx impl_all c now (pkthex : string) =
  if !in_fault then Hashtbl.reset dupcache else
  let pkthex = String.lowercase_ascii pkthex in
  let id = if String.length pkthex >= 4 then int_of_string ("0x" ^ String.sub pkthex 2 2) else -1 in
  let pre = match Hashtbl.find_opt impl_prev_cl c with Some l -> l | None -> [] in
  let post = match List.find_map (fun t -> match parse_impl_cl t with Some (c', l) when c' = c -> Some l | _ -> None) (impl_events impl_all "cl") with
    | Some l -> l | None -> [] in
  let enqs = impl_events impl_all "enq" and replies = impl_events impl_all "reply" in
  let dupint = match List.assoc_opt c !clients with Some cc -> int_of_n cc.cc_dupint | None -> 0 in
  (* an entry is trusted only while the implementation's cache still holds the same request under that id *)
  (match Hashtbl.find_opt dupcache (c, id) with
   | Some d when List.assoc_opt id pre <> Some d.d_h -> Hashtbl.remove dupcache (c, id)
   | _ -> ());
  (match Hashtbl.find_opt dupcache (c, id) with
   | Some d when d.d_pkt = pkthex && now - d.d_created < dupint ->
       spec opidx "C10_dup_not_forwarded" (enqs = []) (Printf.sprintf "client %d id %d repeated after %d s (interval %d)" c id (now - d.d_created) dupint);
       (match d.d_reply with
        | Some b -> spec opidx "C10_replay_same_bytes" (replies = [ [ string_of_int c; b ] ])
                      (Printf.sprintf "client %d id %d: %d replies" c id (List.length replies))
        | None ->
            (* a reply may be stored without ever having been queued (the queue could not grow): then it is replayed *)
            if not (Hashtbl.mem impl_prev_replied (c, id)) then
              spec opidx "C10_dup_ignored" (replies = []) (Printf.sprintf "client %d id %d" c id))
   | dopt ->
       (match dopt with
        | Some d when d.d_pkt = pkthex ->
            (* same bytes at or after the interval, counted from the receipt of the remembered request: treated as new *)
            spec opidx "C10_after_interval_new" (List.assoc_opt id post <> Some d.d_h)
              (Printf.sprintf "client %d id %d repeated after %d s (interval %d) still answered from the cache" c id (now - d.d_created) dupint)
        | _ -> ());
       (match List.assoc_opt id pre, List.assoc_opt id post with
        | old, Some hn when old <> Some hn ->
            (* registered as new; a superseded request no longer sits in any server's table *)
            (match old with
             | Some ho ->
                 List.iter (fun t -> match parse_impl_srv t with
                     | Some (sv, (_, _, slots)) ->
                         spec opidx "C10_superseded_cancelled" (not (List.exists (fun q -> q.i_h = ho) slots))
                           (Printf.sprintf "client %d id %d: old request %s still outstanding at server %d" c id ho sv)
                     | None -> ()) (impl_events impl_all "srv")
             | None -> ());
            Hashtbl.replace dupcache (c, id) { d_h = hn; d_pkt = pkthex; d_created = now; d_reply = None }
        | _ -> ()))

(* replies the implementation delivers, remembered for the replay check *)
let note_replies toks impl_all =
  (* a reply made while handling a client packet belongs to THAT packet: it is the remembered request's reply only if the
     packet is the remembered one (a Disconnect/CoA request is answered without touching the cache, whatever its id) *)
  let cpkt_hex = match toks with "cpkt" :: _ :: _ :: _ :: p :: _ -> Some p | "failat" :: _ :: "cpkt" :: _ :: _ :: _ :: p :: _ -> Some p | _ -> None in
  List.iter (function
      | [ cl; p ] when String.length p >= 4 ->
          let c = int_of_string cl and id = int_of_string ("0x" ^ String.sub p 2 2) in
          (match Hashtbl.find_opt dupcache (c, id) with
           | Some d when d.d_reply = None && (match cpkt_hex with Some q -> q = d.d_pkt | None -> true) -> d.d_reply <- Some p
           | _ -> ())
      | _ -> ()) (impl_events impl_all "reply")

(* C17 on the implementation's dump between handler invocations: the reference count shown for a request
   equals the number of places that hold it (client caches, reply queues, server tables) *)
let check_refs opidx impl_all =
  let holders : (string, int) Hashtbl.t = Hashtbl.create 64 and shown : (string, int) Hashtbl.t = Hashtbl.create 64 in
  let bump h = Hashtbl.replace holders h (1 + (try Hashtbl.find holders h with Not_found -> 0)) in
  let rc_of s = try Some (int_of_string (String.sub s 2 (String.length s - 2))) with _ -> None in
  let entry e = match String.split_on_char ':' e with
    | [ _; _; _; h; rc ] | [ _; h; rc; _ ] ->
        bump h; (match rc_of rc with Some n -> Hashtbl.replace shown h n | None -> ())
    | _ -> () in
  let any = ref false in
  List.iter (fun toks -> match toks with
      | _ :: rest -> any := true; List.iter entry (String.split_on_char ',' (get (kv rest) "slots" ""))
      | [] -> ()) (impl_events impl_all "srv");
  List.iter (fun toks -> match toks with
      | _ :: rest ->
          let k = kv rest in
          List.iter entry (String.split_on_char ',' (get k "cache" ""));
          List.iter (fun h -> if h <> "" then bump h) (String.split_on_char ',' (get k "q" ""))
      | [] -> ()) (impl_events impl_all "cl");
  if !any then begin
    let bad = Hashtbl.fold (fun h n acc -> match Hashtbl.find_opt shown h with
        | Some rc when rc <> n -> Printf.sprintf "%s: count %d, holders %d" h rc n :: acc
        | _ -> acc) holders [] in
    spec opidx "C17_refs_balance" (bad = []) (String.concat "; " bad)
  end

let remember_impl impl_all =
  List.iter (fun t -> match parse_impl_cl t with Some (c, x) -> Hashtbl.replace impl_prev_cl c x | None -> ()) (impl_events impl_all "cl");
  List.iter (fun t -> match t with
      | c :: rest ->
          (try
             let c = int_of_string c in
             Hashtbl.filter_map_inplace (fun (c', _) v -> if c' = c then None else Some v) impl_prev_replied;
             List.iter (fun e -> match String.split_on_char ':' e with
                 | [ id; _; _; "r" ] -> Hashtbl.replace impl_prev_replied (c, int_of_string id) ()
                 | _ -> ()) (String.split_on_char ',' (get (kv rest) "cache" ""))
           with _ -> ())
      | [] -> ()) (impl_events impl_all "cl");
  List.iter (fun t -> match parse_impl_srv t with Some (sv, x) -> Hashtbl.replace impl_prev sv x | None -> ()) (impl_events impl_all "srv");
  List.iter (fun t -> match t with sv :: rest -> (try Hashtbl.replace impl_prev_state (int_of_string sv) (int_of_string (get (kv rest) "state" "-1")) with _ -> ()) | [] -> ()) (impl_events impl_all "srv")

let note_enq impl_all =
  List.iter (function [ sv; id; p ] ->
      Hashtbl.replace txhist (int_of_string sv, int_of_string id) { tx_bytes = p; tx_times = []; tx_resets = 0; tx_after_reset = false }
    | _ -> ()) (impl_events impl_all "enq")

(* every transmission the implementation makes: at most RetryCount+1 per request (a probe: 1), one more for
   each connection reset in between, and no closer than RetryInterval to the previous one unless a reset intervened *)
let check_tx opidx impl_all now0 tick =
  let k = ref 0 in
  List.iter (function [ sv; id; p ] ->
      let now = now0 + (if tick then !k else 0) in      (* in tick mode the clock advances one second per transmission *)
      incr k;
      let srv = int_of_string sv in
      (match Hashtbl.find_opt txhist (srv, int_of_string id), List.assoc_opt srv !servers with
       | Some r, Some sc when r.tx_bytes = p ->
           let isprobe = String.length p >= 2 && String.sub p 0 2 = "0c" in
           let limit = if isprobe then 1 else int_of_n sc.sc_retrycount + 1 in
           (match r.tx_times with
            | last :: _ when not r.tx_after_reset ->
                spec opidx "C12_spacing" (now >= last + int_of_n sc.sc_retryint)
                  (Printf.sprintf "server %d id %s sent at %d and %d, RetryInterval %d" srv id last now (int_of_n sc.sc_retryint))
            | _ -> ());
           r.tx_times <- now :: r.tx_times; r.tx_after_reset <- false;
           spec opidx "C12_count" (List.length r.tx_times <= limit + r.tx_resets)
             (Printf.sprintf "server %d id %s transmitted %d times, limit %d (+%d resets)" srv id (List.length r.tx_times) limit r.tx_resets)
       | _ -> ())
    | _ -> ()) (impl_events impl_all "tx")

(* request-side policy on the implementation's own observations (C05 RequireMessageAuthenticator(/Proxy),
   C13 loop prevention): what must NOT be placed in a server table *)
let check_request_policy opidx impl_all c (pkt : n list) =
  let enqs = impl_events impl_all "enq" in
  (match List.assoc_opt c !clients with
   | Some cc when wf_packet pkt ->
       let attrs = attr_list pkt in
       let has t = List.exists (fun (t', _, _) -> t' = t) attrs in
       let code = match pkt with x :: _ -> int_of_n x | [] -> -1 in
       let plain = int_of_n cc.cc_type = 0 || int_of_n cc.cc_type = 2 in
       if code = 1 && plain && not (has 80) then begin
         if cc.cc_reqma then
           spec opidx "C05_require_msgauth" (enqs = []) (Printf.sprintf "client %d: Access-Request without Message-Authenticator forwarded" c);
         if cc.cc_reqmap && has 33 then
           spec opidx "C05_require_msgauth_proxy" (enqs = []) (Printf.sprintf "client %d: Access-Request with Proxy-State and without Message-Authenticator forwarded" c)
       end;
       (* C01: the User-Password the server receives decrypts (its secret, the new authenticator) to what the
          client sent (client secret, client authenticator), unless a configured rewrite names the attribute *)
       List.iter (function
           | [ sv; _; p ] ->
               (match List.assoc_opt (int_of_string sv) !servers with
                | Some sc when not (rw_touches 2 cc.cc_rwin) && not (rw_touches 2 sc.sc_rwout) ->
                    let fwd = bytes_of_hex p in
                    if wf_packet fwd then
                      (match List.find_opt (fun (t, _, _) -> t = 2) attrs, List.find_opt (fun (t, _, _) -> t = 2) (attr_list fwd) with
                       | Some (_, _, v), Some (_, _, v') ->
                           (* an Accounting-Request is re-encrypted under the zero authenticator it is signed over,
                              its authenticator field on the wire is the signature *)
                           let fauth = if code = 4 then repeat N0 16 else take 16 (drop 4 fwd) in
                           let plain_c = rfc_dec md5 cc.cc_secret (take 16 (drop 4 pkt)) v
                           and plain_s = rfc_dec md5 sc.sc_secret fauth v' in
                           spec opidx "C01_password_preserved" (plain_c = plain_s) (Printf.sprintf "User-Password of %d octets" (List.length v))
                       | Some _, None -> spec opidx "C01_password_preserved" false "User-Password missing from the forwarded request"
                       | _ -> ())
                | _ -> ())
           | _ -> ()) enqs;
       List.iter (function
           | sv :: _ ->
               (match List.assoc_opt (int_of_string sv) !servers with
                | Some sc ->
                    let lp = int_of_n sc.sc_loopprev = 1 || (int_of_n sc.sc_loopprev = 255 && !options.o_loopprev) in
                    if lp then spec opidx "C13_loop_prevented" (cstr cc.cc_name <> cstr sc.sc_name)
                        (Printf.sprintf "request from client block %d forwarded to the server block of the same name" c)
                | None -> ())
           | [] -> ()) enqs
   | _ -> ())

(* the history step of the model (Proxy.hstep, the function C17_exactly_once is about) is what the driver performs *)
let hist_step opidx s0 op s1 =
  spec opidx "C17_history_step" (hstep md5 rx (config ()) s0 op = s1) "Proxy.hstep differs from the driver's own composition"

let op_cpkt opidx impl_all toks =
  match toks with
  | [ _; _; _; _ ] when fs N0 ->
      (* the request object itself could not be allocated: the transport drops the datagram *)
      pr "obs %d ret -1\n" opidx; print_state opidx (get_state ())
  | [ c; now; rnd; pkt ] ->
      let s = get_state () in
      let c = int_of_string c in
      (let b = bytes_of_hex pkt in
       let reqauth = List.filteri (fun i _ -> i >= 4 && i < 20) b in
       let reqid = match b with _ :: i :: _ -> int_of_n i | _ -> -1 in
       List.iter (function [ cl; p ] -> check_reply_out opidx (int_of_string cl) (bytes_of_hex p) reqauth reqid | _ -> ()) (impl_events impl_all "reply");
       (* C08: what the proxy answers itself is the answer that belongs to the kind of request: Access-Request -> Reject
          (Accept/Challenge only as the replay of a server's reply), Accounting-Request -> Accounting-Response,
          Status-Server -> Access-Accept, Disconnect/CoA -> the matching NAK; and nothing is handed to a server the
          implementation itself showed as failing *)
       (let reqcode = match b with c0 :: _ -> int_of_n c0 | [] -> -1 in
        List.iter (function [ _; p ] ->
            let rc = match bytes_of_hex p with c0 :: _ -> int_of_n c0 | [] -> -1 in
            let ok = match reqcode with
              | 1 -> List.mem rc [ 2; 3; 11 ] | 4 -> rc = 5 | 12 -> rc = 2 | 40 -> rc = 42 | 43 -> rc = 45 | _ -> false in
            (* a repeat answered from the cache replays whatever the server had sent: not the proxy's own answer *)
            if not (Hashtbl.mem impl_prev_replied (c, reqid)) then
              spec opidx "C08_answer_kind" ok (Printf.sprintf "request code %d answered with code %d" reqcode rc)
          | _ -> ()) (impl_events impl_all "reply");
        List.iter (function [ sv; _; _ ] ->
            (match Hashtbl.find_opt impl_prev_state (int_of_string sv) with
             | Some stt -> spec opidx "C08_not_to_failing_server" (stt <> 4) (Printf.sprintf "server %s was failing" sv)
             | None -> ())
          | _ -> ()) (impl_events impl_all "enq"));
       List.iter (function [ sv; _; p ] -> check_request_out opidx (int_of_string sv) (bytes_of_hex p) | _ -> ()) (impl_events impl_all "enq"));
      note_enq impl_all;
      check_no_displace opidx impl_all c (bytes_of_hex pkt);
      check_dup opidx impl_all c (int_of_string now) pkt;
      check_request_policy opidx impl_all c (bytes_of_hex pkt);
      let s0 = s in
      let rq = new_request (nat_of_int c) (z_of_int (int_of_string now)) (bytes_of_hex pkt) in
      let s, h = alloc_rq s rq in
      let s, o = radsrv md5 rx (config ()) fs s h (nat_of_int c) (z_of_int (int_of_string now)) (bytes_of_hex rnd) in
      hist_step opidx s0 (HRecv (nat_of_int c, z_of_int (int_of_string now), bytes_of_hex rnd, bytes_of_hex pkt, fs)) s;
      st := Some s;
      (* C01: the request is queued exactly once, for the server the configuration routes it to, and for no other *)
      if not !in_fault && not !diverged then begin
        let m_enq = List.sort compare (List.filter_map (function OEnq (sv, _, _) -> Some (int_of_nat sv) | _ -> None) o) in
        let i_enq = List.sort compare (List.filter_map (function [ sv; _; _ ] -> (try Some (int_of_string sv) with _ -> None) | _ -> None) (impl_events impl_all "enq")) in
        if m_enq <> [] || i_enq <> [] then
          spec opidx "C01_queued_exactly_once" (m_enq = i_enq)
            (Printf.sprintf "client %d: queued for server(s) [%s], the configuration routes it to [%s]" c
               (String.concat "," (List.map string_of_int i_enq)) (String.concat "," (List.map string_of_int m_enq)))
      end;
      (* C08: a local answer comes from the FIRST matching realm block: its Reply-Message is that block's *)
      if not !in_fault && not !diverged then begin
        let rmsg p = List.filter_map (fun (t, _, v) -> if t = 18 then Some v else None) (attr_list p) in
        (match List.filter_map (function OReply (_, p) -> Some p | _ -> None) o, impl_events impl_all "reply" with
         | [ mp ], [ [ _; ip ] ] when wf_packet (bytes_of_hex ip) && rmsg mp <> rmsg (bytes_of_hex ip) ->
             spec opidx "C08_reply_of_first_matching_realm" false
               (Printf.sprintf "client %d: the local reply carries the Reply-Message of another realm block than the first matching one" c)
         | _ -> ())
      end;
      (* C08, as the property states it: '*' matches EVERY User-Name, the zero-length one included (quantifier: lengths
         0..253).  Evaluated only in the cases that ask for it (a realm '*' with a usable server and nothing else). *)
      if !strict_empty_username && not !in_fault then begin
        let p = bytes_of_hex pkt in
        if wf_packet p && List.exists (fun (t, _, v) -> t = 1 && v = []) (attr_list p) then
          spec opidx "C08_star_matches_empty_username" (impl_events impl_all "enq" <> [])
            (Printf.sprintf "client %d: a request whose User-Name has length 0 was not forwarded although realm * has a server" c)
      end;
      print_outs opidx o ~wake_first:false; flush_misses opidx; print_state opidx s
  | _ -> ()

(* reply-side policy on the implementation's own observations: nothing is delivered for a slot that is empty or
   whose request was never transmitted (C04); an authentic answer to a transmitted request or probe clears the
   server's unanswered count (C09 fail back) *)
let last_reply_valid = ref false     (* the reply was built correctly signed for the slot it names (sreply without flags) *)
let check_reply_policy opidx impl_all srv (pkt : n list) =
  let id = match pkt with _ :: i :: _ -> int_of_n i | _ -> -1 in
  match Hashtbl.find_opt impl_prev srv with
  | Some (_, _, pre) ->
      let slot = List.find_opt (fun sl -> sl.i_id = id) pre in
      let replies = impl_events impl_all "reply" in
      (match slot with
       | None -> spec opidx "C04_needs_outstanding" (replies = []) (Printf.sprintf "server %d id %d: no request outstanding" srv id)
       | Some sl when sl.i_tries = 0 -> spec opidx "C04_needs_transmitted" (replies = []) (Printf.sprintf "server %d id %d: request queued but never transmitted" srv id)
       | Some _ ->
           let probe = match Hashtbl.find_opt txhist (srv, id) with
             | Some r -> String.length r.tx_bytes >= 2 && String.sub r.tx_bytes 0 2 = "0c" | None -> false in
           if replies <> [] || (!last_reply_valid && probe) then
             (match List.find_map (fun t -> match parse_impl_srv t with Some (sv, (lost, _, _)) when sv = srv -> Some lost | _ -> None) (impl_events impl_all "srv") with
              | Some lost -> spec opidx "C09_answer_clears_unanswered" (lost = 0) (Printf.sprintf "server %d answered, unanswered count still %d" srv lost)
              | None -> ()))
  | None -> ()

let do_reply opidx impl_all s srv now rnd (pkt : n list) =
  check_reply_policy opidx impl_all srv pkt;
  (* the request this reply would answer, as the model sees it *)
  (let id = match pkt with _ :: i :: _ -> int_of_n i | _ -> 0 in
   let sv = get_server s (nat_of_int srv) in
   if not !diverged then
   match (List.nth sv.s_slots id).sl_rq with
   | Some h -> (match get_rq s h with
       | Some r ->
           List.iter (function
               | [ cl; p ] ->
                   spec opidx "C02_to_originator" (Some (nat_of_int (int_of_string cl)) = r.rq_from) "";
                   check_reply_out opidx (int_of_string cl) (bytes_of_hex p) r.rq_rqauth (int_of_n r.rq_rqid);
                   (match r.rq_origuser with
                    | Some ou when wf_packet (bytes_of_hex p) ->
                        (match List.find_opt (fun (t, _, _) -> t = 1) (attr_list (bytes_of_hex p)) with
                         | Some (_, _, v) ->
                             (* only when the client's rewriteOut cannot touch User-Name itself *)
                             let named = match List.assoc_opt (int_of_string cl) !clients with
                               | Some cc -> cc.cc_rwout <> None
                               | None -> true in
                             if not named then spec opidx "C02_username_restored" (v = ou) (hex_of_bytes v)
                         | None -> ())
                    | _ -> ());
                   (match r.rq_buf, List.assoc_opt (int_of_string cl) !clients with
                    | Some fb, Some cc when not (rw_touches_hidden cc.cc_rwout) && not (rw_touches_hidden (List.assoc srv !servers).sc_rwin) ->
                        check_hidden opidx pkt (bytes_of_hex p) ~ssecret:(List.assoc srv !servers).sc_secret ~sauth:(take 16 (drop 4 fb))
                          ~csecret:cc.cc_secret ~cauth:r.rq_rqauth
                    | _ -> ())
               | _ -> ()) (impl_events impl_all "reply")
       | None -> ())
   | None -> spec opidx "C04_no_delivery_without_request" (impl_events impl_all "reply" = []) "");
  let s0 = s in
  let s, o = replyh md5 rx (config ()) fs s (nat_of_int srv) pkt (z_of_int now) rnd in
  hist_step opidx s0 (HReply (nat_of_int srv, pkt, z_of_int now, rnd, fs)) s;
  st := Some s;
  print_outs opidx o ~wake_first:false; flush_misses opidx; print_state opidx s

let op_spkt opidx impl_all toks =
  match toks with
  | [ srv; now; rnd; pkt ] -> last_reply_valid := false; do_reply opidx impl_all (get_state ()) (int_of_string srv) (int_of_string now) (bytes_of_hex rnd) (bytes_of_hex pkt)
  | _ -> ()

(* sreply: the reply is built here from the model's own view of the outstanding request *)
let op_sreply opidx impl_all toks =
  match toks with
  | srv :: id :: now :: rnd :: code :: flags :: attrs ->
      let s = get_state () in
      let srv = int_of_string srv and id = int_of_string id in
      let sv = get_server s (nat_of_int srv) in
      let sl = List.nth sv.s_slots id in
      let reqauth = match sl.sl_rq with
        | Some h -> (match get_rq s h with
            | Some r -> (match r.rq_buf with Some b -> List.filteri (fun i _ -> i >= 4 && i < 20) b | None -> repeat N0 16)
            | None -> repeat N0 16)
        | None -> repeat N0 16 in
      let has f = (let re = f in let rec find i = i + String.length re <= String.length flags && (String.sub flags i (String.length re) = re || find (i + 1)) in find 0) in
      let secret = if has "wrongsecret" then bytes_of_string "not-the-secret" else (List.assoc srv !servers).sc_secret in
      let secret = if has "prefixsecret" then cstr_ml secret else secret in
      let maoff = ref (-1) in
      let body = Buffer.create 64 in
      List.iter (fun tk ->
          match String.index_opt tk ':' with
          | None -> ()
          | Some i ->
              let t = int_of_string (String.sub tk 0 i) in
              let vs = String.sub tk (i + 1) (String.length tk - i - 1) in
              let v = if vs = "auto" then (maoff := 20 + Buffer.length body + 2; String.make 16 '\000') else string_of_bytes (bytes_of_hex vs) in
              Buffer.add_char body (Char.chr t); Buffer.add_char body (Char.chr ((String.length v + 2) land 255)); Buffer.add_string body v) attrs;
      let len = 20 + Buffer.length body in
      let pkt = Bytes.create len in
      Bytes.set pkt 0 (Char.chr (int_of_string code)); Bytes.set pkt 1 (Char.chr id);
      Bytes.set pkt 2 (Char.chr (len lsr 8)); Bytes.set pkt 3 (Char.chr (len land 255));
      Bytes.blit_string (string_of_bytes reqauth) 0 pkt 4 16;
      Bytes.blit_string (Buffer.contents body) 0 pkt 20 (Buffer.length body);
      if !maoff >= 0 then begin
        let mac = rfc_hmac_md5 md5 secret (bytes_of_string (Bytes.to_string pkt)) in
        Bytes.blit_string (string_of_bytes mac) 0 pkt !maoff 16
      end;
      let d = Digest.string (Bytes.to_string pkt ^ string_of_bytes secret) in
      Bytes.blit_string d 0 pkt 4 16;
      if has "badauth" then Bytes.set pkt 11 (Char.chr (Char.code (Bytes.get pkt 11) lxor 0x10));
      if has "badma" && !maoff >= 0 then Bytes.set pkt (!maoff + 3) (Char.chr (Char.code (Bytes.get pkt (!maoff + 3)) lxor 1));
      let pl = bytes_of_string (Bytes.to_string pkt) in
      pr "obs %d sreply-bytes %s\n" opidx (hex_of_bytes pl);
      last_reply_valid := (flags = "-" && List.mem (int_of_string code) [ 2; 3; 5; 11 ]);
      do_reply opidx impl_all s srv (int_of_string now) (bytes_of_hex rnd) pl
  | _ -> ()

(* what one pass of the implementation's writer did to its own table: loss accounting per status-server mode,
   and re-transmission of everything outstanding after a connection reset (C12) *)
let check_writer_pass opidx impl_all srv putfail =
  let post = List.find_map (fun t -> match parse_impl_srv t with Some (sv, x) when sv = srv -> Some x | _ -> None) (impl_events impl_all "srv") in
  let reset = Hashtbl.mem pending_reset srv in
  Hashtbl.remove pending_reset srv;
  match Hashtbl.find_opt impl_prev srv, post, List.assoc_opt srv !servers with
  | Some (lost0, mode0, pre), Some (lost1, _, post), Some _ when not putfail ->
      let is_probe id = match Hashtbl.find_opt txhist (srv, id) with
        | Some r -> String.length r.tx_bytes >= 2 && String.sub r.tx_bytes 0 2 = "0c" | None -> false in
      let still sl = List.exists (fun q -> q.i_id = sl.i_id && q.i_h = sl.i_h) post in
      let gone = List.filter (fun sl -> not (still sl)) pre in
      let delta = List.fold_left (fun a sl ->
          let pb = is_probe sl.i_id in
          a + (if reset && pb then 0
               else if mode0 = 1 || mode0 = 2 then (if pb then 1 else 0)
               else if pb && mode0 = 3 then 0 else 1)) 0 gone in
      let maxl = int_of_n Consts.coq_MAX_LOSTRQS in
      spec opidx "C12_lost" (lost1 = min (lost0 + delta) (max maxl lost0))
        (Printf.sprintf "server %d mode %d: %d request(s) abandoned, unanswered count %d -> %d" srv mode0 (List.length gone) lost0 lost1);
      if reset then begin
        let txids = List.filter_map (function [ sv; id; _ ] when int_of_string sv = srv -> Some (int_of_string id) | _ -> None) (impl_events impl_all "tx") in
        List.iter (fun sl ->
            if is_probe sl.i_id then
              spec opidx "C12_reset_discards_probe" (not (still sl)) (Printf.sprintf "server %d id %d" srv sl.i_id)
            else begin
              let q = List.find_opt (fun q -> q.i_id = sl.i_id && q.i_h = sl.i_h) post in
              (* the resend itself consumes no retry; when the clock moves during the release (tick mode) the request may
                 become due again and be sent once more in the same release: each such further transmission counts *)
              let ntx = List.length (List.filter (fun i -> i = sl.i_id) txids) in
              spec opidx "C12_reset_resends" (ntx >= 1 && (match q with Some q -> q.i_tries = max sl.i_tries 1 + (ntx - 1) | None -> false))
                (Printf.sprintf "server %d id %d tries before %d after %s, retransmitted=%b" srv sl.i_id sl.i_tries
                   (match q with Some q -> string_of_int q.i_tries | None -> "released") (List.mem sl.i_id txids))
            end) pre
      end
  | _ -> ()

let op_wpass opidx impl_all toks =
  match toks with
  | srv :: now :: rnd :: rest ->
      let s = get_state () in
      check_writer_pass opidx impl_all (int_of_string srv) (rest = [ "putfail" ]);
      note_enq impl_all;
      check_tx opidx impl_all (int_of_string now) (rest = [ "tick" ]);
      List.iter (function [ sv; _; p ] -> check_request_out opidx (int_of_string sv) (bytes_of_hex p) | _ -> ()) (impl_events impl_all "tx");
      List.iter (function [ sv; _; p ] -> check_request_out opidx (int_of_string sv) (bytes_of_hex p) | _ -> ()) (impl_events impl_all "enq");
      let putfail = (rest = [ "putfail" ]) in
      let tick = if rest = [ "tick" ] then z_of_int 1 else Z0 in
      let s0 = s in
      let s, o = writer_release md5 (config ()) fs (nat_of_int 4) s (nat_of_int (int_of_string srv)) (z_of_int (int_of_string now)) tick (bytes_of_hex rnd) putfail in
      hist_step opidx s0 (HWriter (nat_of_int (int_of_string srv), z_of_int (int_of_string now), tick, bytes_of_hex rnd, putfail, fs)) s;
      st := Some s;
      print_outs opidx o ~wake_first:true;
      (* a server connected by the real connecter: a write reaches the connection exactly when the state is CONNECTED *)
      if Hashtbl.mem realmode (int_of_string srv) then begin
        let ntx = List.length (List.filter (function OTx _ -> true | _ -> false) o) in
        if Hashtbl.mem connecting (int_of_string srv) then pr "obs %d realput ok=0 refused=%d\n" opidx ntx
        else pr "obs %d realput ok=%d refused=0\n" opidx ntx
      end;
      print_state opidx s
  | _ -> ()

let op_drain opidx toks =
  match toks with
  | [ c ] ->
      let s = get_state () in
      let c = nat_of_int (int_of_string c) in
      let s0 = s in
      let s = drain_replyq s c in
      hist_step opidx s0 (HDrain c) s;
      st := Some s; print_state opidx s
  | _ -> ()

let op_reconnect opidx toks =
  match toks with
  | [ srv ] ->
      let s = get_state () in
      let i = nat_of_int (int_of_string srv) in
      let sv = get_server s i in
      Hashtbl.replace pending_reset (int_of_string srv) ();
      Hashtbl.iter (fun (sv', _) r -> if sv' = int_of_string srv then (r.tx_resets <- r.tx_resets + 1; r.tx_after_reset <- true)) txhist;
      let s = set_server s i { sv with s_conreset = true } in
      st := Some s; print_state opidx s
  | _ -> ()

(* connbegin / connend: the connection of a stream server is re-established by the real connecter.  While it is being
   made the state is RECONNECTING (writes are refused); when it is up the state is CONNECTED, the unanswered count
   starts again and the reset flag is raised -- in that order (Connect.v, C12_connecters_keep_the_order). *)
let op_connbegin opidx toks =
  match toks with
  | [ _ ] when Hashtbl.length connecting > 0 -> pr "obs %d conn-unavailable\n" opidx
  | [ srv ] ->
      let s = get_state () in
      let i = nat_of_int (int_of_string srv) in
      let sv = get_server s i in
      Hashtbl.replace connecting (int_of_string srv) ();
      Hashtbl.replace realmode (int_of_string srv) ();
      let sv = if sv.s_connstate = Consts.coq_RSP_SERVER_STATE_CONNECTED then { sv with s_connstate = Consts.coq_RSP_SERVER_STATE_RECONNECTING } else sv in
      let s = set_server s i sv in
      st := Some s; print_state opidx s
  | _ -> ()
let op_connend opidx impl_all toks =
  (* on the implementation's own state: a server whose connection has just been established has no unanswered requests
     (C09: it is preferred again), whatever was refused while the connection was being made *)
  (match toks with
   | [ srv ] when Hashtbl.length connecting > 0 ->
       List.iter (fun t -> match parse_impl_srv t with
           | Some (sv, (lost, _, _)) when sv = int_of_string srv ->
               spec opidx "C09_reconnect_clears_unanswered" (lost = 0) (Printf.sprintf "server %d connected again with unanswered count %d" sv lost)
           | _ -> ()) (impl_events impl_all "srv")
   | _ -> ());
  match toks with
  | [ _ ] when Hashtbl.length connecting = 0 -> pr "obs %d conn-unavailable\n" opidx
  | [ srv ] ->
      let s = get_state () in
      let i = nat_of_int (int_of_string srv) in
      let sv = get_server s i in
      Hashtbl.remove connecting (int_of_string srv);
      Hashtbl.replace pending_reset (int_of_string srv) ();
      Hashtbl.iter (fun (sv', _) r -> if sv' = int_of_string srv then (r.tx_resets <- r.tx_resets + 1; r.tx_after_reset <- true)) txhist;
      let s = set_server s i { sv with s_connstate = Consts.coq_RSP_SERVER_STATE_CONNECTED; s_lostrqs = n_of_int 0; s_conreset = true } in
      st := Some s; print_state opidx s
  | _ -> ()

let op_srvset opidx toks =
  match toks with
  | [ srv; state; lost ] ->
      let s = get_state () in
      let i = nat_of_int (int_of_string srv) in
      let sv = get_server s i in
      let s = set_server s i { sv with s_connstate = n_of_int (int_of_string state); s_lostrqs = n_of_int (int_of_string lost) } in
      st := Some s; print_state opidx s
  | _ -> ()

let op_cursor opidx toks =
  match toks with
  | [ srv; n ] ->
      let s = get_state () in
      let i = nat_of_int (int_of_string srv) in
      let s = set_server s i (set_nextid (get_server s i) (n_of_int (int_of_string n))) in
      st := Some s; print_state opidx s
  | _ -> ()

let op_cgone opidx toks =
  match toks with
  | [ c ] ->
      let s = get_state () in
      if not (Hashtbl.mem gone (int_of_string c)) then begin
        Hashtbl.replace gone (int_of_string c) ();
        let s0 = s in
        let s = removeclient s (nat_of_int (int_of_string c)) in
        hist_step opidx s0 (HClientGone (nat_of_int (int_of_string c))) s;
        st := Some s; print_state opidx s
      end
  | _ -> ()

(* dynflush: not in the state-machine model; the expected observation is fixed by the property: every request
   queued for the server whose discovery fails is released and forgotten *)
let op_dynflush opidx impl_all toks =
  match toks with
  | _ :: _ :: pkts ->
      let k = List.length pkts in
      (match impl_events impl_all "dynflush" with
       | [ kvs ] ->
           let g x = try int_of_string (get (kv kvs) x "-1") with _ -> -1 in
           spec opidx "C17_dynflush_queued" (g "queued" = k && g "cached" = k) (String.concat " " kvs);
           spec opidx "C17_dynflush_forgotten" (g "remembered" = 0) (String.concat " " kvs)
       | _ -> spec opidx "C17_dynflush_queued" false "no observation");
      pr "obs %d dynflush queued=%d cached=%d remembered=0\n" opidx k k;
      print_state opidx (get_state ())
  | _ -> ()

(* srvgone: the writer ends and frees the server: every slot is released (freeserver -> freerqoutdata) *)
let op_srvgone opidx toks =
  match toks with
  | [ srv ] ->
      let i = int_of_string srv in
      if not (Hashtbl.mem gone_srv i) then begin
        let s = get_state () in
        let s0 = s in
        let s = freeserver s (nat_of_int i) in
        hist_step opidx s0 (HServerGone (nat_of_int i)) s;
        Hashtbl.replace gone_srv i ();
        st := Some s; print_state opidx s
      end
  | _ -> ()

let run_op (opidx : int) (impl_all : string list list) (toks : string list) : bool =
  match toks with
  | "cpkt" :: r -> op_cpkt opidx impl_all r; true
  | "spkt" :: r -> op_spkt opidx impl_all r; true
  | "sreply" :: r -> op_sreply opidx impl_all r; true
  | "wpass" :: r -> op_wpass opidx impl_all r; true
  | "drain" :: r -> op_drain opidx r; true
  | "reconnect" :: r -> op_reconnect opidx r; true
  | "srvset" :: r -> op_srvset opidx r; true
  | "connbegin" :: r -> op_connbegin opidx r; true
  | "connend" :: r -> op_connend opidx impl_all r; true
  | "cursor" :: r -> op_cursor opidx r; true
  | "cgone" :: r -> op_cgone opidx r; true
  | "srvgone" :: r -> op_srvgone opidx r; true
  | "dynflush" :: r -> op_dynflush opidx impl_all r; true
  | _ -> false

(* ---- C19: an operation during which the n-th allocation of the implementation failed.  The outcome must be
   the model's outcome under SOME single stage failure (or none, when the failure was absorbed); the matching
   oracle is adopted and the history goes on from the model state it leads to. ---- *)
let stages = [ 0; 1; 2; 3; 4; 5; 6; 7; 8; 9; 10; 11; 12; 13; 14; 15; 20; 21; 24; 25; 29; 30; 40; 41; 130; 131; 132; 133 ]
let deep (x : 'a) : 'a = Marshal.from_string (Marshal.to_string x []) 0
let restore t copy = Hashtbl.reset t; Hashtbl.iter (fun k v -> Hashtbl.replace t k v) copy
let run_failat (opidx : int) (impl_all : string list list) (inner : string list) : bool =
  let alloc = impl_events impl_all "alloc" in
  let impl_rest = List.filter (function "alloc" :: _ -> false | _ -> true) impl_all in
  let reached = match alloc with [ kvs ] -> get (kv kvs) "reached" "0" = "1" | _ -> false in
  let echo_alloc () = match alloc with [ kvs ] -> pr "obs %d alloc %s\n" opidx (String.concat " " kvs) | _ -> () in
  if alloc = [] && !case_exit then begin
    (* the process ended deliberately inside this operation (the line that closes a failat operation is missing) *)
    dead := true;
    List.iter (fun toks -> pr "obs %d %s\n" opidx (String.concat " " toks)) impl_rest;
    spec opidx "C19_deliberate_exit" true "exit(1) during the operation"; true
  end else if not reached then begin
    let r = run_op opidx impl_rest inner in echo_alloc (); r
  end else begin
    in_fault := true;
    let theirs = List.map (fun toks -> String.concat " " ("obs" :: string_of_int opidx :: toks)) impl_rest in
    let slot_stages = List.concat (List.map (fun (sv : server) -> let nx = int_of_n sv.s_nextid in [ 100; 101; 100 + nx; 101 + nx ]) (get_state ()).st_servers) in
    let cands = (fun _ -> false) :: List.map (fun k -> fun (x : n) -> int_of_n x = k) (stages @ List.sort_uniq compare slot_stages) in
    let names = "none" :: List.map string_of_int (stages @ List.sort_uniq compare slot_stages) in
    let try_c f =
      let snap = (deep !st, deep display, deep txhist, deep dupcache, deep impl_prev, deep impl_prev_cl, deep pending_reset, deep gone, !diverged) in
      let mark = Buffer.length out in
      cur_fs := f;
      ignore (run_op opidx impl_rest inner);
      cur_fs := fs_none;
      let txt = Buffer.sub out mark (Buffer.length out - mark) in
      Buffer.truncate out mark;
      let (a, b, c, d, e, f', g, h, i) = snap in
      st := a; restore display b; restore txhist c; restore dupcache d; restore impl_prev e; restore impl_prev_cl f'; restore pending_reset g; restore gone h; diverged := i;
      let mine = List.filter (fun l -> String.length l > 4 && String.sub l 0 4 = "obs ") (String.split_on_char '\n' txt) in
      if Sys.getenv_opt "VERIF_C19_DEBUG" <> None then begin
        prerr_endline "--- candidate"; List.iter prerr_endline mine; prerr_endline "--- impl"; List.iter prerr_endline theirs end;
      mine = theirs in
    let rec find cs ns = match cs, ns with
      | c :: cs', nm :: ns' -> if try_c c then Some (c, nm) else find cs' ns'
      | _ -> None in
    (match find cands names with
     | Some (f, nm) ->
         spec opidx "C19_outcome_explained" true ("as the model with failing stage " ^ nm);
         cur_fs := f; let r = run_op opidx impl_rest inner in cur_fs := fs_none; echo_alloc (); r
     | None ->
         spec opidx "C19_outcome_explained" false "the outcome is neither the completed operation nor the model's outcome for any single failing stage";
         let r = run_op opidx impl_rest inner in echo_alloc (); r)
    |> fun r -> in_fault := false; r
  end

let run (opidx : int) (impl_all : string list list) (toks : string list) : bool =
  if !dead then true else
  let r = match toks with
    | "failat" :: _ :: inner -> run_failat opidx impl_all inner
    | _ -> run_op opidx impl_all toks in
  if r then begin
    check_slots opidx impl_all; note_replies toks impl_all; check_refs opidx impl_all;
    (match !st with Some s -> spec opidx "C17_model_refs" (rc_ok s) "reference counts of the model state" | None -> ())
  end;
  remember_impl impl_all; r
