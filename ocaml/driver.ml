(* Model driver: reads the same case file as the C harness and, optionally, the harness' output.
   For every case prints `case id`, the model's `obs` lines, `spec` lines (the extracted spec
   predicates evaluated on the IMPLEMENTATION's observations), `end`. *)
open Model
type string = Stdlib.String.t
open Util


(* tokens "t:hex" -> tlv list *)
let tlvs_of_tokens (toks : string list) : tlv list =
  List.filter_map
    (fun tk ->
      match String.index_opt tk ':' with
      | None -> None
      | Some i ->
          let t = int_of_string (String.sub tk 0 i) in
          let v = String.sub tk (i + 1) (String.length tk - i - 1) in
          Some { tlv_t = n_of_int t; tlv_v = bytes_of_hex v })
    toks

let str_of_tlvs (l : tlv list) : string =
  String.concat "" (List.map (fun a -> Printf.sprintf " %d:%s" (int_of_n a.tlv_t) (hex_of_bytes a.tlv_v)) l)

type ctx = { mutable opidx : int; impl : (int, string list) Hashtbl.t (* opidx -> tokens after "obs idx" *) }

let spec ctx name ok detail = Util.spec ctx.opidx name ok detail

let impl_obs ctx = match List.rev (Hashtbl.find_all ctx.impl ctx.opidx) with x :: _ -> Some x | [] -> None

let run_op ctx (toks : string list) =
  let mark = Buffer.length out in
  (match toks with
  | "decttl" :: rest ->
      let v = bytes_of_hex (match rest with [] -> "-" | h :: _ -> h) in
      let r, v' = decttl v in
      pr "obs %d decttl %d %s\n" ctx.opidx (int_of_n r) (hex_of_bytes v');
      (match impl_obs ctx with
      | Some [ "decttl"; ir; iv ] ->
          spec ctx "C13_dec" (spec_decttl v (n_of_int (int_of_string ir), bytes_of_hex iv)) (hex_of_bytes v)
      | _ -> ())
  | "checkttl" :: t0 :: t1 :: attrs ->
      let l = tlvs_of_tokens attrs in
      let r, l' = checkttl (n_of_int (int_of_string t0)) (n_of_int (int_of_string t1)) l in
      pr "obs %d checkttl %d%s\n" ctx.opidx (int_of_n r) (str_of_tlvs l');
      (match impl_obs ctx with
      | Some ("checkttl" :: ir :: iattrs) ->
          let il = tlvs_of_tokens iattrs in
          (* only the TTL value may change: same shape, at most one attribute differs *)
          let ok = same_shape l il && int_of_nat (diff_count l il) <= 1 in
          spec ctx "C13_only_ttl" ok "";
          ignore ir
      | _ -> ())
  | "vttl" :: t0 :: t1 :: vb :: tr :: rest ->
      (* the statement of C13_vendor_ttl evaluated on the implementation's output: the attribute list is
         pre ++ vsa vb (subs1 ++ (t1, v) :: subs2) tr :: post with the spec's own vsa; when the theorem's
         hypotheses hold the implementation must answer (fst (decttl v), the same list with v decremented) *)
      let t0n = n_of_int (int_of_string t0) and t1n = n_of_int (int_of_string t1) in
      let rec split sect (p, s, q) = function
        | [] -> (List.rev p, List.rev s, List.rev q)
        | "P" :: r -> split 1 (p, s, q) r
        | "S" :: r -> split 2 (p, s, q) r
        | "Q" :: r -> split 3 (p, s, q) r
        | x :: r -> split sect (match sect with 1 -> (x :: p, s, q) | 2 -> (p, x :: s, q) | _ -> (p, s, x :: q)) r in
      let p, s, q = split 0 ([], [], []) rest in
      let pre = tlvs_of_tokens p and post = tlvs_of_tokens q in
      let subs = List.map (fun a -> (a.tlv_t, a.tlv_v)) (tlvs_of_tokens s) in
      let vbb = bytes_of_hex vb and trb = bytes_of_hex tr in
      let l = pre @ [ vsa vbb subs trb ] @ post in
      let r, l' = checkttl t0n t1n l in
      pr "obs %d checkttl %d%s\n" ctx.opidx (int_of_n r) (str_of_tlvs l');
      (match impl_obs ctx with
      | Some ("checkttl" :: ir :: iattrs) ->
          let il = tlvs_of_tokens iattrs in
          let rec cut acc = function
            | [] -> None
            | (t, v) :: r2 when t = t1n -> Some (List.rev acc, v, r2)
            | x :: r2 -> cut (x :: acc) r2 in
          let hyps = List.length vbb = 4 && be_value vbb = t0n && List.length trb <= 1
                     && List.for_all sub_ok subs && List.for_all (other_vendor t0n) pre && t1n <> n_of_int 256 in
          if hyps then begin
            match cut [] subs with
            | Some (s1, v, s2) ->
                let r', v' = decttl v in
                spec ctx "C13_vendor_ttl"
                  (int_of_string ir = int_of_n r' && il = pre @ [ vsa vbb (s1 @ ((t1n, v') :: s2)) trb ] @ post) (hex_of_bytes v)
            | None -> ()
          end
      | _ -> ())
  | "addttl" :: t0 :: t1 :: a :: attrs ->
      let l = tlvs_of_tokens attrs in
      let l' = addttlattr (n_of_int (int_of_string t0)) (n_of_int (int_of_string t1)) (n_of_int (int_of_string a)) l in
      pr "obs %d addttl%s\n" ctx.opidx (str_of_tlvs l')
  | op :: _ when (Ops.impl_all_lines := List.rev (Hashtbl.find_all ctx.impl ctx.opidx); Ops.run ctx.opidx (impl_obs ctx) toks) -> ignore op
  | op :: _ when Pipe.run ctx.opidx (List.rev (Hashtbl.find_all ctx.impl ctx.opidx)) toks -> ignore op
  | op :: _ -> pr "obs %d unknown-op %s\n" ctx.opidx op
  | [] -> ());
  (* does the implementation agree with the model on this operation? *)
  (let mine = List.filter (fun l -> String.length l > 4 && String.sub l 0 4 = "obs ")
      (String.split_on_char '\n' (Buffer.sub out mark (Buffer.length out - mark))) in
   let theirs = List.map (fun toks -> String.concat " " ("obs" :: string_of_int ctx.opidx :: toks)) (List.rev (Hashtbl.find_all ctx.impl ctx.opidx)) in
   if Hashtbl.length ctx.impl > 0 && mine <> theirs then Pipe.diverged := true);
  ctx.opidx <- ctx.opidx + 1

(* ---- reading files ---- *)
let read_cases (fn : string) (f : string -> string list -> unit) =
  let ic = if fn = "-" then stdin else open_in fn in
  let cur = ref None and lines = ref [] in
  (try
     while true do
       let l = input_line ic in
       if String.length l >= 5 && String.sub l 0 5 = "case " then begin
         cur := Some (String.sub l 5 (String.length l - 5));
         lines := []
       end
       else if l = "end" then begin
         (match !cur with Some id -> f id (List.rev !lines) | None -> ());
         cur := None
       end
       else lines := l :: !lines
     done
   with End_of_file -> ());
  if fn <> "-" then close_in ic

let () =
  let casefile = Sys.argv.(1) in
  let implfile = if Array.length Sys.argv > 2 then Some Sys.argv.(2) else None in
  (* load implementation observations: case id -> (opidx -> tokens) *)
  let impl_tbl : (string, (int, string list) Hashtbl.t) Hashtbl.t = Hashtbl.create 1024 in
  let impl_raw : (string, string list) Hashtbl.t = Hashtbl.create 1024 in
  (match implfile with
  | None -> ()
  | Some fn ->
      read_cases fn (fun id lines ->
          let t = Hashtbl.create 16 in
          List.iter
            (fun l ->
              match split_ws l with
              | "obs" :: idx :: rest -> (
                  match int_of_string_opt idx with Some i -> Hashtbl.add t i rest | None -> ())
              | _ -> ())
            lines;
          Hashtbl.replace impl_raw id lines;
          Hashtbl.replace impl_tbl id t));
  read_cases casefile (fun id lines ->
      let impl = match Hashtbl.find_opt impl_tbl id with Some t -> t | None -> Hashtbl.create 1 in
      let ctx = { opidx = 0; impl } in
      pr "case %s\n" id;
      Ops.case_begin (); Pipe.reset ();
      Pipe.case_exit := (match Hashtbl.find_opt impl_raw id with Some ls -> List.mem "obs exit 1" ls | None -> false);
      (match Hashtbl.find_opt impl_raw id with Some ls -> Ops.load_oracle ls | None -> ());
      List.iter
        (fun l ->
          match split_ws l with
          | "op" :: toks -> run_op ctx toks
          | "cfg" :: rest -> Ops.line "cfg" rest l; Pipe.cfg_line rest
          | kind :: rest -> Ops.line kind rest l
          | [] -> ())
        lines;
      (* lock edges and retained requests reported by the harness for the whole case (C17) *)
      (match Hashtbl.find_opt impl_raw id with
       | Some ls ->
           let cls = function
             | "realm" -> Some LRealm | "subrealm" -> Some LSubrealm | "conf" -> Some LConf | "global" -> Some LGlobal
             | "newrq" -> Some LNewrq | "slot" -> Some LSlot | "srvlock" -> Some LSrvlock | "replyq" -> Some LReplyq
             | "leaf" -> Some LLeaf | _ -> None in
           List.iter (fun l -> match split_ws l with
               | [ "lock"; a; b ] ->
                   (match cls a, cls b with
                    | Some ca, Some cb -> Util.spec (max 0 (ctx.opidx - 1)) "C17_lock_order" (edge_ok ca cb) (Printf.sprintf "%s held while acquiring %s" a b)
                    | _ -> Util.spec (max 0 (ctx.opidx - 1)) "C17_lock_order" false (Printf.sprintf "unknown class %s %s" a b))
               | [ "lockleft"; op; cls ] ->
                   Util.spec (try int_of_string op with _ -> 0) "C17_lock_released" false ("the handler returned still holding a " ^ cls ^ " mutex")
               | "leak" :: op :: rest ->
                   Util.spec (try int_of_string op with _ -> 0) "C17_released" false ("still allocated, held by nobody: " ^ String.concat " " rest)
               | _ -> ()) ls
       | None -> ());
      if !Pipe.dead then pr "obs exit 1\n";
      pr "end\n";
      print_string (Buffer.contents out);
      Buffer.clear out)
