(* SHA-256 and HMAC-SHA-256 (FIPS 180-4, RFC 2104), independent of nettle; used as the hash oracle of the model driver *)
let k = [|
  0x428a2f98l; 0x71374491l; 0xb5c0fbcfl; 0xe9b5dba5l; 0x3956c25bl; 0x59f111f1l; 0x923f82a4l; 0xab1c5ed5l;
  0xd807aa98l; 0x12835b01l; 0x243185bel; 0x550c7dc3l; 0x72be5d74l; 0x80deb1fel; 0x9bdc06a7l; 0xc19bf174l;
  0xe49b69c1l; 0xefbe4786l; 0x0fc19dc6l; 0x240ca1ccl; 0x2de92c6fl; 0x4a7484aal; 0x5cb0a9dcl; 0x76f988dal;
  0x983e5152l; 0xa831c66dl; 0xb00327c8l; 0xbf597fc7l; 0xc6e00bf3l; 0xd5a79147l; 0x06ca6351l; 0x14292967l;
  0x27b70a85l; 0x2e1b2138l; 0x4d2c6dfcl; 0x53380d13l; 0x650a7354l; 0x766a0abbl; 0x81c2c92el; 0x92722c85l;
  0xa2bfe8a1l; 0xa81a664bl; 0xc24b8b70l; 0xc76c51a3l; 0xd192e819l; 0xd6990624l; 0xf40e3585l; 0x106aa070l;
  0x19a4c116l; 0x1e376c08l; 0x2748774cl; 0x34b0bcb5l; 0x391c0cb3l; 0x4ed8aa4al; 0x5b9cca4fl; 0x682e6ff3l;
  0x748f82eel; 0x78a5636fl; 0x84c87814l; 0x8cc70208l; 0x90befffal; 0xa4506cebl; 0xbef9a3f7l; 0xc67178f2l |]

let ( +% ) = Int32.add
let rotr x n = Int32.logor (Int32.shift_right_logical x n) (Int32.shift_left x (32 - n))

let sha256 (msg : string) : string =
  let ml = String.length msg in
  let padlen = let r = (ml + 9) mod 64 in if r = 0 then 0 else 64 - r in
  let total = ml + 9 + padlen in
  let b = Bytes.make total '\000' in
  Bytes.blit_string msg 0 b 0 ml;
  Bytes.set b ml '\x80';
  let bits = Int64.mul (Int64.of_int ml) 8L in
  for i = 0 to 7 do
    Bytes.set b (total - 1 - i) (Char.chr (Int64.to_int (Int64.logand (Int64.shift_right_logical bits (8 * i)) 0xffL)))
  done;
  let h = [| 0x6a09e667l; 0xbb67ae85l; 0x3c6ef372l; 0xa54ff53al; 0x510e527fl; 0x9b05688cl; 0x1f83d9abl; 0x5be0cd19l |] in
  let w = Array.make 64 0l in
  for blk = 0 to (total / 64) - 1 do
    for t = 0 to 15 do
      let o = (blk * 64) + (t * 4) in
      let g i = Int32.of_int (Char.code (Bytes.get b (o + i))) in
      w.(t) <- Int32.logor (Int32.shift_left (g 0) 24) (Int32.logor (Int32.shift_left (g 1) 16) (Int32.logor (Int32.shift_left (g 2) 8) (g 3)))
    done;
    for t = 16 to 63 do
      let s0 = Int32.logxor (rotr w.(t - 15) 7) (Int32.logxor (rotr w.(t - 15) 18) (Int32.shift_right_logical w.(t - 15) 3)) in
      let s1 = Int32.logxor (rotr w.(t - 2) 17) (Int32.logxor (rotr w.(t - 2) 19) (Int32.shift_right_logical w.(t - 2) 10)) in
      w.(t) <- w.(t - 16) +% s0 +% w.(t - 7) +% s1
    done;
    let a = ref h.(0) and bb = ref h.(1) and c = ref h.(2) and d = ref h.(3) and e = ref h.(4) and f = ref h.(5) and g = ref h.(6) and hh = ref h.(7) in
    for t = 0 to 63 do
      let s1 = Int32.logxor (rotr !e 6) (Int32.logxor (rotr !e 11) (rotr !e 25)) in
      let ch = Int32.logxor (Int32.logand !e !f) (Int32.logand (Int32.lognot !e) !g) in
      let t1 = !hh +% s1 +% ch +% k.(t) +% w.(t) in
      let s0 = Int32.logxor (rotr !a 2) (Int32.logxor (rotr !a 13) (rotr !a 22)) in
      let maj = Int32.logxor (Int32.logand !a !bb) (Int32.logxor (Int32.logand !a !c) (Int32.logand !bb !c)) in
      let t2 = s0 +% maj in
      hh := !g; g := !f; f := !e; e := !d +% t1; d := !c; c := !bb; bb := !a; a := t1 +% t2
    done;
    h.(0) <- h.(0) +% !a; h.(1) <- h.(1) +% !bb; h.(2) <- h.(2) +% !c; h.(3) <- h.(3) +% !d;
    h.(4) <- h.(4) +% !e; h.(5) <- h.(5) +% !f; h.(6) <- h.(6) +% !g; h.(7) <- h.(7) +% !hh
  done;
  let out = Bytes.create 32 in
  Array.iteri (fun i x ->
      for j = 0 to 3 do
        Bytes.set out ((i * 4) + j) (Char.chr (Int32.to_int (Int32.logand (Int32.shift_right_logical x (24 - (8 * j))) 0xffl)))
      done) h;
  Bytes.to_string out

let hmac_sha256 (key : string) (msg : string) : string =
  let key = if String.length key > 64 then sha256 key else key in
  let key = key ^ String.make (64 - String.length key) '\000' in
  let x c = String.map (fun ch -> Char.chr (Char.code ch lxor c)) key in
  sha256 (x 0x5c ^ sha256 (x 0x36 ^ msg))
