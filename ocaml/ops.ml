(* further operations (added per property) *)
open Model
open Util
let case_begin () = ()
let line (pr : ('a, Buffer.t, unit) format -> 'a) (kind : string) (rest : string list) (raw : string) = ignore (pr, kind, rest, raw)
let run (pr : ('a, Buffer.t, unit) format -> 'a) (opidx : int) (impl : string list option) (toks : string list) : bool =
  ignore (pr, opidx, impl, toks); false
