(* further operations (added per property) *)
open Model
type string = Stdlib.String.t
open Util

(* ---- per-case configuration and regex oracle ---- *)
let rewrites : (string, rewrite) Hashtbl.t = Hashtbl.create 16
let rxids : (string, int) Hashtbl.t = Hashtbl.create 16
let rxnames : (int, string) Hashtbl.t = Hashtbl.create 16
let oracle : (string * string, string) Hashtbl.t = Hashtbl.create 64   (* (id, subject hex) -> answer *)
let oracle_misses : string list ref = ref []

let rxid (name : string) : n =
  match Hashtbl.find_opt rxids name with
  | Some i -> n_of_int i
  | None ->
      let i = Hashtbl.length rxids in
      Hashtbl.add rxids name i; Hashtbl.add rxnames i name; n_of_int i

(* the regex engine as seen by the model: the answers the implementation logged *)
let rx (id : n) (subject : n list) : (z * z) list option =
  let name = match Hashtbl.find_opt rxnames (int_of_n id) with Some s -> s | None -> "?" in
  let key = (name, hex_of_bytes subject) in
  match Hashtbl.find_opt oracle key with
  | None -> oracle_misses := (name ^ " " ^ snd key) :: !oracle_misses; None
  | Some "nomatch" -> None
  | Some "match" -> Some []
  | Some ans ->
      Some (List.map (fun p -> match String.split_on_char ':' p with
                               | [ a; b ] -> (z_of_int (int_of_string a), z_of_int (int_of_string b))
                               | _ -> (z_of_int (-1), z_of_int (-1)))
              (String.split_on_char ',' ans))

let flush_misses opidx =
  List.iter (fun m -> pr "obs %d oracle-miss %s\n" opidx m) (List.rev !oracle_misses);
  oracle_misses := []

let rec drop_list k l = if k = 0 then l else match l with [] -> [] | _ :: t -> drop_list (k - 1) t
let split_list (s : string) : string list = if s = "-" || s = "" then [] else String.split_on_char ',' s
let kv (toks : string list) : (string * string) list =
  List.filter_map (fun t -> match String.index_opt t '=' with
      | Some i -> Some (String.sub t 0 i, String.sub t (i + 1) (String.length t - i - 1))
      | None -> None) toks
let get kvs k d = match List.assoc_opt k kvs with Some v -> v | None -> d

let blocks_cl : (int * peerblock) list ref = ref []
let blocks_srv : (int * peerblock) list ref = ref []
let parse_hp (s : string) : hostport =
  match String.split_on_char ':' s with
  | [ f; a; p; l ] -> { hp_fam = (if f = "4" then V4 else V6); hp_addr = bytes_of_hex a; hp_port = n_of_int (int_of_string p); hp_plen = n_of_int (int_of_string l) }
  | _ -> failwith "hp"
let block_line (toks : string list) =
  match toks with
  | which :: idx :: rest ->
      let k = kv rest in
      let b = { b_type = n_of_int (int_of_string (get k "type" "0"));
                b_hosts = List.map parse_hp (List.filter (fun x -> x <> "") (String.split_on_char ';' (get k "hosts" ""))) } in
      if which = "cl" then blocks_cl := !blocks_cl @ [ (int_of_string idx, b) ] else blocks_srv := !blocks_srv @ [ (int_of_string idx, b) ]
  | _ -> ()


let tlv_of_tok (tk : string) : tlv =
  match String.index_opt tk ':' with
  | Some i -> { tlv_t = n_of_int (int_of_string (String.sub tk 0 i)); tlv_v = bytes_of_hex (String.sub tk (i + 1) (String.length tk - i - 1)) }
  | None -> failwith ("tlv " ^ tk)

let parse_rewrite (name : string) (kvs : (string * string) list) : rewrite =
  let rm = match get kvs "rm" "-" with "-" -> None | l -> Some (List.map (fun x -> n_of_int (int_of_string x)) (split_list l)) in
  let rmv = match get kvs "rmv" "-" with "-" -> None
    | l -> Some (List.map (fun x -> match String.split_on_char ':' x with
                                    | [ v; t ] -> (n_of_int (int_of_string v), n_of_int (int_of_string t))
                                    | _ -> failwith "rmv") (split_list l)) in
  let mods = List.mapi (fun k x -> match String.split_on_char ':' x with
      | [ t; repl ] -> { mod_t = n_of_int (int_of_string t); mod_vendor = N0; mod_rx = rxid (Printf.sprintf "rw:%s:mod:%d" name k); mod_repl = bytes_of_hex repl }
      | _ -> failwith "mod") (split_list (get kvs "mod" "-")) in
  let modvs = List.mapi (fun k x -> match String.split_on_char ':' x with
      | [ v; t; repl ] -> { mod_t = n_of_int (int_of_string t); mod_vendor = n_of_int (int_of_string v); mod_rx = rxid (Printf.sprintf "rw:%s:modv:%d" name k); mod_repl = bytes_of_hex repl }
      | _ -> failwith "modv") (split_list (get kvs "modv" "-")) in
  { rw_whitelist = (get kvs "wl" "0" = "1"); rw_rm = rm; rw_rmv = rmv;
    rw_add = List.map tlv_of_tok (split_list (get kvs "add" "-"));
    rw_mod = mods; rw_modv = modvs;
    rw_sup = List.map tlv_of_tok (split_list (get kvs "sup" "-")) }

let case_begin () =
  blocks_cl := []; blocks_srv := []; Hashtbl.reset rewrites; Hashtbl.reset rxids; Hashtbl.reset rxnames; Hashtbl.reset oracle; oracle_misses := []

let line (kind : string) (rest : string list) (raw : string) =
  ignore raw;
  match kind, rest with
  | "cfg", "rewrite" :: name :: toks -> Hashtbl.replace rewrites name (parse_rewrite name (kv toks))
  | "cfg", "block" :: toks -> block_line toks
  | _ -> ()

(* oracle lines of the implementation output for this case *)
let load_oracle (lines : string list) =
  List.iter (fun l -> match split_ws l with
      | [ "oracle"; id; subj; ans ] -> Hashtbl.replace oracle (id, subj) ans
      | _ -> ()) lines

(* ---- C09 ---- *)
let srv_of_tok (t : string) : srv =
  if t = "dyn" then { s_dyn = true; s_state = N0; s_lost = N0 }
  else
    match String.split_on_char ':' t with
    | [ st; lo ] -> { s_dyn = false; s_state = n_of_int (int_of_string st); s_lost = n_of_int (int_of_string lo) }
    | _ -> failwith "srv"

let op_choose opidx impl toks =
  let l = List.map srv_of_tok toks in
  let c, l' = choosesrvconf l in
  let idx = function None -> "none" | Some i -> string_of_int (int_of_nat i) in
  pr "obs %d choose %s%s\n" opidx (idx c)
    (String.concat "" (List.map (fun s -> if s.s_dyn then " dyn" else Printf.sprintf " %d" (int_of_n s.s_lost)) l'));
  (match impl with
  | Some ("choose" :: ic :: _) when List.for_all (fun s -> not s.s_dyn) l ->
      let ci = if ic = "none" then None else Some (nat_of_int (int_of_string ic)) in
      spec opidx "C09_choice" (spec_choose l ci && never_failing l ci) (String.concat " " toks)
  | _ -> ())

(* ---- C03 ---- *)
let op_recrypt opidx impl toks =
  let g i = match List.nth_opt toks i with Some x -> bytes_of_hex x | None -> [] in
  let kind = List.hd toks in
  let v = g 1 and os = g 2 and ns = g 3 and oa = g 4 and na = g 5 in
  let osalt = g 6 and nsalt = g 7 in
  let res = if kind = "pwd" then pwdrecrypt md5 v os ns oa na osalt nsalt else msmpprecrypt md5 v os ns oa na in
  (match res with
   | Some v' -> pr "obs %d recrypt 1 %s\n" opidx (hex_of_bytes v')
   | None -> pr "obs %d recrypt 0 %s\n" opidx (hex_of_bytes v));
  (match impl with
   | Some [ "recrypt"; r; iv ] ->
       let out = if r = "1" then Some (bytes_of_hex iv) else None in
       let ok = if kind = "pwd" then spec_pwd_recrypt md5 v os ns oa na osalt nsalt out
                else spec_mppe_recrypt md5 v os ns oa na out in
       (* a refused value must be left untouched *)
       let ok = ok && (r = "1" || bytes_of_hex iv = v) in
       spec opidx (if kind = "pwd" then "C03_pwd_recrypt" else "C03_mppe_recrypt") ok (Printf.sprintf "len=%d" (List.length v))
   | _ -> ())

(* ---- codec ---- *)
let tlvs_of_tokens (toks : string list) : tlv list =
  List.filter_map
    (fun tk ->
      match String.index_opt tk ':' with
      | None -> None
      | Some i ->
          let t = int_of_string (String.sub tk 0 i) in
          let v = String.sub tk (i + 1) (String.length tk - i - 1) in
          Some { tlv_t = n_of_int t; tlv_v = bytes_of_hex v })
    toks
let str_of_tlvs (l : tlv list) : string =
  String.concat "" (List.map (fun a -> Printf.sprintf " %d:%s" (int_of_n a.tlv_t) (hex_of_bytes a.tlv_v)) l)
let str_of_msg (m : radmsg) : string =
  Printf.sprintf "%d %d %s %d%s" (int_of_n m.m_code) (int_of_n m.m_id) (hex_of_bytes m.m_auth)
    (if m.m_mainvalid then 1 else 0) (str_of_tlvs m.m_attrs)

let is_reply_code c = (c = 2 || c = 3 || c = 11)

(* the RFC-level acceptance conditions of a packet, evaluated with the Spec verifiers *)
let authentic_packet (b : n list) (secret : n list) (rq : n list option) : bool * string =
  let code = match b with c :: _ -> int_of_n c | [] -> -1 in
  let lenok = List.length b >= 20 && int_of_n (length_field b) = List.length b in
  if not lenok then (false, "length")
  else if not (tiles (Model.skipn (nat_of_int 20) b)) then (false, "tiling")
  else if code = 4 && not (acct_request_auth_ok md5 b secret) then (false, "acct-auth")
  else if (match rq with Some ra -> not (response_auth_ok md5 b ra secret) | None -> false) then (false, "response-auth")
  else
    let authfield = if is_reply_code code then rq else None in
    if is_reply_code code && rq = None && has_msgauth b then (false, "msgauth-unverifiable")
    else if not (all_msgauth_ok md5 b authfield secret) then (false, "msgauth")
    else (true, "")

let op_parse opidx impl toks =
  match toks with
  | [ sec; rq; pkt ] ->
      let secret = bytes_of_hex sec and b = bytes_of_hex pkt in
      let rqa = if rq = "-" then None else Some (bytes_of_hex rq) in
      (match buf2radmsg md5 b secret rqa with
       | None -> pr "obs %d parse none\n" opidx
       | Some m -> pr "obs %d parse %s\n" opidx (str_of_msg m));
      (match impl with
       | Some ("parse" :: "none" :: _) -> ()
       | Some ("parse" :: _ :: _ :: _ :: inval :: _) ->
           (* accepted (and not flagged) only if authentic in the RFC sense *)
           let ok, why = authentic_packet b secret rqa in
           if inval = "0" then spec opidx "codec_accept_only_if_authentic" ok why
           else spec opidx "codec_tiling" (let o, w = authentic_packet b secret rqa in o || (w <> "length" && w <> "tiling")) why
       | _ -> ())
  | _ -> ()

let op_ser opidx impl toks =
  match toks with
  | code :: id :: auth :: sec :: attrs ->
      let m = { m_code = n_of_int (int_of_string code); m_id = n_of_int (int_of_string id); m_auth = bytes_of_hex auth;
                m_attrs = tlvs_of_tokens attrs; m_mainvalid = false } in
      let secret = bytes_of_hex sec in
      (match radmsg2buf md5 m secret with
       | Fault s -> pr "obs %d ser fault %s\n" opidx (site s)
       | Ok None -> pr "obs %d ser -1 - -\n" opidx
       | Ok (Some (b, a)) -> pr "obs %d ser %d %s %s\n" opidx (List.length b) (hex_of_bytes b) (hex_of_bytes a));
      (match impl with
       | Some [ "ser"; r; ob; _ ] when int_of_string r > 0 ->
           let b = bytes_of_hex ob in
           let c = int_of_string code in
           let attrs_ok = List.for_all (fun a -> List.length a.tlv_v <= 253) m.m_attrs
                          && List.for_all (fun a -> int_of_n a.tlv_t <> 80 || List.length a.tlv_v = 16) m.m_attrs in
           if attrs_ok then begin
             spec opidx "C06_wf" (wf_packet b) (Printf.sprintf "len=%d" (List.length b));
             let signed = List.mem c [ 2; 3; 11; 5; 42; 45 ] in
             if signed then spec opidx "C06_response_auth" (response_auth_ok md5 b m.m_auth secret) "";
             let zero_auth = List.for_all (fun x -> int_of_n x = 0) m.m_auth in
             (* an Accounting-Request is always serialised with a zero authenticator field (radsrv); *)
             if c = 4 && zero_auth then spec opidx "C06_acct_auth" (acct_request_auth_ok md5 b secret) "";
             (* only the LAST Message-Authenticator is computed by radmsg2buf; the model's messages carry one *)
             let nma = List.length (List.filter (fun a -> int_of_n a.tlv_t = 80) m.m_attrs) in
             if nma = 1 && (c <> 4 || zero_auth) then
               spec opidx "C06_msgauth" (all_msgauth_ok md5 b (if signed || c = 4 then Some m.m_auth else None) secret) ""
           end
       | _ -> ())
  | _ -> ()

(* ---- rewrite engine ---- *)
let op_rewrite opidx impl toks =
  match toks with
  | name :: _code :: attrs ->
      let rw = Hashtbl.find_opt rewrites name in
      let l = tlvs_of_tokens attrs in
      (match dorewrite rx l rw with
       | None -> pr "obs %d rewrite 0\n" opidx
       | Some l' -> pr "obs %d rewrite 1%s\n" opidx (str_of_tlvs l'));
      flush_misses opidx;
      (match impl, rw with
       | Some ("rewrite" :: "1" :: iattrs), Some w ->
           spec opidx "C01_rewrite_untouched" (spec_rewrite_untouched w l (tlvs_of_tokens iattrs)) ""
       | _ -> ())
  | _ -> ()

(* ---- C14: address matching ---- *)
let impl_all_lines : string list list ref = ref []     (* every observation line of the implementation for the current op *)
let op_addr opidx impl toks =
  match toks with
  | [ which; ty; fam; a; port ] ->
      let srv = (which = "srv") in
      let blocks = List.map snd (if srv then !blocks_srv else !blocks_cl) in
      let s = { src_fam = (if fam = "4" then V4 else V6); src_addr = bytes_of_hex a; src_port = n_of_int (int_of_string port) } in
      let ty = n_of_int (int_of_string ty) in
      (* all matches, with the resumable cursor *)
      let rec all from acc =
        match find_conf_from (drop_list from blocks) (nat_of_int from) ty s srv with
        | Some i -> let i = int_of_nat i in all (i + 1) (i :: acc)
        | None -> List.rev acc in
      let l = all 0 [] in
      pr "obs %d addr %s\n" opidx (if l = [] then "none" else String.concat "," (List.map string_of_int l));
      (* TLS-PSK candidates: among the blocks matching the source from the first one on, those sharing its tls context
         (the harness: context i mod 2) that have an identity (i mod 3 <> 0) *)
      if not srv then begin
        let cand = match l with [] -> [] | f :: _ -> List.filter (fun j -> j mod 2 = f mod 2 && j mod 3 <> 0) l in
        pr "obs %d pskall %s\n" opidx (if cand = [] then "none" else String.concat "," (List.map string_of_int cand));
        (match List.filter (function "pskall" :: _ -> true | _ -> false) !impl_all_lines with
         | [ [ "pskall"; r ] ] ->
             let il = if r = "none" then [] else List.map int_of_string (String.split_on_char ',' r) in
             (* every candidate is a block whose host list contains the source *)
             spec opidx "C14_psk_candidates_match_source" (List.for_all (fun j -> List.mem j l) il) r
         | _ -> ())
      end;
      (match (match impl with Some [ "pskall"; _ ] -> (match List.filter (function "addr" :: _ -> true | _ -> false) !impl_all_lines with [ x ] -> Some x | _ -> None) | x -> x) with
       | Some [ "addr"; r ] ->
           let first = if r = "none" then None else Some (nat_of_int (int_of_string (List.hd (String.split_on_char ',' r)))) in
           spec opidx "C14_first" (spec_find blocks ty s srv first) (Printf.sprintf "%s %s" which a)
       | _ -> ())
  | _ -> ()

(* ---- C16: stream framing ---- *)
let op_frame opidx impl toks =
  match toks with
  | reader_kind :: rej :: stream :: sched ->
      let s = bytes_of_hex stream in
      let evs = List.filter_map (fun e ->
          if e = "" then None
          else match e.[0] with
            | 'r' -> Some (R (nat_of_int (int_of_string (String.sub e 1 (String.length e - 1)))))
            | 't' -> Some T
            | 'w' -> Some (if reader_kind = "tlss" || reader_kind = "tlsc" then W else R (nat_of_int 0))
            | 'e' -> if e = "eof" then None else Some E
            | _ -> None) sched in
      (* the tcp readers have no "want read": a w event is not generated for them *)
      let rejat = if rej = "-" then -1 else int_of_string rej in
      let count = ref 0 in
      let accept _ = (let k = !count in incr count; k <> rejat) in
      let idle_continues = (reader_kind = "tcpc" || reader_kind = "tlsc") in
      let pk = reader (nat_of_int (List.length evs + 8)) idle_continues accept evs s in
      pr "obs %d frame pkts=%s\n" opidx (if pk = [] then "-" else String.concat "," (List.map hex_of_bytes pk));
      (match impl with
       | Some [ "frame"; p ] ->
           let ip = if p = "pkts=-" then [] else List.map bytes_of_hex (String.split_on_char ',' (String.sub p 5 (String.length p - 5))) in
           let fr = frames s in
           spec opidx "C16_prefix" (is_prefix_of ip fr) (Printf.sprintf "%s handed=%d frames=%d" reader_kind (List.length ip) (List.length fr));
           let only_data = List.for_all (fun e -> match e with R _ | W -> true | _ -> false) evs in
           let enough = List.fold_left (fun a e -> match e with R k -> a + max (int_of_nat k) 1 | _ -> a) 0 evs in
           if only_data && rejat < 0 && List.length evs >= List.length s then
             spec opidx "C16_indep" (list_beq ip fr) (Printf.sprintf "%s handed=%d frames=%d" reader_kind (List.length ip) (List.length fr));
           ignore enough
       | _ -> ())
  | _ -> ()

(* framefail <n> <reader> <rejectat> <stream> sched...: the n-th allocation made by the stream reader fails (C19).  Which
   packet that costs depends on the allocation, so the implementation's line is taken as it is; what must hold of it:
   every packet handed on is a complete frame of the stream, in stream order -- a packet is dropped whole or not at all *)
let op_framefail opidx impl toks =
  match toks with
  | _n :: _kind :: _rej :: stream :: _ ->
      let fr = frames (bytes_of_hex stream) in
      (match impl with
       | Some [ "frame"; p ] ->
           pr "obs %d frame %s\n" opidx p;
           let ip = if p = "pkts=-" then [] else List.map bytes_of_hex (String.split_on_char ',' (String.sub p 5 (String.length p - 5))) in
           let rec subseq a b = match a, b with
             | [], _ -> true
             | _, [] -> false
             | x :: a', y :: b' -> if x = y then subseq a' b' else subseq a b' in
           spec opidx "C19_frame_dropped_whole" (subseq ip fr) (Printf.sprintf "handed=%d frames=%d" (List.length ip) (List.length fr))
       | _ -> pr "obs %d frame ?\n" opidx)
  | _ -> ()

(* ---- C18: log lines ---- *)
let sha256 (b : n list) : n list = bytes_of_string (Sha256.sha256 (string_of_bytes b))
let hmac_sha256 (k : n list) (m : n list) : n list = bytes_of_string (Sha256.hmac_sha256 (string_of_bytes k) (string_of_bytes m))
let type_name c = match c with
  | 1 -> "Access-Request" | 2 -> "Access-Accept" | 3 -> "Access-Reject" | 4 -> "Accounting-Request"
  | 5 -> "Accounting-Response" | 11 -> "Access-Challenge" | 12 -> "Status-Server" | 13 -> "Status-Client" | _ -> "Unknown"
let rec split_bar l acc = match l with
  | [] -> (List.rev acc, [])
  | "|" :: r -> (List.rev acc, r)
  | x :: r -> split_bar r (x :: acc)

let op_logline opidx impl toks =
  match toks with
  | kind :: logfull :: mode :: key :: level :: rcode :: qcode :: "|" :: rest ->
      let rqt, rpt = split_bar rest [] in
      let rq = tlvs_of_tokens rqt and rp = tlvs_of_tokens rpt in
      let keyo = if key = "-" then None else Some (bytes_of_hex key) in
      (* "d": no FTicksMAC line in the configuration -- the documented default, VendorKeyHashed *)
      let mode = if mode = "d" then Consts.coq_RSP_MAC_VENDOR_KEY_HASHED else n_of_int (int_of_string mode) in
      let rcode = int_of_string rcode and qcode = int_of_string qcode in
      let s = string_of_bytes in
      let line =
        if kind = "reply" then begin
          let f = replylog_fields_of sha256 hmac_sha256 rq rp (logfull = "1") mode keyo in
          if rcode = 2 || rcode = 3 || rcode = 5 then
            (match f.rl_user with
             | Some u -> Printf.sprintf "%s for user %s%s%s from srv-name%s to cl-name (10.0.0.1)%s\n" (type_name rcode) (s u) (s f.rl_station) (s f.rl_cui) (s f.rl_replymsg) (s f.rl_operator)
             | None -> Printf.sprintf "%s (response to %s) from srv-name to cl-name (10.0.0.1)\n" (type_name rcode) (type_name qcode))
          else if rcode = 1 then
            (* no answer: the same user field as in the reply lines (what printf makes of a NULL string is "(null)") *)
            Printf.sprintf "missing response to Access-Request for user %s%s from cl-name (10.0.0.1) to srv-name\n"
              (match f.rl_user with Some u -> s u | None -> "(null)") (s f.rl_station)
          else ""
        end else
          Printf.sprintf "F-TICKS/eduroam/1.0#REALM=%s#VISCOUNTRY=SE#%sCSI=%s#RESULT=%s#\n" (s (fticks_realm rq))
            (if level = "2" then "VISINST=cl-name#" else "") (s (fticks_csi sha256 hmac_sha256 rq mode keyo)) (if rcode = 2 then "OK" else "FAIL") in
      pr "obs %d log %s\n" opidx (hex_of_bytes (bytes_of_string line));
      (* the station field the line must carry: what Log.replylog_fields_of / fticks_csi make of the Calling-Station-Id
         (C18_mac_*, C18_hash_input: the (HMAC-)SHA-256 over ALL its hex digits up to ';') *)
      let station_field =
        if kind = "reply" then (if rcode = 1 || rcode = 2 || rcode = 3 || rcode = 5 then s (replylog_fields_of sha256 hmac_sha256 rq rp (logfull = "1") mode keyo).rl_station else "")
        else "CSI=" ^ s (fticks_csi sha256 hmac_sha256 rq mode keyo) ^ "#" in
      (match impl with
       | Some [ "log"; h ] ->
           let l = bytes_of_hex h in
           let il = string_of_bytes l in
           let contains a b = let la = String.length a and lb = String.length b in
             let rec go i = i + lb <= la && (String.sub a i lb = b || go (i + 1)) in lb = 0 || go 0 in
           if il <> "" && line <> "" && station_field <> "" && contains line station_field then   (* the form of the line that names the station *)
             spec opidx "C18_station_pseudonym" (contains il station_field) (Printf.sprintf "the line does not carry the station field %S" station_field);
           (* no control character, no second line *)
           let body = match List.rev l with x :: r when int_of_n x = 10 -> List.rev r | _ -> l in
           spec opidx "C18_line_printable" (all_printable body) "";
           (* with LogFullUsername off nothing of the User-Name before the '@' may appear *)
           if kind = "reply" && logfull = "0" then begin
             let line = string_of_bytes body in
             let key = "for user " in
             let rec find i = if i + String.length key > String.length line then None
               else if String.sub line i (String.length key) = key then Some (i + String.length key) else find (i + 1) in
             match find 0 with
             | Some j ->
                 let e = try String.index_from line j ' ' with Not_found -> String.length line in
                 let u = String.sub line j (e - j) in
                 spec opidx "C18_username_hidden" (u = "(null)" || (String.length u > 0 && u.[0] = '@')) u
             | None -> ()
           end
       | _ -> ())
  | _ -> ()

(* ---- C15: certificate check ---- *)
let hostent_of (spec : string) (ips : (string * string) list) : hostent =
  match String.rindex_opt spec ':' with
  | Some i ->
      let h = String.sub spec 0 i and pl = String.sub spec (i + 1) (String.length spec - i - 1) in
      { h_name = bytes_of_hex h; h_ip = (match List.assoc_opt h ips with Some a -> Some (bytes_of_hex a) | None -> None); h_plen = n_of_int (int_of_string pl) }
  | None -> failwith "hostent"

let op_cert opidx impl toks =
  let conft, certt = split_bar toks [] in
  let k = kv conft in
  (* ipof=<hosthex>:<addrhex> tokens tell the model which host names are IP literals *)
  let ips = List.filter_map (fun (a, b) -> if a = "ipof" then (match String.split_on_char ':' b with [ h; ad ] -> Some (h, ad) | _ -> None) else None) k in
  let terms = List.filter_map (fun (a, b) -> if a = "tabs" then Some b else None) k in
  let nterm = ref (-1) in
  let term_of (s : string) : term =
    incr nterm;
    let id = rxid (Printf.sprintf "cert:%d:%d" opidx !nterm) in
    match String.split_on_char ':' s with
    | [ "cn" ] -> TCn id | [ "dns" ] -> TDns id | [ "uri" ] -> TUri id
    | [ "ip"; a ] -> TIp (bytes_of_hex a) | [ "rid"; o ] -> TRid (bytes_of_string o)
    | [ "other"; o ] -> TOther (bytes_of_string o, id)
    | _ -> failwith "term" in
  let conf = { cc_namecheck = (get k "namecheck" "1" = "1"); cc_cncheck = (get k "cncheck" "0" = "1");
               cc_servername = (match get k "servername" "-" with "-" -> None | h -> Some (hostent_of (h ^ ":255") ips));
               cc_hosts = List.map (fun s -> hostent_of s ips) (split_list (get k "hosts" "-"));
               cc_terms = List.map term_of terms } in
  let connected = match get k "connected" "-" with "-" -> None | s -> Some (hostent_of s ips) in
  let realm = match get k "realm" "-" with "-" -> None | h -> Some (bytes_of_hex h) in
  let cns = ref [] and san = ref [] in
  List.iter (fun tk ->
      match String.split_on_char ':' tk with
      | [ "cn"; h ] -> cns := !cns @ [ bytes_of_hex h ]
      | [ "dns"; h ] -> san := !san @ [ GDns (bytes_of_hex h) ]
      | [ "uri"; h ] -> san := !san @ [ GUri (bytes_of_hex h) ]
      | [ "ip"; h ] -> san := !san @ [ GIp (bytes_of_hex h) ]
      | [ "rid"; o ] -> san := !san @ [ GRid (bytes_of_string o) ]
      | [ "other"; o; h ] -> san := !san @ [ GOther (bytes_of_string o, bytes_of_hex h) ]
      | _ -> ()) certt;
  let c = { c_cn = !cns; c_san = !san } in
  let r = verifyconfcert rx c conf connected realm in
  pr "obs %d cert %d\n" opidx (if r then 1 else 0);
  flush_misses opidx;
  (* acceptance by the implementation must be justified: the model accepts only under the clauses of
     C15_accept_only_if / C15_name / C15_nairealm (theorems) *)
  (match impl with
   | Some [ "cert"; "1" ] -> spec opidx "C15_accept_only_if" r "certificate accepted without a matching name / NAIRealm / term"
   | _ -> ())

(* ---- C08 / C20 ---- *)
let rec cstr_ml (l : n list) = match l with [] -> [] | x :: r -> if int_of_n x = 0 then [] else x :: cstr_ml r

let op_realm opidx impl toks =
  match toks with
  | name :: users ->
      let nm = bytes_of_hex name in
      let res = List.map (fun u ->
          let id = cstr_ml (bytes_of_hex u) in
          match realm_matches nm id with
          | Some b -> b
          | None -> (match rx (rxid (Printf.sprintf "rl:%d" opidx)) id with Some _ -> true | None -> false)) users in
      (* the expression text addrealm hands to regcomp: the documented construction (Route.realm_regex) *)
      pr "obs %d realmrx %s\n" opidx (hex_of_bytes (realm_regex nm));
      (match List.filter (function "realmrx" :: _ -> true | _ -> false) !impl_all_lines with
       | [ [ "realmrx"; src ] ] -> spec opidx "C08_regex_source" (src = hex_of_bytes (realm_regex nm)) src
       | _ -> ());
      pr "obs %d realm%s\n" opidx (String.concat "" (List.map (fun b -> if b then " 1" else " 0") res));
      flush_misses opidx;
      ignore impl;
      (match List.find_opt (function "realm" :: _ -> true | _ -> false) !impl_all_lines with   (* (the first line of the operation is realmrx) *)
       | Some ("realm" :: ians) when name_ok nm && List.length ians = List.length users ->
           List.iter2 (fun u a ->
               let id = cstr_ml (bytes_of_hex u) in
               if not (List.exists (fun x -> int_of_n x = 0) (bytes_of_hex u)) then
                 spec opidx "C08_plain" ((a = "1") = ends_with_at_name id nm) u) users ians
       | _ -> ())
  | _ -> ()

let op_dynrealm opidx impl toks =
  match toks with
  | _cmd :: u1 :: u2 :: rest ->
      let users = u1 :: u2 :: rest in
      ignore (List.fold_left (fun (subs, k) u ->
          if u = "expire" then (pr "obs %d dynseq %d expired\n" opidx k; (subs, k + 1)) else
          let subs', r = dyn_step subs (bytes_of_hex u) in
          pr "obs %d dynseq %d %s\n" opidx k (match r with Some a -> hex_of_bytes a | None -> "none");
          (subs', k + 1)) ([], 0) users);
      (* whatever the history, a lookup argument the implementation hands to a new server is clean (C20) *)
      List.iter (function
          | [ "dynseq"; _; a ] when a <> "none" && a <> "expired" ->
              let arg = bytes_of_hex a in
              spec opidx "C20_sanitised" (arg <> [] && List.for_all realm_char_ok arg) a
          | _ -> ()) !impl_all_lines;
      ignore impl
  | [ cmd; user ] ->
      let id = bytes_of_hex user in
      let command = bytes_of_hex cmd in
      let cs = String.lowercase_ascii (string_of_bytes command) in
      let starts p = String.length cs >= String.length p && String.sub cs 0 (String.length p) = p in
      (match dynrealm id with
       | None -> pr "obs %d dyn none\n" opidx
       | Some r ->
           pr "obs %d dyn %s realm=%s\n" opidx (hex_of_bytes r) (hex_of_bytes r);
           if starts "srv:" then pr "obs %d query %s\n" opidx (hex_of_bytes (srv_query command r))
           else if starts "naptr:" then pr "obs %d query %s\n" opidx (hex_of_bytes r)
           else pr "obs %d argv 1:%s\n" opidx (if r = [] then "" else hex_of_bytes r));
      (match impl with
       | Some ("dyn" :: a :: _) when a <> "none" ->
           let arg = bytes_of_hex a in
           (* C20: only the clean, non-empty text after the last '@' of the User-Name (no NUL in it) *)
           let raw = bytes_of_hex user in
           let ok = arg <> [] && List.for_all realm_char_ok arg &&
                    (match after_last_at raw None with Some t -> t = arg | None -> false) in
           spec opidx "C20_sanitised" ok user
       | _ -> ())
  | _ -> ()

(* ---- C07: DNS resource records (dns.c), index-level model; name expansion = what libresolv answered ---- *)
let op_dns opidx (_impl : string list option) (kind : string) toks =
  let rdata = bytes_of_hex (match toks with h :: _ -> h | [] -> "-") in
  let dn (off : z) : (z * n list) option =
    match Hashtbl.find_opt oracle (Printf.sprintf "dn:%d" opidx, string_of_int (int_of_z off)) with
    | Some a when a <> "-" ->
        (match String.index_opt a ':' with
         | Some i -> Some (z_of_int (int_of_string (String.sub a 0 i)), bytes_of_hex (String.sub a (i + 1) (String.length a - i - 1)))
         | None -> None)
    | _ -> None in
  let hexs b = hex_of_bytes (cstr b) in      (* the C structure holds NUL-terminated strings *)
  if kind = "naptr" then
    (match parsenaptr dn rdata with
     | Fault _ -> pr "obs %d naptr model-fault\n" opidx; spec opidx "C07_dns_in_bounds" false "the model reads outside the record"
     | Ok None -> pr "obs %d naptr none\n" opidx
     | Ok (Some r) -> pr "obs %d naptr %d %d %s %s %s %s\n" opidx (int_of_n r.na_order) (int_of_n r.na_pref)
                        (hexs r.na_flags) (hexs r.na_services) (hexs r.na_regexp) (hexs r.na_replacement))
  else
    (match parsesrv dn rdata with
     | Fault _ -> pr "obs %d srv model-fault\n" opidx; spec opidx "C07_dns_in_bounds" false "the model reads outside the record"
     | Ok None -> pr "obs %d srv none\n" opidx
     | Ok (Some r) -> pr "obs %d srv %d %d %d %s\n" opidx (int_of_n r.sr_priority) (int_of_n r.sr_weight) (int_of_n r.sr_port) (hexs r.sr_host))

(* dynsrv: host list of a server configured from an SRV answer *)
let op_dynsrv opidx (_impl : string list option) toks =
  match toks with
  | user :: recs ->
      let id = bytes_of_hex user in
      (match dynrealm id with
       | None -> pr "obs %d dynsrv none\n" opidx
       | Some _ ->
           let parsed = List.filter_map (fun t -> match String.split_on_char ':' t with
               | [ prio; _w; port; host ] -> Some ((n_of_int (int_of_string prio), n_of_int (int_of_string port)), bytes_of_hex host)
               | _ -> None) recs in
           if parsed = [] then pr "obs %d dynsrv 0\n" opidx
           else pr "obs %d dynsrv 1%s\n" opidx (String.concat "" (List.map (fun b -> " " ^ hex_of_bytes b) (srv_hostports parsed))))
  | [] -> ()

(* udp: datagrams through the real udpserverrd; the model attributes each to a client object (C10 association) *)
let op_udp opidx (_impl : string list option) toks =
  (* on the implementation's own observations: the request carries its arrival time, and a datagram arriving within
     the idle period of the previous one from the same address and port belongs to the same client object *)
  (let last : (string, int * string) Hashtbl.t = Hashtbl.create 8 in
   List.iter (function
       | [ "udp"; k; cl; created; _live ] ->
           (match List.nth_opt toks (int_of_string k) with
            | Some tok ->
                (match String.split_on_char ':' tok with
                 | [ t; ip; port; _ ] ->
                     let t = int_of_string t and src = ip ^ ":" ^ port in
                     spec opidx "C10_udp_arrival_time" (created = "created=0") (Printf.sprintf "datagram %s: %s" k created);
                     (match Hashtbl.find_opt last src with
                      | Some (t0, cl0) when t - t0 <= 60 ->
                          spec opidx "C10_udp_same_association" (cl = cl0) (Printf.sprintf "%s at %d and %d: %s then %s" src t0 t cl0 cl)
                      | _ -> ());
                     (* C02: and it shares its client object with no OTHER source that is still within its idle period --
                        a reply goes to the client object's address, i.e. to the association that sent the request *)
                     Hashtbl.iter (fun src' (t0, cl0) ->
                         if src' <> src && t - t0 < 60 then
                           spec opidx "C02_udp_sources_not_merged" (cl <> cl0)
                             (Printf.sprintf "%s (at %d) was given the client object of %s (seen at %d): %s" src t src' t0 cl)) last;
                     Hashtbl.replace last src (t, cl)
                 | _ -> ())
            | None -> ())
       | _ -> ()) !impl_all_lines);
  let tbl = ref [] and next = ref O in
  List.iteri (fun k tok ->
      match String.split_on_char ':' tok with
      | [ t; ip; port; _pkt ] ->
          let v6 = String.length ip = 35 && String.sub ip 0 3 = "v6-" in
          (match (if v6 then [] else String.split_on_char '.' ip) with
           | [] when v6 && String.sub ip 3 16 = "20010db800000000" ->
               (* the second host entry of the block: 2001:db8::/64 *)
               let addr = bytes_of_hex (String.sub ip 3 32) in
               let (l', id), next' = udp_arrival !tbl !next addr (n_of_int (int_of_string port)) (z_of_int (int_of_string t)) in
               tbl := l'; next := next';
               pr "obs %d udp %d client=%d created=0 live=%d\n" opidx k (int_of_nat id) (List.length l')
           | [ a; b; c; d ] when int_of_string a = 10 && int_of_string b = 0 && int_of_string c = 0 ->
               let addr = List.map (fun x -> n_of_int (int_of_string x)) [ a; b; c; d ] in
               let (l', id), next' = udp_arrival !tbl !next addr (n_of_int (int_of_string port)) (z_of_int (int_of_string t)) in
               tbl := l'; next := next';
               pr "obs %d udp %d client=%d created=0 live=%d\n" opidx k (int_of_nat id) (List.length l')
           | _ -> pr "obs %d udp %d dropped\n" opidx k)   (* the client block of the generated cases is 10.0.0.0/24 and 2001:db8::/64 *)
      | _ -> ()) toks

(* dynext: options of a dynamic server after the lookup command's block has been merged into the template (Dyn.merge_dyn) *)
let op_dynext opidx (_impl : string list option) toks =
  match toks with
  | _reply :: kvs ->
      let k = kv kvs in
      let g x d = get k x d in
      let num x = n_of_int (int_of_string x) in
      let onum x = let v = g x "-" in if v = "-" then None else Some (num v) in
      let obool x = let v = g x "-" in if v = "-" then None else Some (v = "1") in
      let t = { d_type = num (g "t.type" "0"); d_ri = num (g "t.ri" "255"); d_rc = num (g "t.rc" "255"); d_reqma = g "t.reqma" "0" = "1";
                d_nc = g "t.nc" "1" = "1"; d_cnc = g "t.cnc" "0" = "1"; d_ss = num (g "t.ss" "0");
                d_secret = bytes_of_hex (g "t.secret" "-"); d_addttl = num (g "t.addttl" "0"); d_lp = num (g "t.lp" "255") } in
      let l = { l_type = onum "l.type"; l_ri = onum "l.ri"; l_rc = onum "l.rc"; l_reqma = obool "l.reqma"; l_nc = obool "l.nc";
                l_cnc = obool "l.cnc"; l_ss = onum "l.ss";
                l_secret = (let v = g "l.secret" "-" in if v = "-" then None else Some (bytes_of_hex v)); l_addttl = onum "l.addttl"; l_lp = onum "l.lp" } in
      let b x = if x then 1 else 0 in
      (* secret, addTTL, LoopPrevention: the printed block's value when it gives one, else the template's *)
      let pick x = let v = g ("l." ^ x) "-" in if v = "-" then g ("t." ^ x) "" else v in
      let want_secret = pick "secret" and want_addttl = pick "addttl" and want_lp = pick "lp" in
      (match merge_dyn t l with
       | Some r -> pr "obs %d dynext ok=1 type=%d ri=%d rc=%d reqma=%d nc=%d cnc=%d ss=%d slen=%d secret=%s addttl=%s lp=%s\n" opidx (int_of_n r.d_type) (int_of_n r.d_ri)
                     (int_of_n r.d_rc) (b r.d_reqma) (b r.d_nc) (b r.d_cnc) (int_of_n r.d_ss) (int_of_nat (secret_len r)) (hex_of_bytes r.d_secret)
                     (string_of_int (int_of_n r.d_addttl)) (string_of_int (int_of_n r.d_lp))
       | None -> pr "obs %d dynext ok=0\n" opidx);
      (* on the implementation's own line: each option is what was configured -- the printed block's value, else the
         template's, else the transport default; requireMessageAuthenticator is the template's *)
      (match _impl with
       | Some ("dynext" :: "ok=1" :: ikv) ->
           let ik = kv ikv in
           let iv x = int_of_string (get ik x "-1") in
           let ty = match l.l_type with Some x -> int_of_n x | None -> int_of_n t.d_type in
           let want_rc = match l.l_rc with Some x -> int_of_n x | None -> if int_of_n t.d_rc <> 255 then int_of_n t.d_rc else (if ty = 0 then 2 else 0) in
           let want_ri = match l.l_ri with Some x -> int_of_n x | None -> if int_of_n t.d_ri <> 255 then int_of_n t.d_ri else (if ty = 0 then 5 else 10) in
           spec opidx "C12_dynamic_retry_as_configured" (iv "rc" = want_rc && iv "ri" = want_ri) (Printf.sprintf "RetryCount %d (want %d) RetryInterval %d (want %d)" (iv "rc") want_rc (iv "ri") want_ri);
           spec opidx "C04_dynamic_reqma_as_configured" (iv "reqma" = b t.d_reqma) (Printf.sprintf "requireMessageAuthenticator %d, template %d" (iv "reqma") (b t.d_reqma));
           spec opidx "C04_dynamic_secret_as_configured" (get ik "secret" "?" = want_secret && iv "slen" = String.length want_secret / 2)
             (Printf.sprintf "secret %s used with length %d, configured %s" (get ik "secret" "?") (iv "slen") want_secret);
           spec opidx "C13_dynamic_ttl_as_configured" (get ik "addttl" "?" = want_addttl && get ik "lp" "?" = want_lp)
             (Printf.sprintf "addTTL %s LoopPrevention %s, configured %s %s" (get ik "addttl" "?") (get ik "lp" "?") want_addttl want_lp);
           spec opidx "C15_dynamic_namecheck_as_configured"
             (iv "nc" = b (match l.l_nc with Some x -> x | None -> t.d_nc) && (iv "cnc" = 1) = (l.l_cnc = Some true))
             (Printf.sprintf "CertificateNameCheck %d CertificateCNCheck %d" (iv "nc") (iv "cnc"))
       | _ -> ())
  | [] -> ()

(* query <naptr|srv> <namehex>: the lookup makes one resolver call, an exact one (no search list, no default domain),
   for exactly the name it was given, with the record type of the form (NAPTR 35, SRV 33) *)
let op_query opidx (impl : string list option) toks =
  match toks with
  | [ kind; name ] ->
      let ty = if kind = "naptr" then 35 else 33 in
      let want = Printf.sprintf "exact:%d:%s" ty name in
      pr "obs %d query n=1 %s\n" opidx want;
      (match impl with
       | Some ("query" :: _ :: calls) ->
           spec opidx "C20_query_exact_name" (calls = [ want ]) (Printf.sprintf "resolver calls [%s], wanted one exact query for the name as given" (String.concat " " calls))
       | _ -> ())
  | _ -> ()

(* cookie <len> <mode> [arg]: the DTLS HelloVerify cookie is accepted exactly when it is the whole genuine cookie
   (time stamp + keyed hash, 40 octets), unaltered and at most 5 seconds old; nothing beyond its len octets is read
   (the latter is AddressSanitizer's part: the cookie sits in an exact-size block) *)
let op_cookie opidx (impl : string list option) toks =
  match toks with
  | len :: mode :: rest ->
      let len = int_of_string len and arg = (match rest with a :: _ -> int_of_string a | [] -> 0) in
      (* the extracted check (Cookie.cookie_verify) on the same construction, with the extracted reading of the time stamp
         (8 octets little-endian, two's complement: a flipped top bit is a time far in the past) and stand-in hash *)
      let now = 1000000 in
      let t0 = if mode = "o" then now - arg else now in
      let genuine = ts_encode_le (z_of_int t0) @ standin_hash (z_of_int t0) in
      let c = List.init len (fun i -> if i < 40 then List.nth genuine i else n_of_int (arg land 255)) in
      let c = if mode = "f" && len > 0 then List.mapi (fun i x -> if i = (arg / 8) mod len then n_of_int (int_of_n x lxor (1 lsl (arg mod 8))) else x) c else c in
      let hash = standin_hash and tstamp = tstamp_le in
      let want = cookie_verify hash tstamp (z_of_int now) c in
      pr "obs %d cookie genuine=40 len=%d accept=%d\n" opidx len (if want then 1 else 0);
      (match impl with
       | Some ("cookie" :: kvs) ->
           let acc = get (kv kvs) "accept" "?" in
           spec opidx "C07_cookie_whole_and_genuine" (acc = (if want then "1" else "0"))
             (Printf.sprintf "cookie of %d octets (mode %s %d) accept=%s" len mode arg acc)
       | _ -> ())
  | _ -> ()

let run (opidx : int) (impl : string list option) (toks : string list) : bool =
  match toks with
  | "cookie" :: rest -> op_cookie opidx impl rest; true
  | "query" :: rest -> op_query opidx impl rest; true
  | "parsei" :: _k :: sec :: rq :: pkt :: _ -> op_parse opidx impl [ sec; rq; pkt ]; true   (* the verdict is that of the packet alone *)
  | "dynext" :: rest -> op_dynext opidx impl rest; true
  | "udp" :: rest -> op_udp opidx impl rest; true
  | "dynsrv" :: rest -> op_dynsrv opidx impl rest; true
  | "naptr" :: rest -> op_dns opidx impl "naptr" rest; true
  | "srv" :: rest -> op_dns opidx impl "srv" rest; true
  | "choose" :: rest -> op_choose opidx impl rest; true
  | "realm" :: rest -> op_realm opidx impl rest; true
  | "dynrealm" :: rest -> op_dynrealm opidx impl rest; true
  | "cert" :: rest -> op_cert opidx impl rest; true
  | "logline" :: rest -> op_logline opidx impl rest; true
  | "frame" :: rest -> op_frame opidx impl rest; true
  | "framefail" :: rest -> op_framefail opidx impl rest; true
  | "addr" :: rest -> op_addr opidx impl rest; true
  | "rewrite" :: rest -> op_rewrite opidx impl rest; true
  | "parse" :: rest -> op_parse opidx impl rest; true
  | "ser" :: rest -> op_ser opidx impl rest; true
  | "recrypt" :: rest -> op_recrypt opidx impl rest; true
  | _ -> false
