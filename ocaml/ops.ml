(* further operations (added per property) *)
open Model
open Util

let case_begin () = ()
let line (kind : string) (rest : string list) (raw : string) = ignore (kind, rest, raw)

(* ---- C09 ---- *)
let srv_of_tok (t : string) : srv =
  if t = "dyn" then { s_dyn = true; s_state = N0; s_lost = N0 }
  else
    match String.split_on_char ':' t with
    | [ st; lo ] -> { s_dyn = false; s_state = n_of_int (int_of_string st); s_lost = n_of_int (int_of_string lo) }
    | _ -> failwith "srv"

let op_choose opidx impl toks =
  let l = List.map srv_of_tok toks in
  let c, l' = choosesrvconf l in
  let idx = function None -> "none" | Some i -> string_of_int (int_of_nat i) in
  pr "obs %d choose %s%s\n" opidx (idx c)
    (String.concat "" (List.map (fun s -> if s.s_dyn then " dyn" else Printf.sprintf " %d" (int_of_n s.s_lost)) l'));
  (match impl with
  | Some ("choose" :: ic :: _) when List.for_all (fun s -> not s.s_dyn) l ->
      let ci = if ic = "none" then None else Some (nat_of_int (int_of_string ic)) in
      spec opidx "C09_choice" (spec_choose l ci && never_failing l ci) (String.concat " " toks)
  | _ -> ())

(* ---- C03 ---- *)
let op_recrypt opidx impl toks =
  let g i = match List.nth_opt toks i with Some x -> bytes_of_hex x | None -> [] in
  let kind = List.hd toks in
  let v = g 1 and os = g 2 and ns = g 3 and oa = g 4 and na = g 5 in
  let osalt = g 6 and nsalt = g 7 in
  let res = if kind = "pwd" then pwdrecrypt md5 v os ns oa na osalt nsalt else msmpprecrypt md5 v os ns oa na in
  (match res with
   | Some v' -> pr "obs %d recrypt 1 %s\n" opidx (hex_of_bytes v')
   | None -> pr "obs %d recrypt 0 %s\n" opidx (hex_of_bytes v));
  (match impl with
   | Some [ "recrypt"; r; iv ] ->
       let out = if r = "1" then Some (bytes_of_hex iv) else None in
       let ok = if kind = "pwd" then spec_pwd_recrypt md5 v os ns oa na osalt nsalt out
                else spec_mppe_recrypt md5 v os ns oa na out in
       (* a refused value must be left untouched *)
       let ok = ok && (r = "1" || bytes_of_hex iv = v) in
       spec opidx (if kind = "pwd" then "C03_pwd_recrypt" else "C03_mppe_recrypt") ok (Printf.sprintf "len=%d" (List.length v))
   | _ -> ())

let run (opidx : int) (impl : string list option) (toks : string list) : bool =
  match toks with
  | "choose" :: rest -> op_choose opidx impl rest; true
  | "recrypt" :: rest -> op_recrypt opidx impl rest; true
  | _ -> false
