(* conversions between OCaml ints/strings and the extracted inductive numbers *)
open Model
type string = Stdlib.String.t

let rec pos_of_int (i : int) : positive =
  if i = 1 then XH else if i land 1 = 0 then XO (pos_of_int (i lsr 1)) else XI (pos_of_int (i lsr 1))
let n_of_int (i : int) : n = if i = 0 then N0 else Npos (pos_of_int i)
let rec int_of_pos (p : positive) : int =
  match p with XH -> 1 | XO q -> 2 * int_of_pos q | XI q -> 2 * int_of_pos q + 1
let int_of_n (x : n) : int = match x with N0 -> 0 | Npos p -> int_of_pos p
let rec nat_of_int (i : int) : nat = if i = 0 then O else S (nat_of_int (i - 1))
let rec int_of_nat (x : nat) : int = match x with O -> 0 | S y -> 1 + int_of_nat y
let z_of_int (i : int) : z = if i = 0 then Z0 else if i > 0 then Zpos (pos_of_int i) else Zneg (pos_of_int (-i))
let int_of_z (x : z) : int = match x with Z0 -> 0 | Zpos p -> int_of_pos p | Zneg p -> - (int_of_pos p)

let hexval c =
  match c with
  | '0' .. '9' -> Char.code c - 48
  | 'a' .. 'f' -> Char.code c - 87
  | 'A' .. 'F' -> Char.code c - 55
  | _ -> failwith "hex"

let bytes_of_hex (s : string) : n list =
  if s = "-" then []
  else
    let len = String.length s / 2 in
    List.init len (fun i -> n_of_int ((hexval s.[2 * i] lsl 4) lor hexval s.[(2 * i) + 1]))

let hex_of_bytes (l : n list) : string =
  if l = [] then "-"
  else begin
    let b = Buffer.create (2 * List.length l) in
    List.iter (fun x -> Buffer.add_string b (Printf.sprintf "%02x" (int_of_n x land 0xff))) l;
    Buffer.contents b
  end

let string_of_bytes (l : n list) : string =
  let b = Buffer.create (List.length l) in
  List.iter (fun x -> Buffer.add_char b (Char.chr (int_of_n x land 0xff))) l;
  Buffer.contents b

let bytes_of_string (s : string) : n list =
  List.init (String.length s) (fun i -> n_of_int (Char.code s.[i]))

(* oracles *)
let md5 (l : n list) : n list = bytes_of_string (Digest.string (string_of_bytes l))

let split_ws (s : string) : string list =
  List.filter (fun x -> x <> "") (String.split_on_char ' ' s)

(* shared output buffer *)
let out = Buffer.create 65536
let pr fmt = Printf.bprintf out fmt
let spec opidx name ok detail = pr "spec %d %s %s %s\n" opidx (if ok then "ok" else "FAIL") name detail

(* Coq string (site labels of Fault) -> OCaml string *)
let int_of_ascii (a : ascii) : int =
  match a with
  | Ascii (b0, b1, b2, b3, b4, b5, b6, b7) ->
      let v b k = if b then 1 lsl k else 0 in
      v b0 0 + v b1 1 + v b2 2 + v b3 3 + v b4 4 + v b5 5 + v b6 6 + v b7 7
let rec ocaml_of_coqstring (s : Model.string) : string =
  match s with
  | EmptyString -> ""
  | String (a, r) -> Stdlib.String.make 1 (Char.chr (int_of_ascii a)) ^ ocaml_of_coqstring r
let site (s : Model.string) : string =
  Stdlib.String.map (fun c -> if c = ' ' then '_' else c) (ocaml_of_coqstring s)
