/* DNS record parsers of dns.c driven on hand-built responses (C07).  The response message is placed in an
 * exact-size heap block ending with the record under test, so that AddressSanitizer sees any read beyond it. */
#define _GNU_SOURCE
#include "hcommon.h"
/* the resolver entry points dns.c may call are redirected to recorders: which one is used (an exact query or one
   that goes through the search list) and with which name is the observation (C20) */
#include <resolv.h>
static int h_res_nquery(res_state st, const char *name, int class, int type, unsigned char *buf, int len);
static int h_res_nsearch(res_state st, const char *name, int class, int type, unsigned char *buf, int len);
static int h_res_query(const char *name, int class, int type, unsigned char *buf, int len);
static int h_res_search(const char *name, int class, int type, unsigned char *buf, int len);
#undef res_nquery
#undef res_nsearch
#undef res_nquerydomain
#undef res_query
#undef res_search
#undef res_querydomain
#define res_nquery h_res_nquery
#define res_nsearch h_res_nsearch
#define res_query h_res_query
#define res_search h_res_search
#include "dns.c"

static int h_nq = 0;
static char h_qlog[8][400];
static void h_qnote(const char *how, const char *name, int type) {
    int i, p;
    if (h_nq >= 8) return;
    p = snprintf(h_qlog[h_nq], sizeof(h_qlog[0]), "%s:%d:", how, type);
    for (i = 0; name[i] && p < 390; i++) p += snprintf(h_qlog[h_nq] + p, 4, "%02x", (unsigned char)name[i]);
    h_nq++;
}
static int h_res_nquery(res_state st, const char *name, int class, int type, unsigned char *buf, int len) {
    (void)class; (void)buf; (void)len;
    h_qnote("exact", name, type); st->res_h_errno = HOST_NOT_FOUND; return -1;
}
static int h_res_nsearch(res_state st, const char *name, int class, int type, unsigned char *buf, int len) {
    (void)class; (void)buf; (void)len;
    h_qnote("search", name, type); st->res_h_errno = HOST_NOT_FOUND; return -1;
}
static int h_res_query(const char *name, int class, int type, unsigned char *buf, int len) {
    (void)class; (void)buf; (void)len;
    h_qnote("exact", name, type); h_errno = HOST_NOT_FOUND; return -1;
}
static int h_res_search(const char *name, int class, int type, unsigned char *buf, int len) {
    (void)class; (void)buf; (void)len;
    h_qnote("search", name, type); h_errno = HOST_NOT_FOUND; return -1;
}

static int opidx;

/* builds: header(12) question("x" IN type)(7) answer(name ptr(2) type class ttl rdlength rdata) */
static uint8_t *build_msg(int type, const uint8_t *rdata, int rdlen, int *outlen) {
    int len = 12 + 7 + 12 + rdlen, p = 0;
    uint8_t *m = malloc(len);
    memset(m, 0, len);
    m[2] = 0x81; m[3] = 0x80; m[5] = 1; m[7] = 1;      /* QR RD RA, 1 question, 1 answer */
    p = 12;
    m[p++] = 1; m[p++] = 'x'; m[p++] = 0;
    m[p++] = type >> 8; m[p++] = type & 255; m[p++] = 0; m[p++] = 1;
    m[p++] = 0xc0; m[p++] = 12;
    m[p++] = type >> 8; m[p++] = type & 255; m[p++] = 0; m[p++] = 1;
    m[p++] = 0; m[p++] = 0; m[p++] = 0; m[p++] = 60;
    m[p++] = rdlen >> 8; m[p++] = rdlen & 255;
    memcpy(m + p, rdata, rdlen);
    *outlen = len;
    return m;
}

static void puts_hex(const char *s) { h_puthex(stdout, (const uint8_t *)s, strlen(s)); }

static void op_rr(int type, char **tok, int n) {
    int rdlen, len, off;
    uint8_t *rdata = h_unhex(n > 0 ? tok[0] : "-", &rdlen), *m;
    ns_msg msg;
    ns_rr rr;
    m = build_msg(type, rdata, rdlen, &len);
    if (ns_initparse(m, len, &msg) == -1 || ns_parserr(&msg, ns_s_an, 0, &rr)) {
        printf("obs %d rr unparsable\n", opidx);
        free(m); free(rdata);
        return;
    }
    /* what libresolv makes of a domain name at each offset of the rdata (oracle for the model) */
    for (off = 0; off <= rdlen; off++) {
        char name[NS_MAXDNAME];
        int l = ns_name_uncompress(ns_msg_base(msg), ns_msg_end(msg), ns_rr_rdata(rr) + off, name, NS_MAXDNAME);
        printf("oracle dn:%d %d ", opidx, off);
        if (l < 0) printf("-\n");
        else { printf("%d:", l); puts_hex(name); printf("\n"); }
    }
    if (type == ns_t_naptr) {
        struct naptr_record *r = parsenaptrrr(msg, &rr);
        if (!r) printf("obs %d naptr none\n", opidx);
        else {
            printf("obs %d naptr %u %u ", opidx, r->order, r->preference);
            puts_hex(r->flags); printf(" "); puts_hex(r->services); printf(" "); puts_hex(r->regexp); printf(" "); puts_hex(r->replacement);
            printf("\n");
            free(r);
        }
    } else {
        struct srv_record *r = parsesrvrr(msg, &rr);
        if (!r) printf("obs %d srv none\n", opidx);
        else {
            printf("obs %d srv %u %u %u ", opidx, r->priority, r->weight, r->port);
            puts_hex(r->host);
            printf("\n");
            free(r);
        }
    }
    free(m);
    free(rdata);
}

/* query <naptr|srv> <namehex> : the real querynaptr / querysrv; every resolver call they make is reported */
static void op_query(char **tok, int n) {
    int l, i;
    uint8_t *nm;
    char *name;
    if (n < 2) return;
    nm = h_unhex(tok[1], &l);
    name = malloc(l + 1); memcpy(name, nm, l); name[l] = 0;
    h_nq = 0;
    if (!strcmp(tok[0], "naptr")) { struct naptr_record **r = querynaptr(name, 1); if (r) freenaptrresponse(r); }
    else { struct srv_record **r = querysrv(name, 1); if (r) freesrvresponse(r); }
    printf("obs %d query n=%d", opidx, h_nq);
    for (i = 0; i < h_nq; i++) printf(" %s", h_qlog[i]);
    printf("\n");
    free(name); free(nm);
}

static void h_case_begin(void) { opidx = 0; debug_init("verif"); debug_set_level(1); }
static void h_line(char *kind, char *rest) {
    static char *tok[64];
    int n;
    if (strcmp(kind, "op")) return;
    n = h_split(rest, tok, 64);
    if (n < 1) return;
    if (!strcmp(tok[0], "naptr")) op_rr(ns_t_naptr, tok + 1, n - 1);
    else if (!strcmp(tok[0], "srv")) op_rr(ns_t_srv, tok + 1, n - 1);
    else if (!strcmp(tok[0], "query")) op_query(tok + 1, n - 1);
    else printf("obs %d unknown-op %s\n", opidx, tok[0]);
    opidx++;
}
static void h_case_end(void) {}
int main(int argc, char **argv) { return h_main(argc, argv); }
