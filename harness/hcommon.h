/* Common harness support: case-file protocol, hex helpers, fork-per-case isolation.
 *
 * Input (stdin or file argv[1]):   case <id> / cfg|conf|op lines ... / end
 * Output (stdout):                 case <id> / obs lines ... / end
 * A case is executed in a forked child so that a crash (sanitizer abort, signal, exit()) is
 * confined to it; the parent then appends `obs fault <kind>` to the case's output.
 */
#ifndef HCOMMON_H
#define HCOMMON_H
#include <stdio.h>
#include <stdlib.h>
#include <string.h>
#include <stdint.h>
#include <unistd.h>
#include <errno.h>
#include <sys/types.h>
#include <sys/wait.h>
#include <signal.h>

#define H_MAXLINE (1 << 17)

static int h_hexval(int c) {
    if (c >= '0' && c <= '9') return c - '0';
    if (c >= 'a' && c <= 'f') return c - 'a' + 10;
    if (c >= 'A' && c <= 'F') return c - 'A' + 10;
    return -1;
}

/* parse hex token ("-" = empty) into malloc'ed buffer of exactly len bytes (len 0 -> malloc(1)) */
static uint8_t *h_unhex(const char *tok, int *len) {
    int n, i;
    uint8_t *b;
    if (!tok || !strcmp(tok, "-")) {
        *len = 0;
        return malloc(1);
    }
    n = strlen(tok) / 2;
    b = malloc(n ? n : 1);
    for (i = 0; i < n; i++)
        b[i] = (h_hexval(tok[2 * i]) << 4) | h_hexval(tok[2 * i + 1]);
    *len = n;
    return b;
}

static void h_puthex(FILE *f, const uint8_t *b, int len) {
    int i;
    if (len <= 0) {
        fputc('-', f);
        return;
    }
    for (i = 0; i < len; i++)
        fprintf(f, "%02x", b[i]);
}

/* tokeniser: splits line in place on single spaces */
static int h_split(char *line, char **tok, int max) {
    int n = 0;
    char *p = line;
    while (*p && n < max) {
        while (*p == ' ') p++;
        if (!*p) break;
        tok[n++] = p;
        while (*p && *p != ' ') p++;
        if (*p) *p++ = 0;
    }
    return n;
}

/* to be provided by the harness: */
static void h_case_begin(void);
static void h_line(char *kind, char *rest); /* kind = "cfg" | "conf" | "op" ; rest = remainder of line */
static void h_case_end(void);

static char h_linebuf[H_MAXLINE];

static int h_main(int argc, char **argv) {
    FILE *in = stdin;
    char **lines = NULL;
    int nlines = 0, cap = 0, i;
    char caseid[256];
    int nofork = getenv("VERIF_NOFORK") != NULL;

    if (argc > 1 && strcmp(argv[1], "-")) {
        in = fopen(argv[1], "r");
        if (!in) { perror(argv[1]); return 2; }
    }
    {
        /* slurp the input: a child leaving through exit() (configuration error paths of the proxy) would
           otherwise flush the shared input stream and move the parent's file offset */
        size_t len = 0, capb = 1 << 20, r;
        char *all = malloc(capb);
        while ((r = fread(all + len, 1, capb - len, in)) > 0) {
            len += r;
            if (len == capb) all = realloc(all, capb *= 2);
        }
        if (in != stdin) fclose(in);
        in = fmemopen(all, len ? len : 1, "r");
        if (!len) all[0] = '\n';
    }
    setvbuf(stdout, NULL, _IOFBF, 1 << 16);
    while (fgets(h_linebuf, sizeof(h_linebuf), in)) {
        size_t l = strlen(h_linebuf);
        while (l && (h_linebuf[l - 1] == '\n' || h_linebuf[l - 1] == '\r')) h_linebuf[--l] = 0;
        if (!strncmp(h_linebuf, "case ", 5)) {
            snprintf(caseid, sizeof(caseid), "%s", h_linebuf + 5);
            nlines = 0;
            continue;
        }
        if (strcmp(h_linebuf, "end")) {
            if (nlines == cap) {
                cap = cap ? cap * 2 : 64;
                lines = realloc(lines, cap * sizeof(char *));
            }
            lines[nlines++] = strdup(h_linebuf);
            continue;
        }
        /* run the case */
        printf("case %s\n", caseid);
        fflush(stdout);
        {
            pid_t pid = nofork ? 0 : fork();
            if (pid == 0) {
                if (!nofork) alarm(getenv("VERIF_CASE_TIMEOUT") ? atoi(getenv("VERIF_CASE_TIMEOUT")) : 30);
                h_case_begin();
                for (i = 0; i < nlines; i++) {
                    char *sp = strchr(lines[i], ' ');
                    if (sp) *sp++ = 0;
                    h_line(lines[i], sp ? sp : "");
                }
                h_case_end();
                fflush(stdout);
                if (!nofork) _exit(0);
            } else if (pid > 0) {
                int st;
                while (waitpid(pid, &st, 0) < 0 && errno == EINTR)
                    ;
                if (WIFSIGNALED(st))
                    printf("obs fault signal %d\n", WTERMSIG(st));
                else if (WIFEXITED(st) && WEXITSTATUS(st) == 99)
                    printf("obs fault sanitizer\n");
                else if (WIFEXITED(st) && WEXITSTATUS(st) != 0)
                    printf("obs exit %d\n", WEXITSTATUS(st));
            } else {
                perror("fork");
                return 2;
            }
        }
        printf("end\n");
        fflush(stdout);
        for (i = 0; i < nlines; i++) free(lines[i]);
        nlines = 0;
    }
    return 0;
}
#endif
