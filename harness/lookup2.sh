#!/bin/sh
# prints the lookup result prepared by the harness (a "server dynamic { ... }" block) and succeeds
cat "$VERIF_LOOKUP_REPLY"
exit 0
