#!/bin/sh
# records the argument vector it was started with (C20): "<argc>:<hex of argv[1]>" into $VERIF_LOOKUP_OUT
printf '%s:' "$#" > "$VERIF_LOOKUP_OUT"
printf '%s' "$1" | od -An -v -tx1 | tr -d ' \n' >> "$VERIF_LOOKUP_OUT"
exit 1
