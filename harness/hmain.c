/* Main correspondence harness: drives the real radsecproxy.c code (included below, so that its
 * statics are reachable) one operation per input line and prints canonical observations.
 * Environment redirections are done at link time (-Wl,--wrap=...): virtual clock, scripted
 * randomness, no real threads unless asked for, regexec logging. */
#define _GNU_SOURCE
#include "hcommon.h"
#include <sys/stat.h>
/* every header radsecproxy.c pulls in, so that the free() redirection below touches only its own code */
#include <limits.h>
#include <netdb.h>
#include <netinet/in.h>
#include <sys/socket.h>
#include <malloc.h>
#include <fcntl.h>
#include <arpa/inet.h>
#include <assert.h>
#include <ctype.h>
#include <libgen.h>
#include <nettle/md5.h>
#include <openssl/err.h>
#include <openssl/rand.h>
#include <openssl/ssl.h>
#include <poll.h>
#include <pthread.h>
#include <regex.h>
#include <sys/time.h>
/* request objects are tracked from creation to free(): released exactly once, not retained (C17/C19) */
#define H_MAXRQ 8192
static void *h_allrq[H_MAXRQ];
static unsigned char h_rqfreed[H_MAXRQ], h_rqleakrep[H_MAXRQ];
static int h_nallrq = 0;
static void h_track_rq(void *p) {
    int i;
    for (i = h_nallrq - 1; i >= 0; i--)
        if (h_allrq[i] == p && !h_rqfreed[i]) return;
    if (h_nallrq < H_MAXRQ) { h_allrq[h_nallrq] = p; h_rqfreed[h_nallrq] = 0; h_rqleakrep[h_nallrq] = 0; h_nallrq++; }
}
static void verif_free(void *p) {
    int i;
    for (i = h_nallrq - 1; i >= 0; i--)
        if (h_allrq[i] == p && !h_rqfreed[i]) { h_rqfreed[i] = 1; break; }
    (free)(p);
}
#define free(p) verif_free(p)
#include "radsecproxy.c"
#undef free
#include <stdarg.h>

/* ------------------------------------------------------------------ virtual environment */
static long verif_now = 1000000;
int __wrap_gettimeofday(struct timeval *tv, void *tz) {
    (void)tz;
    tv->tv_sec = verif_now;
    tv->tv_usec = 0;
    return 0;
}

static uint8_t verif_rand[4096];
static int verif_rand_len = 0, verif_rand_pos = 0, verif_rand_fail = 0;
static uint8_t verif_rand_ctr = 0;
int __wrap_RAND_bytes(unsigned char *buf, int num) {
    int i;
    if (verif_rand_fail)
        return 0;
    for (i = 0; i < num; i++)
        buf[i] = verif_rand_pos < verif_rand_len ? verif_rand[verif_rand_pos++] : 0;
    return 1;
}
static void set_rand(const char *hex) {
    int n;
    uint8_t *b = h_unhex(hex, &n);
    if (n > (int)sizeof(verif_rand)) n = sizeof(verif_rand);
    memcpy(verif_rand, b, n);
    verif_rand_len = n;
    verif_rand_pos = 0;
    free(b);
}

/* threads: by default not started, only recorded */
static int verif_threads_real = 0;
static int verif_thread_count = 0;
int __real_pthread_create(pthread_t *t, const pthread_attr_t *a, void *(*f)(void *), void *arg);
/* the writer of a dynamically discovered server is not started; op dynflush runs it synchronously */
static void *(*h_dyn_f)(void *) = NULL;
static void *h_dyn_arg = NULL;
void *clientwr(void *arg);
unsigned int __wrap_sleep(unsigned int s) { (void)s; return 0; }
struct h_tramp { void *(*f)(void *); void *arg; };
#define H_MAXEXIT 64
static void *volatile h_exited[H_MAXEXIT];
static volatile int h_nexited = 0;
static void *h_tramp_run(void *p) {
    struct h_tramp *tr = (struct h_tramp *)p;
    void *r = tr->f(tr->arg);
    if (h_nexited < H_MAXEXIT) h_exited[h_nexited++] = tr->arg;
    return r;
}
static int h_thread_exited(void *arg) {
    int i;
    for (i = 0; i < h_nexited; i++) if (h_exited[i] == arg) return 1;
    return 0;
}
int __wrap_pthread_create(pthread_t *t, const pthread_attr_t *a, void *(*f)(void *), void *arg) {
    verif_thread_count++;
    if (f == clientwr && arg && ((struct server *)arg)->dynamiclookuparg) {
        h_dyn_f = f; h_dyn_arg = arg;
        memset(t, 0, sizeof(*t));
        return 0;
    }
    if (verif_threads_real) {
        /* started through a trampoline that records when the thread function returns */
        struct h_tramp *tr = (malloc)(sizeof(*tr));
        tr->f = f; tr->arg = arg;
        return __real_pthread_create(t, a, h_tramp_run, tr);
    }
    memset(t, 0, sizeof(*t));
    return 0;
}
int __real_pthread_detach(pthread_t t);
int __wrap_pthread_detach(pthread_t t) {
    if (verif_threads_real)
        return __real_pthread_detach(t);
    return 0;
}

/* ------------------------------------------------------------------ helpers */
static struct radmsg *msg_from_tokens(uint8_t code, char **tok, int n) {
    /* tokens "t:hex" */
    struct radmsg *msg = radmsg_init(code, 0, (uint8_t *)"0123456789abcdef");
    int i;
    for (i = 0; i < n; i++) {
        char *c = strchr(tok[i], ':');
        int len;
        uint8_t *v;
        struct tlv *a;
        if (!c) continue;
        *c++ = 0;
        v = h_unhex(c, &len);
        a = maketlv(atoi(tok[i]), len, v);
        free(v);
        list_push(msg->attrs, a);
    }
    return msg;
}

static void print_attrs(struct radmsg *msg) {
    struct list_node *n;
    for (n = list_first(msg->attrs); n; n = list_next(n)) {
        struct tlv *a = (struct tlv *)n->data;
        printf(" %d:", a->t);
        if (a->l && !a->v) { /* placeholder value: l bytes of zero on the wire */
            int i;
            for (i = 0; i < a->l; i++) printf("00");
        } else
            h_puthex(stdout, a->v, a->l);
    }
}

/* ------------------------------------------------------------------ operations */
static int opidx;

static void op_decttl(char **tok, int n) {
    int len, r;
    uint8_t *v = h_unhex(n > 0 ? tok[0] : "-", &len);
    /* exact-size heap copy so that ASan sees any out-of-bounds index */
    r = decttl((uint8_t)len, v);
    printf("obs %d decttl %d ", opidx, r);
    h_puthex(stdout, v, len);
    printf("\n");
    free(v);
}

static void op_checkttl(char **tok, int n) {
    /* checkttl <t0> <t1> attrs... */
    uint32_t at[2];
    struct radmsg *msg;
    int r;
    at[0] = strtoul(tok[0], NULL, 10);
    at[1] = strtoul(tok[1], NULL, 10);
    msg = msg_from_tokens(1, tok + 2, n - 2);
    r = checkttl(msg, at);
    printf("obs %d checkttl %d", opidx, r == -1 ? 2 : r);
    print_attrs(msg);
    printf("\n");
    radmsg_free(msg);
}

static void op_vttl(char **tok, int n) {
    /* vttl <t0> <t1> <vendor octets hex> <stray octets hex> P attrs... S subs(t:hex)... Q attrs...
       the Vendor-Specific attribute is put together here: vendor octets, each sub-attribute as type, length, value,
       then the stray octets */
    uint32_t at[2];
    struct radmsg *msg = radmsg_init(1, 0, (uint8_t *)"0123456789abcdef");
    int r, i, sect = 0, vblen, trlen, vlen = 0;
    uint8_t *vb, *tr, val[1024];
    at[0] = strtoul(tok[0], NULL, 10);
    at[1] = strtoul(tok[1], NULL, 10);
    vb = h_unhex(tok[2], &vblen);
    tr = h_unhex(tok[3], &trlen);
    memcpy(val, vb, vblen); vlen = vblen;
    for (i = 4; i < n; i++) {
        char *c;
        int len;
        uint8_t *v;
        if (!strcmp(tok[i], "P")) { sect = 1; continue; }
        if (!strcmp(tok[i], "S")) { sect = 2; continue; }
        if (!strcmp(tok[i], "Q")) {
            memcpy(val + vlen, tr, trlen); vlen += trlen;
            list_push(msg->attrs, maketlv(RAD_Attr_Vendor_Specific, vlen, val));
            sect = 3; continue;
        }
        c = strchr(tok[i], ':');
        if (!c) continue;
        *c++ = 0;
        v = h_unhex(c, &len);
        if (sect == 2) {
            val[vlen++] = atoi(tok[i]); val[vlen++] = len + 2;
            memcpy(val + vlen, v, len); vlen += len;
        } else
            list_push(msg->attrs, maketlv(atoi(tok[i]), len, v));
        free(v);
    }
    r = checkttl(msg, at);
    printf("obs %d checkttl %d", opidx, r == -1 ? 2 : r);
    print_attrs(msg);
    printf("\n");
    radmsg_free(msg);
    free(vb); free(tr);
}

static void op_addttl(char **tok, int n) {
    /* addttl <t0> <t1> <addttl> attrs... */
    uint32_t at[2];
    struct radmsg *msg;
    at[0] = strtoul(tok[0], NULL, 10);
    at[1] = strtoul(tok[1], NULL, 10);
    msg = msg_from_tokens(1, tok + 3, n - 3);
    addttlattr(msg, at, (uint8_t)atoi(tok[2]));
    printf("obs %d addttl", opidx);
    print_attrs(msg);
    printf("\n");
    radmsg_free(msg);
}

/* ------------------------------------------------------------------ configuration + regex oracle */
static char verif_conf_path[512];
static FILE *verif_conf_file = NULL;
static int verif_conf_loaded = 0;

#define MAXRX 256
static struct { const regex_t *re; char id[64]; } rxtab[MAXRX];
static int nrx = 0;
static void rx_register(const regex_t *re, const char *fmt, ...) {
    va_list ap;
    if (!re || nrx >= MAXRX) return;
    rxtab[nrx].re = re;
    va_start(ap, fmt);
    vsnprintf(rxtab[nrx].id, sizeof(rxtab[nrx].id), fmt, ap);
    va_end(ap);
    nrx++;
}
int __real_regexec(const regex_t *preg, const char *string, size_t nmatch, regmatch_t pmatch[], int eflags);
int __wrap_regexec(const regex_t *preg, const char *string, size_t nmatch, regmatch_t pmatch[], int eflags) {
    int r = __real_regexec(preg, string, nmatch, pmatch, eflags), i;
    for (i = 0; i < nrx; i++)
        if (rxtab[i].re == preg) {
            size_t k;
            printf("oracle %s ", rxtab[i].id);
            h_puthex(stdout, (const uint8_t *)string, strlen(string));
            if (r) printf(" nomatch");
            else if (!nmatch) printf(" match");
            else
                for (k = 0; k < nmatch; k++)
                    printf("%s%d:%d", k ? "," : " ", (int)pmatch[k].rm_so, (int)pmatch[k].rm_eo);
            printf("\n");
            break;
        }
    return r;
}

static int h_nopipe;
static char h_logpath[512];
static long h_logpos;
/* a regex compiled while h_next_rx_id is set is registered under that id */
static char h_next_rx_id[64];
int __real_regcomp(regex_t *preg, const char *regex, int cflags);
static char h_last_rx_src[1024];   /* the expression text handed to the last regcomp (C08: what addrealm made of a realm name) */
int __wrap_regcomp(regex_t *preg, const char *regex, int cflags) {
    int r = __real_regcomp(preg, regex, cflags);
    snprintf(h_last_rx_src, sizeof(h_last_rx_src), "%s", regex ? regex : "");
    if (!r && h_next_rx_id[0]) { rx_register(preg, "%s", h_next_rx_id); h_next_rx_id[0] = 0; }
    return r;
}

static char *rewrite_names[64];
static int nrewrite_names = 0;

static void register_rewrite_regexes(void) {
    int i, k;
    for (i = 0; i < nrewrite_names; i++) {
        struct rewrite *rw = getrewrite(rewrite_names[i], NULL);
        struct list_node *n;
        if (!rw) continue;
        for (k = 0, n = list_first(rw->modattrs); n; n = list_next(n), k++)
            rx_register(((struct modattr *)n->data)->regex, "rw:%s:mod:%d", rewrite_names[i], k);
        for (k = 0, n = list_first(rw->modvattrs); n; n = list_next(n), k++)
            rx_register(((struct modattr *)n->data)->regex, "rw:%s:modv:%d", rewrite_names[i], k);
    }
}

/* inc <file> <text>: a line of a configuration file that the main one reaches through `include @INCDIR@/<glob>`;
   @INCDIR@ in a conf line stands for the directory these files are written to (C08: realm blocks in included files) */
static char verif_inc_dir[512];
static char verif_inc_files[16][64];
static int verif_ninc = 0;
static void inc_line(char *rest) {
    char *sp = strchr(rest, ' '), path[700];
    FILE *f;
    int i;
    if (!sp) return;
    *sp = 0;
    if (!verif_inc_dir[0]) {
        snprintf(verif_inc_dir, sizeof(verif_inc_dir), "%s/inc.%d", getenv("VERIF_RUNDIR") ? getenv("VERIF_RUNDIR") : "/tmp", (int)getpid());
        mkdir(verif_inc_dir, 0700);
    }
    for (i = 0; i < verif_ninc; i++) if (!strcmp(verif_inc_files[i], rest)) break;
    if (i == verif_ninc && verif_ninc < 16) snprintf(verif_inc_files[verif_ninc++], 64, "%s", rest);
    snprintf(path, sizeof(path), "%s/%s", verif_inc_dir, rest);
    f = fopen(path, "a");
    if (f) { fprintf(f, "%s\n", sp + 1); fclose(f); }
}
static void inc_cleanup(void) {
    char path[700];
    int i;
    for (i = 0; i < verif_ninc; i++) { snprintf(path, sizeof(path), "%s/%s", verif_inc_dir, verif_inc_files[i]); unlink(path); }
    if (verif_inc_dir[0]) rmdir(verif_inc_dir);
    verif_ninc = 0; verif_inc_dir[0] = 0;
}

static void conf_line(char *rest) {
    char *at = strstr(rest, "@INCDIR@");
    if (!verif_conf_file) {
        snprintf(verif_conf_path, sizeof(verif_conf_path), "%s/conf.%d", getenv("VERIF_RUNDIR") ? getenv("VERIF_RUNDIR") : "/tmp", (int)getpid());
        verif_conf_file = fopen(verif_conf_path, "w");
    }
    if (at) {
        if (!verif_inc_dir[0]) {
            snprintf(verif_inc_dir, sizeof(verif_inc_dir), "%s/inc.%d", getenv("VERIF_RUNDIR") ? getenv("VERIF_RUNDIR") : "/tmp", (int)getpid());
            mkdir(verif_inc_dir, 0700);
        }
        fprintf(verif_conf_file, "%.*s%s%s\n", (int)(at - rest), rest, verif_inc_dir, at + 8);
        return;
    }
    fprintf(verif_conf_file, "%s\n", rest);
}

static void post_config(void);
static void load_conf(void) {
    int i;
    if (verif_conf_loaded) return;
    verif_conf_loaded = 1;
    if (!verif_conf_file) return;
    fclose(verif_conf_file);
    for (i = 0; i < RAD_PROTOCOUNT; i++)
        protodefs[i] = protoinits[i](i);
    fflush(stdout);
    getmainconfig(verif_conf_path);
    unlink(verif_conf_path);
    inc_cleanup();
    register_rewrite_regexes();
    post_config();
}

#include "hops.inc"

static void h_case_begin(void) {
    opidx = 0;
    memset(lk_edge, 0, sizeof(lk_edge)); lk_on = 1;
    h_nallrq = 0; h_nexited = 0;
    h_logpath[0] = 0; h_logpos = 0;
    verif_conf_file = NULL; verif_conf_loaded = 0; nrx = 0; nrewrite_names = 0; h_nopipe = 0; memset(h_cltype, 0, sizeof(h_cltype));
    debug_init("verif");
    debug_set_level(getenv("VERIF_DEBUG") ? atoi(getenv("VERIF_DEBUG")) : 1);
}

static void h_line(char *kind, char *rest) {
    static char *tok[8192];
    int n;
    if (!strcmp(kind, "conf")) { conf_line(rest); return; }
    if (!strcmp(kind, "inc")) { inc_line(rest); return; }
    if (!strcmp(kind, "cfg")) {
        if (!strncmp(rest, "rewrite ", 8) && nrewrite_names < 64) {
            char *nm = strdup(rest + 8), *sp = strchr(nm, ' ');
            if (sp) *sp = 0;
            rewrite_names[nrewrite_names++] = nm;
        }
        h_more_lines(kind, rest);
        return;
    }
    if (!strcmp(kind, "op")) {
        load_conf();
        n = h_split(rest, tok, 8192);
        if (n < 1) return;
        if (!strcmp(tok[0], "decttl")) op_decttl(tok + 1, n - 1);
        else if (!strcmp(tok[0], "checkttl")) op_checkttl(tok + 1, n - 1);
        else if (!strcmp(tok[0], "vttl")) op_vttl(tok + 1, n - 1);
        else if (!strcmp(tok[0], "addttl")) op_addttl(tok + 1, n - 1);
        else if (!h_more_ops(tok, n)) printf("obs %d unknown-op %s\n", opidx, tok[0]);
        opidx++;
    } else
        h_more_lines(kind, rest);
}

static void h_case_end(void) { lk_report(); }

int main(int argc, char **argv) {
    return h_main(argc, argv);
}
