/* The DTLS HelloVerify cookie callbacks of tlscommon.c (C07: bytes from the network, before any peer authentication).
 * The cookie under test is placed in an exact-size heap block so that AddressSanitizer sees any read beyond it. */
#define _GNU_SOURCE
#include "hcommon.h"
#include "tlscommon.c"

static int opidx;
static SSL_CTX *ck_ctx;
static SSL *ck_ssl;

static int ck_setup(void) {
    BIO *bio;
    int fd;
    struct sockaddr_in peer;
    if (ck_ssl) return 1;
    ck_ctx = SSL_CTX_new(DTLS_server_method());
    ck_ssl = ck_ctx ? SSL_new(ck_ctx) : NULL;
    fd = socket(AF_INET, SOCK_DGRAM, 0);
    bio = BIO_new_dgram(fd, BIO_NOCLOSE);
    if (!ck_ssl || fd < 0 || !bio) return 0;
    memset(&peer, 0, sizeof(peer));
    peer.sin_family = AF_INET; peer.sin_port = htons(40000); peer.sin_addr.s_addr = htonl(0x7f000001);
    BIO_ctrl(bio, BIO_CTRL_DGRAM_SET_PEER, 0, &peer);
    SSL_set_bio(ck_ssl, bio, bio);
    return 1;
}

/* cookie <len> <mode> [arg]: mode g = the first len octets of the genuine cookie (padded with arg when longer),
   f = genuine with bit <arg> flipped, o = genuine but issued <arg> seconds ago */
static void op_cookie(char **tok, int n) {
    unsigned char genuine[DTLS1_COOKIE_LENGTH + 64], *blk;
    unsigned int glen = 0;
    int len, arg, r, i;
    if (n < 2 || !ck_setup()) { printf("obs %d cookie setup-failed\n", opidx); return; }
    len = atoi(tok[0]); arg = n > 2 ? atoi(tok[2]) : 0;
    memset(genuine, 0, sizeof(genuine));
    if (!cookie_generate_cb(ck_ssl, genuine, &glen)) { printf("obs %d cookie generate-failed\n", opidx); return; }
    if (tok[1][0] == 'o') {
        /* an older cookie: re-issue it for that time with the real hash routine */
        struct sockaddr_storage peer;
        time_t t; unsigned int rl = 0; uint8_t res[EVP_MAX_MD_SIZE];
        memcpy(&t, genuine, sizeof(t)); t -= arg;
        BIO_dgram_get_peer(SSL_get_rbio(ck_ssl), &peer);
        cookie_calculate_hash((struct sockaddr *)&peer, t, res, &rl);
        memcpy(genuine, &t, sizeof(t)); memcpy(genuine + sizeof(t), res, rl);
    }
    blk = malloc(len > 0 ? len : 1);
    for (i = 0; i < len; i++) blk[i] = i < (int)glen ? genuine[i] : (unsigned char)arg;
    if (tok[1][0] == 'f' && len > 0) blk[(arg / 8) % len] ^= 1 << (arg % 8);
    r = cookie_verify_cb(ck_ssl, blk, len);
    printf("obs %d cookie genuine=%u len=%d accept=%d\n", opidx, glen, len, r);
    free(blk);
}

static void h_case_begin(void) { opidx = 0; debug_init("verif"); debug_set_level(1); }
static void h_line(char *kind, char *rest) {
    static char *tok[64];
    int n;
    if (strcmp(kind, "op")) return;
    n = h_split(rest, tok, 64);
    if (n < 1) return;
    if (!strcmp(tok[0], "cookie")) op_cookie(tok + 1, n - 1);
    else printf("obs %d unknown-op %s\n", opidx, tok[0]);
    opidx++;
}
static void h_case_end(void) {}
int main(int argc, char **argv) { return h_main(argc, argv); }
