(* Extraction of the executable model and the spec predicates.  ExtrOcamlBasic only:
   bool, option, list, pairs, unit map to OCaml's; numbers (N, Z, positive, nat) stay inductive. *)
From Coq Require Extraction ExtrOcamlBasic.
From RSP Require Import Base Consts Ttl Spec_C13 Choose Spec_C09 Crypt Spec_C03 Packet Spec_Packet Rewrite Spec_C01 Proxy Locks Dns Walk Udp Dyn Addr Spec_C14 Frame Spec_C16 Log Spec_C18 Cert Route Spec_C08 Cookie.
Extraction Language OCaml.
Extraction "model.ml" BinInt.Z.add BinInt.Z.sub BinInt.Z.ltb BinInt.Z.leb BinInt.Z.eqb Base.be_value Base.be_encode Base.wf_bytes Base.beq_bytes
  Ttl.decttl Ttl.checkttl Ttl.addttlattr Ttl.attrvalidate Ttl.ttl_stage_check Ttl.ttl_stage_add
  Route.realm_matches Route.realm_regex Route.dyn_step Route.dynrealm Route.srv_query Route.srv_hostports Udp.udp_run Udp.udp_arrival Dyn.merge_dyn Dyn.secret_len Route.after_last_at Route.realm_char_ok Spec_C08.ends_with_at_name Spec_C08.name_ok
  Cookie.cookie_verify Cookie.tstamp_le Cookie.ts_encode_le Cookie.standin_hash Cert.verifyconfcert Cert.nairealm_value_match Cert.host_pattern_match
  Log.radattr2ascii Log.replylog_fields_of Log.fticks_realm Log.fticks_csi Log.hashmac Spec_C18.all_printable Spec_C18.all_lower_hex Spec_C18.normal_form
  Frame.reader Frame.radget Spec_C16.frames Spec_C16.is_prefix_of Spec_C16.list_beq
  Addr.find_conf_from Addr.find_conf Addr.addressmatches Spec_C14.spec_find Spec_C14.spec_entry
  Proxy.radsrv Proxy.replyh Proxy.writer_release Proxy.freerq Proxy.alloc_rq Proxy.get_rq Proxy.get_client Proxy.set_client Proxy.get_server Proxy.set_server Proxy.empty_slot Proxy.set_wr Proxy.set_lost Proxy.set_nextid Proxy.removeclient Proxy.drain_replyq Proxy.freeserver Proxy.new_request Proxy.hstep Proxy.freerqoutdata Proxy.rc_ok Proxy.rc_ok_at Proxy.refs Locks.edge_ok Locks.rank Dns.parsenaptr Dns.parsesrv Walk.walk_idx Walk.attrvalidate_idx Walk.subwalk_idx
  Spec_C01.spec_rewrite_untouched Rewrite.dorewrite Rewrite.dorewritemodattr Rewrite.cstr
  Packet.buf2radmsg Packet.radmsg2buf Packet.gettype Packet.getalltype Spec_Packet.wf_packet Spec_Packet.tiles Spec_Packet.length_field
  Spec_Packet.response_auth_ok Spec_Packet.acct_request_auth_ok Spec_Packet.all_msgauth_ok Spec_Packet.has_msgauth Spec_Packet.first_is_msgauth Spec_Packet.attrs_of
  Crypt.pwdrecrypt Crypt.msmpprecrypt Spec_C03.spec_pwd_recrypt Spec_C03.spec_mppe_recrypt Spec_C03.rfc_dec Spec_C03.rfc_encrypt
  Choose.choosesrvconf Spec_C09.spec_choose Spec_C09.never_failing
  Spec_C13.spec_decttl Spec_C13.same_shape Spec_C13.diff_count Spec_C13.first_of_type Spec_C13.vsa Spec_C13.sub_ok Spec_C13.other_vendor.
