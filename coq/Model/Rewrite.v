(* Model of the rewrite engine (rewrite.c: dorewrite and its helpers).  The regex engine is an
   oracle: rx id subject = None (no match) | Some pmatch, pmatch = up to 10 (so, eo) pairs, so < 0
   for a group that did not participate.  Definitions only. *)
From RSP Require Import Base Consts Ttl.
Local Open Scope N_scope.

Record modattr := mkMod { mod_t : N; mod_vendor : N; mod_rx : N; mod_repl : bytes }.

Record rewrite := mkRewrite {
  rw_whitelist : bool;
  rw_rm : option (list N);            (* removeattrs (NULL or list) *)
  rw_rmv : option (list (N * N));     (* removevendorattrs: (vendor, subtype|256) *)
  rw_add : list tlv;
  rw_mod : list modattr;
  rw_modv : list modattr;
  rw_sup : list tlv
}.

(* C string view of a value: bytes before the first NUL *)
Fixpoint cstr (v : bytes) : bytes :=
  match v with
  | [] => []
  | x :: r => if x =? 0 then [] else x :: cstr r
  end.

(* ---- remove / whitelist ----------------------------------------------------------------------*)
Fixpoint drop_until_vendor (rmv : list (N * N)) (vendor : N) : list (N * N) :=
  match rmv with
  | [] => []
  | (v, s) :: r => if v =? vendor then rmv else drop_until_vendor r vendor
  end.

Definition findvendorsubattr (rmv : list (N * N)) (vendor sub : N) : bool :=
  existsb (fun p => (fst p =? vendor) && (snd p =? sub)) rmv.

(* the sub-attribute compaction loop of dovendorrewriterm on a validated area: keeps the
   sub-attributes for which (listed != inverted) is false; a trailing single byte is kept *)
Fixpoint vendor_filter_f (fuel : nat) (rmv : list (N * N)) (vendor : N) (inv : bool) (a : bytes) : bytes :=
  match fuel with
  | O => a
  | S f =>
      match a with
      | ty :: alen :: rest =>
          let vl := N.to_nat (alen - 2) in
          let tail := vendor_filter_f f rmv vendor inv (skipn vl rest) in
          if negb (Bool.eqb (findvendorsubattr rmv vendor ty) inv)
          then tail
          else ty :: alen :: firstn vl rest ++ tail
      | _ => a
      end
  end.

(* dovendorrewriterm: (whole-element result, attribute after in-place edits) *)
Definition dovendorrewriterm (a : tlv) (rmv : list (N * N)) (inv : bool) : bool * tlv :=
  if tlv_l a <=? 4 then (false, a)
  else
    let vendor := vendor_of (tlv_v a) in
    let rmv' := drop_until_vendor rmv vendor in
    match rmv' with
    | [] => (false, a)
    | _ =>
        if findvendorsubattr rmv' vendor 256 then (true, a)
        else
          let subs := skipn 4 (tlv_v a) in
          if negb (attrvalidate subs) then (false, a)
          else
            let subs' := vendor_filter_f (length subs) rmv' vendor inv subs in
            let a' := mkTlv (tlv_t a) (firstn 4 (tlv_v a) ++ subs') in
            (negb (Bool.eqb (tlv_l a' <=? 4) inv), a')
    end.

Definition in_rmlist (rm : option (list N)) (t : N) : bool :=
  match rm with
  | Some l => negb (t =? 0) && existsb (N.eqb t) l
  | None => false
  end.

Fixpoint dorewriterm (attrs : list tlv) (rm : option (list N)) (rmv : option (list (N * N))) (inv : bool) : list tlv :=
  match attrs with
  | [] => []
  | a :: r =>
      let rest := dorewriterm r rm rmv inv in
      if in_rmlist rm (tlv_t a) then
        (if negb (Bool.eqb true inv) then rest else a :: rest)
      else
        match rmv with
        | Some vl =>
            if tlv_t a =? Consts.RAD_Attr_Vendor_Specific then
              let '(whole, a') := dovendorrewriterm a vl inv in
              if negb (Bool.eqb whole inv) then rest else a' :: rest
            else (if negb (Bool.eqb false inv) then rest else a :: rest)
        | None => if negb (Bool.eqb false inv) then rest else a :: rest
        end
  end.

(* ---- modify ----------------------------------------------------------------------------------*)
Section Mod.
  Variable rx : N -> bytes -> option (list (Z * Z)).

  Definition is_digit19 (d : N) : bool := (49 <=? d) && (d <=? 57).

  Definition group_of (pm : list (Z * Z)) (d : N) : option (Z * Z) :=
    match nth_error pm (N.to_nat (d - 48)) with
    | Some (so, eo) => if (so <? 0)%Z then None else Some (so, eo)
    | None => None
    end.

  (* expansion of the replacement: \1..\9 replaced by the group's text when it participated *)
  Fixpoint expand (out subject : bytes) (pm : list (Z * Z)) : bytes :=
    match out with
    | [] => []
    | c :: rest =>
        if c =? 92 then
          match rest with
          | d :: rest' =>
              if is_digit19 d then
                match group_of pm d with
                | Some (so, eo) => firstn (Z.to_nat (eo - so)) (skipn (Z.to_nat so) subject) ++ expand rest' subject pm
                | None => c :: d :: expand rest' subject pm
                end
              else c :: expand rest subject pm
          | [] => [c]
          end
        else c :: expand rest subject pm
    end.

  (* dorewritemodattr: None = failure (message dropped), Some new value *)
  Definition dorewritemodattr (v : bytes) (m : modattr) : option bytes :=
    let subject := cstr v in
    match rx (mod_rx m) subject with
    | None => Some v
    | Some pm =>
        let res := expand (mod_repl m) subject pm in
        if Consts.RAD_Max_Attr_Value_Length <? nlen res then None else Some res
    end.

  Fixpoint modattr_all (v : bytes) (t : N) (mods : list modattr) : option bytes :=
    match mods with
    | [] => Some v
    | m :: r =>
        if mod_t m =? t then
          match dorewritemodattr v m with
          | None => None
          | Some v' => modattr_all v' t r
          end
        else modattr_all v t r
    end.

  (* dorewritemodvattr: walk of the sub-attributes of one vendor attribute for one rule;
     `done` = bytes before the cursor (vendor id + already processed sub-attributes) *)
  Fixpoint modvattr_f (fuel : nat) (done rest : bytes) (m : modattr) : option bytes :=
    match fuel with
    | O => Some (done ++ rest)
    | S f =>
        match rest with
        | ty :: alen :: rest' =>
            let vl := N.to_nat (alen - 2) in
            let v := firstn vl rest' in
            let tail := skipn vl rest' in
            if ty =? mod_t m then
              match dorewritemodattr v m with
              | None => None
              | Some v' =>
                  let total := nlen done + 2 + nlen v' + nlen tail in
                  if (nlen v <? nlen v') && (Consts.RAD_Max_Attr_Value_Length <? total) then None
                  else modvattr_f f (done ++ ty :: u8 (nlen v' + 2) :: v') tail m
              end
            else modvattr_f f (done ++ ty :: alen :: v) tail m
        | _ => Some (done ++ rest)
        end
    end.

  Definition dorewritemodvattr (v : bytes) (m : modattr) : option bytes :=
    if (nlen v <=? 4) || negb (attrvalidate (skipn 4 v)) then None
    else modvattr_f (length v) (firstn 4 v) (skipn 4 v) m.

  Fixpoint modvattr_all (v : bytes) (vendor : N) (mods : list modattr) : option bytes :=
    match mods with
    | [] => Some v
    | m :: r =>
        if mod_vendor m =? vendor then
          match dorewritemodvattr v m with
          | None => None
          | Some v' => modvattr_all v' vendor r
          end
        else modvattr_all v vendor r
    end.

  Fixpoint dorewritemod (attrs : list tlv) (mods modvs : list modattr) : option (list tlv) :=
    match attrs with
    | [] => Some []
    | a :: r =>
        let a' :=
          if tlv_t a =? Consts.RAD_Attr_Vendor_Specific then
            if tlv_l a <? 4 then Some a
            else option_map (mkTlv (tlv_t a)) (modvattr_all (tlv_v a) (vendor_of (tlv_v a)) modvs)
          else option_map (mkTlv (tlv_t a)) (modattr_all (tlv_v a) (tlv_t a) mods) in
        match a' with
        | None => None
        | Some x => match dorewritemod r mods modvs with None => None | Some r' => Some (x :: r') end
        end
    end.
End Mod.

(* ---- supplement / add ------------------------------------------------------------------------*)
(* sub-type walk of dorewritesupattr over a validated area *)
Fixpoint has_subtype_f (fuel : nat) (a : bytes) (sub : N) : bool :=
  match fuel with
  | O => false
  | S f =>
      match a with
      | ty :: alen :: rest => (ty =? sub) || has_subtype_f f (skipn (N.to_nat (alen - 2)) rest) sub
      | _ => false
      end
  end.

(* None = failure, Some b = exists? *)
Fixpoint sup_exists (attrs : list tlv) (sup : tlv) : option bool :=
  match attrs with
  | [] => Some false
  | a :: r =>
      if (tlv_t a =? tlv_t sup) && negb (tlv_t a =? Consts.RAD_Attr_Vendor_Specific) then Some true
      else if (tlv_t sup =? Consts.RAD_Attr_Vendor_Specific) && (tlv_t a =? Consts.RAD_Attr_Vendor_Specific) &&
              (4 <=? tlv_l a) && beq_bytes (firstn 4 (tlv_v sup)) (firstn 4 (tlv_v a)) then
        if negb (attrvalidate (skipn 4 (tlv_v a))) then None
        else if has_subtype_f (length (tlv_v a)) (skipn 4 (tlv_v a)) (nth 4 (tlv_v sup) 0) then Some true
        else sup_exists r sup
      else sup_exists r sup
  end.

Fixpoint dorewritesup (attrs : list tlv) (sups : list tlv) : option (list tlv) :=
  match sups with
  | [] => Some attrs
  | s :: r =>
      match sup_exists attrs s with
      | None => None
      | Some true => dorewritesup attrs r
      | Some false =>
          match radmsg_add attrs s with
          | None => None
          | Some attrs' => dorewritesup attrs' r
          end
      end
  end.

Fixpoint dorewriteadd (attrs : list tlv) (adds : list tlv) : option (list tlv) :=
  match adds with
  | [] => Some attrs
  | a :: r => match radmsg_add attrs a with None => None | Some attrs' => dorewriteadd attrs' r end
  end.

Section Rw.
  Variable rx : N -> bytes -> option (list (Z * Z)).

  Definition dorewrite (attrs : list tlv) (rw : option rewrite) : option (list tlv) :=
    match rw with
    | None => Some attrs
    | Some w =>
        let a1 := match rw_rm w, rw_rmv w with
                  | None, None => attrs
                  | _, _ => dorewriterm attrs (rw_rm w) (rw_rmv w) (rw_whitelist w)
                  end in
        match dorewritemod rx a1 (rw_mod w) (rw_modv w) with
        | None => None
        | Some a2 =>
            match dorewritesup a2 (rw_sup w) with
            | None => None
            | Some a3 => dorewriteadd a3 (rw_add w)
            end
        end
    end.
End Rw.
