(* Model of decttl / attrvalidate / checkttl / addttlattr (radsecproxy.c:955-1030, radmsg.c attrvalidate,
   makevendortlv).  Definitions only. *)
From RSP Require Import Base.
From RSP Require Import Consts.
Local Open Scope N_scope.

(* ---- decttl -------------------------------------------------------------------------------------
   The C walks an index from the last byte towards the first.  On the reversed value (least
   significant byte first) that is: *)
Fixpoint borrow (r : bytes) : option bytes :=
  match r with
  | [] => None
  | x :: r' => if x =? 0 then option_map (cons 255) (borrow r') else Some ((x - 1) :: r')
  end.

Definition nonzero (b : N) : bool := negb (b =? 0).

(* returns (result, new value); result 0 = exceeded, 1 = ok *)
Definition decttl (v : bytes) : N * bytes :=
  match rev v with
  | [] => (0, v)
  | x :: r =>
      if nonzero x then
        let x' := x - 1 in
        if nonzero x' then (1, rev (x' :: r))
        else ((if existsb nonzero r then 1 else 0), rev (x' :: r))
      else
        match borrow r with
        | None => (0, v)
        | Some r' => (1, rev (255 :: r'))
        end
  end.

(* ---- attributes -------------------------------------------------------------------------------*)
Record tlv := mkTlv { tlv_t : N; tlv_v : bytes }.
Definition tlv_l (a : tlv) : N := nlen (tlv_v a).

(* attrvalidate(attrs, length): fuel = number of bytes *)
Fixpoint attrvalidate_f (fuel : nat) (a : bytes) : bool :=
  match fuel with
  | O => true
  | S f =>
      match a with
      | [] | [_] => true
      | _ :: alen :: _ =>
          if alen <? 2 then false
          else if nlen a <? alen then false
          else attrvalidate_f f (skipn (N.to_nat alen) a)
      end
  end.
Definition attrvalidate (a : bytes) : bool := attrvalidate_f (length a) a.

(* the sub-attribute walk of checkttl: `while (sublen > 1)`; returns
   None if sub-type not found, Some (res, new subattrs) if found *)
Fixpoint subttl_f (fuel : nat) (sub : N) (a : bytes) : option (N * bytes) :=
  match fuel with
  | O => None
  | S f =>
      match a with
      | [] | [_] => None
      | ty :: alen :: rest =>
          let vl := N.to_nat (alen - 2) in
          if ty =? sub then
            let '(r, v') := decttl (firstn vl rest) in
            Some (r, ty :: alen :: v' ++ skipn vl rest)
          else
            match subttl_f f sub (skipn vl rest) with
            | None => None
            | Some (r, a') => Some (r, ty :: alen :: firstn vl rest ++ a')
            end
      end
  end.
Definition subttl (sub : N) (a : bytes) := subttl_f (length a) sub a.

(* TTL attribute type: (t0, t1); t1 = 256 means plain attribute t0, else vendor t0 sub-type t1 *)
Definition ttl_none : N := 2. (* encodes the C's -1 *)

Definition vendor_of (v : bytes) : N := be_value (firstn 4 v).

Fixpoint checkttl_plain (t0 : N) (attrs : list tlv) : N * list tlv :=
  match attrs with
  | [] => (ttl_none, [])
  | a :: rest =>
      if tlv_t a =? t0 then
        let '(r, v') := decttl (tlv_v a) in (r, mkTlv (tlv_t a) v' :: rest)
      else let '(r, rest') := checkttl_plain t0 rest in (r, a :: rest')
  end.

Fixpoint checkttl_vendor (t0 t1 : N) (attrs : list tlv) : N * list tlv :=
  match attrs with
  | [] => (ttl_none, [])
  | a :: rest =>
      let skip := let '(r, rest') := checkttl_vendor t0 t1 rest in (r, a :: rest') in
      if negb (tlv_t a =? Consts.RAD_Attr_Vendor_Specific) || (tlv_l a <=? 4) then skip
      else if negb (vendor_of (tlv_v a) =? t0) then skip
      else
        let subs := skipn 4 (tlv_v a) in
        if negb (attrvalidate subs) then skip
        else match subttl t1 subs with
             | Some (r, subs') => (r, mkTlv (tlv_t a) (firstn 4 (tlv_v a) ++ subs') :: rest)
             | None => skip
             end
  end.

Definition checkttl (t0 t1 : N) (attrs : list tlv) : N * list tlv :=
  if t1 =? 256 then checkttl_plain t0 attrs else checkttl_vendor t0 t1 attrs.

(* ---- addttlattr ---------------------------------------------------------------------------------*)
Definition ttl_value (addttl : N) : bytes := [0; 0; 0; addttl].

(* makevendortlv: vendor & 0x00ffffff, big endian, then sub-attribute *)
Definition makevendortlv (vendor : N) (a : tlv) : option tlv :=
  if Consts.RAD_Max_Attr_Value_Length - 6 <? tlv_l a then None
  else Some (mkTlv Consts.RAD_Attr_Vendor_Specific
               (be_encode 4 (vendor mod 16777216) ++ [tlv_t a; u8 (tlv_l a + 2)] ++ tlv_v a)).

(* radmsg_add with l <= 253 check; append at the end *)
Definition radmsg_add (attrs : list tlv) (a : tlv) : option (list tlv) :=
  if Consts.RAD_Max_Attr_Value_Length <? tlv_l a then None else Some (attrs ++ [a]).

Definition addttlattr (t0 t1 addttl : N) (attrs : list tlv) : list tlv :=
  if t1 =? 256 then
    match radmsg_add attrs (mkTlv (u8 t0) (ttl_value addttl)) with Some l => l | None => attrs end
  else
    match makevendortlv t0 (mkTlv (u8 t1) (ttl_value addttl)) with
    | Some va => match radmsg_add attrs va with Some l => l | None => attrs end
    | None => attrs
    end.

(* the TTL stage of radsrv / replyh: returns None when the message is discarded *)
Definition ttl_stage_check (t0 t1 : N) (attrs : list tlv) : option (N * list tlv) :=
  let '(r, attrs') := checkttl t0 t1 attrs in
  if r =? 0 then None else Some (r, attrs').

Definition ttl_stage_add (t0 t1 : N) (global_addttl peer_addttl : N) (ttlres : N) (attrs : list tlv) : list tlv :=
  if (ttlres =? ttl_none) && (negb (global_addttl =? 0) || negb (peer_addttl =? 0)) then
    addttlattr t0 t1 (if negb (peer_addttl =? 0) then peer_addttl else global_addttl) attrs
  else attrs.
