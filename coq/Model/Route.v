(* Model of realm matching and of the dynamic-realm extraction:
   addrealm's regex construction, a matcher for the ERE fragment it emits (glibc regexec with
   REG_EXTENDED|REG_ICASE|REG_NOSUB in the C locale: unanchored search), adddynamicrealmserver's
   sanitisation, dynamicconfig's query-name construction (radsecproxy.c).  Definitions only. *)
From RSP Require Import Base Consts.
Local Open Scope N_scope.

(* addrealm: the regular expression built for a realm block name *)
Definition esc_dots (name : bytes) : bytes := flat_map (fun c => if c =? 46 then [92; 46] else [c]) name.

Inductive realm_kind := RPlain | RStar | RRegex.
Definition realm_kind_of (name : bytes) : realm_kind :=
  match name with
  | 47 :: _ => RRegex
  | [42] => RStar
  | _ => RPlain
  end.

Definition realm_regex (name : bytes) : bytes :=
  match realm_kind_of name with
  | RRegex =>
      (* strip the leading '/', and an optional trailing '/' *)
      let body := tl name in
      match rev body with
      | 47 :: r => rev r
      | _ => body
      end
  | RStar => [46; 42]
  | RPlain => 64 :: esc_dots name ++ [36]
  end.

(* ---- the ERE fragment ---- *)
Inductive atom := ALit (c : N) | AAny | AAnyStar | AEnd.

(* compile the fragment: literals, "\x" escapes, ".", ".*", trailing "$" *)
Definition is_meta (c : N) : bool := existsb (N.eqb c) [42; 43; 63; 40; 41; 91; 93; 123; 125; 124; 94; 36; 92].

Fixpoint compile_f (fuel : nat) (re : bytes) : option (list atom) :=
  match fuel with
  | O => None
  | S f =>
      match re with
      | [] => Some []
      | c :: r =>
          if (c =? 36) && (match r with [] => true | _ => false end) then Some [AEnd]
          else if c =? 92 then
            match r with
            | d :: r' => option_map (cons (ALit d)) (compile_f f r')
            | [] => None
            end
          else if c =? 46 then
            match r with
            | d :: r' => if d =? 42 then option_map (cons AAnyStar) (compile_f f r')
                         else option_map (cons AAny) (compile_f f r)
            | [] => Some [AAny]
            end
          else if is_meta c then None
          else option_map (cons (ALit c)) (compile_f f r)
      end
  end.
Definition compile (re : bytes) : option (list atom) := compile_f (S (length re)) re.

Definition lower (b : N) : N := if (65 <=? b) && (b <=? 90) then b + 32 else b.
Definition ceq (a b : N) : bool := lower a =? lower b.

(* anchored match of the atoms at the start of s *)
Fixpoint match_here (atoms : list atom) (s : bytes) : bool :=
  match atoms with
  | [] => true
  | AEnd :: _ => match s with [] => true | _ => false end
  | ALit c :: r => match s with x :: s' => ceq c x && match_here r s' | [] => false end
  | AAny :: r => match s with _ :: s' => match_here r s' | [] => false end
  | AAnyStar :: r =>
      (fix star (t : bytes) : bool :=
         match_here r t || match t with _ :: t' => star t' | [] => false end) s
  end.

(* regexec: search at every position *)
Fixpoint ere_search (atoms : list atom) (s : bytes) : bool :=
  match_here atoms s || match s with _ :: s' => ere_search atoms s' | [] => false end.

(* does a (plain or star) realm block match a User-Name (C-string view)? *)
Definition realm_matches (name user : bytes) : option bool :=
  match compile (realm_regex name) with
  | Some a => Some (ere_search a user)
  | None => None
  end.

(* ---- dynamic realm extraction (adddynamicrealmserver) ---- *)
Fixpoint after_last_at (s : bytes) (acc : option bytes) : option bytes :=
  match s with
  | [] => acc
  | x :: r => after_last_at r (if x =? 64 then Some r else acc)
  end.

Definition realm_char_ok (c : N) : bool :=
  (c =? 46) || (c =? 45) || ((48 <=? c) && (c <=? 57)) || ((65 <=? c) && (c <=? 90)) || ((97 <=? c) && (c <=? 122)).

(* id is the User-Name value (a name with an embedded NUL is never routed); result: the lookup
   argument, if a lookup is started *)
Definition dynrealm (id : bytes) : option bytes :=
  if existsb (N.eqb 0) id then None else
  match after_last_at id None with
  | None => None
  | Some [] => None
  | Some r => if forallb realm_char_ok r then Some r else None
  end.

(* findserver on a realm block whose server is a dynamic placeholder: already discovered sub-realms
   are consulted first (id2realm recursion), otherwise a new one is created for the sanitised realm.
   State: names of the sub-realms created so far, in order.  Result: the lookup argument of the
   server the request is handed to, if any. *)
Definition dyn_step (subs : list bytes) (id : bytes) : list bytes * option bytes :=
  if existsb (N.eqb 0) id then (subs, None)
  else
    match find (fun n => match realm_matches n id with Some true => true | _ => false end) subs with
    | Some n => (subs, Some n)
    | None =>
        match dynrealm id with
        | Some r => (subs ++ [r], Some r)
        | None => (subs, None)
        end
    end.

(* dynamicconfig: the SRV query name for "srv:<prefix>" commands; naptr: queries the argument itself *)
Definition srv_query (command arg : bytes) : bytes :=
  let prefix := skipn 4 command in
  prefix ++ (match rev command with 46 :: _ => [] | _ => [46] end) ++ arg.

(* dynamicconfigsrv: the SRV records sorted by priority (insertion sort, stable, ascending), each turned into
   the host entry "target:port" of the dynamically configured server *)
Fixpoint dec_f (fuel : nat) (n : N) (acc : bytes) : bytes :=
  match fuel with
  | O => acc
  | S f => let acc' := (48 + n mod 10) :: acc in if n / 10 =? 0 then acc' else dec_f f (n / 10) acc'
  end.
Definition decimal (n : N) : bytes := dec_f 20 n [].

Fixpoint insert_prio (r : N * N * bytes) (l : list (N * N * bytes)) : list (N * N * bytes) :=
  match l with
  | [] => [r]
  | x :: t => if fst (fst r) <? fst (fst x) then r :: l else x :: insert_prio r t
  end.
Definition sort_prio (l : list (N * N * bytes)) : list (N * N * bytes) := fold_left (fun acc r => insert_prio r acc) l [].
(* records are (priority, port, target) *)
Definition srv_hostports (recs : list (N * N * bytes)) : list bytes :=
  map (fun r => snd r ++ [58] ++ decimal (snd (fst r))) (sort_prio recs).
