(* Model of the request/reply handlers and of the per-server writer pass:
   radsrv, respond, sendreply, addclientrq, purgedupcache, removeclientrq, rmclientrq, freerq,
   freerqoutdata, sendrq/_internal_sendrq, replyh, createstatsrvrq, one iteration of clientwr
   (radsecproxy.c).  Sequential semantics; requests live in a heap with reference counts.
   Oracles: md5, the regex engine.  Definitions only. *)
From RSP Require Import Base Consts Ttl Crypt Packet Rewrite Choose.
Local Open Scope N_scope.

(* ------------------------------------------------------------------ configuration *)
Record clconf := mkCl {
  cc_name : bytes; cc_type : N; cc_secret : bytes; cc_dupint : N; cc_addttl : N;
  cc_rwin : option rewrite; cc_rwout : option rewrite; cc_rwuser : option modattr;
  cc_reqma : bool; cc_reqmap : bool
}.

Record srvconf := mkSrvC {
  sc_name : bytes; sc_type : N; sc_secret : bytes; sc_statsrv : N; sc_retryint : N; sc_retrycount : N;
  sc_addttl : N; sc_loopprev : N; sc_rwin : option rewrite; sc_rwout : option rewrite; sc_reqma : bool
}.

Record realm := mkRealm {
  rl_rx : N; rl_msg : option bytes; rl_accresp : bool;
  rl_srv : list nat; rl_acc : list nat
}.

Record options := mkOpt {
  o_ttl0 : N; o_ttl1 : N; o_addttl : N; o_loopprev : bool; o_verifyeap : bool
}.

Record config := mkCfg {
  cf_opt : options; cf_clients : list clconf; cf_servers : list srvconf; cf_realms : list realm
}.

(* ------------------------------------------------------------------ state *)
Record request := mkRq {
  rq_created : Z; rq_refcount : N;
  rq_buf : option bytes; rq_replybuf : option bytes; rq_msg : option radmsg;
  rq_from : option nat; rq_to : option nat; rq_origuser : option bytes;
  rq_rqid : N; rq_rqauth : bytes; rq_newid : N
}.

Record slot := mkSlot { sl_rq : option nat; sl_tries : N; sl_expiry : Z }.
Definition empty_slot := mkSlot None 0 0%Z.

Record client := mkClient { c_rqs : list (option nat); c_replyq : list nat }.

Record server := mkServer {
  s_slots : list slot; s_nextid : N; s_lostrqs : N; s_connstate : N; s_statsrv : N;
  s_lastrcv : Z; s_lastreply : Z;
  (* locals of the writer thread that survive an iteration *)
  s_laststatsrv : Z; s_timeout : Z; s_newrq : bool; s_conreset : bool; s_statsrv_requested : bool
}.

Record state := mkState { st_heap : list (option request); st_clients : list client; st_servers : list server }.

Inductive out :=
| OEnq (srv : nat) (id : N) (pkt : bytes)          (* request placed in a server's table *)
| OTx (srv : nat) (id : N) (pkt : bytes)           (* handed to the transport by the writer *)
| OReply (cl : nat) (pkt : bytes)                  (* placed in a client's reply queue *)
| ORet (r : N)                                     (* handler return value *)
| OWake (t : Z).                                   (* wake-up time requested by the writer *)

(* ------------------------------------------------------------------ small helpers *)
Definition upd {A} (l : list A) (i : nat) (x : A) : list A := set_nth l i x.

Definition get_rq (st : state) (h : nat) : option request :=
  match nth_error (st_heap st) h with Some (Some r) => Some r | _ => None end.

Definition set_rq (st : state) (h : nat) (r : request) : state :=
  mkState (upd (st_heap st) h (Some r)) (st_clients st) (st_servers st).

Definition del_rq (st : state) (h : nat) : state :=
  mkState (upd (st_heap st) h None) (st_clients st) (st_servers st).

Definition alloc_rq (st : state) (r : request) : state * nat :=
  (mkState (st_heap st ++ [Some r]) (st_clients st) (st_servers st), length (st_heap st)).

Definition get_client (st : state) (c : nat) : client :=
  nth c (st_clients st) (mkClient [] []).
Definition set_client (st : state) (c : nat) (x : client) : state :=
  mkState (st_heap st) (upd (st_clients st) c x) (st_servers st).

Definition dummy_server := mkServer [] 0 0 0 0 0%Z 0%Z 0%Z 0%Z false false false.
Definition get_server (st : state) (s : nat) : server := nth s (st_servers st) dummy_server.
Definition set_server (st : state) (s : nat) (x : server) : state :=
  mkState (st_heap st) (st_clients st) (upd (st_servers st) s x).

Definition get_slot (sv : server) (i : N) : slot := nth (N.to_nat i) (s_slots sv) empty_slot.
Definition set_slot (sv : server) (i : N) (x : slot) : server :=
  mkServer (upd (s_slots sv) (N.to_nat i) x) (s_nextid sv) (s_lostrqs sv) (s_connstate sv) (s_statsrv sv)
           (s_lastrcv sv) (s_lastreply sv) (s_laststatsrv sv) (s_timeout sv) (s_newrq sv) (s_conreset sv) (s_statsrv_requested sv).

Definition upd_rq (st : state) (h : nat) (f : request -> request) : state :=
  match get_rq st h with Some r => set_rq st h (f r) | None => st end.
Definition rq_set_refcount r n := mkRq (rq_created r) n (rq_buf r) (rq_replybuf r) (rq_msg r) (rq_from r) (rq_to r) (rq_origuser r) (rq_rqid r) (rq_rqauth r) (rq_newid r).
Definition rq_set_buf r b := mkRq (rq_created r) (rq_refcount r) b (rq_replybuf r) (rq_msg r) (rq_from r) (rq_to r) (rq_origuser r) (rq_rqid r) (rq_rqauth r) (rq_newid r).
Definition rq_set_replybuf r b := mkRq (rq_created r) (rq_refcount r) (rq_buf r) b (rq_msg r) (rq_from r) (rq_to r) (rq_origuser r) (rq_rqid r) (rq_rqauth r) (rq_newid r).
Definition rq_set_msg r m := mkRq (rq_created r) (rq_refcount r) (rq_buf r) (rq_replybuf r) m (rq_from r) (rq_to r) (rq_origuser r) (rq_rqid r) (rq_rqauth r) (rq_newid r).
Definition rq_set_from r f := mkRq (rq_created r) (rq_refcount r) (rq_buf r) (rq_replybuf r) (rq_msg r) f (rq_to r) (rq_origuser r) (rq_rqid r) (rq_rqauth r) (rq_newid r).
Definition rq_set_to r t := mkRq (rq_created r) (rq_refcount r) (rq_buf r) (rq_replybuf r) (rq_msg r) (rq_from r) t (rq_origuser r) (rq_rqid r) (rq_rqauth r) (rq_newid r).
Definition rq_set_origuser r u := mkRq (rq_created r) (rq_refcount r) (rq_buf r) (rq_replybuf r) (rq_msg r) (rq_from r) (rq_to r) u (rq_rqid r) (rq_rqauth r) (rq_newid r).
Definition rq_set_ids r id auth := mkRq (rq_created r) (rq_refcount r) (rq_buf r) (rq_replybuf r) (rq_msg r) (rq_from r) (rq_to r) (rq_origuser r) id auth (rq_newid r).
Definition rq_set_newid r n := mkRq (rq_created r) (rq_refcount r) (rq_buf r) (rq_replybuf r) (rq_msg r) (rq_from r) (rq_to r) (rq_origuser r) (rq_rqid r) (rq_rqauth r) n.

(* newrqref / freerq *)
Definition newrqref (st : state) (h : nat) : state :=
  match get_rq st h with
  | Some r => set_rq st h (rq_set_refcount r (rq_refcount r + 1))
  | None => st
  end.

Definition freerq (st : state) (h : nat) : state :=
  match get_rq st h with
  | Some r => if rq_refcount r <=? 1 then del_rq st h else set_rq st h (rq_set_refcount r (rq_refcount r - 1))
  | None => st
  end.

(* freerqoutdata on slot i of server s *)
Definition freerqoutdata (st : state) (s : nat) (i : N) : state :=
  let sv := get_server st s in
  let sl := get_slot sv i in
  let st1 :=
    match sl_rq sl with
    | Some h =>
        match get_rq st h with
        | Some r => freerq (set_rq st h (rq_set_to (rq_set_buf r None) None)) h
        | None => st
        end
    | None => st
    end in
  set_server st1 s (set_slot (get_server st1 s) i empty_slot).

(* removeclientrq(client, i) *)
Definition removeclientrq (st : state) (c : nat) (i : N) : state :=
  let cl := get_client st c in
  match nth (N.to_nat i) (c_rqs cl) None with
  | None => st
  | Some h =>
      match get_rq st h with
      | None => st
      | Some r =>
          let st1 :=
            match rq_to r with
            | Some s =>
                let sl := get_slot (get_server st s) (rq_newid r) in
                match sl_rq sl with
                | Some h' => if Nat.eqb h' h then freerqoutdata st s (rq_newid r) else st
                | None => st
                end
            | None => st
            end in
          let cl1 := get_client st1 c in
          let st2 := set_client st1 c (mkClient (upd (c_rqs cl1) (N.to_nat i) None) (c_replyq cl1)) in
          freerq st2 h
      end
  end.

(* rmclientrq(rq, id): forgets the client's entry for id and detaches rq from its client *)
Definition rmclientrq (st : state) (h : nat) (id : N) : state :=
  match get_rq st h with
  | None => st
  | Some r =>
      match rq_from r with
      | None => st
      | Some c =>
          let cl := get_client st c in
          match nth (N.to_nat id) (c_rqs cl) None with
          | None => st
          | Some h' =>
              let st1 := set_client st c (mkClient (upd (c_rqs cl) (N.to_nat id) None) (c_replyq cl)) in
              let st2 := set_rq st1 h (rq_set_from r None) in
              freerq st2 h'
          end
      end
  end.

(* removeclient: the client association ends -- every cached request is cancelled (removeclientrqs),
   the reply queue is emptied releasing its references (removequeue) *)
(* the client writer has sent (or dropped) everything queued: the queue's references are released (removequeue /
   the writer's freerq after each reply) *)
Definition drain_replyq (st : state) (c : nat) : state :=
  let cl := get_client st c in
  let st2 := set_client st c (mkClient (c_rqs cl) []) in
  fold_left freerq (c_replyq cl) st2.

Definition removeclient (st : state) (c : nat) : state :=
  drain_replyq (fold_left (fun st i => removeclientrq st c (N.of_nat i)) (seq 0 256) st) c.

(* freeserver: the writer ended; every slot is released *)
Definition freeserver (st : state) (s : nat) : state :=
  fold_left (fun st i => freerqoutdata st s (N.of_nat i)) (seq 0 256) st.

(* ---------------------------------------------------------------- reference accounting (C17)
   holders of request h: client caches, reply queues, server slots *)
Definition occ_opt (h : nat) (l : list (option nat)) : N :=
  N.of_nat (length (filter (fun o => match o with Some h' => Nat.eqb h' h | None => false end) l)).
Definition occ (h : nat) (l : list nat) : N := N.of_nat (length (filter (Nat.eqb h) l)).
Definition sumN (l : list N) : N := fold_right N.add 0 l.
Definition refs (st : state) (h : nat) : N :=
  sumN (map (fun cl => occ_opt h (c_rqs cl) + occ h (c_replyq cl)) (st_clients st)) +
  sumN (map (fun sv => occ_opt h (map sl_rq (s_slots sv))) (st_servers st)).
(* between handler invocations: a live request's count equals its holders (and is positive); nobody holds
   a released one *)
Definition rc_ok_at (st : state) (h : nat) : bool :=
  match nth_error (st_heap st) h with
  | Some (Some r) => (rq_refcount r =? refs st h) && (0 <? rq_refcount r)
  | _ => refs st h =? 0
  end.
Definition rc_ok (st : state) : bool := forallb (rc_ok_at st) (seq 0 (length (st_heap st))).

Section Proxy.
  Variable md5 : bytes -> bytes.
  Variable rx : N -> bytes -> option (list (Z * Z)).
  Variable cfg : config.
  (* allocation-failure oracle (C19): "stage k of the handler runs out of memory".  The stages are the points
     where the C code allocates and has an error branch; the proxy's ordinary behaviour is the instance
     fs = fun _ => false.  Stage numbers: 1 request parse, 2 building a local reply, 3 serialising a reply,
     4 rewriteIn, 5 User-Name rewrite, 6 User-Name text, 7 CHAP-Challenge, 8 rewriteOut, 9 Message-Authenticator
     placeholder, 10 TTL attribute (silently skipped), 11/12 the attribute handed to a local reply (reply goes
     out without it), 13 Proxy-State copy (reply goes out without them), 14 reply-queue push, 15 realm lookup (treated as no realm),
     20.. the same for replyh, 40/41 building a Status-Server probe, 130+j the j-th Proxy-State copy,
     100+id serialising the request for slot id. *)
  Variable fs : N -> bool.
  (* written `if fs k then None else x` in place: the extracted code must not evaluate x (regex oracle calls) when the stage fails *)

  Definition clconf_of (c : nat) : clconf :=
    nth c (cf_clients cfg) (mkCl [] 0 [] 0 0 None None None false false).
  Definition srvconf_of (s : nat) : srvconf :=
    nth s (cf_servers cfg) (mkSrvC [] 0 [] 0 0 0 0 0 None None false).

  (* ---------------------------------------------------------------- sendreply *)
  (* rq->msg is serialised with the client's secret unless a reply is already stored;
     consumes one reference of h when it fails, otherwise the reply queue takes it over *)
  Definition sendreply (st : state) (h : nat) : state * list out :=
    match get_rq st h with
    | None => (st, [])
    | Some r =>
        match rq_from r with
        | None => (st, [])
        | Some c =>
            let rb :=
              match rq_replybuf r with
              | Some b => Some b
              | None =>
                  match rq_msg r with
                  | Some m => if fs 3 then None else
                              match radmsg2buf md5 m (cc_secret (clconf_of c)) with
                              | Ok (Some (b, _)) => Some b
                              | _ => None
                              end
                  | None => None
                  end
              end in
            let r1 := rq_set_msg (rq_set_replybuf r rb) None in
            let st1 := set_rq st h r1 in
            match (if fs 14 then None else rb) with
            | None => (freerq st1 h, [])
            | Some b =>
                let cl := get_client st1 c in
                (set_client st1 c (mkClient (c_rqs cl) (c_replyq cl ++ [h])), [OReply c b])
            end
        end
    end.

  (* radmsg_copy_attrs stops at the first copy it cannot allocate: a prefix is copied (stage 130+j = the j-th copy) *)
  Fixpoint copy_prefix (l : list tlv) (j : N) : list tlv :=
    match l with
    | [] => []
    | x :: r => if fs (130 + j) then [] else x :: copy_prefix r (j + 1)
    end.

  (* ---------------------------------------------------------------- respond *)
  Definition msgauth_placeholder : tlv := mkTlv Consts.RAD_Attr_Message_Authenticator (zeros 16).

  Definition respond (st : state) (h : nat) (code : N) (extra : option tlv) (add_ma : bool) : state * list out :=
    match get_rq st h with
    | None => (st, [])
    | Some r =>
        match rq_msg r with
        | None => (st, [])
        | Some m =>
            let a0 := if add_ma then [msgauth_placeholder] else [] in
            match (if fs 2 then None else (match extra with
                   | Some e => radmsg_add a0 e
                   | None => Some a0
                   end)) with
            | None => (st, [])
            | Some a1 =>
                let a2 := a1 ++ (if fs 13 then [] else copy_prefix (getalltype Consts.RAD_Attr_Proxy_State (m_attrs m)) 0) in
                let reply := mkMsg code (m_id m) (m_auth m) a2 false in
                let st1 := set_rq st h (rq_set_msg r (Some reply)) in
                sendreply (newrqref st1 h) h
            end
        end
    end.

  (* ---------------------------------------------------------------- duplicate cache *)
  Fixpoint purge_f (fuel : nat) (st : state) (c : nat) (i : nat) (now : Z) : state :=
    match fuel with
    | O => st
    | S f =>
        let cl := get_client st c in
        let st1 :=
          match nth i (c_rqs cl) None with
          | Some h =>
              match get_rq st h with
              | Some r =>
                  let dup := match rq_from r with Some c' => cc_dupint (clconf_of c') | None => 0 end in
                  if (Z.of_N dup <? now - rq_created r)%Z then removeclientrq st c (N.of_nat i) else st
              | None => st
              end
          | None => st
          end in
        purge_f f st1 c (S i) now
    end.
  Definition purgedupcache (st : state) (c : nat) (now : Z) : state := purge_f 256 st c 0 now.

  (* addclientrq: (true, st) = new request registered; (false, st, outs) = duplicate *)
  Definition addclientrq (st : state) (h : nat) (c : nat) (now : Z) : bool * state * list out :=
    match get_rq st h with
    | None => (false, st, [])
    | Some rq =>
        let cl := get_client st c in
        let register (st : state) :=
          let cl := get_client st c in
          (true, newrqref (set_client st c (mkClient (upd (c_rqs cl) (N.to_nat (rq_rqid rq)) (Some h)) (c_replyq cl))) h, []) in
        match nth (N.to_nat (rq_rqid rq)) (c_rqs cl) None with
        | None => register st
        | Some h' =>
            match get_rq st h' with
            | None => register st
            | Some r =>
                let dup := match rq_from r with Some c' => cc_dupint (clconf_of c') | None => 0 end in
                if beq_bytes (rq_rqauth rq) (rq_rqauth r) && (now - rq_created r <? Z.of_N dup)%Z then
                  match rq_replybuf r with
                  | Some _ => let '(st1, o) := sendreply (newrqref st h') h' in (false, st1, o)
                  | None => (false, st, [])
                  end
                else register (removeclientrq st c (rq_rqid rq))
            end
        end
    end.

  (* ---------------------------------------------------------------- sendrq *)
  (* _internal_sendrq: Some = inserted *)
  Definition internal_sendrq (st : state) (s : nat) (id : N) (h : nat) : option (state * list out) :=
    let sv := get_server st s in
    match sl_rq (get_slot sv id) with
    | Some _ => None
    | None =>
        match get_rq st h with
        | None => None
        | Some r =>
            match rq_msg r with
            | None => None
            | Some m =>
                let m1 := set_id m id in
                match (if fs (100 + id) then Ok None else radmsg2buf md5 m1 (sc_secret (srvconf_of s))) with
                | Ok (Some (b, auth')) =>
                    let r1 := rq_set_msg (rq_set_buf (rq_set_newid r id) (Some b)) (Some (set_auth m1 auth')) in
                    let st1 := set_rq st h r1 in
                    let sl := get_slot sv id in
                    Some (set_server st1 s (set_slot (get_server st1 s) id (mkSlot (Some h) (sl_tries sl) (sl_expiry sl))), [OEnq s id b])
                | _ => None
                end
            end
        end
    end.

  (* when serialisation fails _internal_sendrq returns 0 but has already stored id in rq->newid and
     rq->msg->id; the scan goes on with the next identifier, so only the last attempt is visible.
     The scan below mirrors `for (i = from; i < to; i++) if (_internal_sendrq(to, i, rq)) break;` *)
  Fixpoint scan_ids (fuel : nat) (st : state) (s : nat) (i : N) (limit : N) (h : nat) : option (N * state * list out) :=
    match fuel with
    | O => None
    | S f =>
        if limit <=? i then None
        else match internal_sendrq st s i h with
             | Some (st1, o) => Some (i, st1, o)
             | None => scan_ids f st s (i + 1) limit h
             end
    end.

  Definition set_nextid (sv : server) (n : N) : server :=
    mkServer (s_slots sv) n (s_lostrqs sv) (s_connstate sv) (s_statsrv sv) (s_lastrcv sv) (s_lastreply sv)
             (s_laststatsrv sv) (s_timeout sv) (s_newrq sv) (s_conreset sv) (s_statsrv_requested sv).
  Definition set_newrq (sv : server) (b : bool) : server :=
    mkServer (s_slots sv) (s_nextid sv) (s_lostrqs sv) (s_connstate sv) (s_statsrv sv) (s_lastrcv sv) (s_lastreply sv)
             (s_laststatsrv sv) (s_timeout sv) b (s_conreset sv) (s_statsrv_requested sv).

  (* sendrq: the caller's reference is taken over by the slot, or released on failure *)
  Definition sendrq (st : state) (h : nat) : state * list out :=
    match get_rq st h with
    | None => (st, [])
    | Some r =>
        let fail (st : state) :=
          let st1 := match get_rq st h with
                     | Some r' => match rq_from r' with Some _ => rmclientrq st h (rq_rqid r') | None => st end
                     | None => st
                     end in
          (freerq st1 h, []) in
        match rq_to r with
        | None => fail st
        | Some s =>
            let sv := get_server st s in
            let start : N := if s_statsrv sv =? Consts.RSP_STATSRV_OFF then 0 else 1 in
            let code := match rq_msg r with Some m => m_code m | None => 0 end in
            let signal (st : state) := set_server st s (set_newrq (get_server st s) true) in
            if negb (start =? 0) && (code =? Consts.RAD_Status_Server) then
              match internal_sendrq st s 0 h with
              | Some (st1, o) => (signal st1, o)
              | None => fail st
              end
            else
              let nextid := if s_nextid sv =? 0 then start else s_nextid sv in
              let st0 := set_server st s (set_nextid sv nextid) in
              match scan_ids 257 st0 s nextid Consts.MAX_REQUESTS h with
              | Some (i, st1, o) =>
                  let st2 := if start <=? i then set_server st1 s (set_nextid (get_server st1 s) (i + 1)) else st1 in
                  (signal st2, o)
              | None =>
                  match scan_ids 257 st0 s start nextid h with
                  | Some (i, st1, o) =>
                      let st2 := if start <=? i then set_server st1 s (set_nextid (get_server st1 s) (i + 1)) else st1 in
                      (signal st2, o)
                  | None => fail st0
                  end
              end
        end
    end.

  (* ---------------------------------------------------------------- radsrv *)
  Definition ensuremsgauthfront (attrs : list tlv) : list tlv :=
    msgauth_placeholder :: filter (fun a => negb (tlv_t a =? Consts.RAD_Attr_Message_Authenticator)) attrs.

  (* verifyeapformat *)
  Definition verifyeapformat (attrs : list tlv) : bool :=
    match getalltype Consts.RAD_Attr_EAP_Message attrs with
    | [] => true
    | (first :: _) as eaps =>
        if tlv_l first <? 4 then false
        else
          let eap_len := be_value (firstn 2 (skipn 2 (tlv_v first))) in
          if existsb (fun a => tlv_l a =? 0) eaps then false
          else eap_len =? fold_right (fun a acc => tlv_l a + acc) 0 eaps
    end.

  (* id2realm over static realms: first whose regex accepts the User-Name (as a C string) *)
  Fixpoint id2realm (realms : list realm) (id : bytes) : option realm :=
    match realms with
    | [] => None
    | r :: rest => match rx (rl_rx r) id with Some _ => Some r | None => id2realm rest id end
    end.

  Definition srv_view (st : state) (i : nat) : srv :=
    let sv := get_server st i in mkSrv false (s_connstate sv) (s_lostrqs sv).

  (* choosesrvconf on a realm's server list: chosen server index and state with desaturated counters *)
  Definition choose (st : state) (idxs : list nat) : option nat * state :=
    let '(c, l') := choosesrvconf (map (srv_view st) idxs) in
    let st' := fold_left (fun st (p : nat * srv) =>
                            let sv := get_server st (fst p) in
                            set_server st (fst p)
                              (mkServer (s_slots sv) (s_nextid sv) (s_lost (snd p)) (s_connstate sv) (s_statsrv sv) (s_lastrcv sv)
                                        (s_lastreply sv) (s_laststatsrv sv) (s_timeout sv) (s_newrq sv) (s_conreset sv) (s_statsrv_requested sv)))
                         (combine idxs l') st in
    (match c with Some k => nth_error idxs k | None => None end, st').

  Definition rewriteusername (v : bytes) (m : modattr) : option (bytes * option bytes) :=
    match dorewritemodattr rx v m with
    | None => None
    | Some v' =>
        (* "changed" is decided on the C-string view of the saved original *)
        if negb (nlen (cstr v) =? nlen v') || negb (beq_bytes (firstn (length v') (cstr v)) v')
        then Some (v', Some (cstr v)) else Some (v', None)
    end.

  Definition replace_first (t : N) (v : bytes) (attrs : list tlv) : list tlv :=
    (fix go (l : list tlv) : list tlv :=
       match l with
       | [] => []
       | a :: r => if tlv_t a =? t then mkTlv t v :: r else a :: go r
       end) attrs.

  Definition take_rand (rnd : bytes) (n : nat) : bytes * bytes :=
    (firstn n (rnd ++ zeros n), skipn n rnd).

  (* radsrv(rq): rq = fresh request h holding the received bytes in rq_buf, from client c *)
  Definition radsrv (st : state) (h : nat) (c : nat) (now : Z) (rnd : bytes) : state * list out :=
    match get_rq st h with
    | None => (st, [ORet 1])
    | Some r0 =>
        let cc := clconf_of c in
        let buf := match rq_buf r0 with Some b => b | None => [] end in
        let st := set_rq st h (rq_set_buf r0 None) in
        match (if fs 1 then None else (buf2radmsg md5 buf (cc_secret cc) None)) with
        | None => (freerq st h, [ORet 0])
        | Some msg =>
            if m_mainvalid msg then (freerq st h, [ORet 0])
            else
              let r1 := rq_set_ids (rq_set_msg (rq_set_buf r0 None) (Some msg)) (m_id msg) (m_auth msg) in
              let st := set_rq st h r1 in
              let code := m_code msg in
              let exit (st : state) (o : list out) := (freerq st h, o ++ [ORet 1]) in
              let rmclrqexit (st : state) (o : list out) := exit (rmclientrq st h (m_id msg)) o in
              if (code =? Consts.RAD_Disconnect_Request) || (code =? Consts.RAD_CoA_Request) then
                let nak := if code =? Consts.RAD_Disconnect_Request then Consts.RAD_Disconnect_NAK else Consts.RAD_CoA_NAK in
                let '(st1, o) := respond st h nak ((if fs 11 then None else (Some (mkTlv Consts.RAD_Attr_Error_Cause (be_encode 4 Consts.RAD_Err_Unsupported_Extension))))) true in
                exit st1 o
              else if negb ((code =? Consts.RAD_Access_Request) || (code =? Consts.RAD_Status_Server) || (code =? Consts.RAD_Accounting_Request)) then
                exit st []
              else
                let st := purgedupcache st c now in
                let '(isnew, st, o0) := addclientrq st h c now in
                if negb isnew then exit st o0
                else if code =? Consts.RAD_Status_Server then
                  let '(st1, o) := respond st h Consts.RAD_Access_Accept None true in exit st1 o
                else if (cc_reqma cc || cc_reqmap cc) && ((cc_type cc =? Consts.RAD_UDP) || (cc_type cc =? Consts.RAD_TCP)) &&
                        (code =? Consts.RAD_Access_Request) &&
                        (match gettype Consts.RAD_Attr_Message_Authenticator (m_attrs msg) with None => true | Some _ => false end) &&
                        (cc_reqma cc || (cc_reqmap cc && match gettype Consts.RAD_Attr_Proxy_State (m_attrs msg) with Some _ => true | None => false end))
                then exit st []
                else if o_verifyeap (cf_opt cfg) && (code =? Consts.RAD_Access_Request) && negb (verifyeapformat (m_attrs msg)) then
                  let '(st1, o) := respond st h Consts.RAD_Access_Reject None true in exit st1 o
                else
                  match (match cc_rwin cc with Some _ => (if fs 4 then None else (dorewrite rx (m_attrs msg) (cc_rwin cc))) | None => dorewrite rx (m_attrs msg) (cc_rwin cc) end) with
                  | None => rmclrqexit st []
                  | Some a1 =>
                      let st := upd_rq st h (fun r => rq_set_msg r (Some (set_attrs msg a1))) in
                      let '(ttlres, a2) := checkttl (o_ttl0 (cf_opt cfg)) (o_ttl1 (cf_opt cfg)) a1 in
                      let st := upd_rq st h (fun r => rq_set_msg r (Some (set_attrs msg a2))) in
                      if ttlres =? 0 then exit st []
                      else
                        match gettype Consts.RAD_Attr_User_Name a2 with
                        | None =>
                            if code =? Consts.RAD_Accounting_Request then
                              let '(st1, o) := respond st h Consts.RAD_Accounting_Response None false in exit st1 o
                            else exit st []
                        | Some ua =>
                            match (match cc_rwuser cc with
                                   | Some m => (if fs 5 then None else (rewriteusername (tlv_v ua) m))
                                   | None => Some (tlv_v ua, None)
                                   end) with
                            | None => rmclrqexit st []
                            | Some (uname, orig) =>
                                let a3 := replace_first Consts.RAD_Attr_User_Name uname a2 in
                                let st := upd_rq st h (fun r => rq_set_origuser (rq_set_msg r (Some (set_attrs msg a3))) orig) in
                                (* radattr2ascii(NULL value) fails for an empty User-Name *)
                                if (nlen uname =? 0) || fs 6 then rmclrqexit st []
                                else
                                  let acct := code =? Consts.RAD_Accounting_Request in
                                  match (if existsb (N.eqb 0) uname then None else (if fs 15 then None else (id2realm (cf_realms cfg) (cstr uname)))) with
                                  | None => exit st []
                                  | Some rl =>
                                      let '(to, st) := choose st (if acct then rl_acc rl else rl_srv rl) in
                                      match to with
                                      | None =>
                                          match rl_msg rl with
                                          | Some txt =>
                                              if code =? Consts.RAD_Access_Request then
                                                let '(st1, o) := respond st h Consts.RAD_Access_Reject ((if fs 12 then None else (Some (mkTlv Consts.RAD_Attr_Reply_Message txt)))) true in exit st1 o
                                              else if rl_accresp rl && acct then
                                                let '(st1, o) := respond st h Consts.RAD_Accounting_Response None false in exit st1 o
                                              else exit st []
                                          | None =>
                                              if rl_accresp rl && acct then
                                                let '(st1, o) := respond st h Consts.RAD_Accounting_Response None false in exit st1 o
                                              else exit st []
                                          end
                                      | Some s =>
                                          let sc := srvconf_of s in
                                          if ((sc_loopprev sc =? 1) || ((sc_loopprev sc =? 255) && o_loopprev (cf_opt cfg))) &&
                                             beq_bytes (cstr (cc_name cc)) (cstr (sc_name sc))
                                          then exit st []
                                          else
                                            (* CHAP-Challenge completion *)
                                            match (match gettype Consts.RAD_Attr_CHAP_Password a3, gettype Consts.RAD_Attr_CHAP_Challenge a3 with
                                                   | Some _, None => (if fs 7 then None else (Some (a3 ++ [mkTlv Consts.RAD_Attr_CHAP_Challenge (m_auth msg)])))
                                                   | _, _ => Some a3
                                                   end) with
                                            | None => rmclrqexit st []
                                            | Some a4 =>
                                            (* new Request Authenticator *)
                                            let newauth := if acct then zeros 16 else fst (take_rand rnd 16) in
                                            (* User-Password *)
                                            match (match gettype Consts.RAD_Attr_User_Password a4 with
                                                   | Some pa =>
                                                       match pwdrecrypt md5 (tlv_v pa) (cc_secret cc) (sc_secret sc) (m_auth msg) newauth [] [] with
                                                       | Some v' => Some (replace_first Consts.RAD_Attr_User_Password v' a4)
                                                       | None => None
                                                       end
                                                   | None => Some a4
                                                   end) with
                                            | None => rmclrqexit (upd_rq st h (fun r => rq_set_msg r (Some (set_auth (set_attrs msg a4) newauth)))) []
                                            | Some a5 =>
                                                match (match sc_rwout sc with Some _ => (if fs 8 then None else (dorewrite rx a5 (sc_rwout sc))) | None => dorewrite rx a5 (sc_rwout sc) end) with
                                                | None => rmclrqexit (upd_rq st h (fun r => rq_set_msg r (Some (set_auth (set_attrs msg a5) newauth)))) []
                                                | Some a6 =>
                                                    if (code =? Consts.RAD_Access_Request) && fs 9
                                                    then rmclrqexit (upd_rq st h (fun r => rq_set_msg r (Some (set_auth (set_attrs msg a6) newauth)))) []
                                                    else
                                                    let a7 := if code =? Consts.RAD_Access_Request then ensuremsgauthfront a6 else a6 in
                                                    let a8 := if fs 10 then a7 else ttl_stage_add (o_ttl0 (cf_opt cfg)) (o_ttl1 (cf_opt cfg)) (o_addttl (cf_opt cfg)) (sc_addttl sc) ttlres a7 in
                                                    let m8 := set_auth (set_attrs msg a8) newauth in
                                                    let st := upd_rq st h (fun r => rq_set_to (rq_set_msg r (Some m8)) (Some s)) in
                                                    let '(st1, o) := sendrq st h in
                                                    (st1, o ++ [ORet 1])
                                                end
                                            end
                                            end
                                      end
                                  end
                            end
                        end
                  end
        end
    end.

  (* ---------------------------------------------------------------- replyh *)
  Definition set_lost (sv : server) (n : N) : server :=
    mkServer (s_slots sv) (s_nextid sv) n (s_connstate sv) (s_statsrv sv) (s_lastrcv sv) (s_lastreply sv)
             (s_laststatsrv sv) (s_timeout sv) (s_newrq sv) (s_conreset sv) (s_statsrv_requested sv).
  Definition set_times (sv : server) (lastrcv lastreply : Z) : server :=
    mkServer (s_slots sv) (s_nextid sv) (s_lostrqs sv) (s_connstate sv) (s_statsrv sv) lastrcv lastreply
             (s_laststatsrv sv) (s_timeout sv) (s_newrq sv) (s_conreset sv) (s_statsrv_requested sv).
  Definition set_statsrv (sv : server) (m : N) : server :=
    mkServer (s_slots sv) (s_nextid sv) (s_lostrqs sv) (s_connstate sv) m (s_lastrcv sv) (s_lastreply sv)
             (s_laststatsrv sv) (s_timeout sv) (s_newrq sv) (s_conreset sv) (s_statsrv_requested sv).

  (* msmppe: re-encrypt every sub-attribute of type ty in a validated sub-attribute area *)
  Fixpoint msmppe_f (fuel : nat) (subs : bytes) (ty : N) (os ns oa na : bytes) : option bytes :=
    match fuel with
    | O => Some subs
    | S f =>
        match subs with
        | t :: alen :: rest =>
            let vl := N.to_nat (alen - 2) in
            let v := firstn vl rest in
            let tail := skipn vl rest in
            if t =? ty then
              match msmpprecrypt md5 v os ns oa na with
              | None => None
              | Some v' => option_map (fun x => t :: alen :: v' ++ x) (msmppe_f f tail ty os ns oa na)
              end
            else option_map (fun x => t :: alen :: v ++ x) (msmppe_f f tail ty os ns oa na)
        | _ => Some subs
        end
    end.

  Fixpoint ms_loop (attrs : list tlv) (os ns oa na : bytes) : option (list tlv) :=
    match attrs with
    | [] => Some []
    | a :: r =>
        if negb (tlv_t a =? Consts.RAD_Attr_Vendor_Specific) then option_map (cons a) (ms_loop r os ns oa na)
        else if tlv_l a <=? 4 then None
        else if negb (beq_bytes (firstn 4 (tlv_v a)) [0; 0; 1; 55]) then option_map (cons a) (ms_loop r os ns oa na)
        else
          let subs := skipn 4 (tlv_v a) in
          if negb (attrvalidate subs) then None
          else
            match msmppe_f (length subs) subs Consts.RAD_VS_ATTR_MS_MPPE_Send_Key os ns oa na with
            | None => None
            | Some s1 =>
                match msmppe_f (length s1) s1 Consts.RAD_VS_ATTR_MS_MPPE_Recv_Key os ns oa na with
                | None => None
                | Some s2 => option_map (cons (mkTlv (tlv_t a) (firstn 4 (tlv_v a) ++ s2))) (ms_loop r os ns oa na)
                end
            end
    end.

  (* Tunnel-Password re-encryption of every attribute 69 (Access-Accept only); fresh 2-byte salts
     are drawn from rnd, high bit of the first byte set *)
  Fixpoint tunnelpwd_loop (attrs : list tlv) (os ns oa na rnd : bytes) : option (list tlv) :=
    match attrs with
    | [] => Some []
    | a :: r =>
        if negb (tlv_t a =? Consts.RAD_Attr_Tunnel_Password) then option_map (cons a) (tunnelpwd_loop r os ns oa na rnd)
        else
          let '(salt0, rnd') := take_rand rnd 2 in
          let newsalt := match salt0 with x :: y :: _ => [N.lor x 128; y] | _ => [128; 0] end in
          if tlv_l a <? 3 then None
          else
            match pwdrecrypt md5 (skipn 3 (tlv_v a)) os ns oa na (firstn 2 (skipn 1 (tlv_v a))) newsalt with
            | None => None
            | Some v' => option_map (cons (mkTlv (tlv_t a) (firstn 1 (tlv_v a) ++ newsalt ++ v'))) (tunnelpwd_loop r os ns oa na rnd')
            end
    end.

  Definition reply_codes (c : N) : bool :=
    (c =? Consts.RAD_Access_Accept) || (c =? Consts.RAD_Access_Reject) || (c =? Consts.RAD_Access_Challenge) ||
    (c =? Consts.RAD_Accounting_Response).

  Definition replyh (st : state) (s : nat) (buf : bytes) (now : Z) (rnd : bytes) : state * list out :=
    let sc := srvconf_of s in
    let st := set_server st s (set_lost (get_server st s) 0) in
    let id := nth 1 buf 0 in
    let sl := get_slot (get_server st s) id in
    let rqo := match sl_rq sl with Some h => match get_rq st h with Some r => Some (h, r) | None => None end | None => None end in
    let rqauth := match rqo with Some (_, r) => match rq_msg r with Some m => Some (m_auth m) | None => None end | None => None end in
    match (if fs 20 then None else (buf2radmsg md5 buf (sc_secret sc) rqauth)) with
    | None => (st, [ORet 0])
    | Some msg =>
        let code := m_code msg in
        if negb (reply_codes code) then (st, [ORet 1])
        else
          match rqo with
          | None => (st, [ORet 1])
          | Some (h, r) =>
              if sl_tries sl =? 0 then (st, [ORet 1])
              else if m_mainvalid msg then (st, [ORet 0])
              else if sc_reqma sc && ((sc_type sc =? Consts.RAD_UDP) || (sc_type sc =? Consts.RAD_TCP)) && reply_code code &&
                      (match gettype Consts.RAD_Attr_Message_Authenticator (m_attrs msg) with None => true | Some _ => false end)
              then (st, [ORet 1])
              else
                let sv := get_server st s in
                let st := set_server st s (set_times sv now (s_lastreply sv)) in
                let rqcode := match rq_msg r with Some m => m_code m | None => 0 end in
                if rqcode =? Consts.RAD_Status_Server then
                  let st := freerqoutdata st s id in
                  let sv := get_server st s in
                  let st := if s_statsrv sv =? Consts.RSP_STATSRV_AUTO then set_server st s (set_statsrv sv Consts.RSP_STATSRV_MINIMAL) else st in
                  (st, [ORet 1])
                else
                  let sv := get_server st s in
                  let st := set_server st s (set_times sv (s_lastrcv sv) now) in
                  match (match sc_rwin sc with Some _ => (if fs 21 then None else (dorewrite rx (m_attrs msg) (sc_rwin sc))) | None => dorewrite rx (m_attrs msg) (sc_rwin sc) end) with
                  | None => (st, [ORet 1])
                  | Some a1 =>
                      let '(ttlres, a2) := checkttl (o_ttl0 (cf_opt cfg)) (o_ttl1 (cf_opt cfg)) a1 in
                      if ttlres =? 0 then (st, [ORet 1])
                      else
                        match rq_from r with
                        | None => (st, [ORet 1])
                        | Some c =>
                            let cc := clconf_of c in
                            let fwdauth := match rq_buf r with Some b => firstn 16 (skipn 4 b) | None => [] end in
                            match ms_loop a2 (sc_secret sc) (cc_secret cc) fwdauth (rq_rqauth r) with
                            | None => (st, [ORet 1])
                            | Some a3 =>
                                let rqmsgauth := match rq_msg r with Some m => m_auth m | None => [] end in
                                match (if code =? Consts.RAD_Access_Accept
                                       then tunnelpwd_loop a3 (sc_secret sc) (cc_secret cc) rqmsgauth (rq_rqauth r) rnd
                                       else Some a3) with
                                | None => (st, [ORet 1])
                                | Some a4 =>
                                    (* restore the client's original User-Name *)
                                    match (match rq_origuser r, gettype Consts.RAD_Attr_User_Name a4 with
                                           | Some ou, Some _ =>
                                               if Consts.RAD_Max_Attr_Value_Length <? nlen ou then None
                                               else (if fs 24 then None else (Some (replace_first Consts.RAD_Attr_User_Name ou a4)))
                                           | _, _ => Some a4
                                           end) with
                                    | None => (st, [ORet 1])
                                    | Some a5 =>
                                        match (match cc_rwout cc with Some _ => (if fs 25 then None else (dorewrite rx a5 (cc_rwout cc))) | None => dorewrite rx a5 (cc_rwout cc) end) with
                                        | None => (st, [ORet 1])
                                        | Some a6 =>
                                            if reply_code code && fs 29 then (st, [ORet 1]) else
                                            let a7 := if reply_code code then ensuremsgauthfront a6 else a6 in
                                            let a8 := if fs 30 then a7 else ttl_stage_add (o_ttl0 (cf_opt cfg)) (o_ttl1 (cf_opt cfg)) (o_addttl (cf_opt cfg)) (cc_addttl cc) ttlres a7 in
                                            let reply := mkMsg code (rq_rqid r) (rq_rqauth r) a8 false in
                                            let st := set_rq st h (rq_set_msg r (Some reply)) in
                                            let '(st, o) := sendreply (newrqref st h) h in
                                            (freerqoutdata st s id, o ++ [ORet 1])
                                        end
                                    end
                                end
                            end
                        end
                  end
          end
    end.

  (* ---------------------------------------------------------------- one release of the writer thread *)
  Definition incrementlostrqs (sv : server) : server :=
    if s_lostrqs sv <? Consts.MAX_LOSTRQS then set_lost sv (s_lostrqs sv + 1) else sv.

  Definition min_timeout (t e : Z) : Z := if (t =? 0)%Z || (e <? t)%Z then e else t.

  Definition set_wr (sv : server) (laststatsrv timeout : Z) (newrq conreset requested : bool) : server :=
    mkServer (s_slots sv) (s_nextid sv) (s_lostrqs sv) (s_connstate sv) (s_statsrv sv) (s_lastrcv sv) (s_lastreply sv)
             laststatsrv timeout newrq conreset requested.

  (* what the writer does with one occupied slot it visits *)
  Inductive action := ASkip | APurgeProbe | AAbandon | ASend.

  (* (action, tries afterwards, expiry afterwards); for ASkip/APurgeProbe/AAbandon the counters are those
     before the slot is released (purge/abandon) or unchanged (skip) *)
  Definition slot_action (retryint retrycount : N) (isprobe do_resend : bool) (now : Z) (tries : N) (expiry : Z) : action * N * Z :=
    if negb do_resend && (now <? expiry)%Z then (ASkip, tries, expiry)
    else
      let tries1 := if do_resend && (0 <? tries) then tries - 1 else tries in
      if do_resend && isprobe then (APurgeProbe, tries1, expiry)
      else if tries1 =? (if isprobe then 1 else retrycount + 1) then (AAbandon, tries1, expiry)
      else (ASend, tries1 + 1, (now + Z.of_N retryint)%Z).

  (* what abandoning a request does to the server's counters: with status-server on/minimal only unanswered
     probes count; with auto a lost probe counts nothing (and may switch status-server off); otherwise every
     abandoned request counts *)
  Definition abandon_server (sv1 : server) (isprobe : bool) : server :=
    let mode := s_statsrv sv1 in
    if (mode =? Consts.RSP_STATSRV_ON) || (mode =? Consts.RSP_STATSRV_MINIMAL) then
      (if isprobe then incrementlostrqs sv1 else sv1)
    else if (mode =? Consts.RSP_STATSRV_AUTO) && isprobe then
      (if (s_laststatsrv sv1 <=? s_lastreply sv1)%Z then set_statsrv sv1 Consts.RSP_STATSRV_OFF else sv1)
    else incrementlostrqs sv1.

  (* the `for (i = 0; i < MAX_REQUESTS; i++)` loop over occupied slots *)
  (* tick: seconds the clock advances during each transmission (0 in the ordinary runs; the time of a slot is read
     when the slot is visited, not when the pass starts) *)
  Fixpoint slots_pass (fuel : nat) (st : state) (s : nat) (i : nat) (now tick : Z) (do_resend putfail : bool) : state * list out :=
    match fuel with
    | O => (st, [])
    | S f =>
        let sv := get_server st s in
        let sc := srvconf_of s in
        let sl := get_slot sv (N.of_nat i) in
        let next_at (now' : Z) (st : state) (o : list out) := let '(st', o') := slots_pass f st s (S i) now' tick do_resend putfail in (st', o ++ o') in
        let next := next_at now in
        match sl_rq sl with
        | None => next st []
        | Some h =>
            match get_rq st h with
            | None => next st []
            | Some r =>
                let buf := match rq_buf r with Some b => b | None => [] end in
                let isprobe := nth 0 buf 0 =? Consts.RAD_Status_Server in
                let '(act, tries, expiry) := slot_action (sc_retryint sc) (sc_retrycount sc) isprobe do_resend now (sl_tries sl) (sl_expiry sl) in
                match act with
                | ASkip =>
                    next (set_server st s (set_wr sv (s_laststatsrv sv) (min_timeout (s_timeout sv) (sl_expiry sl)) (s_newrq sv) (s_conreset sv) (s_statsrv_requested sv))) []
                | _ =>
                    let tries1 := if do_resend && (0 <? sl_tries sl) then sl_tries sl - 1 else sl_tries sl in
                    let requested := if (0 <? tries1) && (Z.of_N (sc_retryint sc) <? now - s_lastrcv sv)%Z && negb do_resend then true else s_statsrv_requested sv in
                    let sv1 := set_slot (set_wr sv (s_laststatsrv sv) (s_timeout sv) (s_newrq sv) (s_conreset sv) requested) (N.of_nat i) (mkSlot (Some h) tries1 (sl_expiry sl)) in
                    let st1 := set_server st s sv1 in
                    match act with
                    | APurgeProbe => next (freerqoutdata st1 s (N.of_nat i)) []
                    | AAbandon =>
                        next (freerqoutdata (set_server st1 s (abandon_server sv1 isprobe)) s (N.of_nat i)) []
                    | _ =>
                        let sv2 := set_slot (set_wr sv1 (s_laststatsrv sv1) (min_timeout (s_timeout sv1) expiry) (s_newrq sv1) (s_conreset sv1) (s_statsrv_requested sv1))
                                     (N.of_nat i) (mkSlot (Some h) tries expiry) in
                        let sv3 := if putfail then incrementlostrqs sv2 else sv2 in
                        next_at (now + tick)%Z (set_server st1 s sv3) [OTx s (N.of_nat i) buf]
                    end
                end
            end
        end
    end.

  Definition createstatsrvrq (st : state) (s : nat) (now : Z) (rnd : bytes) : state * nat :=
    let m := mkMsg Consts.RAD_Status_Server 0 (fst (take_rand rnd 16)) [msgauth_placeholder] false in
    alloc_rq st (mkRq now 1 None None (Some m) None (Some s) None 0 (zeros 16) 0).

  (* one loop iteration after the wait returned; a probe draws 16 random bytes for its authenticator.
     Returns the unused random bytes *)
  Definition count_tx (o : list out) : Z := Z.of_nat (length (filter (fun x => match x with OTx _ _ _ => true | _ => false end) o)).

  Definition writer_iteration (st : state) (s : nat) (now tick : Z) (rnd : bytes) (putfail : bool) : state * list out * bytes :=
    let sv := get_server st s in
    let sc := srvconf_of s in
    let do_resend := s_conreset sv in
    let sv := if s_conreset sv then set_times sv now (s_lastreply sv) else sv in
    let requested := if do_resend || (s_laststatsrv sv <? s_lastrcv sv)%Z then false else s_statsrv_requested sv in
    let st := set_server st s (set_wr sv (s_laststatsrv sv) (s_timeout sv) false false requested) in
    let '(st, o1) := slots_pass 256 st s 0 now tick do_resend putfail in
    let now := (now + tick * count_tx o1)%Z in       (* gettimeofday again after the table was walked *)
    let sv := get_server st s in
    let mode := s_statsrv sv in
    let last := Z.max (s_lastrcv sv) (s_laststatsrv sv) in
    let period := Z.of_N Consts.STATUS_SERVER_PERIOD in
    if (s_connstate sv =? Consts.RSP_SERVER_STATE_CONNECTED) && negb (mode =? Consts.RSP_STATSRV_OFF) &&
       (((mode =? Consts.RSP_STATSRV_ON) && (period <? now - last)%Z) ||
        (((mode =? Consts.RSP_STATSRV_MINIMAL) || (mode =? Consts.RSP_STATSRV_ON)) && s_statsrv_requested sv && (period <? now - s_laststatsrv sv)%Z) ||
        ((mode =? Consts.RSP_STATSRV_AUTO) && (s_laststatsrv sv <=? s_lastreply sv)%Z))
    then
      let st := set_server st s (set_wr sv now (s_timeout sv) (s_newrq sv) (s_conreset sv) false) in
      (* createstatsrvrq runs out of memory: no probe this time (40: before the authenticator was drawn, 41: after) *)
      if fs 40 then (st, o1, rnd)
      else if fs 41 then (st, o1, skipn 16 rnd)
      else
      let '(st, h) := createstatsrvrq st s now rnd in
      let '(st, o2) := sendrq st h in
      (st, o1 ++ o2, skipn 16 rnd)
    else (st, o1, rnd).

  (* the computation before the next wait: requested wake-up time *)
  Definition prewait (st : state) (s : nat) (now : Z) (rndbyte : N) : state * list out :=
    let sv := get_server st s in
    let jitter := Z.of_N (rndbyte / 32) in
    let period := Z.of_N Consts.STATUS_SERVER_PERIOD in
    let base :=
      if negb (s_statsrv sv =? Consts.RSP_STATSRV_OFF) then
        let secs := Z.max (s_lastrcv sv) (s_laststatsrv sv) in
        if (period <? now - secs)%Z then now else secs
      else now in
    let cand := (base + period + jitter)%Z in
    let t := if (s_timeout sv =? 0)%Z || (cand <? s_timeout sv)%Z then cand else s_timeout sv in
    (set_server st s (set_wr sv (s_laststatsrv sv) 0%Z (s_newrq sv) (s_conreset sv) (s_statsrv_requested sv)), [OWake t]).

  (* releasing the parked writer once: iterations run until it parks again (newrq clear) *)
  Fixpoint writer_release (fuel : nat) (st : state) (s : nat) (now tick : Z) (rnd : bytes) (putfail : bool) : state * list out :=
    match fuel with
    | O => (st, [])
    | S f =>
        let '(st, o1, rnd') := writer_iteration st s now tick rnd putfail in
        let now := (now + tick * count_tx o1)%Z in
        if s_newrq (get_server st s) then
          let '(st, o2) := writer_release f st s now tick rnd' putfail in (st, o1 ++ o2)
        else
          let '(st, o2) := prewait st s now (nth 0 rnd' 0) in (st, o1 ++ o2)
    end.
End Proxy.

(* ---------------------------------------------------------------- histories
   The operations the threads perform on the shared request state, one at a time (sequential semantics), each
   under its own allocation-failure oracle. *)
Inductive hop :=
| HRecv (c : nat) (now : Z) (rnd pkt : bytes) (fs : N -> bool)                  (* a client's packet is handed to radsrv *)
| HReply (s : nat) (buf : bytes) (now : Z) (rnd : bytes) (fs : N -> bool)      (* a server's packet is handed to replyh *)
| HWriter (s : nat) (now tick : Z) (rnd : bytes) (putfail : bool) (fs : N -> bool)  (* the server writer is released once *)
| HDrain (c : nat)                                                              (* the client writer empties its queue *)
| HClientGone (c : nat)                                                         (* removeclient *)
| HServerGone (s : nat).                                                        (* freeserver *)

Definition new_request (c : nat) (now : Z) (pkt : bytes) : request :=
  mkRq now 1 (Some pkt) None None (Some c) None None 0 (zeros 16) 0.

Definition hstep (md5 : bytes -> bytes) (rx : N -> bytes -> option (list (Z * Z))) (cfg : config) (st : state) (op : hop) : state :=
  match op with
  | HRecv c now rnd pkt fs => let '(st1, h) := alloc_rq st (new_request c now pkt) in fst (radsrv md5 rx cfg fs st1 h c now rnd)
  | HReply s buf now rnd fs => fst (replyh md5 rx cfg fs st s buf now rnd)
  | HWriter s now tick rnd putfail fs => fst (writer_release md5 cfg fs 4 st s now tick rnd putfail)
  | HDrain c => drain_replyq st c
  | HClientGone c => removeclient st c
  | HServerGone s => freeserver st s
  end.

Definition init_state (nclients nservers : nat) : state :=
  mkState [] (repeat (mkClient (repeat None 256) []) nclients)
             (repeat (mkServer (repeat empty_slot 256) 0 0 0 0 0%Z 0%Z 0%Z 0%Z false false false) nservers).
