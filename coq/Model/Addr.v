(* Model of the address matching of hostport.c (prefixmatch, _internal_addressmatches via
   addressmatches) and of find_conf (radsecproxy.c).  Definitions only. *)
From RSP Require Import Base Consts.
Local Open Scope N_scope.

Inductive fam := V4 | V6.
Definition fam_eqb (a b : fam) : bool := match a, b with V4, V4 | V6, V6 => true | _, _ => false end.

Record hostport := mkHp { hp_fam : fam; hp_addr : bytes; hp_port : N; hp_plen : N (* 255 = host entry *) }.
Record source := mkSrc { src_fam : fam; src_addr : bytes; src_port : N }.

(* prefixmatch(a1, a2, len): memcmp of len/8 bytes, then the masked byte *)
Definition prefixmatch (a b : bytes) (len : N) : bool :=
  let l := N.to_nat (len / 8) in
  let r := len mod 8 in
  if negb (l =? 0)%nat && negb (beq_bytes (firstn l a) (firstn l b)) then false
  else if r =? 0 then true
  else N.land (nth l a 0) (nth (N.to_nat r) Consts.prefix_mask 0) =? N.land (nth l b 0) (nth (N.to_nat r) Consts.prefix_mask 0).

(* IN6_IS_ADDR_V4MAPPED: ::ffff:a.b.c.d *)
Definition v4mapped (a : bytes) : bool := beq_bytes (firstn 12 a) [0;0;0;0;0;0;0;0;0;0;255;255].

Definition normalize (s : source) : source :=
  match src_fam s with
  | V6 => if v4mapped (src_addr s) then mkSrc V4 (skipn 12 (src_addr s)) (src_port s) else s
  | V4 => s
  end.

Definition full_len (f : fam) : N := match f with V4 => 32 | V6 => 128 end.

Definition entry_matches (h : hostport) (s : source) (checkport : bool) : bool :=
  let s := normalize s in
  if full_len (hp_fam h) <=? hp_plen h then
    fam_eqb (hp_fam h) (src_fam s) && beq_bytes (src_addr s) (hp_addr h) && (negb checkport || (hp_port h =? src_port s))
  else
    fam_eqb (hp_fam h) (src_fam s) && prefixmatch (src_addr s) (hp_addr h) (hp_plen h).

Definition addressmatches (hps : list hostport) (s : source) (checkport : bool) : bool :=
  existsb (fun h => entry_matches h s checkport) hps.

(* find_conf: first block of the transport whose host list matches, starting after position `from` *)
Record peerblock := mkBlock { b_type : N; b_hosts : list hostport }.

Fixpoint find_conf_from (blocks : list peerblock) (i : nat) (ty : N) (s : source) (checkport : bool) : option nat :=
  match blocks with
  | [] => None
  | b :: r => if (b_type b =? ty) && addressmatches (b_hosts b) s checkport then Some i
              else find_conf_from r (S i) ty s checkport
  end.
Definition find_conf (blocks : list peerblock) (ty : N) (s : source) (checkport : bool) : option nat :=
  find_conf_from blocks 0 ty s checkport.

(* configuration-time validation of a prefix length (newhostport + resolvehostport) *)
Definition plen_ok (h : hostport) : bool := (hp_plen h =? 255) || (hp_plen h <=? full_len (hp_fam h)).
