(* Model of pwdcrypt / pwdrecrypt / msmppencrypt / msmppdecrypt / msmpprecrypt (radsecproxy.c:587-926).
   The digest is an oracle (Section variable).  Definitions only. *)
From RSP Require Import Base Consts.
Local Open Scope N_scope.

Fixpoint xor_bytes (a b : bytes) : bytes :=
  match a, b with
  | x :: a', y :: b' => N.lxor x y :: xor_bytes a' b'
  | _, _ => []
  end.

(* split into 16-byte blocks; the last block may be short *)
Fixpoint chunks_f (fuel : nat) (l : bytes) : list bytes :=
  match fuel with
  | O => []
  | S f => match l with
           | [] => []
           | _ => firstn 16 l :: chunks_f f (skipn 16 l)
           end
  end.
Definition chunks16 (l : bytes) : list bytes := chunks_f (length l) l.

Section Crypt.
  Variable md5 : bytes -> bytes.

  (* pwdcrypt: out[offset+i] = hash[i] ^ in[offset+i]; the next block is keyed with the previous
     ciphertext block: `out` when encrypting, `in` when decrypting; salt only for the first block *)
  Fixpoint pwd_blocks (enc : bool) (shared input salt : bytes) (blocks : list bytes) : list bytes :=
    match blocks with
    | [] => []
    | b :: r =>
        let o := xor_bytes (md5 (shared ++ input ++ salt)) b in
        o :: pwd_blocks enc shared (if enc then o else b) [] r
    end.

  Definition pwdcrypt (enc : bool) (v shared auth salt : bytes) : bytes :=
    concat (pwd_blocks enc shared auth salt (chunks16 v)).

  Definition pwd_len_ok (len : N) : bool :=
    negb ((len <? Consts.PWD_MIN) || (Consts.PWD_MAX <? len) || negb (len mod Consts.PWD_BLOCK =? 0)).

  (* pwdrecrypt: None = rejected *)
  Definition pwdrecrypt (v oldsecret newsecret oldauth newauth oldsalt newsalt : bytes) : option bytes :=
    if pwd_len_ok (nlen v) then
      Some (pwdcrypt true (pwdcrypt false v oldsecret oldauth oldsalt) newsecret newauth newsalt)
    else None.

  (* msmppencrypt / msmppdecrypt have the same chaining, with the 2-byte salt in the first digest *)
  Definition msmppdecrypt (text shared auth salt : bytes) : bytes := pwdcrypt false text shared auth salt.
  Definition msmppencrypt (text shared auth salt : bytes) : bytes := pwdcrypt true text shared auth salt.

  Definition mppe_len_ok (len : N) : bool :=
    negb (len <? Consts.MPPE_MIN) && ((len - 2) mod 16 =? 0).

  (* msmpprecrypt on the sub-attribute value: salt(2) ++ key *)
  Definition msmpprecrypt (v oldsecret newsecret oldauth newauth : bytes) : option bytes :=
    if mppe_len_ok (nlen v) then
      let salt := firstn 2 v in
      let key := skipn 2 v in
      Some (salt ++ msmppencrypt (msmppdecrypt key oldsecret oldauth salt) newsecret newauth salt)
    else None.
End Crypt.
