(* C12, connection re-establishment: the handshake between a connecter (tcpconnect / tlsconnect / dtlsconnect) and
   the writer of the same server.  Definitions only.

   The connecter is the sequence of its steps on the shared fields (the order is regenerated from the source on
   every run: the Consts.connecter_ tables).  The writer's pass (clientwr) reads and clears the reset flag under newrq_mutex
   and then visits the slots; a write reaches the peer only while the state is CONNECTED (clientradputtcp & co
   refuse otherwise).  A schedule interleaves the two in any way. *)
From RSP Require Import Base Consts.
Local Open Scope N_scope.

Inductive cstep := CDown | CUp | CRaise | CSignal | COther.

Definition cstep_of (n : N) : cstep :=
  if n =? 1 then CDown else if n =? 2 then CUp else if n =? 3 then CRaise else if n =? 4 then CSignal else COther.

(* what the writer sees of the connection: usable?, which connection (counted), reset flag *)
Record link := mkLink { l_up : bool; l_gen : nat; l_cr : bool }.

Definition conn_step (c : cstep) (l : link) : link :=
  match c with
  | CDown => mkLink false (l_gen l) (l_cr l)
  | CUp => mkLink true (S (l_gen l)) (l_cr l)
  | CRaise => mkLink (l_up l) (l_gen l) true
  | CSignal | COther => l
  end.

(* one pass of the writer: when, whether it re-sends everything (do_resend), and on what it writes *)
Record pass := mkPass { p_now : Z; p_resend : bool; p_up : bool; p_gen : nat }.

(* a schedule: None = the connecter performs its next step, Some now = the writer makes a pass at time now *)
Fixpoint run (prog : list cstep) (sch : list (option Z)) (l : link) : list pass :=
  match sch with
  | [] => []
  | None :: r => match prog with [] => run [] r l | c :: p => run p r (conn_step c l) end
  | Some now :: r => mkPass now (l_cr l) (l_up l) (l_gen l) :: run prog r (mkLink (l_up l) (l_gen l) false)
  end.

(* the writer makes a pass after the connecter has performed n steps *)
Fixpoint wake_after (n : nat) (sch : list (option Z)) : bool :=
  match sch with
  | [] => false
  | None :: r => wake_after (pred n) r
  | Some _ :: r => match n with O => true | _ => wake_after n r end
  end.

(* ---- the order a connecter must keep *)
Fixpoint split_at_raise (prog : list cstep) : option (list cstep * list cstep) :=
  match prog with
  | [] => None
  | CRaise :: r => Some ([], r)
  | c :: r => match split_at_raise r with Some (a, b) => Some (c :: a, b) | None => None end
  end.
Fixpoint ends_up (pre : list cstep) (up : bool) : bool :=
  match pre with
  | [] => up
  | CDown :: r => ends_up r false
  | CUp :: r => ends_up r true
  | _ :: r => ends_up r up
  end.
Definition quiet (c : cstep) : bool := match c with CSignal | COther => true | _ => false end.
Definition is_signal (c : cstep) : bool := match c with CSignal => true | _ => false end.
Fixpoint signal_index (post : list cstep) : nat :=
  match post with [] => 0 | CSignal :: _ => 1 | _ :: r => S (signal_index r) end.
Definition count_up (prog : list cstep) : nat := length (filter (fun c => match c with CUp => true | _ => false end) prog).

(* the flag is raised once, after the state has been set to CONNECTED for the last time, and the writer is
   signalled afterwards; nothing touches state or flag after that *)
Definition handshake_ok (prog : list cstep) : bool :=
  match split_at_raise prog with
  | Some (pre, post) => ends_up pre false && forallb quiet post && existsb is_signal post
  | None => false
  end.
(* number of connecter steps up to and including the signal *)
Definition signalled_at (prog : list cstep) : nat :=
  match split_at_raise prog with
  | Some (pre, post) => length pre + 1 + signal_index post
  | None => 0
  end.

Definition good_pass (g : nat) (p : pass) : bool := p_resend p && p_up p && Nat.eqb (p_gen p) g.

Definition tcp_prog : list cstep := map cstep_of Consts.connecter_tcpconnect.
Definition tls_prog : list cstep := map cstep_of Consts.connecter_tlsconnect.
Definition dtls_prog : list cstep := map cstep_of Consts.connecter_dtlsconnect.
