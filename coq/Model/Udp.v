(* UDP client association (udp.c radudpget, client side): the client objects of one client block that share the
   listening socket, in list order.  A datagram from (address, port) at time t is attributed to the first client
   with that address and port (whose 60 s idle timer is re-armed), every other client whose timer ran out is
   removed on the way; if none matched a new client is appended.  The duplicate cache hangs off the client object,
   so "same client association" in C10 means "same client object". *)
From RSP Require Import Base.
Local Open Scope Z_scope.

Record uclient := mkUc { uc_addr : bytes; uc_port : N; uc_expiry : Z; uc_id : nat }.

Definition uc_is (c : uclient) (addr : bytes) (port : N) : bool := beq_bytes (uc_addr c) addr && (uc_port c =? port)%N.

Definition UDP_IDLE : Z := 60.

(* the scan: (clients kept, chosen client id) *)
Fixpoint udp_scan (l : list uclient) (addr : bytes) (port : N) (t : Z) (chosen : option nat) : list uclient * option nat :=
  match l with
  | [] => ([], chosen)
  | c :: r =>
      let hit := match chosen with None => uc_is c addr port | Some _ => false end in
      let c' := if hit then mkUc (uc_addr c) (uc_port c) (t + UDP_IDLE) (uc_id c) else c in
      let chosen' := if hit then Some (uc_id c) else chosen in
      let '(r', ch) := udp_scan r addr port t chosen' in
      if uc_expiry c' <? t then (r', ch) else (c' :: r', ch)
  end.

(* one datagram: (clients afterwards, id of the client it is attributed to, next fresh id) *)
Definition udp_arrival (l : list uclient) (next : nat) (addr : bytes) (port : N) (t : Z) : list uclient * nat * nat :=
  let '(l', ch) := udp_scan l addr port t None in
  match ch with
  | Some id => (l', id, next)
  | None => (l' ++ [mkUc addr port (t + UDP_IDLE) next], next, S next)
  end.

(* a history of datagrams (time, address, port) from the empty table: the ids they were attributed to *)
Fixpoint udp_run (l : list uclient) (next : nat) (evs : list (Z * bytes * N)) : list (nat * nat) :=
  match evs with
  | [] => []
  | (t, a, p) :: r =>
      let '(l', id, next') := udp_arrival l next a p t in
      (id, length l') :: udp_run l' next' r
  end.
