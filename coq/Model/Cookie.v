(* C07: the DTLS HelloVerify cookie check (tlscommon.c cookie_verify_cb).  Definitions only.
   A cookie is the time stamp (TS octets, the host's time_t) followed by the keyed hash of peer address and time.
   `hash` and `tstamp` are the environment: cookie_calculate_hash for the peer at hand, and the reading of a time_t
   from TS octets.  The check looks at the len octets it was given and at nothing else. *)
From RSP Require Import Base.
Local Open Scope Z_scope.

Definition TS : nat := 8.
Definition COOKIE_MAX_AGE : Z := 5.

Section Cookie.
  Variable hash : Z -> bytes.
  Variable tstamp : bytes -> Z.

  Definition cookie_verify (now : Z) (c : bytes) : bool :=
    if (length c <? TS)%nat then false
    else
      let t := tstamp (firstn TS c) in
      if COOKIE_MAX_AGE <? now - t then false
      else if negb (Nat.eqb (length (hash t) + TS) (length c)) then false
      else beq_bytes (skipn TS c) (hash t).
End Cookie.
