(* C07: the DTLS HelloVerify cookie check (tlscommon.c cookie_verify_cb).  Definitions only.
   A cookie is the time stamp (TS octets, the host's time_t) followed by the keyed hash of peer address and time.
   `hash` and `tstamp` are the environment: cookie_calculate_hash for the peer at hand, and the reading of a time_t
   from TS octets.  The check looks at the len octets it was given and at nothing else. *)
From RSP Require Import Base.
Local Open Scope Z_scope.

Definition TS : nat := 8.
Definition COOKIE_MAX_AGE : Z := 5.

Section Cookie.
  Variable hash : Z -> bytes.
  Variable tstamp : bytes -> Z.

  Definition cookie_verify (now : Z) (c : bytes) : bool :=
    if (length c <? TS)%nat then false
    else
      let t := tstamp (firstn TS c) in
      if COOKIE_MAX_AGE <? now - t then false
      else if negb (Nat.eqb (length (hash t) + TS) (length c)) then false
      else beq_bytes (skipn TS c) (hash t).
End Cookie.

(* ---- for the correspondence run only: the reading of the time stamp as the host does it (8 octets, little-endian,
   two's complement) and a stand-in for the keyed hash of the same shape (32 octets, every octet of the time takes
   part).  The real hash depends on a secret drawn at start-up and on the peer address and is not modelled. *)
Definition tstamp_le (b : bytes) : Z :=
  let u := Z.of_N (be_value (rev b)) in
  if u <? 2 ^ 63 then u else u - 2 ^ 64.
Definition ts_encode_le (t : Z) : bytes := rev (be_encode TS (Z.to_N (t mod 2 ^ 64))).
Definition standin_hash (t : Z) : bytes :=
  let u := Z.to_N (t mod 2 ^ 64) in
  map (fun i => ((u / 256 ^ (N.of_nat (Nat.modulo i 8))) + 3 * N.of_nat i + 1) mod 256)%N (seq 0 32).
