(* Index-level models of the attribute walks (C07): every octet the C code reads is read through `rd`, which
   is a Fault when the index lies outside the buffer.  Offsets and lengths are the C variables (p - buf, len,
   sublen).  Proofs/Walk_proofs.v shows: no Fault for any buffer, and agreement with the list-level models
   (Packet.parse_attrs, Ttl.attrvalidate) that the correspondence run ties to the C code. *)
From RSP Require Import Base Dns.
Local Open Scope Z_scope.

(* buf2radmsg (radmsg.c): `p = buf + 20; while (p - buf + 2 <= len) { t = *p++; l = *p++; ... }`, len = buffer length.
   Result: Ok None = rejected, Ok (Some l) = attributes as (type, offset of value, length of value) *)
Fixpoint walk_idx (fuel : nat) (buf : bytes) (p : Z) : res (option (list (N * Z * Z))) :=
  let len := Z.of_nat (length buf) in
  match fuel with
  | O => Ok None
  | S f =>
      if p + 2 <=? len then
        bind (rd buf p) (fun t => bind (rd buf (p + 1)) (fun l =>
          if (l <? 2)%N then Ok None
          else
            let vl := Z.of_N l - 2 in
            if (0 <? vl) && (len <? p + 2 + vl) then Ok None
            else
              (* maketlv copies the value: vl octets from p + 2 *)
              bind (rd_n buf (p + 2) (Z.to_nat vl)) (fun _ =>
                bind (walk_idx f buf (p + 2 + vl)) (fun r =>
                  match r with
                  | None => Ok None
                  | Some r' => Ok (Some ((t, p + 2, vl) :: r'))
                  end))))
      else if p <? len then Ok None          (* attributes did not fill packet *)
      else Ok (Some [])
  end.

(* attrvalidate(attrs = buf + o, length): `while (length > 1) { if (attrs[1] < 2) return 0; length -= attrs[1]; ... }` *)
Fixpoint attrvalidate_idx (fuel : nat) (buf : bytes) (o : Z) (length_ : Z) : res bool :=
  match fuel with
  | O => Ok true
  | S f =>
      if 1 <? length_ then
        bind (rd buf (o + 1)) (fun alen =>
          if (alen <? 2)%N then Ok false
          else
            let length' := length_ - Z.of_N alen in
            if length' <? 0 then Ok false
            else attrvalidate_idx f buf (o + Z.of_N alen) length')
      else Ok true
  end.

(* the walk every caller runs after a successful attrvalidate:
   `while (sublen > 1) { type = sub[0]; alen = sub[1]; (value = sub + 2, alen - 2 octets); sublen -= alen; sub += alen; }` *)
Fixpoint subwalk_idx (fuel : nat) (buf : bytes) (o : Z) (sublen : Z) : res (list (N * Z * Z)) :=
  match fuel with
  | O => Ok []
  | S f =>
      if 1 <? sublen then
        bind (rd buf o) (fun t => bind (rd buf (o + 1)) (fun alen =>
          bind (rd_n buf (o + 2) (Z.to_nat (Z.of_N alen - 2))) (fun _ =>
            bind (subwalk_idx f buf (o + Z.of_N alen) (sublen - Z.of_N alen)) (fun r =>
              Ok ((t, o + 2, Z.of_N alen - 2) :: r)))))
      else Ok []
  end.
