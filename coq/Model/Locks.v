(* Lock classes of the request path and their ranks (C17).  A thread may acquire a mutex only if its rank
   is strictly greater than the rank of every mutex it already holds.  The classes are those the harness
   assigns to the mutex addresses it sees in pthread_mutex_lock:
     realm      realm->mutex (held from findserver to the end of radsrv)
     subrealm   mutex of a dynamically created sub-realm
     conf       clsrvconf->lock (client list of a client block)
     global     removeclientrqs_sendrq_freeserver_lock()
     newrq      server->newrq_mutex
     slot       server->requests[i].lock
     srvlock    server->lock
     replyq     client->replyq->mutex  (removequeue releases the queued requests under it)
     leaf       any other mutex (request / realm reference counters): innermost, nothing is acquired
                while one is held                                                                    *)
From RSP Require Import Base.

Inductive lclass := LRealm | LSubrealm | LConf | LGlobal | LNewrq | LSlot | LSrvlock | LReplyq | LLeaf.

Definition rank (c : lclass) : nat :=
  match c with
  | LRealm => 0 | LSubrealm => 1 | LConf => 2 | LGlobal => 3 | LNewrq => 4 | LSlot => 5
  | LSrvlock => 6 | LReplyq => 6 | LLeaf => 7
  end.

(* an observed "held a while acquiring b" is allowed iff *)
Definition edge_ok (a b : lclass) : bool := Nat.ltb (rank a) (rank b).

(* ---- abstract threads: what each holds and what it is blocked on ---- *)
Record thr (L : Type) := mkThr { held : list L; want : option L }.
Arguments held {L}. Arguments want {L}. Arguments mkThr {L}.
