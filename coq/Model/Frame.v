(* Model of stream framing: tcpreadtimeout/radtcpget/tcpserverrd/tcpclientrd (tcp.c) and
   sslreadtimeout/radtlsget/tlsserverrd/tlsclientrd (tlscommon.c, tls.c) over a delivery schedule.
   Definitions only. *)
From RSP Require Import Base Consts.
Local Open Scope N_scope.

(* what the transport does at each poll/read: deliver at most k bytes (k >= 1), poll timeout,
   TLS "want read" (no application data yet), error.  An exhausted schedule is end-of-stream. *)
Inductive ev := R (k : nat) | T | W | E.

Inductive rres := Got (b : bytes) | TimedOut | Closed.

(* tcpreadtimeout / sslreadtimeout: read exactly `want` more bytes.  A timeout before the first byte
   of this read is a timeout; a timeout after part of it was consumed ends the connection. *)
Fixpoint read_n (sched : list ev) (want : nat) (acc stream : bytes) : rres * bytes * list ev :=
  match want with
  | O => (Got acc, stream, sched)
  | S _ =>
      match sched with
      | [] => (Closed, stream, [])
      | T :: s' => (match acc with [] => TimedOut | _ => Closed end, stream, s')
      | E :: s' => (Closed, stream, s')
      | W :: s' => read_n s' want acc stream
      | R k :: s' =>
          match stream with
          | [] => (Closed, stream, s')
          | _ =>
              let n := Nat.min (Nat.max k 1) (Nat.min want (length stream)) in
              read_n s' (want - n) (acc ++ firstn n stream) (skipn n stream)
          end
      end
  end.

Definition checked_len (hdr : bytes) : option nat :=
  let l := be_value (firstn 2 (skipn 2 hdr)) in
  if (l <? Consts.RAD_Min_Length) || (Consts.RAD_Max_Length <? l) then None else Some (N.to_nat l).

Inductive gres := Packet (p : bytes) | Idle | Lost.

(* radtcpget / radtlsget: one packet, an idle timeout (nothing of a packet consumed), or connection lost *)
Definition radget (sched : list ev) (stream : bytes) : gres * bytes * list ev :=
  match read_n sched 4 [] stream with
  | (Got hdr, st1, s1) =>
      match checked_len hdr with
      | None => (Lost, st1, s1)
      | Some len =>
          match read_n s1 (len - 4) [] st1 with
          | (Got body, st2, s2) => (Packet (hdr ++ body), st2, s2)
          | (_, st2, s2) => (Lost, st2, s2)       (* timeout or loss inside a packet *)
          end
      end
  | (TimedOut, st1, s1) => (Idle, st1, s1)
  | (Closed, st1, s1) => (Lost, st1, s1)
  end.

(* the reader loops.  `accept` = what the handler (radsrv / replyh) returns for the k-th packet;
   `idle_continues` = client readers keep waiting after an idle timeout, server readers close.
   Result: packets handed to the handler, in order. *)
Fixpoint reader (fuel : nat) (idle_continues : bool) (accept : bytes -> bool) (sched : list ev) (stream : bytes) : list bytes :=
  match fuel with
  | O => []
  | S f =>
      match radget sched stream with
      | (Packet p, st, s) => if accept p then p :: reader f idle_continues accept s st else [p]
      | (Idle, st, s) => if idle_continues then reader f idle_continues accept s st else []
      | (Lost, _, _) => []
      end
  end.
