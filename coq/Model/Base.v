(* Base definitions shared by all model files: bytes, big-endian values, checked results. *)
From Coq Require Export NArith ZArith List Bool Lia.
From Coq Require String.
Export String.StringSyntax.
Delimit Scope string_scope with string.
Notation string := String.string.
Export ListNotations.
Local Open Scope N_scope.

Definition bytes := list N.

Definition is_byte (b : N) : bool := b <? 256.
Definition wf_bytes (l : bytes) : bool := forallb is_byte l.

Definition nlen {A} (l : list A) : N := N.of_nat (length l).

(* unsigned big-endian value of a byte string of any length *)
Definition be_value (v : bytes) : N := fold_left (fun acc b => acc * 256 + b) v 0.

(* big-endian encoding of n on exactly k bytes (high bits dropped) *)
Fixpoint be_encode (k : nat) (n : N) : bytes :=
  match k with
  | O => []
  | S k' => be_encode k' (n / 256) ++ [n mod 256]
  end.

(* C unsigned narrowing *)
Definition u8 (x : N) : N := x mod 256.
Definition u16 (x : N) : N := x mod 65536.
Definition u32 (x : N) : N := x mod 4294967296.

(* result of a computation on checked memory *)
Inductive res (A : Type) : Type :=
| Ok (a : A)
| Fault (site : string).
Arguments Ok {A} a.
Arguments Fault {A} site.

Definition rbind {A B} (r : res A) (f : A -> res B) : res B :=
  match r with Ok a => f a | Fault s => Fault s end.

Definition is_fault {A} (r : res A) : bool := match r with Fault _ => true | _ => false end.

Definition nth_byte (l : bytes) (i : nat) : option N := nth_error l i.

(* replace element i *)
Fixpoint set_nth {A} (l : list A) (i : nat) (x : A) : list A :=
  match l, i with
  | [], _ => []
  | _ :: t, O => x :: t
  | h :: t, S i' => h :: set_nth t i' x
  end.

Definition beq_bytes (a b : bytes) : bool :=
  (length a =? length b)%nat && forallb (fun p => fst p =? snd p) (combine a b).

Fixpoint list_eqb {A} (eqb : A -> A -> bool) (a b : list A) : bool :=
  match a, b with
  | [], [] => true
  | x :: a', y :: b' => eqb x y && list_eqb eqb a' b'
  | _, _ => false
  end.
