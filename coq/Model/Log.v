(* Model of the text that reaches log lines and F-Ticks records: radattr2ascii, replylog's fields,
   fticks_hashmac (sanitise + hash + _format_hash), fticks_log (radsecproxy.c, fticks.c,
   fticks_hashmac.c).  SHA-256 / HMAC-SHA-256 are oracles.  Definitions only. *)
From RSP Require Import Base Consts Ttl Packet.
Local Open Scope N_scope.

Definition hexdigit (n : N) : N := nth (N.to_nat n) Consts.hexdigits 0.

(* radattr2ascii: every octet outside 32..126 becomes %xx *)
Definition esc_byte (b : N) : bytes :=
  if (b <? Consts.ESC_LOW) || (Consts.ESC_HIGH <? b) then [37; hexdigit (b / 16); hexdigit (b mod 16)] else [b].
Definition radattr2ascii (v : bytes) : bytes := concat (map esc_byte v).

(* C-string operations on escaped text *)
Fixpoint from_first (c : N) (s : bytes) : option bytes :=   (* strchr *)
  match s with
  | [] => None
  | x :: r => if x =? c then Some s else from_first c r
  end.
Fixpoint after_last_f (c : N) (s : bytes) (acc : option bytes) : option bytes :=   (* strrchr + 1 *)
  match s with
  | [] => acc
  | x :: r => after_last_f c r (if x =? c then Some r else acc)
  end.

(* fticks_hashmac: sanitise: lower-case hex digits up to the first ';' *)
Definition lower (b : N) : N := if (65 <=? b) && (b <=? 90) then b + 32 else b.
Fixpoint sanitise (s : bytes) : bytes :=
  match s with
  | [] => []
  | x :: r =>
      if x =? 59 then []
      else if (48 <=? x) && (x <=? 57) then x :: sanitise r
      else if (97 <=? lower x) && (lower x <=? 102) then lower x :: sanitise r
      else sanitise r
  end.

Definition hex_of_byte (b : N) : bytes := [hexdigit (b / 16); hexdigit (b mod 16)].

Section Log.
  Variable sha256 : bytes -> bytes.
  Variable hmac_sha256 : bytes -> bytes -> bytes.   (* key, message *)

  (* _format_hash into a buffer of out_len bytes: (out_len - 1) / 2 hex pairs, cycling over the 32 hash bytes *)
  Definition format_hash (hash : bytes) (out_len : nat) : bytes :=
    if (out_len <? 3)%nat then []
    else concat (map (fun i => hex_of_byte (nth (Nat.modulo i 32) hash 0)) (seq 0 ((out_len - 1) / 2))).

  (* in = escaped identifier as C string *)
  Definition hashmac (id : bytes) (key : option bytes) (out_len : nat) : bytes :=
    let h := match key with None => sha256 (sanitise id) | Some k => hmac_sha256 k (sanitise id) end in
    format_hash h out_len.

  (* the station-id part of the reply log line: " stationid " ++ field, in a zeroed char[128]
     (C string: cut at the first NUL) *)
  Definition log_station_field (mode : N) (key : option bytes) (sid : bytes) : bytes :=
    if (mode =? Consts.RSP_MAC_VENDOR_HASHED) || (mode =? Consts.RSP_MAC_VENDOR_KEY_HASHED) then
      let k := if mode =? Consts.RSP_MAC_VENDOR_KEY_HASHED then key else None in
      (* strncpy of 9: a shorter identifier is NUL padded, so the text ends there *)
      if (length sid <? 9)%nat then sid else firstn 9 sid ++ hashmac sid k 65
    else if (mode =? Consts.RSP_MAC_FULLY_HASHED) || (mode =? Consts.RSP_MAC_FULLY_KEY_HASHED) then
      hashmac sid (if mode =? Consts.RSP_MAC_FULLY_KEY_HASHED then key else None) 65
    else if mode =? Consts.RSP_MAC_STATIC then [117;110;100;105;115;99;108;111;115;101;100]  (* "undisclosed" *)
    else firstn (N.to_nat Consts.LOGSTATIONID_SIZE - 12) sid.

  (* the fields of the reply log line that derive from attributes *)
  Record replylog_fields := mkRL {
    rl_user : option bytes;        (* None: the "(response to ...)" form without user is used *)
    rl_station : bytes;            (* "" or " stationid " ++ field *)
    rl_cui : bytes; rl_operator : bytes; rl_replymsg : bytes
  }.

  (* radattr2ascii returns NULL for a missing attribute and for an empty value (NULL value pointer) *)
  Definition opt_ascii (a : option tlv) : option bytes :=
    match a with
    | Some x => match tlv_v x with [] => None | _ => Some (radattr2ascii (tlv_v x)) end
    | None => None
    end.

  Definition replylog_fields_of (rqattrs replyattrs : list tlv) (logfullusername : bool) (mode : N) (key : option bytes) : replylog_fields :=
    let username := opt_ascii (gettype Consts.RAD_Attr_User_Name rqattrs) in
    let user := match username with
                | Some u => if logfullusername then Some u else from_first 64 u
                | None => None
                end in
    let station := match opt_ascii (gettype Consts.RAD_Attr_Calling_Station_Id rqattrs) with
                   | Some sid => [32;115;116;97;116;105;111;110;105;100;32] ++ log_station_field mode key sid
                   | None => []
                   end in
    let wrap (pre post : bytes) (x : option bytes) := match x with Some b => pre ++ b ++ post | None => [] end in
    mkRL user station
         (wrap [32;99;117;105;32] [] (opt_ascii (gettype Consts.RAD_Attr_CUI replyattrs)))
         (wrap [32;111;112;101;114;97;116;111;114;32] [] (opt_ascii (gettype Consts.RAD_Attr_Operator_Name rqattrs)))
         (wrap [32;40] [41] (opt_ascii (gettype Consts.RAD_Attr_Reply_Message replyattrs))).

  (* F-Ticks: REALM and CSI fields *)
  Definition fticks_realm (rqattrs : list tlv) : bytes :=
    match opt_ascii (gettype Consts.RAD_Attr_User_Name rqattrs) with
    | Some u => match after_last_f 64 u None with Some r => r | None => [] end
    | None => []
    end.

  Definition fticks_csi (rqattrs : list tlv) (mode : N) (key : option bytes) : bytes :=
    if mode =? Consts.RSP_MAC_STATIC then [117;110;100;105;115;99;108;111;115;101;100]
    else match opt_ascii (gettype Consts.RAD_Attr_Calling_Station_Id rqattrs) with
         | None => []
         | Some sid =>
             if mode =? Consts.RSP_MAC_ORIGINAL then firstn 64 sid
             else if (mode =? Consts.RSP_MAC_VENDOR_HASHED) || (mode =? Consts.RSP_MAC_VENDOR_KEY_HASHED) then
               (if (length sid <? 9)%nat then sid
                else firstn 9 sid ++ hashmac sid (if mode =? Consts.RSP_MAC_VENDOR_KEY_HASHED then key else None) (65 - 9))
             else hashmac sid (if mode =? Consts.RSP_MAC_FULLY_KEY_HASHED then key else None) 65
         end.
End Log.
