(* Model of choosesrvconf (radsecproxy.c:1199).  Definitions only. *)
From RSP Require Import Base Consts.
Local Open Scope N_scope.

Record srv := mkSrv { s_dyn : bool; (* configuration without a server object (dynamic placeholder) *)
                      s_state : N; s_lost : N }.

Definition failing (s : srv) : bool := s_state s =? Consts.RSP_SERVER_STATE_FAILING.
Definition waiting (s : srv) : bool :=
  (s_state s =? Consts.RSP_SERVER_STATE_STARTUP) || (s_state s =? Consts.RSP_SERVER_STATE_RECONNECTING).

Inductive cres := CRet (i : nat) | CCont (first best : option nat) (bestlost : N).

(* the for loop; i = index of the head of l *)
Fixpoint cloop (l : list srv) (i : nat) (first best : option nat) (bl : N) : cres :=
  match l with
  | [] => CCont first best bl
  | s :: r =>
      if s_dyn s then CRet i
      else if failing s then cloop r (S i) first best bl
      else
        let first' := match first with None => Some i | Some _ => first end in
        if waiting s then cloop r (S i) first' best bl
        else if s_lost s =? 0 then CRet i
        else match best with
             | None => cloop r (S i) first' (Some i) (s_lost s)
             | Some _ => if s_lost s <? bl then cloop r (S i) first' (Some i) (s_lost s)
                         else cloop r (S i) first' best bl
             end
  end.

(* the saturation reset applied to every entry *)
Definition desaturate (l : list srv) : list srv :=
  map (fun s => if Consts.MAX_LOSTRQS <=? s_lost s then mkSrv (s_dyn s) (s_state s) (Consts.MAX_LOSTRQS - 1) else s) l.

(* result: chosen index, and the (possibly desaturated) list *)
Definition choosesrvconf (l : list srv) : option nat * list srv :=
  match cloop l 0 None None Consts.MAX_LOSTRQS with
  | CRet i => (Some i, l)
  | CCont first best bl =>
      let l' := match best with
                | Some _ => if Consts.MAX_LOSTRQS <=? bl then desaturate l else l
                | None => l
                end in
      (match best with Some b => Some b | None => first end, l')
  end.
