(* Model of verifyconfcert and its helpers (tlscommon.c) over an abstract certificate
   {CN list; subjectAltName entries}.  OpenSSL's X509_check_host / X509_check_ip_asc are modelled
   from their documented behaviour for LDH host names (validated by correspondence against the
   installed library); the regex engine is an oracle.  Definitions only. *)
From RSP Require Import Base Consts Rewrite.
Local Open Scope N_scope.

Inductive gname :=
| GDns (v : bytes) | GUri (v : bytes) | GIp (v : bytes) | GRid (oid : bytes) | GOther (oid : bytes) (v : bytes).

Record cert := mkCert { c_cn : list bytes; c_san : list gname }.

Inductive term :=
| TCn (rx : N) | TDns (rx : N) | TUri (rx : N) | TIp (addr : bytes) | TRid (oid : bytes) | TOther (oid : bytes) (rx : N).

Record hostent := mkHost { h_name : bytes; h_ip : option bytes (* parsed address when the name is an IP literal *); h_plen : N }.

Record certconf := mkCertConf {
  cc_namecheck : bool; cc_cncheck : bool; cc_servername : option hostent; cc_hosts : list hostent; cc_terms : list term
}.

(* ---- ASCII helpers ---- *)
Definition lower (b : N) : N := if (65 <=? b) && (b <=? 90) then b + 32 else b.
Definition ieq_bytes (a b : bytes) : bool := beq_bytes (map lower a) (map lower b).
Definition has_nul (a : bytes) : bool := existsb (N.eqb 0) a.
Definition count_dots (a : bytes) : nat := length (filter (N.eqb 46) a).
Definition ldh (b : N) : bool :=
  ((48 <=? b) && (b <=? 57)) || ((65 <=? b) && (b <=? 90)) || ((97 <=? b) && (b <=? 122)) || (b =? 45).

Fixpoint split_at_dot (a : bytes) : bytes * option bytes :=   (* first label, rest after the dot *)
  match a with
  | [] => ([], None)
  | x :: r => if x =? 46 then ([], Some r) else let '(l, rest) := split_at_dot r in (x :: l, rest)
  end.

(* X509_check_host with X509_CHECK_FLAG_NO_PARTIAL_WILDCARDS: does pattern (a dNSName or CN) match host *)
Definition host_pattern_match (pat host : bytes) : bool :=
  if has_nul pat then false
  else if ieq_bytes pat host then true
  else
    if beq_bytes (firstn 2 pat) [42; 46] then        (* "*." remainder *)
      let rest := skipn 2 pat in
      (1 <=? count_dots rest)%nat && negb (existsb (N.eqb 42) rest) &&
      (let '(label, hrest) := split_at_dot host in
       match hrest with
       | Some hr => negb (match label with [] => true | _ => false end) && forallb ldh label && ieq_bytes hr rest
       | None => false
       end)
    else false.

Definition dns_sans (c : cert) : list bytes := flat_map (fun g => match g with GDns v => [v] | _ => [] end) (c_san c).
Definition ip_sans (c : cert) : list bytes := flat_map (fun g => match g with GIp v => [v] | _ => [] end) (c_san c).

Definition x509_check_host (c : cert) (host : bytes) (cncheck : bool) : bool :=
  match dns_sans c with
  | [] => cncheck && existsb (fun cn => host_pattern_match cn host) (c_cn c)
  | l => existsb (fun d => host_pattern_match d host) l
  end.

Definition x509_check_ip (c : cert) (addr : bytes) : bool := existsb (beq_bytes addr) (ip_sans c).

(* certnamecheck *)
Definition certnamecheck (c : cert) (h : hostent) (cncheck : bool) : bool :=
  if negb (h_plen h =? 255) then true
  else
    (match h_ip h with Some a => x509_check_ip c a | None => false end) ||
    x509_check_host c (h_name h) cncheck.

(* certattr_matchwildcard: NAIRealm otherName value against the looked-up realm (C strings) *)
Fixpoint is_suffix_at (name suf : bytes) (pos : nat) : bool :=   (* name = prefix(pos) ++ suf *)
  match pos, name with
  | O, _ => beq_bytes name suf
  | S p, _ :: r => is_suffix_at r suf p
  | S _, [] => false
  end.

Definition nairealm_value_match (raw realm : bytes) : bool :=
  let v := cstr raw in
  if (2 <? length raw)%nat && beq_bytes (firstn 2 v) [42; 46] then
    let rest := skipn 2 v in
    if existsb (N.eqb 42) rest then false
    else
      (* realm = label ++ "." ++ rest with label non-empty and without dots *)
      let '(label, r) := split_at_dot realm in
      match r with
      | Some rr => negb (match label with [] => true | _ => false end) && beq_bytes rr rest
      | None => false
      end
  else beq_bytes v realm.

Definition nairealm_oid : bytes := [49;46;51;46;54;46;49;46;53;46;53;46;55;46;56;46;56].  (* "1.3.6.1.5.5.7.8.8" *)

(* three-valued result of matchsubjaltname for SAN terms: 1 match, 0 no entry of the kind, 2 = -1 *)
Section Match.
  Variable rx : N -> bytes -> option (list (Z * Z)).

  Definition regex_match (id : N) (v : bytes) : bool :=
    match v with
    | [] => false
    | _ => match rx id (cstr v) with Some _ => true | None => false end
    end.

  Definition entry_kind_matches (t : term) (g : gname) : option bool :=   (* None: other kind *)
    match t, g with
    | TDns r, GDns v => Some (regex_match r v)
    | TUri r, GUri v => Some (regex_match r v)
    | TIp a, GIp v => Some (beq_bytes a v)
    | TRid o, GRid o' => Some (beq_bytes o o')
    | TOther o r, GOther o' v => Some (beq_bytes o o' && regex_match r v)
    | _, _ => None
    end.

  Fixpoint san_walk (t : term) (san : list gname) (r : N) : N :=
    match san with
    | [] => r
    | g :: rest =>
        match entry_kind_matches t g with
        | Some true => 1
        | Some false => san_walk t rest 2
        | None => san_walk t rest r
        end
    end.

  Definition matchsubjaltname (c : cert) (t : term) : N :=
    match t with
    | TCn r => if existsb (regex_match r) (c_cn c) then 1 else 0
    | _ => san_walk t (c_san c) 0
    end.

  Definition certnairealmcheck (c : cert) (realm : bytes) : bool :=
    existsb (fun g => match g with GOther o v => beq_bytes o nairealm_oid && nairealm_value_match v realm | _ => false end) (c_san c).

  Definition verifyconfcert (c : cert) (conf : certconf) (connected : option hostent) (nairealm : option bytes) : bool :=
    let nameok :=
      if cc_namecheck conf then
        if match nairealm with Some r => certnairealmcheck c r | None => false end then true
        else match cc_servername conf with
             | Some sn => certnamecheck c sn (cc_cncheck conf)
             | None =>
                 match connected with
                 | Some h => certnamecheck c h (cc_cncheck conf)
                 | None => existsb (fun h => certnamecheck c h (cc_cncheck conf)) (cc_hosts conf)
                 end
             end
      else true in
    nameok && forallb (fun t => matchsubjaltname c t =? 1) (cc_terms conf).
End Match.
