(* Index-level model of the DNS resource-record parsers (dns.c: dnsreadcharstring, parsenaptrrr, parsesrvrr).
   Every read of the record data goes through `rd`, which is a Fault when the index is outside the record:
   the theorems of Proofs/Dns_proofs.v say no Fault is reachable.  Expanding a domain name is libresolv's
   job (ns_name_uncompress, bounded by the end of the message): an oracle dn off = Some (octets consumed, name). *)
From RSP Require Import Base.
Local Open Scope Z_scope.

Definition rd (b : bytes) (i : Z) : res N :=
  if (0 <=? i) && (i <? Z.of_nat (length b)) then Ok (nth (Z.to_nat i) b 0%N)
  else Fault "read outside the record data"%string.

Definition bind {A B} (x : res A) (f : A -> res B) : res B :=
  match x with Ok a => f a | Fault s => Fault s end.

(* `len` octets starting at off, each read checked *)
Fixpoint rd_n (b : bytes) (off : Z) (n : nat) : res bytes :=
  match n with
  | O => Ok []
  | S n' => bind (rd b off) (fun x => bind (rd_n b (off + 1) n') (fun r => Ok (x :: r)))
  end.

(* dnsreadcharstring: Ok None = error return (-1), Ok (Some (s, consumed)) *)
Definition readcharstring (rdata : bytes) (offset : Z) : res (option (bytes * Z)) :=
  let rdlen := Z.of_nat (length rdata) in
  if rdlen <=? offset then Ok None
  else
    bind (rd rdata offset) (fun l =>
      let len := Z.of_N l in
      let off1 := offset + 1 in
      if rdlen <? off1 + len then Ok None
      else bind (rd_n rdata off1 (Z.to_nat len)) (fun s => Ok (Some (s, len + 1)))).

Definition be16 (b : bytes) (off : Z) : res N :=
  bind (rd b off) (fun hi => bind (rd b (off + 1)) (fun lo => Ok (hi * 256 + lo)%N)).

Record naptr := mkNaptr { na_order : N; na_pref : N; na_flags : bytes; na_services : bytes; na_regexp : bytes; na_replacement : bytes }.
Record srvrec := mkSrvRec { sr_priority : N; sr_weight : N; sr_port : N; sr_host : bytes }.

Section Dns.
  Variable dn : Z -> option (Z * bytes).

  Definition parsenaptr (rdata : bytes) : res (option naptr) :=
    let rdlen := Z.of_nat (length rdata) in
    if rdlen <? 4 then Ok None
    else
      bind (be16 rdata 0) (fun order => bind (be16 rdata 2) (fun pref =>
        bind (readcharstring rdata 4) (fun r1 =>
          match r1 with
          | None => Ok None
          | Some (flags, l1) =>
              let o1 := 4 + l1 in
              bind (readcharstring rdata o1) (fun r2 =>
                match r2 with
                | None => Ok None
                | Some (services, l2) =>
                    let o2 := o1 + l2 in
                    bind (readcharstring rdata o2) (fun r3 =>
                      match r3 with
                      | None => Ok None
                      | Some (regexp, l3) =>
                          let o3 := o2 + l3 in
                          match dn o3 with
                          | None => Ok None
                          | Some (l4, repl) =>
                              if o3 + l4 =? rdlen then Ok (Some (mkNaptr order pref flags services regexp repl))
                              else Ok None
                          end
                      end)
                end)
          end))).

  Definition parsesrv (rdata : bytes) : res (option srvrec) :=
    let rdlen := Z.of_nat (length rdata) in
    if rdlen <? 6 then Ok None
    else
      bind (be16 rdata 0) (fun prio => bind (be16 rdata 2) (fun weight => bind (be16 rdata 4) (fun port =>
        match dn 6 with
        | None => Ok None
        | Some (_, host) => if beq_bytes host [46%N] then Ok None else Ok (Some (mkSrvRec prio weight port host))
        end))).
End Dns.
