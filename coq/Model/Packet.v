(* Model of the RADIUS codec: tlv2buf, radmsg2buf, buf2radmsg and their authentication helpers
   (radmsg.c).  MD5 is an oracle; HMAC-MD5 is defined over it (RFC 2104).  Definitions only. *)
From RSP Require Import Base Consts Ttl Crypt.
Local Open Scope N_scope.

Record radmsg := mkMsg {
  m_code : N;
  m_id : N;
  m_auth : bytes;          (* 16 bytes *)
  m_attrs : list tlv;
  m_mainvalid : bool       (* msgauthinvalid *)
}.

Definition set_code (m : radmsg) c := mkMsg c (m_id m) (m_auth m) (m_attrs m) (m_mainvalid m).
Definition set_id (m : radmsg) i := mkMsg (m_code m) i (m_auth m) (m_attrs m) (m_mainvalid m).
Definition set_auth (m : radmsg) a := mkMsg (m_code m) (m_id m) a (m_attrs m) (m_mainvalid m).
Definition set_attrs (m : radmsg) l := mkMsg (m_code m) (m_id m) (m_auth m) l (m_mainvalid m).

Definition zeros (n : nat) : bytes := repeat 0 n.

(* tlv2buf: type, length+2 (uint8_t), value *)
Definition tlv2buf (a : tlv) : bytes := tlv_t a :: u8 (tlv_l a + 2) :: tlv_v a.

Definition attrs_size (l : list tlv) : N := fold_right (fun a acc => 2 + tlv_l a + acc) 0 l.

(* replace bytes [off, off+length new) of buf (caller guarantees the range is inside) *)
Definition splice (buf : bytes) (off : nat) (new : bytes) : bytes :=
  firstn off buf ++ new ++ skipn (off + length new) buf.

Definition radius_header (code id : N) (size : N) (auth : bytes) : bytes :=
  [code; id] ++ be_encode 2 size ++ auth.

(* the attribute list split at its LAST Message-Authenticator (radmsg2buf keeps overwriting its
   `msgauth` pointer while walking the list, so the last one wins) *)
Fixpoint last_ma_split (attrs : list tlv) : option (list tlv * tlv * list tlv) :=
  match attrs with
  | [] => None
  | a :: r =>
      match last_ma_split r with
      | Some (b, m, af) => Some (a :: b, m, af)
      | None => if tlv_t a =? Consts.RAD_Attr_Message_Authenticator then Some ([], a, r) else None
      end
  end.

Definition attrs_bytes (l : list tlv) : bytes := concat (map (fun a => tlv_t a :: u8 (nlen (tlv_v a) + 2) :: tlv_v a) l).

Definition signed_code (c : N) : bool :=
  (c =? Consts.RAD_Access_Accept) || (c =? Consts.RAD_Access_Reject) || (c =? Consts.RAD_Access_Challenge) ||
  (c =? Consts.RAD_Accounting_Response) || (c =? Consts.RAD_Accounting_Request) ||
  (c =? Consts.RAD_Disconnect_NAK) || (c =? Consts.RAD_CoA_NAK).

Section Packet.
  Variable md5 : bytes -> bytes.

  (* RFC 2104 with block size 64 *)
  Definition hmac_md5 (key msg : bytes) : bytes :=
    let k := if 64 <? nlen key then md5 key else key in
    let k' := k ++ zeros (64 - length k) in
    md5 (map (N.lxor 92) k' ++ md5 (map (N.lxor 54) k' ++ msg)).

  (* radmsg2buf.  Result: Fault if the Message-Authenticator write would leave the buffer,
     Ok None if refused (size), Ok (Some (packet, msg auth after the call)) *)
  Definition bad_ma (a : tlv) : bool := (tlv_t a =? Consts.RAD_Attr_Message_Authenticator) && negb (tlv_l a =? 16).
  Definition radmsg2buf (m : radmsg) (secret : bytes) : res (option (bytes * bytes)) :=
    let size := 20 + attrs_size (m_attrs m) in
    if Consts.RADMSG2BUF_MAX <? size then Ok None
    else if existsb bad_ma (m_attrs m) then Ok None      (* a Message-Authenticator that is not 16 octets is not signed: no packet *)
    else
      let buf0 := radius_header (m_code m) (m_id m) size (m_auth m) ++ concat (map tlv2buf (m_attrs m)) in
      let r1 :=
        match last_ma_split (m_attrs m) with
        | None => Ok buf0
        | Some (bef, _, _) =>
            let off := (20 + length (attrs_bytes bef) + 2)%nat in
            if (length buf0 <? off + 16)%nat then Fault "radmsg2buf: message-authenticator beyond buffer"%string
            else
              let bz := splice buf0 off (zeros 16) in
              Ok (splice bz off (hmac_md5 secret bz))
        end in
      match r1 with
      | Fault s => Fault s
      | Ok buf1 =>
          let buf2 := if signed_code (m_code m) then splice buf1 4 (md5 (buf1 ++ secret)) else buf1 in
          let auth' := if m_code m =? Consts.RAD_Accounting_Request then firstn 16 (skipn 4 buf2) else m_auth m in
          Ok (Some (buf2, auth'))
      end.

  (* _validauth *)
  Definition validauth (buf reqauth secret : bytes) : bool :=
    beq_bytes (md5 (firstn 4 buf ++ reqauth ++ skipn 20 buf ++ secret)) (firstn 16 (skipn 4 buf)).

  (* _checkmsgauth on a buffer whose authenticator field is already the one to use: the 16 value
     bytes at [off, off+16) are saved (they are the attribute's value v, whose length was tested to
     be 16 just before the call), zeroed for the computation, and compared with the digest *)
  Definition checkmsgauth (buf : bytes) (off : nat) (v secret : bytes) : bool :=
    beq_bytes (hmac_md5 secret (splice buf off (zeros 16))) v.

  (* the attribute walk of buf2radmsg: `rest` is the suffix at p, `pos` = p - buf.
     Returns the attributes with the offset of their value, or None (reject) *)
  Fixpoint parse_attrs (fuel : nat) (rest : bytes) (pos : nat) : option (list (tlv * nat)) :=
    match fuel with
    | O => None
    | S f =>
        match rest with
        | [] => Some []
        | [_] => None                                   (* attributes did not fill packet *)
        | t :: l :: rest' =>
            if l <? 2 then None
            else
              let vl := N.to_nat (l - 2) in
              if (length rest' <? vl)%nat then None     (* attribute length exceeds packet length *)
              else
                match parse_attrs f (skipn vl rest') (pos + 2 + vl) with
                | None => None
                | Some r => Some ((mkTlv t (firstn vl rest'), (pos + 2)%nat) :: r)
                end
        end
    end.

  Definition reply_code (c : N) : bool :=
    (c =? Consts.RAD_Access_Accept) || (c =? Consts.RAD_Access_Reject) || (c =? Consts.RAD_Access_Challenge).

  (* buf2radmsg(buf, len = length buf, secret, rqauth) *)
  Definition buf2radmsg (buf secret : bytes) (rqauth : option bytes) : option radmsg :=
    if negb (nlen buf =? be_value (firstn 2 (skipn 2 buf))) then None
    else
      let code := nth 0 buf 0 in
      let id := nth 1 buf 0 in
      if (code =? Consts.RAD_Accounting_Request) && negb (validauth buf (zeros 16) secret) then None
      else if match rqauth with Some ra => negb (validauth buf ra secret) | None => false end then None
      else
        match parse_attrs (length buf) (skipn 20 buf) 20 with
        | None => None
        | Some al =>
            (* buffer as seen by _checkmsgauth: for Accept/Reject/Challenge the authenticator field is
               replaced by the request authenticator *)
            let cbuf := match rqauth with
                        | Some ra => if reply_code code then splice buf 4 ra else buf
                        | None => buf
                        end in
            let bad (p : tlv * nat) : bool :=
              let '(a, off) := p in
              (tlv_t a =? Consts.RAD_Attr_Message_Authenticator) &&
              ((reply_code code && match rqauth with None => true | Some _ => false end) ||
               negb (tlv_l a =? 16) || negb (checkmsgauth cbuf off (tlv_v a) secret)) in
            Some (mkMsg code id (firstn 16 (skipn 4 buf)) (map fst al) (existsb bad al))
        end.
End Packet.

(* first attribute of a type (radmsg_gettype) *)
Fixpoint gettype (t : N) (attrs : list tlv) : option tlv :=
  match attrs with
  | [] => None
  | a :: r => if tlv_t a =? t then Some a else gettype t r
  end.

Definition getalltype (t : N) (attrs : list tlv) : list tlv := filter (fun a => tlv_t a =? t) attrs.
