(* The configuration of a dynamically discovered server whose lookup command prints a server block
   (radsecproxy.c dynamicconfigexternal -> confserver_cb(template) -> mergesrvconf -> compileserverconfig):
   what the template block gives, what the printed block gives, and what applies afterwards.
   Options followed: transport type, RetryInterval, RetryCount, requireMessageAuthenticator, CertificateNameCheck,
   CertificateCNCheck, StatusServer, the shared secret (its octets; the length used is their number), addTTL (0 = not
   given) and LoopPrevention (255 = not given).  255 = "not given" for the two retry options, as in the C code.
   Definitions only. *)
From RSP Require Import Base Consts.
Local Open Scope N_scope.

Record dconf := mkDconf { d_type : N; d_ri : N; d_rc : N; d_reqma : bool; d_nc : bool; d_cnc : bool; d_ss : N;
                          d_secret : bytes; d_addttl : N; d_lp : N }.
Record dlook := mkDlook { l_type : option N; l_ri : option N; l_rc : option N; l_reqma : option bool;
                          l_nc : option bool; l_cnc : option bool; l_ss : option N;
                          l_secret : option bytes; l_addttl : option N; l_lp : option N }.

(* transport defaults (udp.c / tcp.c protodefs) *)
Definition ri_default (ty : N) : N :=
  if ty =? Consts.RAD_UDP then Consts.REQUEST_RETRY_INTERVAL else Consts.REQUEST_RETRY_INTERVAL * Consts.REQUEST_RETRY_COUNT.
Definition rc_default (ty : N) : N := if ty =? Consts.RAD_UDP then Consts.REQUEST_RETRY_COUNT else 0.
Definition rc_max (ty : N) : N := if ty =? Consts.RAD_UDP then 10 else 0.

Definition orelse {A} (o : option A) (d : A) : A := match o with Some x => x | None => d end.

(* None = the printed block is refused (a retry option outside the range of the transport) *)
Definition merge_dyn (t : dconf) (l : dlook) : option dconf :=
  let ty := orelse (l_type l) (d_type t) in
  let ri_ok := match l_ri l with Some x => (1 <=? x) && (x <=? 60) | None => true end in
  let rc_ok := match l_rc l with Some x => x <=? rc_max ty | None => true end in
  if negb (ri_ok && rc_ok) then None
  else
    let ri := match l_ri l with Some x => x | None => d_ri t end in
    let rc := match l_rc l with Some x => x | None => d_rc t end in
    Some (mkDconf ty
            (if ri =? 255 then ri_default ty else ri)
            (if rc =? 255 then rc_default ty else rc)
            (d_reqma t)                              (* not taken from the printed block *)
            (orelse (l_nc l) (d_nc t))               (* inherited unless given *)
            (orelse (l_cnc l) false)                 (* NOT inherited: off unless the printed block says on *)
            (orelse (l_ss l) (d_ss t))
            (orelse (l_secret l) (d_secret t))       (* the printed secret, whole, else the template's *)
            (orelse (l_addttl l) (d_addttl t))       (* the values returned by the command take preference *)
            (orelse (l_lp l) (d_lp t))).

(* the length the secret is used with is the length of the secret that applies *)
Definition secret_len (c : dconf) : nat := length (d_secret c).
