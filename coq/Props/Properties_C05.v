(* C05 -- Only authentic, acceptable requests are forwarded or answered (codec part).
   Statements only; the handler-level theorems are in the Proxy section below (added with the pipeline model). *)
From RSP Require Import Base Consts Ttl Packet Spec_Packet Packet_proofs.
Local Open Scope N_scope.

Section C05.
  Variable md5 : bytes -> bytes.

  (* A packet is turned into a message (and not flagged) only if: its length field equals the bytes
     received, its attributes tile it exactly with lengths 2..255, an Accounting-Request authenticator
     verifies (RFC 2866 3), and every Message-Authenticator it carries verifies under the secret
     (RFC 3579 3.2).  The message's attributes are exactly the packet's. *)
  Theorem C05_parse_only_if : forall b secret m,
    wf_bytes b = true ->
    buf2radmsg md5 b secret None = Some m ->
    length_field b = nlen b /\
    tiles (skipn 20 b) = true /\
    skipn 20 b = concat (map tlv2buf (m_attrs m)) /\
    forallb (fun a => tlv_l a <=? 253) (m_attrs m) = true /\
    (m_code m = Consts.RAD_Accounting_Request -> acct_request_auth_ok md5 b secret = true) /\
    (m_mainvalid m = false -> all_msgauth_ok md5 b None secret = true).
  Proof.
    intros b secret m W H.
    destruct (buf2radmsg_sound md5 b secret None m W (fun ra E => match E with end) H)
      as (H1 & H2 & H3 & H4 & _ & _ & _ & H8 & _ & H10).
    repeat split; try assumption.
    intro V. destruct (H10 V) as [HA _]. unfold authfield_for in HA. destruct (reply_code (m_code m)); exact HA.
  Qed.
End C05.
Print Assumptions C05_parse_only_if.

From RSP Require Import Proxy Slots_proofs Dup_proofs Reply_proofs Forward_proofs.
Local Open Scope N_scope.

(* through the handler: whatever radsrv places in a server table was parsed from an authentic packet
   (C05_parse_only_if applies to it), is an Access-Request or Accounting-Request, passed the
   RequireMessageAuthenticator(/Proxy) test and the EAP format test -- for every state, configuration and oracle *)
Theorem C05_forward_only_if : forall md5 rx cfg fs st h c now rnd s i b,
  In (OEnq s i b) (snd (radsrv md5 rx cfg fs st h c now rnd)) ->
  exists r0 msg, get_rq st h = Some r0 /\
    buf2radmsg md5 (match rq_buf r0 with Some x => x | None => [] end) (cc_secret (clconf_of cfg c)) None = Some msg /\
    m_mainvalid msg = false /\
    ((m_code msg =? Consts.RAD_Access_Request) || (m_code msg =? Consts.RAD_Accounting_Request) = true) /\
    ma_policy_rejects (clconf_of cfg c) msg = false /\
    (o_verifyeap (cf_opt cfg) && (m_code msg =? Consts.RAD_Access_Request) && negb (verifyeapformat (m_attrs msg)) = false).
Proof. exact forward_only_if_acceptable. Qed.
Print Assumptions C05_forward_only_if.
