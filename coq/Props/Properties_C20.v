(* C20 -- Dynamic lookups are invoked only with a sanitised realm argument.  Statements only. *)
From RSP Require Import Base Consts Route Spec_C08 Route_proofs.
Local Open Scope N_scope.

(* a lookup argument exists only if it is the non-empty text after the last '@' of the User-Name (as
   the router sees it) and consists solely of ASCII letters, digits, '.' and '-' *)
Theorem C20_sanitised : forall id r, dynrealm id = Some r ->
  r <> [] /\ forallb realm_char_ok r = true /\ exists pre, id = pre ++ 64 :: r /\ ~ In 64 r.
Proof. exact dynrealm_sanitised. Qed.
Print Assumptions C20_sanitised.

Theorem C20_complete : forall pre r, r <> [] -> forallb realm_char_ok r = true -> ~ In 64 r ->
  existsb (N.eqb 0) (pre ++ 64 :: r) = false ->
  dynrealm (pre ++ 64 :: r) = Some r.
Proof. exact dynrealm_complete. Qed.
Print Assumptions C20_complete.

Example C20_example :
  dynrealm [117;64;97;46;98] = Some [97;46;98] /\ dynrealm [117;64;59;114] = None /\
  dynrealm [117;64] = None /\ dynrealm [117] = None /\ dynrealm [117;64;97;64;98;32] = None.
Proof. vm_compute. repeat split. Qed.
