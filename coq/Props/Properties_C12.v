(* C12 -- Requests are retried, abandoned and counted as lost exactly as configured.  Statements only.
   `life` is the sequence of the writer's visits to one outstanding request; Proxy.slots_pass applies
   slot_action to every occupied slot it visits.  PARTIAL: that the writer thread is actually woken at
   the requested time is the kernel's business and is outside the model. *)
From RSP Require Import Base Consts Ttl Crypt Packet Rewrite Choose Proxy Writer_proofs.
Local Open Scope N_scope.

(* transmitted at most RetryCount+1 times in total (a Status-Server probe at most once), for every
   schedule of visits without reply and without connection reset *)
Theorem C12_count : forall ri rc isprobe visits, no_resend visits = true ->
  N.of_nat (length (sends (life ri rc isprobe visits 0 0%Z))) <= limit rc isprobe.
Proof. exact count_bound. Qed.
Print Assumptions C12_count.

(* successive transmissions are no closer than RetryInterval clock seconds *)
Theorem C12_spacing : forall ri rc isprobe visits tries expiry t rest, no_resend visits = true ->
  sends (life ri rc isprobe visits tries expiry) = t :: rest ->
  forallb (fun t' => (t + Z.of_N ri <=? t')%Z) rest = true.
Proof. exact spacing. Qed.
Print Assumptions C12_spacing.

(* then abandoned: the first visit at or after the last expiry releases the slot *)
Theorem C12_abandon : forall ri rc isprobe now expiry, (expiry <= now)%Z ->
  slot_action ri rc isprobe false now (limit rc isprobe) expiry = (AAbandon, limit rc isprobe, expiry).
Proof. exact abandon. Qed.
Print Assumptions C12_abandon.

(* connection re-established: transmitted again without consuming a retry; probes are discarded *)
Theorem C12_reconnect : forall ri rc isprobe now tries expiry, isprobe = false -> 0 < tries -> tries <= rc + 1 ->
  slot_action ri rc isprobe true now tries expiry = (ASend, tries, (now + Z.of_N ri)%Z).
Proof. exact resend_keeps_tries. Qed.
Print Assumptions C12_reconnect.

Theorem C12_reconnect_probe : forall ri rc isprobe now tries expiry, isprobe = true ->
  fst (fst (slot_action ri rc isprobe true now tries expiry)) = APurgeProbe.
Proof. exact resend_purges_probe. Qed.
Print Assumptions C12_reconnect_probe.

Example C12_example :
  sends (life 5 2 false [(10, false); (12, false); (15, false); (20, false); (25, false); (30, false)]%Z 0 0%Z) = [10; 15; 20]%Z.
Proof. vm_compute. reflexivity. Qed.

(* loss accounting of an abandoned request, per status-server mode: on/minimal - only unanswered probes count;
   auto - a lost probe counts nothing; off (and ordinary requests under auto) - every abandoned request counts;
   the count saturates at MAX_LOSTRQS *)
Theorem C12_lost_accounting : forall sv isprobe,
  s_lostrqs (abandon_server sv isprobe) = lost_after (s_statsrv sv) (s_lostrqs sv) isprobe.
Proof. exact abandon_lost. Qed.
Print Assumptions C12_lost_accounting.
