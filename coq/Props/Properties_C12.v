(* C12 -- Requests are retried, abandoned and counted as lost exactly as configured.  Statements only.
   `life` is the sequence of the writer's visits to one outstanding request; Proxy.slots_pass applies
   slot_action to every occupied slot it visits.  PARTIAL: that the writer thread is actually woken at
   the requested time is the kernel's business and is outside the model. *)
From RSP Require Import Base Consts Ttl Crypt Packet Rewrite Choose Proxy Writer_proofs.
Local Open Scope N_scope.

(* transmitted at most RetryCount+1 times in total (a Status-Server probe at most once), for every
   schedule of visits without reply and without connection reset *)
Theorem C12_count : forall ri rc isprobe visits, no_resend visits = true ->
  N.of_nat (length (sends (life ri rc isprobe visits 0 0%Z))) <= limit rc isprobe.
Proof. exact count_bound. Qed.
Print Assumptions C12_count.

(* successive transmissions are no closer than RetryInterval clock seconds *)
Theorem C12_spacing : forall ri rc isprobe visits tries expiry t rest, no_resend visits = true ->
  sends (life ri rc isprobe visits tries expiry) = t :: rest ->
  forallb (fun t' => (t + Z.of_N ri <=? t')%Z) rest = true.
Proof. exact spacing. Qed.
Print Assumptions C12_spacing.

(* then abandoned: the first visit at or after the last expiry releases the slot *)
Theorem C12_abandon : forall ri rc isprobe now expiry, (expiry <= now)%Z ->
  slot_action ri rc isprobe false now (limit rc isprobe) expiry = (AAbandon, limit rc isprobe, expiry).
Proof. exact abandon. Qed.
Print Assumptions C12_abandon.

(* connection re-established: transmitted again without consuming a retry; probes are discarded *)
Theorem C12_reconnect : forall ri rc isprobe now tries expiry, isprobe = false -> 0 < tries -> tries <= rc + 1 ->
  slot_action ri rc isprobe true now tries expiry = (ASend, tries, (now + Z.of_N ri)%Z).
Proof. exact resend_keeps_tries. Qed.
Print Assumptions C12_reconnect.

Theorem C12_reconnect_probe : forall ri rc isprobe now tries expiry, isprobe = true ->
  fst (fst (slot_action ri rc isprobe true now tries expiry)) = APurgeProbe.
Proof. exact resend_purges_probe. Qed.
Print Assumptions C12_reconnect_probe.

Example C12_example :
  sends (life 5 2 false [(10, false); (12, false); (15, false); (20, false); (25, false); (30, false)]%Z 0 0%Z) = [10; 15; 20]%Z.
Proof. vm_compute. reflexivity. Qed.

(* loss accounting of an abandoned request, per status-server mode: on/minimal - only unanswered probes count;
   auto - a lost probe counts nothing; off (and ordinary requests under auto) - every abandoned request counts;
   the count saturates at MAX_LOSTRQS *)
Theorem C12_lost_accounting : forall sv isprobe,
  s_lostrqs (abandon_server sv isprobe) = lost_after (s_statsrv sv) (s_lostrqs sv) isprobe.
Proof. exact abandon_lost. Qed.
Print Assumptions C12_lost_accounting.

(* ---- connection re-establishment, over every schedule of the connecter's steps and the writer's passes.
   The connecter's steps on the shared fields are taken from the source on every run (tcp_prog, tls_prog, dtls_prog
   are the Consts.connecter_ tables); `run prog sch l` is the list of writer passes of schedule sch from link state l
   (any state: usable or not, flag pending or not); p_resend is the pass's do_resend, p_up whether the state is
   CONNECTED (a write is refused otherwise), p_gen which connection it is. *)
From RSP Require Import Connect Connect_proofs.

(* the order the three connecters keep: CONNECTED first, then the flag, then the signal, nothing afterwards *)
Theorem C12_connecters_keep_the_order :
  handshake_ok tcp_prog = true /\ handshake_ok tls_prog = true /\ handshake_ok dtls_prog = true.
Proof. exact connecters_ok. Qed.
Print Assumptions C12_connecters_keep_the_order.

(* for such a connecter, whenever the writer makes a pass after the signal (which is what the signal causes), some
   pass re-sends everything with the state CONNECTED and on the connection just established -- whatever passes the
   writer made while the connection was being set up *)
Theorem C12_reconnect_handshake : forall prog, handshake_ok prog = true -> forall sch l,
  wake_after (signalled_at prog) sch = true ->
  existsb (good_pass (l_gen l + count_up prog)) (run prog sch l) = true.
Proof. exact handshake. Qed.
Print Assumptions C12_reconnect_handshake.

(* put together for the code as it is: on that pass every request still outstanding is transmitted on the new
   connection and keeps its transmission count *)
Theorem C12_reestablished_resends_all : forall prog, In prog [tcp_prog; tls_prog; dtls_prog] -> forall sch l,
  wake_after (signalled_at prog) sch = true ->
  exists p, In p (run prog sch l) /\ p_up p = true /\ p_gen p = (l_gen l + count_up prog)%nat /\
    forall ri rc tries expiry, 0 < tries -> tries <= rc + 1 ->
      slot_action ri rc false (p_resend p) (p_now p) tries expiry = (ASend, tries, (p_now p + Z.of_N ri)%Z).
Proof. exact reestablished_resends_all. Qed.
Print Assumptions C12_reestablished_resends_all.

(* the hypothesis is not idle: with the flag raised before the connection is up, one schedule suffices *)
Theorem C12_order_matters : exists sch l, wake_after (length [CDown; CRaise; CUp; CSignal]) sch = true /\
  existsb (good_pass (l_gen l + 1)) (run [CDown; CRaise; CUp; CSignal] sch l) = false.
Proof. exact order_matters. Qed.
Print Assumptions C12_order_matters.
