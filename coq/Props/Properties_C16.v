From RSP Require Import Base.
Theorem C16_placeholder : True. Proof. exact I. Qed.
