(* C16 -- Stream framing is independent of how TCP/TLS delivers the bytes.  Statements only.
   A delivery schedule is an arbitrary list of events: R k (a read returns at most k >= 1 bytes),
   W (TLS: no application data yet), T (poll timeout), E (error); when it runs out the stream ends. *)
From RSP Require Import Base Consts Frame Spec_C16 Frame_proofs.
Local Open Scope N_scope.

(* Independence: for every byte stream and EVERY schedule that only delivers data (any segmentation:
   1-byte reads, splits inside the header, ...) and outlasts the stream, the packets handed to the
   handler are exactly frames(stream) -- hence the same for any two such schedules. *)
Theorem C16_indep : forall fuel idle sched stream,
  forallb is_data sched = true -> (length stream < count_r sched)%nat -> (length stream < fuel)%nat ->
  reader fuel idle (fun _ => true) sched stream = frames stream.
Proof. exact reader_indep. Qed.
Print Assumptions C16_indep.

(* Stalls, errors, early EOF, rejected packets: for every schedule whatsoever and every handler
   behaviour, what is handed over is a prefix of frames(stream): only whole packets, each only after
   all of its bytes have arrived, never a slice from the middle, nothing after a bad length field. *)
Theorem C16_prefix : forall fuel idle accept sched stream,
  is_prefix_of (reader fuel idle accept sched stream) (frames stream) = true.
Proof. intros. apply reader_prefix. unfold frames. lia. Qed.
Print Assumptions C16_prefix.

(* an idle timeout (the only case in which a client reader keeps the connection) consumed no byte *)
Theorem C16_idle_at_boundary : forall sched stream st' s', radget sched stream = (Idle, st', s') -> st' = stream.
Proof. exact radget_idle. Qed.
Print Assumptions C16_idle_at_boundary.

Example C16_example :
  let p := [1; 7; 0; 20] ++ repeat 9 16 in
  frames (p ++ p) = [p; p] /\
  reader 10 true (fun _ => true) [R 3; R 1; W; R 100; R 7; R 100] (p ++ p) = [p; p] /\
  reader 10 true (fun _ => true) [R 10; T; R 100; R 100] (p ++ p) = [].
Proof. vm_compute. repeat split. Qed.
