(* C09 -- Server selection fails over in configured order and fails back.  Statements only. *)
From RSP Require Import Base Consts Choose Spec_C09 Choose_proofs.
Local Open Scope N_scope.

(* For EVERY list of statically configured servers (any length) in any combination of the five
   connection states and any unanswered counts: clauses (a)-(d) of the property, and a failed
   server is never selected. *)
Theorem C09_choice : forall l, static_ok l = true ->
  spec_choose l (fst (choosesrvconf l)) = true /\ never_failing l (fst (choosesrvconf l)) = true.
Proof. exact choose_spec. Qed.
Print Assumptions C09_choice.

Theorem C09_failback : forall l i, static_ok l = true ->
  nth_ok clean l i = true -> (forall j, (j < i)%nat -> nth_ok clean l j = false) ->
  fst (choosesrvconf l) = Some i.
Proof. exact choose_failback. Qed.
Print Assumptions C09_failback.

(* non-vacuity: [5,3,4] connected servers select the one with 3 (index 1) *)
Example C09_example :
  let l := [mkSrv false 2 5; mkSrv false 2 3; mkSrv false 2 4] in
  static_ok l = true /\ fst (choosesrvconf l) = Some 1%nat.
Proof. vm_compute. split; reflexivity. Qed.
