(* C10 -- Retransmitted requests are not forwarded twice; answered ones get the same reply.  Statements only. *)
From RSP Require Import Base Consts Ttl Crypt Packet Rewrite Choose Proxy Slots_proofs Dup_proofs.
Local Open Scope N_scope.

(* a repeat (same Identifier => same cache entry, same authenticator, less than DuplicateInterval after the
   original was received) is not registered; the only output is the stored reply bytes to the original's client *)
Theorem C10_repeat : forall md5 cfg fs st h c now rq h' r,
  get_rq st h = Some rq -> cache_entry st c (rq_rqid rq) = Some h' -> get_rq st h' = Some r ->
  is_dup cfg rq r now = true ->
  exists st' o, addclientrq md5 cfg fs st h c now = (false, st', o) /\
    match rq_replybuf r, rq_from r with
    | Some b, Some c' => o = [OReply c' b] \/ (fs 14 = true /\ o = [])   (* second case: the reply queue could not grow *)
    | _, _ => o = []
    end.
Proof. exact addclientrq_dup. Qed.
Print Assumptions C10_repeat.

(* through the handler: nothing is placed in any server's table, nothing else is sent *)
Theorem C10_repeat_not_forwarded : forall md5 rx cfg fs st h c now rnd r0 msg rq h' r,
  get_rq st h = Some r0 ->
  buf2radmsg md5 (match rq_buf r0 with Some b => b | None => [] end) (cc_secret (clconf_of cfg c)) None = Some msg ->
  fs 1 = false -> m_mainvalid msg = false -> request_code (m_code msg) = true ->
  let r1 := rq_set_ids (rq_set_msg (rq_set_buf r0 None) (Some msg)) (m_id msg) (m_auth msg) in
  let stp := purgedupcache cfg (set_rq (set_rq st h (rq_set_buf r0 None)) h r1) c now in
  get_rq stp h = Some rq -> cache_entry stp c (rq_rqid rq) = Some h' -> get_rq stp h' = Some r ->
  is_dup cfg rq r now = true ->
  exists st' o, radsrv md5 rx cfg fs st h c now rnd = (st', o) /\
    match rq_replybuf r, rq_from r with
    | Some b, Some c' => o = [OReply c' b; ORet 1] \/ (fs 14 = true /\ o = [ORet 1])
    | _, _ => o = [ORet 1]
    end.
Proof. exact radsrv_dup. Qed.
Print Assumptions C10_repeat_not_forwarded.

(* another authenticator, or at/after the interval: treated as new *)
Theorem C10_new : forall md5 cfg fs st h c now rq h' r,
  get_rq st h = Some rq -> cache_entry st c (rq_rqid rq) = Some h' -> get_rq st h' = Some r ->
  is_dup cfg rq r now = false ->
  exists st', addclientrq md5 cfg fs st h c now = (true, st', []).
Proof. exact addclientrq_new. Qed.
Print Assumptions C10_new.

Theorem C10_first : forall md5 cfg fs st h c now rq,
  get_rq st h = Some rq -> cache_entry st c (rq_rqid rq) = None ->
  exists st', addclientrq md5 cfg fs st h c now = (true, st', []).
Proof. exact addclientrq_first. Qed.
Print Assumptions C10_first.

(* the interval boundary is strict: elapsed < DuplicateInterval; interval 0 never suppresses *)
Theorem C10_boundary : forall cfg rq r now, beq_bytes (rq_rqauth rq) (rq_rqauth r) = true ->
  is_dup cfg rq r now = (now - rq_created r <? dup_window cfg r)%Z.
Proof. exact dup_boundary. Qed.
Print Assumptions C10_boundary.

Theorem C10_interval_zero : forall cfg rq r now, dup_window cfg r = 0%Z -> (rq_created r <= now)%Z -> is_dup cfg rq r now = false.
Proof. exact dup_interval_zero. Qed.
Print Assumptions C10_interval_zero.

(* superseding cancels the in-flight copy: its server slot is released, so its late reply finds no holder
   (C11_reply_needs_holder) *)
Theorem C10_supersede_cancels : forall st c i h r s, cache_entry st c i = Some h -> get_rq st h = Some r ->
  rq_to r = Some s -> slot_of st s (rq_newid r) = Some h ->
  (s < length (st_servers st))%nat -> (N.to_nat (rq_newid r) < length (s_slots (get_server st s)))%nat ->
  slot_of (removeclientrq st c i) s (rq_newid r) = None.
Proof. exact removeclientrq_cancels. Qed.
Print Assumptions C10_supersede_cancels.

From RSP Require Import Udp Udp_proofs.
Local Open Scope Z_scope.
(* the client association on UDP (udp.c radudpget): a datagram is attributed to the client object that already
   stands for its source address and port, whatever idle clients precede it in the table, and its own
   retransmission finds the same object again -- the duplicate cache of C10_repeat is that object's *)
Theorem C10_udp_same_association : forall l next addr port t id,
  first_match l addr port = Some id -> snd (fst (udp_arrival l next addr port t)) = id.
Proof. exact udp_same_association. Qed.
Print Assumptions C10_udp_same_association.

Theorem C10_udp_retransmission_same_client : forall l next addr port t t',
  let '(l1, id1, next1) := udp_arrival l next addr port t in
  snd (fst (udp_arrival l1 next1 addr port t')) = id1.
Proof. exact udp_retransmission_same_client. Qed.
Print Assumptions C10_udp_retransmission_same_client.

(* ---- over histories.  For every state reachable from the empty one by a valid history of the operations on the request
   state (as in C17_exactly_once), under any allocation failures:
   - the duplicate cache is what the property calls "received from the same client association": entry i of client c's
     cache refers to a live request that came from c with Identifier i;
   - a request that is outstanding at a server is remembered in its client's cache under its Identifier -- so a
     retransmission arriving while the original is still in flight meets that entry (C10_repeat: not registered, nothing
     forwarded) instead of being forwarded a second time. *)
From RSP Require Import BaseLemmas Keeps_proofs Refs_proofs Tight_proofs Reg_proofs Balance_proofs Slotinv_proofs Rqi_proofs Inv3_proofs.
Local Open Scope N_scope.

Theorem C10_cache_is_per_association : forall md5, (forall x, length (md5 x) = 16%nat) -> (forall x, wf_bytes (md5 x) = true) ->
  forall rx cfg nclients nservers ops c i h, cfg_ok cfg nservers -> Forall (op_ok nclients nservers) ops ->
  let st := fold_left (hstep md5 rx cfg) ops (init_state nclients nservers) in
  entry st c i = Some h -> exists r, get_rq st h = Some r /\ rq_from r = Some c /\ N.to_nat (rq_rqid r) = i.
Proof.
  intros md5 L W rx cfg nc ns ops c i h Hc Ho st E.
  assert (B : Bal nc ns st) by (apply (Bal_history md5 L W rx cfg nc ns Hc); [exact Ho | apply Bal_init]).
  clearbody st. destruct B as (S & _ & Rg).
  destruct (safe_no_dangling st S h ltac:(pose proof (entry_refs _ _ _ _ E); lia)) as (r & G & _).
  exists r. split; [exact G | exact (Rg _ _ _ _ E G)].
Qed.
Print Assumptions C10_cache_is_per_association.

Theorem C10_outstanding_is_remembered : forall md5, (forall x, length (md5 x) = 16%nat) -> (forall x, wf_bytes (md5 x) = true) ->
  forall rx cfg nclients nservers ops s i h r c, cfg_ok cfg nservers -> Forall (op_ok nclients nservers) ops ->
  let st := fold_left (hstep md5 rx cfg) ops (init_state nclients nservers) in
  slot_of st s i = Some h -> get_rq st h = Some r -> rq_from r = Some c -> entry st c (N.to_nat (rq_rqid r)) = Some h.
Proof.
  intros md5 L W rx cfg nc ns ops s i h r c Hc Ho st E G F.
  assert (Fu : Full nc ns st) by (apply (Full_history md5 L W rx cfg nc ns Hc); [exact Ho | apply Full_init]).
  clearbody st. destruct Fu as (_ & _ & _ & I3). exact (I3 _ _ _ _ _ E G F).
Qed.
Print Assumptions C10_outstanding_is_remembered.

(* the two halves composed: in every reachable state, a request that arrives from client c (a fresh object on the heap,
   as radudpget/the stream readers hand it over) while the original -- same Identifier, same authenticator, received
   less than DuplicateInterval earlier -- is still outstanding at ANY server is not registered, and nothing leaves
   towards any server: whatever is emitted is a stored reply to a client *)
Theorem C10_in_flight_retransmission_not_forwarded : forall md5, (forall x, length (md5 x) = 16%nat) -> (forall x, wf_bytes (md5 x) = true) ->
  forall rx cfg nclients nservers ops fs s i h' r c rq now, cfg_ok cfg nservers -> Forall (op_ok nclients nservers) ops ->
  let st := fold_left (hstep md5 rx cfg) ops (init_state nclients nservers) in
  slot_of st s i = Some h' -> get_rq st h' = Some r -> rq_from r = Some c ->
  rq_rqid rq = rq_rqid r -> is_dup cfg rq r now = true ->
  let '(st1, h) := alloc_rq st rq in
  exists st' o, addclientrq md5 cfg fs st1 h c now = (false, st', o) /\
    forall x, In x o -> exists c' b, x = OReply c' b.
Proof.
  intros md5 L W rx cfg nc ns ops fs s i h' r c rq now Hc Ho st E G F I D.
  assert (Fu : Full nc ns st) by (apply (Full_history md5 L W rx cfg nc ns Hc); [exact Ho | apply Full_init]).
  clearbody st. destruct Fu as ((S & _ & _) & _ & _ & I3).
  pose proof (INV3_alloc_rq st rq S I3) as I3'.
  pose proof (get_rq_alloc st rq) as Gh.
  destruct (alloc_rq st rq) as [st1 h] eqn:A. cbn [fst snd] in *.
  assert (E1 : slot_of st1 s i = Some h') by (unfold alloc_rq in A; injection A as <- _; exact E).
  assert (G1 : get_rq st1 h' = Some r).
  { unfold alloc_rq in A. injection A as <- _. unfold get_rq in *. cbn [st_heap].
    destruct (nth_error (st_heap st) h') as [x|] eqn:N; [|discriminate].
    rewrite nth_error_app1; [rewrite N; exact G | apply nth_error_Some; rewrite N; discriminate]. }
  pose proof (I3' _ _ _ _ _ E1 G1 F) as En. rewrite <- I in En.
  destruct (addclientrq_dup md5 cfg fs st1 h c now rq h' r Gh En G1 D) as (st' & o & Ea & Ho').
  exists st', o. split; [exact Ea|].
  intros x Hx. destruct (rq_replybuf r) as [b|]; [|subst o; destruct Hx].
  destruct (rq_from r) as [c'|]; [|subst o; destruct Hx].
  destruct Ho' as [-> | [_ ->]]; [|destruct Hx]. destruct Hx as [<- | []]. eauto.
Qed.
Print Assumptions C10_in_flight_retransmission_not_forwarded.

(* "supersedes the old one, whose late reply is then not delivered", over histories: in every reachable state, for a
   request outstanding at server s under identifier i that came from client c, superseding it (removeclientrq on its
   cache entry, what addclientrq does for a new request with the same Identifier) empties that server slot, and ANY
   packet the server then sends with identifier i -- the late reply -- finds no holder: the reply handler emits
   nothing but its return value (nothing on any client's reply queue) *)
Lemma slot_of_some_bounds st s i h : slot_of st s i = Some h ->
  (s < length (st_servers st))%nat /\ (N.to_nat i < length (s_slots (get_server st s)))%nat.
Proof.
  unfold slot_of, get_slot, get_server. intro E. split.
  - destruct (Nat.lt_ge_cases s (length (st_servers st))) as [L|L]; [exact L|].
    rewrite (nth_overflow _ _ L) in E. cbn in E. destruct (N.to_nat i); discriminate.
  - destruct (Nat.lt_ge_cases (N.to_nat i) (length (s_slots (nth s (st_servers st) dummy_server)))) as [L|L]; [exact L|].
    rewrite (nth_overflow _ _ L) in E. discriminate.
Qed.

Theorem C10_superseded_late_reply_not_delivered : forall md5, (forall x, length (md5 x) = 16%nat) -> (forall x, wf_bytes (md5 x) = true) ->
  forall rx cfg nclients nservers ops s i h r c, cfg_ok cfg nservers -> Forall (op_ok nclients nservers) ops ->
  let st := fold_left (hstep md5 rx cfg) ops (init_state nclients nservers) in
  slot_of st s i = Some h -> get_rq st h = Some r -> rq_from r = Some c ->
  let st' := removeclientrq st c (rq_rqid r) in
  slot_of st' s i = None /\
  forall fs buf now rnd, nth 1 buf 0 = i -> exists ret, snd (replyh md5 rx cfg fs st' s buf now rnd) = [ORet ret].
Proof.
  intros md5 L W rx cfg nc ns ops s i h r c Hc Ho st E G F st'.
  assert (Fu : Full nc ns st) by (apply (Full_history md5 L W rx cfg nc ns Hc); [exact Ho | apply Full_init]).
  clearbody st. destruct Fu as (_ & Sl & _ & I3).
  pose proof (I3 _ _ _ _ _ E G F) as En. destruct (Sl _ _ _ _ E G) as (To & Ni).
  destruct (slot_of_some_bounds _ _ _ _ E) as (B1 & B2).
  assert (N0 : slot_of st' s i = None).
  { subst st'. rewrite <- Ni in *. exact (removeclientrq_cancels st c (rq_rqid r) h r s En G To E B1 B2). }
  split; [exact N0|]. intros fs buf now rnd <-. exact (replyh_unmatched md5 rx cfg fs st' s buf now rnd N0).
Qed.
Print Assumptions C10_superseded_late_reply_not_delivered.
