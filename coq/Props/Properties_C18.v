(* C18 -- Logs and F-Ticks cannot be forged by peers and honour MAC privacy modes.  Statements only.
   sha256 / hmac_sha256 are arbitrary functions returning byte strings. *)
From RSP Require Import Base Consts Ttl Packet Log Spec_C18 Log_proofs.
Local Open Scope N_scope.

(* every octet of the escaped text of ANY attribute value is printable ASCII *)
Theorem C18_escape : forall v, wf_bytes v = true -> all_printable (radattr2ascii v) = true.
Proof. exact radattr2ascii_printable. Qed.
Print Assumptions C18_escape.

(* printable values are logged unchanged (so "the identifier" and its escaped form coincide for them) *)
Theorem C18_printable : forall v, all_printable v = true -> radattr2ascii v = v.
Proof. exact radattr2ascii_id. Qed.
Print Assumptions C18_printable.

Section C18.
  Variable sha256 : bytes -> bytes.
  Variable hmac_sha256 : bytes -> bytes -> bytes.
  Hypothesis sha_wf : forall x, wf_bytes (sha256 x) = true.
  Hypothesis hmac_wf : forall k x, wf_bytes (hmac_sha256 k x) = true.

  (* every attribute-derived field of the reply log line is printable, in every mode *)
  Theorem C18_reply_fields : forall rq rp full mode key, wf_attrs rq = true -> wf_attrs rp = true ->
    let f := replylog_fields_of sha256 hmac_sha256 rq rp full mode key in
    (match rl_user f with Some u => all_printable u | None => true end) = true /\
    all_printable (rl_station f) = true /\ all_printable (rl_cui f) = true /\
    all_printable (rl_operator f) = true /\ all_printable (rl_replymsg f) = true.
  Proof. exact (replylog_fields_printable sha256 hmac_sha256 sha_wf hmac_wf). Qed.

  Theorem C18_fticks_fields : forall rq mode key, wf_attrs rq = true ->
    all_printable (fticks_realm rq) = true /\ all_printable (fticks_csi sha256 hmac_sha256 rq mode key) = true.
  Proof. exact (fticks_fields_printable sha256 hmac_sha256 sha_wf hmac_wf). Qed.

  (* LogMAC Static: the identifier never appears *)
  Theorem C18_mac_static : forall key sid,
    log_station_field sha256 hmac_sha256 Consts.RSP_MAC_STATIC key sid = [117;110;100;105;115;99;108;111;115;101;100].
  Proof. exact (station_static sha256 hmac_sha256). Qed.

  (* FullyHashed / FullyKeyHashed: lower-case hex of (HMAC-)SHA-256 of the normal form only *)
  Theorem C18_mac_full : forall mode key sid,
    mode = Consts.RSP_MAC_FULLY_HASHED \/ mode = Consts.RSP_MAC_FULLY_KEY_HASHED ->
    log_station_field sha256 hmac_sha256 mode key sid =
      format_hash (match (if mode =? Consts.RSP_MAC_FULLY_KEY_HASHED then key else None) with
                   | None => sha256 (normal_form sid) | Some k => hmac_sha256 k (normal_form sid) end) 65 /\
    all_lower_hex (log_station_field sha256 hmac_sha256 mode key sid) = true.
  Proof. exact (station_fully sha256 hmac_sha256 sha_wf hmac_wf). Qed.

  (* VendorHashed / VendorKeyHashed: at most the first nine characters in clear, then lower-case hex *)
  Theorem C18_mac_vendor : forall mode key sid,
    mode = Consts.RSP_MAC_VENDOR_HASHED \/ mode = Consts.RSP_MAC_VENDOR_KEY_HASHED ->
    exists clear hashed, log_station_field sha256 hmac_sha256 mode key sid = clear ++ hashed /\
      clear = firstn 9 sid /\ all_lower_hex hashed = true.
  Proof. exact (station_vendor sha256 hmac_sha256 sha_wf hmac_wf). Qed.

  (* the hashed string is (HMAC-)SHA-256 of the lower-cased hex digits up to the first ';' *)
  Theorem C18_hash_input : forall id key n,
    hashmac sha256 hmac_sha256 id key n =
    format_hash (match key with None => sha256 (normal_form id) | Some k => hmac_sha256 k (normal_form id) end) n.
  Proof. exact (hashmac_normal sha256 hmac_sha256). Qed.

  (* LogFullUsername off: only the part from the first '@' on *)
  Theorem C18_username : forall rq rp mode key u, wf_attrs rq = true ->
    rl_user (replylog_fields_of sha256 hmac_sha256 rq rp false mode key) = Some u ->
    exists full, opt_ascii (gettype Consts.RAD_Attr_User_Name rq) = Some full /\ from_first 64 full = Some u /\
                 match u with x :: _ => x = 64 | [] => False end.
  Proof. exact (username_from_at sha256 hmac_sha256). Qed.
End C18.
Print Assumptions C18_reply_fields.
Print Assumptions C18_fticks_fields.
Print Assumptions C18_mac_static.
Print Assumptions C18_mac_full.
Print Assumptions C18_mac_vendor.
Print Assumptions C18_hash_input.
Print Assumptions C18_username.

Example C18_example : radattr2ascii [97; 10; 255; 37] = [97; 37; 48; 97; 37; 102; 102; 37].
Proof. vm_compute. reflexivity. Qed.
