(* C02 -- Replies return to the originating client, re-keyed.  Statements only.
   The theorems are about the model of replyh (Proxy.v), for every state, every packet from the server, every
   configuration, every regex/digest oracle and every allocation-failure oracle.  That a delivered packet
   carries a Response Authenticator valid for that client is C06_response_auth applied to the message named
   here; that hidden attributes are re-keyed is C03; what the correspondence run adds is that the real
   replyh/sendreply behave as this model on the generated histories. *)
From RSP Require Import Base Consts Ttl Crypt Packet Rewrite Choose Proxy Slots_proofs Dup_proofs Reply_proofs.
Local Open Scope N_scope.

(* at most one packet is delivered, to the client that sent the request which currently holds the slot named
   by the reply's Identifier; it is that request's stored reply, or the serialisation -- under THAT client's
   secret -- of a message carrying the Identifier and Request Authenticator of the client's original request *)
Theorem C02_to_originator : forall md5 rx cfg fs st s buf now rnd c p,
  In (OReply c p) (snd (replyh md5 rx cfg fs st s buf now rnd)) ->
  exists h r,
    slot_of st s (nth 1 buf 0) = Some h /\ get_rq st h = Some r /\ rq_from r = Some c /\
    (rq_replybuf r = Some p \/
     exists code attrs a,
       radmsg2buf md5 (mkMsg code (rq_rqid r) (rq_rqauth r) attrs false) (cc_secret (clconf_of cfg c)) = Ok (Some (p, a))) /\
    filter is_reply (snd (replyh md5 rx cfg fs st s buf now rnd)) = [OReply c p].
Proof. exact replyh_to_originator. Qed.
Print Assumptions C02_to_originator.

(* the delivered packet carries the Identifier the client used *)
Theorem C02_reply_identifier : forall md5 rx cfg fs st s buf now rnd c p,
  In (OReply c p) (snd (replyh md5 rx cfg fs st s buf now rnd)) ->
  exists h r, slot_of st s (nth 1 buf 0) = Some h /\ get_rq st h = Some r /\ rq_from r = Some c /\
    (rq_replybuf r = Some p \/ nth 1 p 0 = rq_rqid r).
Proof. exact replyh_reply_id. Qed.
Print Assumptions C02_reply_identifier.

(* a serialised message always carries its own identifier in the Identifier octet *)
Theorem C02_serialised_identifier : forall md5 m secret b a,
  radmsg2buf md5 m secret = Ok (Some (b, a)) -> nth 1 b 0 = m_id m.
Proof. exact radmsg2buf_id. Qed.
Print Assumptions C02_serialised_identifier.

(* ---- over histories: in every state reachable from the empty one by any sequence of the operations on the request
   state (Proxy.hstep), under any allocation failures, whatever is queued for delivery to a client is (the reply to) a
   live request that came from THAT client: a reply goes to the client association that sent the matching request and
   to no other *)
From RSP Require Import BaseLemmas Keeps_proofs Refs_proofs Tight_proofs Reg_proofs Balance_proofs Rqi_proofs.
Local Open Scope N_scope.

Theorem C02_queue_owner : forall md5 rx cfg nclients nservers ops c h,
  let st := fold_left (hstep md5 rx cfg) ops (init_state nclients nservers) in
  In h (c_replyq (get_client st c)) -> exists r, get_rq st h = Some r /\ rq_from r = Some c.
Proof.
  intros md5 rx cfg nc ns ops c h st Q.
  assert (S : safe st zero) by (apply safe_history; apply safe_init).
  assert (Rq : RQI st) by (apply RQI_history; [apply safe_init | apply RQI_init]).
  destruct (safe_no_dangling st S h ltac:(pose proof (queued_refs st c h Q); lia)) as (r & G & _).
  exists r. split; [exact G | exact (Rq c h r Q G)].
Qed.
Print Assumptions C02_queue_owner.
