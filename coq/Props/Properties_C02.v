From RSP Require Import Base.
Theorem C02_placeholder : True. Proof. exact I. Qed.
