(* C07 -- No network input can corrupt memory or crash the proxy.  Statements only.
   PARTIAL by nature: memory safety of C is not a property of a Gallina model.  What is proved is the INDEX
   ARITHMETIC of the parsers that face the network, on index-level models in which every octet the C code
   reads goes through a bounds-checked read (a Fault outside the buffer): no Fault is reachable for any
   input.  The index-level request parser is proved equal to the list-level parser model that the
   correspondence run compares with the real buf2radmsg.  Everything else (allocation, pointer lifetime, the
   library calls) is the business of the ASan/UBSan-instrumented correspondence run on generated and mutated
   input, which is testing. *)
From RSP Require Import Base Consts Ttl Crypt Packet Rewrite Dns Walk Dns_proofs Walk_proofs Packet_proofs.
Local Open Scope Z_scope.

(* request / reply parser (radmsg.c buf2radmsg): every buffer, every length *)
Theorem C07_parser_in_bounds : forall fuel buf p, 0 <= p -> p <= Z.of_nat (length buf) ->
  match walk_idx fuel buf p with
  | Fault _ => False
  | Ok None => True
  | Ok (Some l) => tiles_from l p (Z.of_nat (length buf))
  end.
Proof. exact walk_idx_safe. Qed.
Print Assumptions C07_parser_in_bounds.

Theorem C07_parser_is_the_model : forall fuel buf p, (p <= length buf)%nat ->
  walk_idx fuel buf (Z.of_nat p) = Ok (option_map (map conv) (parse_attrs fuel (skipn p buf) p)).
Proof. exact walk_idx_agrees. Qed.
Print Assumptions C07_parser_is_the_model.

(* vendor sub-attribute areas (radmsg.c attrvalidate and the walks in rewrite.c / radsecproxy.c that follow it) *)
Theorem C07_attrvalidate_in_bounds : forall fuel buf o len, 0 <= o -> 0 <= len -> o + len <= Z.of_nat (length buf) ->
  match attrvalidate_idx fuel buf o len with Fault _ => False | Ok _ => True end.
Proof. exact attrvalidate_idx_safe. Qed.
Print Assumptions C07_attrvalidate_in_bounds.

Theorem C07_subattr_walk_in_bounds : forall fuel buf o len, 0 <= o -> 0 <= len -> o + len <= Z.of_nat (length buf) ->
  attrvalidate_idx fuel buf o len = Ok true ->
  match subwalk_idx fuel buf o len with Fault _ => False | Ok _ => True end.
Proof. exact validate_then_walk_safe. Qed.
Print Assumptions C07_subattr_walk_in_bounds.

(* serializer: the Message-Authenticator is written inside the buffer *)
Theorem C07_serializer_in_bounds : forall md5, (forall x, length (md5 x) = 16%nat) -> forall m secret,
  msg_ok m = true -> is_fault (radmsg2buf md5 m secret) = false.
Proof. exact radmsg2buf_no_fault. Qed.
Print Assumptions C07_serializer_in_bounds.

(* attribute resize: a rewritten value fits the one-octet length *)
Theorem C07_modify_fits : forall rx v m v', (nlen v <= Consts.RAD_Max_Attr_Value_Length)%N ->
  dorewritemodattr rx v m = Some v' -> (nlen v' <= Consts.RAD_Max_Attr_Value_Length)%N.
Proof. exact modattr_fits. Qed.
Print Assumptions C07_modify_fits.

(* DNS answers used for dynamic discovery (dns.c), every record content, every behaviour of the name expansion *)
Theorem C07_dns_charstring : forall rdata offset, wf_bytes rdata = true -> 0 <= offset ->
  match readcharstring rdata offset with
  | Fault _ => False
  | Ok None => True
  | Ok (Some (s, consumed)) =>
      consumed = Z.of_nat (length s) + 1 /\ offset + consumed <= Z.of_nat (length rdata) /\ (length s < 256)%nat
  end.
Proof. exact readcharstring_safe. Qed.
Print Assumptions C07_dns_charstring.

Theorem C07_dns_naptr : forall dn rdata, wf_bytes rdata = true ->
  match parsenaptr dn rdata with
  | Fault _ => False
  | Ok None => True
  | Ok (Some r) =>
      exists l4, dn (4 + (Z.of_nat (length (na_flags r)) + 1) + (Z.of_nat (length (na_services r)) + 1) + (Z.of_nat (length (na_regexp r)) + 1)) = Some (l4, na_replacement r) /\
        4 + (Z.of_nat (length (na_flags r)) + 1) + (Z.of_nat (length (na_services r)) + 1) + (Z.of_nat (length (na_regexp r)) + 1) + l4 = Z.of_nat (length rdata) /\
        (length (na_flags r) < 256 /\ length (na_services r) < 256 /\ length (na_regexp r) < 256)%nat
  end.
Proof. exact parsenaptr_safe. Qed.
Print Assumptions C07_dns_naptr.

Theorem C07_dns_srv : forall dn rdata, match parsesrv dn rdata with Fault _ => False | _ => True end.
Proof. exact parsesrv_safe. Qed.
Print Assumptions C07_dns_srv.

(* ---- the DTLS HelloVerify cookie (tlscommon.c cookie_verify_cb): octets from the network, checked before the peer is
   authenticated.  `hash` is the keyed hash of peer address and time, `tstamp` the reading of the time stamp: any. *)
From RSP Require Import Cookie Cookie_proofs.

(* accepted => the cookie is, octet for octet, time stamp ++ hash for that time, has exactly that length, and is recent:
   in particular nothing outside its own octets took part in the verdict *)
Theorem C07_cookie_accept_only_whole : forall hash tstamp now c, cookie_verify hash tstamp now c = true ->
  let t := tstamp (firstn TS c) in
  c = firstn TS c ++ hash t /\ length c = (TS + length (hash t))%nat /\ (now - t <= COOKIE_MAX_AGE)%Z.
Proof. exact cookie_accept_only_whole. Qed.
Print Assumptions C07_cookie_accept_only_whole.

Theorem C07_cookie_wrong_length : forall hash tstamp now c,
  length c <> (TS + length (hash (tstamp (firstn TS c))))%nat -> cookie_verify hash tstamp now c = false.
Proof. exact cookie_wrong_length. Qed.
Print Assumptions C07_cookie_wrong_length.

(* not vacuous: the genuine cookie is accepted while it is recent *)
Theorem C07_cookie_genuine : forall hash tstamp now ts t, length ts = TS -> tstamp ts = t -> (now - t <= COOKIE_MAX_AGE)%Z ->
  cookie_verify hash tstamp now (ts ++ hash t) = true.
Proof. exact cookie_genuine. Qed.
Print Assumptions C07_cookie_genuine.
