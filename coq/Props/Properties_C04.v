(* C04 -- Only authentic replies to outstanding requests are accepted (codec part).  Statements only. *)
From RSP Require Import Base Consts Ttl Packet Spec_Packet Packet_proofs.
Local Open Scope N_scope.

Section C04.
  Variable md5 : bytes -> bytes.

  (* A byte string presented as a reply to a request with authenticator `ra` is turned into an
     (unflagged) message only if its Response Authenticator verifies under the server's secret and
     that request's authenticator (RFC 2865 3), the length field and tiling are exact, and every
     Message-Authenticator verifies with `ra` substituted for Accept/Reject/Challenge. *)
  Theorem C04_parse_only_if : forall b secret ra m,
    wf_bytes b = true -> length ra = 16%nat ->
    buf2radmsg md5 b secret (Some ra) = Some m ->
    length_field b = nlen b /\
    tiles (skipn 20 b) = true /\
    response_auth_ok md5 b ra secret = true /\
    (m_mainvalid m = false ->
       all_msgauth_ok md5 b (if reply_code (m_code m) then Some ra else None) secret = true).
  Proof.
    intros b secret ra m W L H.
    destruct (buf2radmsg_sound md5 b secret (Some ra) m W (fun r E => match E in _ = y return match y with Some r' => length r' = 16%nat | None => True end with eq_refl => L end) H)
      as (H1 & H2 & _ & _ & _ & _ & _ & _ & H9 & H10).
    repeat split; try assumption; [apply H9; reflexivity|].
    intro V. destruct (H10 V) as [HA _]. exact HA.
  Qed.

  (* without an outstanding request (no authenticator to verify against) a reply carrying a
     Message-Authenticator is always flagged *)
  Theorem C04_unverifiable_flagged : forall b secret m,
    wf_bytes b = true -> buf2radmsg md5 b secret None = Some m ->
    reply_code (m_code m) = true -> m_mainvalid m = false -> has_msgauth b = false.
  Proof.
    intros b secret m W H RC V.
    destruct (buf2radmsg_sound md5 b secret None m W (fun ra E => match E with end) H)
      as (_ & _ & _ & _ & _ & _ & _ & _ & _ & H10).
    destruct (H10 V) as [_ HB]. exact (HB RC eq_refl).
  Qed.
End C04.
Print Assumptions C04_parse_only_if.
Print Assumptions C04_unverifiable_flagged.

From RSP Require Import Ttl Crypt Rewrite Choose Proxy Slots_proofs Dup_proofs Reply_proofs.
Local Open Scope N_scope.

(* through the whole handler model replyh (every state, packet, configuration, oracle): anything is delivered to
   a client only if the packet's Identifier names an occupied slot whose request was TRANSMITTED (tries <> 0),
   the packet parses and authenticates against THAT request's authenticator under the server's secret
   (C04_parse_only_if then gives the Response-Authenticator / Message-Authenticator facts), its code is a
   response code, no Message-Authenticator failed, and the RequireMessageAuthenticator rule is met *)
Theorem C04_deliver_only_if : forall md5 rx cfg fs st s buf now rnd c p,
  In (OReply c p) (snd (replyh md5 rx cfg fs st s buf now rnd)) ->
  exists h r msg,
    slot_of st s (nth 1 buf 0) = Some h /\ get_rq st h = Some r /\
    sl_tries (get_slot (get_server st s) (nth 1 buf 0)) <> 0 /\
    buf2radmsg md5 buf (sc_secret (srvconf_of cfg s)) (match rq_msg r with Some m => Some (m_auth m) | None => None end) = Some msg /\
    reply_codes (m_code msg) = true /\ m_mainvalid msg = false /\
    reply_ma_required (srvconf_of cfg s) msg = false /\
    (match rq_msg r with Some m => m_code m | None => 0 end) <> Consts.RAD_Status_Server.
Proof. exact replyh_accept_only_if. Qed.
Print Assumptions C04_deliver_only_if.

(* ---- a dynamically discovered server (Dyn.merge_dyn: template block + the block printed by the lookup command): the secret
   its replies are verified under is the printed one when the command gives one, else the template's -- and it is used
   with its own length *)
From RSP Require Import Dyn Dyn_proofs.
Theorem C04_dynamic_secret : forall t l r, merge_dyn t l = Some r ->
  d_secret r = match l_secret l with Some s => s | None => d_secret t end /\ secret_len r = length (d_secret r).
Proof. exact merge_dyn_secret. Qed.
Print Assumptions C04_dynamic_secret.
