(* C13 -- Loop prevention and the TTL hop limit are enforced.
   This file contains only statements; every proof is `exact <lemma>` from Proofs/. *)
From RSP Require Import Base Consts Ttl Spec_C13 Ttl_proofs.
Local Open Scope N_scope.

(* For every byte string of every length: decrement by exactly one as an unsigned big-endian
   integer; "exceeded" (0) iff the value is zero before or after; value untouched when it was zero. *)
Theorem C13_dec : forall v, wf_bytes v = true -> spec_decttl v (decttl v) = true.
Proof. exact decttl_spec. Qed.
Print Assumptions C13_dec.

(* checkttl (plain TTL type) touches only the value of the first attribute of that type. *)
Theorem C13_only_ttl_plain : forall t0 attrs, wf_attrs attrs = true ->
  match first_of_type t0 attrs with
  | None => checkttl_plain t0 attrs = (ttl_none, attrs)
  | Some v => exists pre post a,
      attrs = pre ++ a :: post /\ tlv_t a = t0 /\ tlv_v a = v /\ first_of_type t0 pre = None /\
      checkttl_plain t0 attrs = (fst (decttl v), pre ++ mkTlv t0 (snd (decttl v)) :: post)
  end.
Proof. exact checkttl_plain_spec. Qed.
Print Assumptions C13_only_ttl_plain.

(* non-vacuity *)
Example C13_dec_example : decttl [1; 0] = (1, [0; 255]) /\ decttl [0; 1] = (0, [0; 0]) /\ decttl [] = (0, []).
Proof. vm_compute. repeat split. Qed.

From RSP Require Import Proxy Slots_proofs Dup_proofs Reply_proofs Forward_proofs.
Local Open Scope N_scope.

(* loop prevention through the handler: a request is never placed in the table of a server whose block name
   equals the client block's name when LoopPrevention is on for that server or (server unset) globally *)
Theorem C13_no_loop : forall md5 rx cfg fs st h c now rnd s i b,
  In (OEnq s i b) (snd (radsrv md5 rx cfg fs st h c now rnd)) ->
  loop_prevented cfg (clconf_of cfg c) (srvconf_of cfg s) = false.
Proof. exact forward_not_looped. Qed.
Print Assumptions C13_no_loop.
