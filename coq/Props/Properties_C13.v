(* C13 -- Loop prevention and the TTL hop limit are enforced.
   This file contains only statements; every proof is `exact <lemma>` from Proofs/. *)
From RSP Require Import Base Consts Ttl Spec_C13 Ttl_proofs Ttlv_proofs.
Local Open Scope N_scope.

(* For every byte string of every length: decrement by exactly one as an unsigned big-endian
   integer; "exceeded" (0) iff the value is zero before or after; value untouched when it was zero. *)
Theorem C13_dec : forall v, wf_bytes v = true -> spec_decttl v (decttl v) = true.
Proof. exact decttl_spec. Qed.
Print Assumptions C13_dec.

(* checkttl (plain TTL type) touches only the value of the first attribute of that type. *)
Theorem C13_only_ttl_plain : forall t0 attrs, wf_attrs attrs = true ->
  match first_of_type t0 attrs with
  | None => checkttl_plain t0 attrs = (ttl_none, attrs)
  | Some v => exists pre post a,
      attrs = pre ++ a :: post /\ tlv_t a = t0 /\ tlv_v a = v /\ first_of_type t0 pre = None /\
      checkttl_plain t0 attrs = (fst (decttl v), pre ++ mkTlv t0 (snd (decttl v)) :: post)
  end.
Proof. exact checkttl_plain_spec. Qed.
Print Assumptions C13_only_ttl_plain.

(* vendor form (the default TTLAttribute 27262:1).  vsa vb subs tr = a Vendor-Specific attribute made of the four
   vendor octets vb, the sub-attributes subs (type, value) each encoded type/length/value, and at most one stray
   octet tr.  The first attribute of the TTL vendor carrying the TTL sub-type has its FIRST such sub-attribute
   decremented in place -- whatever its length (0 included), wherever it stands among the other sub-attributes --
   the verdict is decttl's, and nothing else changes. *)
Theorem C13_vendor_ttl : forall t0 t1 vb subs1 v subs2 tr post,
  length vb = 4%nat -> be_value vb = t0 -> wf_bytes v = true -> (length tr <= 1)%nat ->
  forallb sub_ok (subs1 ++ (t1, v) :: subs2) = true ->
  forallb (fun p => negb (fst p =? t1)) subs1 = true ->
  forall pre, forallb (other_vendor t0) pre = true ->
  checkttl_vendor t0 t1 (pre ++ vsa vb (subs1 ++ (t1, v) :: subs2) tr :: post) =
  (fst (decttl v), pre ++ vsa vb (subs1 ++ (t1, snd (decttl v)) :: subs2) tr :: post).
Proof. exact checkttl_vendor_spec. Qed.
Print Assumptions C13_vendor_ttl.

(* no attribute of the TTL vendor: "no TTL", nothing changes *)
Theorem C13_vendor_none : forall t0 t1 attrs, forallb (other_vendor t0) attrs = true ->
  checkttl_vendor t0 t1 attrs = (ttl_none, attrs).
Proof. exact checkttl_vendor_none. Qed.
Print Assumptions C13_vendor_none.

(* non-vacuity: a zero-length TTL as last sub-attribute is found and means "exceeded" *)
Example C13_vendor_example :
  checkttl_vendor 27262 1 [mkTlv 1 [97]; vsa [0; 0; 106; 126] [(2, [5]); (1, [])] []; mkTlv 4 [1; 2; 3; 4]] =
  (0, [mkTlv 1 [97]; vsa [0; 0; 106; 126] [(2, [5]); (1, [])] []; mkTlv 4 [1; 2; 3; 4]]) /\
  fst (checkttl_vendor 27262 1 [vsa [0; 0; 106; 126] [(1, [0; 0; 0; 2]); (1, [])] [9]]) = 1.
Proof. vm_compute. split; reflexivity. Qed.

(* non-vacuity *)
Example C13_dec_example : decttl [1; 0] = (1, [0; 255]) /\ decttl [0; 1] = (0, [0; 0]) /\ decttl [] = (0, []).
Proof. vm_compute. repeat split. Qed.

From RSP Require Import Crypt Packet Rewrite Choose Proxy Slots_proofs Dup_proofs Reply_proofs Forward_proofs.
Local Open Scope N_scope.

(* loop prevention through the handler: a request is never placed in the table of a server whose block name
   equals the client block's name when LoopPrevention is on for that server or (server unset) globally *)
Theorem C13_no_loop : forall md5 rx cfg fs st h c now rnd s i b,
  In (OEnq s i b) (snd (radsrv md5 rx cfg fs st h c now rnd)) ->
  loop_prevented cfg (clconf_of cfg c) (srvconf_of cfg s) = false.
Proof. exact forward_not_looped. Qed.
Print Assumptions C13_no_loop.

(* the hop limit through the handlers: a request is placed in a server table, a reply passed on to the client,
   only if the TTL found (after the peer's rewriteIn) is absent or non-zero after the decrement *)
Theorem C13_request_ttl : forall md5 rx cfg fs st h c now rnd s i b,
  In (OEnq s i b) (snd (radsrv md5 rx cfg fs st h c now rnd)) ->
  exists r0 msg a1 ttlres a2,
    get_rq st h = Some r0 /\
    buf2radmsg md5 (match rq_buf r0 with Some x => x | None => [] end) (cc_secret (clconf_of cfg c)) None = Some msg /\
    dorewrite rx (m_attrs msg) (cc_rwin (clconf_of cfg c)) = Some a1 /\
    checkttl (o_ttl0 (cf_opt cfg)) (o_ttl1 (cf_opt cfg)) a1 = (ttlres, a2) /\ ttlres <> 0.
Proof. exact forward_ttl_alive. Qed.
Print Assumptions C13_request_ttl.

Theorem C13_reply_ttl : forall md5 rx cfg fs st s buf now rnd c p,
  In (OReply c p) (snd (replyh md5 rx cfg fs st s buf now rnd)) ->
  (exists h r, slot_of st s (nth 1 buf 0) = Some h /\ get_rq st h = Some r /\ rq_replybuf r = Some p) \/
  exists h r msg a1 ttlres a2,
    slot_of st s (nth 1 buf 0) = Some h /\ get_rq st h = Some r /\
    buf2radmsg md5 buf (sc_secret (srvconf_of cfg s)) (match rq_msg r with Some m => Some (m_auth m) | None => None end) = Some msg /\
    dorewrite rx (m_attrs msg) (sc_rwin (srvconf_of cfg s)) = Some a1 /\
    checkttl (o_ttl0 (cf_opt cfg)) (o_ttl1 (cf_opt cfg)) a1 = (ttlres, a2) /\ ttlres <> 0.
Proof. exact reply_ttl_alive. Qed.
Print Assumptions C13_reply_ttl.

(* ---- a dynamically discovered server: addTTL and LoopPrevention returned by the lookup command take preference over the
   template's (0 / 255 = not given there either: the global option applies, as for any server) *)
From RSP Require Import Dyn Dyn_proofs.
Theorem C13_dynamic_ttl : forall t l r, merge_dyn t l = Some r ->
  d_addttl r = match l_addttl l with Some x => x | None => d_addttl t end /\
  d_lp r = match l_lp l with Some x => x | None => d_lp t end.
Proof. exact merge_dyn_ttl. Qed.
Print Assumptions C13_dynamic_ttl.
