(* C01 -- Requests reach the routed server intact, exactly once (rewrite-engine part; the handler
   pipeline theorems are added with the Proxy model).  Statements only. *)
From RSP Require Import Base Consts Ttl Rewrite Spec_C01 Rewrite_proofs.
Local Open Scope N_scope.

(* For every regex engine (arbitrary oracle), every rewrite block the parser can build (types 1..255
   in its remove/whitelist list) and every attribute list: the attributes that no rule of the block
   names come out byte-identical, exactly once and in their original order, and whatever follows them
   is a sub-sequence of the configured supplement attributes followed by the configured additions. *)
Theorem C01_rewrite_untouched : forall rx attrs w out, rw_ok w = true ->
  dorewrite rx attrs (Some w) = Some out -> spec_rewrite_untouched w attrs out = true.
Proof. exact dorewrite_untouched. Qed.
Print Assumptions C01_rewrite_untouched.

(* non-vacuity: a block removing type 5 and modifying type 1 leaves type 4 and type 0 alone *)
Example C01_example :
  let w := mkRewrite false (Some [5]) None [mkTlv 200 [1]] [mkMod 1 0 0 [120]] [] [] in
  let rx := fun (_ : N) (_ : bytes) => Some [(0, 1)%Z] in
  rw_ok w = true /\
  dorewrite rx [mkTlv 4 [9]; mkTlv 5 [1]; mkTlv 0 [7]; mkTlv 1 [97]] (Some w) = Some [mkTlv 4 [9]; mkTlv 0 [7]; mkTlv 1 [120]; mkTlv 200 [1]].
Proof. vm_compute. split; reflexivity. Qed.

From RSP Require Import Ttl Crypt Packet Choose Proxy Slots_proofs Dup_proofs Reply_proofs Forward_proofs.
Local Open Scope N_scope.

(* through the handler: the packet placed in a server table is the client's message after exactly the stages
   listed in `forwarded` (rewriteIn, TTL, User-Name rewrite, CHAP-Challenge completion, new authenticator,
   User-Password re-encryption, rewriteOut, Message-Authenticator, TTL insertion), serialised under the chosen
   server's secret with the allocated identifier; C01_rewrite_untouched applies to both rewrite stages *)
Theorem C01_forward_composition : forall md5 rx cfg fs st h c now rnd s i b,
  In (OEnq s i b) (snd (radsrv md5 rx cfg fs st h c now rnd)) -> forwarded md5 rx cfg fs st h c rnd s i b.
Proof. exact forward_composition. Qed.
Print Assumptions C01_forward_composition.

(* "exactly once": one invocation of the request handler places at most one packet in a server table (and a repeat
   of the same request inside the duplicate interval places none: C10_repeat_not_forwarded) *)
Theorem C01_at_most_once : forall md5 rx cfg fs st h c now rnd,
  (length (filter is_enq (snd (radsrv md5 rx cfg fs st h c now rnd))) <= 1)%nat.
Proof. exact radsrv_at_most_one. Qed.
Print Assumptions C01_at_most_once.
