From RSP Require Import Base.
Theorem C01_placeholder : True. Proof. exact I. Qed.
