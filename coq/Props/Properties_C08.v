(* C08 -- Requests are routed by the first matching realm, as documented (matching part).  Statements only. *)
From RSP Require Import Base Consts Route Spec_C08 Route_proofs.
Local Open Scope N_scope.

(* For every realm block name over letters, digits, '.' and '-' and EVERY User-Name: the expression
   addrealm builds, matched as glibc matches it (unanchored, case-insensitive), accepts exactly the
   User-Names that end in '@' followed by the name, ASCII case-insensitively: no prefix or infix
   matches, no unescaped dot. *)
Theorem C08_plain : forall name user, name_ok name = true ->
  realm_matches name user = Some (ends_with_at_name user name).
Proof. exact realm_matches_plain. Qed.
Print Assumptions C08_plain.

(* '*' matches every User-Name, including the empty one *)
Theorem C08_star : forall user, realm_matches [42] user = Some true.
Proof. exact realm_matches_star. Qed.
Print Assumptions C08_star.

Example C08_example :
  realm_matches [97;46;98] [117;64;65;46;66] = Some true /\       (* "a.b" matches "u@A.B" *)
  realm_matches [97;46;98] [117;64;97;120;98] = Some false /\     (* ... not "u@axb" *)
  realm_matches [97;46;98] [117;64;97;46;98;99] = Some false /\   (* ... not "u@a.bc" *)
  realm_matches [97;46;98] [117;64;120;97;46;98] = Some false.    (* ... not "u@xa.b" *)
Proof. vm_compute. repeat split. Qed.

From RSP Require Import Ttl Crypt Packet Rewrite Choose Proxy Slots_proofs Dup_proofs Reply_proofs Forward_proofs.
Local Open Scope N_scope.

(* routing through the handler: the request goes to a server of the FIRST realm block, in configuration order,
   whose expression matches the (rewritten) User-Name; accounting servers for Accounting-Request *)
Theorem C08_first_matching_realm : forall md5 rx cfg fs st h c now rnd s i b,
  In (OEnq s i b) (snd (radsrv md5 rx cfg fs st h c now rnd)) ->
  exists uname rl pre post acct,
    cf_realms cfg = pre ++ rl :: post /\
    (forall q, In q pre -> rx (rl_rx q) (cstr uname) = None) /\ rx (rl_rx rl) (cstr uname) <> None /\
    In s (if acct : bool then rl_acc rl else rl_srv rl) /\ existsb (N.eqb 0) uname = false.
Proof. exact forward_first_realm. Qed.
Print Assumptions C08_first_matching_realm.

(* ---- REFUTED for the User-Name of length 0 (known finding F24).  The property says '*' matches every User-Name and
   quantifies over lengths 0..253; the code (and therefore the faithful model) drops a request whose User-Name is empty
   before any realm is consulted: radattr2ascii returns NULL for the NULL value of an empty attribute.  With a matcher
   that accepts everything (what '*' compiles to), one realm and a usable server: the one-octet name is forwarded, the
   empty one is not.  The same input is replayed on the implementation by the cases emptyuser-0/1 of gen/C08.py. *)
From RSP Require Import Examples_handlers.
Definition rx_all (_ : N) (_ : bytes) : option (list (Z * Z)) := Some [].
Definition req_with_username (u : bytes) : bytes :=
  [1; 9; 0; N.of_nat (22 + length u)] ++ ex_auth ++ [1; N.of_nat (2 + length u)] ++ u.
Theorem C08_star_empty_username_refuted :
  (exists b, In (OEnq 0 0 b) (snd (radsrv toy_md5 rx_all ex_cfg nofail (ex_state (req_with_username [120])) 0 0 100%Z ex_rnd))) /\
  snd (radsrv toy_md5 rx_all ex_cfg nofail (ex_state (req_with_username [])) 0 0 100%Z ex_rnd) = [ORet 1].
Proof. split; [eexists; vm_compute; left; reflexivity | vm_compute; reflexivity]. Qed.
Print Assumptions C08_star_empty_username_refuted.
