(* C08 -- Requests are routed by the first matching realm, as documented (matching part).  Statements only. *)
From RSP Require Import Base Consts Route Spec_C08 Route_proofs.
Local Open Scope N_scope.

(* For every realm block name over letters, digits, '.' and '-' and EVERY User-Name: the expression
   addrealm builds, matched as glibc matches it (unanchored, case-insensitive), accepts exactly the
   User-Names that end in '@' followed by the name, ASCII case-insensitively: no prefix or infix
   matches, no unescaped dot. *)
Theorem C08_plain : forall name user, name_ok name = true ->
  realm_matches name user = Some (ends_with_at_name user name).
Proof. exact realm_matches_plain. Qed.
Print Assumptions C08_plain.

(* '*' matches every User-Name, including the empty one *)
Theorem C08_star : forall user, realm_matches [42] user = Some true.
Proof. exact realm_matches_star. Qed.
Print Assumptions C08_star.

Example C08_example :
  realm_matches [97;46;98] [117;64;65;46;66] = Some true /\       (* "a.b" matches "u@A.B" *)
  realm_matches [97;46;98] [117;64;97;120;98] = Some false /\     (* ... not "u@axb" *)
  realm_matches [97;46;98] [117;64;97;46;98;99] = Some false /\   (* ... not "u@a.bc" *)
  realm_matches [97;46;98] [117;64;120;97;46;98] = Some false.    (* ... not "u@xa.b" *)
Proof. vm_compute. repeat split. Qed.
