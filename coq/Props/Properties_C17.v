(* C17 -- Request state is released exactly once and threads never deadlock.  Statements only.
   PARTIAL: what is proved is (1) deadlock freedom of ANY set of threads that obey the rank discipline
   (the discipline itself is checked on the lock calls the real code makes, recorded by the harness and
   judged with the extracted edge_ok); (2) the reference bookkeeping of the model's primitives.  Real
   thread interleavings, memory reuse and the reply-to-request accounting at the transports are runtime
   matters checked by the sanitizer-instrumented correspondence run, not theorems. *)
From RSP Require Import Base Consts Ttl Crypt Packet Rewrite Choose Proxy Locks Locks_proofs Slots_proofs Dup_proofs.

(* no cycle t0 -> t1 -> ... -> tn -> t0 of threads each blocked on a lock the next one holds, for every
   number of threads, every lock type and every rank function, if each obeys "wanted outranks held" *)
Theorem C17_no_deadlock : forall (L : Type) (rk : L -> nat) (t0 : thr L) (rest : list (thr L)),
  Forall (disciplined L rk) (t0 :: rest) ->
  Forall (fun t => exists w, want t = Some w) (t0 :: rest) ->
  chain L t0 rest -> waits_on L (last rest t0) t0 -> False.
Proof. exact no_deadlock_cycle. Qed.
Print Assumptions C17_no_deadlock.

(* what the harness checks on every recorded acquisition is exactly that discipline, for the rank table
   of coq/Model/Locks.v *)
Theorem C17_edges_are_discipline : forall t : thr lclass,
  (forall w l, want t = Some w -> In l (held t) -> edge_ok l w = true) -> disciplined lclass rank t.
Proof. exact edges_give_discipline. Qed.
Print Assumptions C17_edges_are_discipline.

(* the reference-counter mutexes are innermost *)
Theorem C17_leaf_innermost : forall a b, rank a = 7 -> edge_ok a b = false.
Proof. exact leaf_is_innermost. Qed.
Print Assumptions C17_leaf_innermost.

Example C17_hierarchy : (* realm > global > new-request > slot > {server, reply queue, counter} *)
  edge_ok LRealm LGlobal = true /\ edge_ok LGlobal LNewrq = true /\ edge_ok LNewrq LSlot = true /\
  edge_ok LSlot LSrvlock = true /\ edge_ok LSlot LReplyq = true /\ edge_ok LSlot LLeaf = true /\
  edge_ok LSlot LGlobal = false /\ edge_ok LReplyq LLeaf = true /\ edge_ok LLeaf LReplyq = false /\ edge_ok LReplyq LSrvlock = false.
Proof. repeat split. Qed.
