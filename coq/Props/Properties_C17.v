(* C17 -- Request state is released exactly once and threads never deadlock.  Statements only.
   PARTIAL: what is proved is (1) deadlock freedom of ANY set of threads that obey the rank discipline
   (the discipline itself is checked on the lock calls the real code makes, recorded by the harness and
   judged with the extracted edge_ok); (2) the reference bookkeeping of the model's primitives.  Real
   thread interleavings, memory reuse and the reply-to-request accounting at the transports are runtime
   matters checked by the sanitizer-instrumented correspondence run, not theorems. *)
From RSP Require Import Base Consts Ttl Crypt Packet Rewrite Choose Proxy Locks Locks_proofs Slots_proofs Dup_proofs.

(* no cycle t0 -> t1 -> ... -> tn -> t0 of threads each blocked on a lock the next one holds, for every
   number of threads, every lock type and every rank function, if each obeys "wanted outranks held" *)
Theorem C17_no_deadlock : forall (L : Type) (rk : L -> nat) (t0 : thr L) (rest : list (thr L)),
  Forall (disciplined L rk) (t0 :: rest) ->
  Forall (fun t => exists w, want t = Some w) (t0 :: rest) ->
  chain L t0 rest -> waits_on L (last rest t0) t0 -> False.
Proof. exact no_deadlock_cycle. Qed.
Print Assumptions C17_no_deadlock.

(* what the harness checks on every recorded acquisition is exactly that discipline, for the rank table
   of coq/Model/Locks.v *)
Theorem C17_edges_are_discipline : forall t : thr lclass,
  (forall w l, want t = Some w -> In l (held t) -> edge_ok l w = true) -> disciplined lclass rank t.
Proof. exact edges_give_discipline. Qed.
Print Assumptions C17_edges_are_discipline.

(* the reference-counter mutexes are innermost *)
Theorem C17_leaf_innermost : forall a b, rank a = 7 -> edge_ok a b = false.
Proof. exact leaf_is_innermost. Qed.
Print Assumptions C17_leaf_innermost.

Example C17_hierarchy : (* realm > global > new-request > slot > {server, reply queue, counter} *)
  edge_ok LRealm LGlobal = true /\ edge_ok LGlobal LNewrq = true /\ edge_ok LNewrq LSlot = true /\
  edge_ok LSlot LSrvlock = true /\ edge_ok LSlot LReplyq = true /\ edge_ok LSlot LLeaf = true /\
  edge_ok LSlot LGlobal = false /\ edge_ok LReplyq LLeaf = true /\ edge_ok LLeaf LReplyq = false /\ edge_ok LReplyq LSrvlock = false.
Proof. repeat split. Qed.

(* ---- reference accounting.
   refs st h = the number of places (client duplicate caches, client reply queues, server slots) that refer to
   request object h; rcount st h = its counter (0 when it has been released);
   safe st e := forall h, refs st h + e h <= rcount st h, where e h is the number of references the running code
   itself holds.  `safe` says nothing that is still referred to has been released -- no dangling reference, no
   double release.  The handlers are stated for EVERY state, configuration, packet, digest/regex oracle and
   allocation-failure oracle; the history theorem for every sequence of operations from the empty state. *)
From RSP Require Import Keeps_proofs Refs_proofs Tight_proofs Reg_proofs Balance_proofs.
Local Open Scope N_scope.

(* radsrv is entered holding one reference to the new request and gives it up exactly once on every path: to a
   server slot (sendrq), to nobody (dropped), whatever else it registers (duplicate cache, reply queue) gets a
   reference of its own *)
Theorem C17_radsrv_consumes_its_reference : forall md5 rx cfg fs st h c now rnd e,
  safe st (add1 e h) -> safe (fst (radsrv md5 rx cfg fs st h c now rnd)) e.
Proof. exact safe_radsrv. Qed.
Print Assumptions C17_radsrv_consumes_its_reference.

(* replyh: the reference taken for the client's reply queue and the one the slot gives up are accounted for *)
Theorem C17_replyh_balanced : forall md5 rx cfg fs st s buf now rnd e,
  safe st e -> safe (fst (replyh md5 rx cfg fs st s buf now rnd)) e.
Proof. exact safe_replyh. Qed.
Print Assumptions C17_replyh_balanced.

(* the server writer: retransmission, purge, abandonment, Status-Server probes *)
Theorem C17_writer_balanced : forall md5 cfg fs s tick putfail e fuel st now rnd,
  safe st e -> safe (fst (writer_release md5 cfg fs fuel st s now tick rnd putfail)) e.
Proof. exact safe_writer_release. Qed.
Print Assumptions C17_writer_balanced.

(* the primitives: a reference taken, a reference given up (the object goes with the last one) *)
Theorem C17_newrqref : forall st h r e, get_rq st h = Some r -> safe st e -> safe (newrqref st h) (add1 e h).
Proof. exact safe_newrqref. Qed.
Print Assumptions C17_newrqref.
Theorem C17_freerq : forall st h e, safe st (add1 e h) -> safe (freerq st h) e.
Proof. exact safe_freerq. Qed.
Print Assumptions C17_freerq.

(* every history of the six operations (request received, reply received, writer released, client queue drained,
   client gone, server gone), each with its own allocation failures, from the empty state with any number of
   clients and servers *)
Theorem C17_every_history : forall md5 rx cfg nclients nservers ops,
  safe (fold_left (hstep md5 rx cfg) ops (init_state nclients nservers)) zero.
Proof. intros. apply safe_history. apply safe_init. Qed.
Print Assumptions C17_every_history.

(* ... so that, in every reachable state, whatever a cache entry, a reply queue or a slot refers to is a live
   request object whose counter covers all the places that refer to it *)
Theorem C17_no_dangling_reference : forall md5 rx cfg nclients nservers ops h,
  let st := fold_left (hstep md5 rx cfg) ops (init_state nclients nservers) in
  0 < refs st h -> exists r, get_rq st h = Some r /\ refs st h <= rq_refcount r.
Proof. intros. apply safe_no_dangling; [|assumption]. apply safe_history. apply safe_init. Qed.
Print Assumptions C17_no_dangling_reference.

(* ---- exactly once.  The other half -- nothing leaks -- needs the tables to exist: client and server indices in
   range (op_ok: the client of a received packet and the server of a writer exist, a received packet is an octet
   string of at least 20 octets; cfg_ok: the realms name servers that exist).  Under these conditions, after EVERY
   history of the six operations from the empty state, with any allocation failures:
     - every request object's counter EQUALS the number of cache entries, reply-queue entries and slots that refer
       to it (so an object is released exactly when the last of them lets go, and is never released before), and
     - the executable check rc_ok, which the driver also evaluates on the model state after every operation of every
       generated history, holds.
   The proof carries three invariants through all handlers: safe (Refs_proofs), tight + table shape (Tight_proofs),
   and the registration invariant REG -- a cached request came from that client and sits at its Identifier --
   which sendreply (dereferences rq->from) and rmclientrq (clears the entry named by rq->from and the Identifier)
   rely on (Reg_proofs). *)
Theorem C17_exactly_once : forall md5, (forall x, length (md5 x) = 16%nat) -> (forall x, wf_bytes (md5 x) = true) ->
  forall rx cfg nclients nservers ops, cfg_ok cfg nservers -> Forall (op_ok nclients nservers) ops ->
  let st := fold_left (hstep md5 rx cfg) ops (init_state nclients nservers) in
  (forall h, rcount st h = refs st h) /\ rc_ok st = true.
Proof.
  intros md5 L W rx cfg nc ns ops Hc Ho st.
  assert (B : Bal nc ns st) by (apply (Bal_history md5 L W rx cfg nc ns Hc); [exact Ho | apply Bal_init]).
  split; [exact (Bal_exact nc ns st B) | exact (Bal_rc_ok nc ns st B)].
Qed.
Print Assumptions C17_exactly_once.

(* one step, from any balanced state (the handlers' own statements are T_radsrv, T_replyh, T_writer_release,
   REG_radsrv ... in Proofs/) *)
Theorem C17_step_keeps_balance : forall md5, (forall x, length (md5 x) = 16%nat) -> (forall x, wf_bytes (md5 x) = true) ->
  forall rx cfg nclients nservers st op, cfg_ok cfg nservers -> op_ok nclients nservers op ->
  Bal nclients nservers st -> Bal nclients nservers (hstep md5 rx cfg st op).
Proof. intros md5 L W rx cfg nc ns st op Hc. exact (Bal_hstep md5 L W rx cfg nc ns Hc st op). Qed.
Print Assumptions C17_step_keeps_balance.

(* "not retained once its client is gone": after removeclient nothing of that client is left in its duplicate cache or
   its reply queue (every cached request's server slot was released with it: C10_supersede_cancels); together with
   C17_exactly_once -- counter = places that refer to the object -- a request that was only held there is released *)
From RSP Require Import Slotinv_proofs.
Theorem C17_client_gone_forgets : forall st c, safe st zero ->
  (forall j, (j < 256)%nat -> entry (removeclient st c) c j = None) /\ c_replyq (get_client (removeclient st c) c) = [].
Proof. exact removeclient_empties. Qed.
Print Assumptions C17_client_gone_forgets.

(* ... and every request that came from the client is released with it.  For every reachable state (valid history,
   as in C17_exactly_once): after removeclient no live request object names that client as its originator -- whatever
   was cached, queued for it or in flight towards a server has been let go by all its holders and freed.
   Carried by four invariants over all histories: Bal (counter = holders), SLOT (a request in a server's table names that
   server and identifier), RQI (a queued reply belongs to a request of that client) and INV3 (a request in a server's
   table is registered in its client's duplicate cache): Proofs/Slotinv_proofs.v, Rqi_proofs.v, Inv3_proofs.v. *)
From RSP Require Import Rqi_proofs Inv3_proofs.
Theorem C17_client_gone_releases_its_requests : forall md5, (forall x, length (md5 x) = 16%nat) -> (forall x, wf_bytes (md5 x) = true) ->
  forall rx cfg nclients nservers ops c, cfg_ok cfg nservers -> Forall (op_ok nclients nservers) ops ->
  let st := fold_left (hstep md5 rx cfg) ops (init_state nclients nservers) in
  forall h r, get_rq (removeclient st c) h = Some r -> rq_from r <> Some c.
Proof.
  intros md5 L W rx cfg nc ns ops c Hc Ho st.
  assert (F : Full nc ns st) by (apply (Full_history md5 L W rx cfg nc ns Hc); [exact Ho | apply Full_init]).
  clearbody st.
  exact (client_gone_releases nc ns st c F (Full_removeclient nc ns st c F)).
Qed.
Print Assumptions C17_client_gone_releases_its_requests.

(* the same for a server that goes away (a dynamically discovered server being removed, freeserver): in every reachable
   state, afterwards none of its 256 identifiers is occupied -- every request that was outstanding there has been let go
   by the table (and, by C17_exactly_once, freed when the table was its only holder) *)
Lemma R6_fold_freerqoutdata s l : forall st, R6 st (fold_left (fun st i => freerqoutdata st s (N.of_nat i)) l st).
Proof.
  induction l as [|i l IH]; intro st; [apply R6_refl|].
  cbn [fold_left]. eapply R6_trans; [apply R6_freerqoutdata | apply IH].
Qed.

Lemma freeserver_fold_empties nc ns s l : forall st i, T nc ns st zero -> (s < ns)%nat -> In i l -> (i < 256)%nat ->
  slot_of (fold_left (fun st i => freerqoutdata st s (N.of_nat i)) l st) s (N.of_nat i) = None.
Proof.
  induction l as [|a l IH]; intros st i Tt Ls Hi Li; [destruct Hi|].
  cbn [fold_left]. destruct Hi as [-> | Hi].
  - assert (Z0 : slot_of (freerqoutdata st s (N.of_nat i)) s (N.of_nat i) = None).
    { destruct Tt as (_ & (_ & Hns & _ & Hsv) & _). destruct (Hsv s Ls) as (H256 & _).
      apply freerqoutdata_releases; [rewrite Hns; exact Ls | rewrite H256, Nat2N.id; exact Li]. }
    destruct (R6_fold_freerqoutdata s l (freerqoutdata st s (N.of_nat i))) as (SS & _).
    destruct (slot_of (fold_left _ l _) s (N.of_nat i)) as [h|] eqn:E; [|reflexivity].
    rewrite (SS _ _ _ E) in Z0. discriminate.
  - apply IH; [apply T_freerqoutdata; exact Tt | exact Ls | exact Hi | exact Li].
Qed.

Theorem C17_server_gone_empties_its_table : forall md5, (forall x, length (md5 x) = 16%nat) -> (forall x, wf_bytes (md5 x) = true) ->
  forall rx cfg nclients nservers ops s i, cfg_ok cfg nservers -> Forall (op_ok nclients nservers) ops ->
  let st := fold_left (hstep md5 rx cfg) ops (init_state nclients nservers) in
  (s < nservers)%nat -> i < 256 -> slot_of (freeserver st s) s i = None.
Proof.
  intros md5 L W rx cfg nc ns ops s i Hc Ho st Ls Li.
  assert (B : Bal nc ns st) by (apply (Bal_history md5 L W rx cfg nc ns Hc); [exact Ho | apply Bal_init]).
  clearbody st. destruct B as (_ & Tt & _).
  rewrite <- (N2Nat.id i). unfold freeserver.
  apply (freeserver_fold_empties nc ns s (seq 0 256) st (N.to_nat i) Tt Ls); [apply in_seq; lia | lia].
Qed.
Print Assumptions C17_server_gone_empties_its_table.
