(* C11 -- Outstanding requests to a server never share or steal an identifier.  Statements only.
   The outstanding table is indexed by identifier, so "pairwise distinct identifiers" is the statement
   that what sits in slot i carries i on the wire (C11_wire_id); the rest is about who may enter a slot. *)
From RSP Require Import Base Consts Ttl Crypt Packet Rewrite Choose Proxy Slots_proofs.
Local Open Scope N_scope.

(* All statements are for EVERY allocation-failure oracle fs (see Proxy.v): they hold whatever runs out of memory. *)

(* an occupied slot is never written *)
Theorem C11_occupied_refused : forall md5 cfg fs st s id h h',
  slot_of st s id = Some h' -> internal_sendrq md5 cfg fs st s id h = None.
Proof. exact internal_sendrq_occupied. Qed.
Print Assumptions C11_occupied_refused.

(* whatever sendrq does -- insert, or drop and forget -- every occupied slot of every server keeps its request *)
Theorem C11_never_displaces : forall md5 cfg fs st h st' o,
  sendrq md5 cfg fs st h = (st', o) -> keeps_slots st st'.
Proof. exact sendrq_keeps. Qed.
Print Assumptions C11_never_displaces.

(* sendrq announces at most one identifier; it was free, lies in the table, and with status-server enabled
   identifier 0 goes to Status-Server probes and to nothing else *)
Theorem C11_allocation : forall md5 cfg fs st h st' o r s, sendrq md5 cfg fs st h = (st', o) ->
  get_rq st h = Some r -> rq_to r = Some s -> s_nextid (get_server st s) <= Consts.MAX_REQUESTS ->
  let statsrv_on := negb (s_statsrv (get_server st s) =? Consts.RSP_STATSRV_OFF) in
  let isprobe := match rq_msg r with Some m => m_code m =? Consts.RAD_Status_Server | None => false end in
  enq_ids o = [] \/
  exists id, enq_ids o = [(s, id)] /\ slot_of st s id = None /\ id < Consts.MAX_REQUESTS /\
             (statsrv_on = true -> (id = 0 <-> isprobe = true)).
Proof. exact sendrq_ids. Qed.
Print Assumptions C11_allocation.

(* the Identifier octet of the packet placed in slot id is id *)
Theorem C11_wire_id : forall md5 cfg fs st s id h st' o, internal_sendrq md5 cfg fs st s id h = Some (st', o) ->
  exists b, o = [OEnq s id b] /\ nth 1 b 0 = id.
Proof. exact internal_sendrq_wire_id. Qed.
Print Assumptions C11_wire_id.

(* a scan that finds nothing means every identifier of the range was refused (table full => dropped) *)
Theorem C11_full_means_full : forall md5 cfg fs fuel st s i limit h, (N.to_nat (limit - i) <= fuel)%nat ->
  scan_ids md5 cfg fs fuel st s i limit h = None ->
  forall j, i <= j < limit -> internal_sendrq md5 cfg fs st s j h = None.
Proof. exact scan_ids_none. Qed.
Print Assumptions C11_full_means_full.

(* a reply whose Identifier names an empty slot is delivered to nobody *)
Theorem C11_reply_needs_holder : forall md5 rx cfg fs st s buf now rnd, slot_of st s (nth 1 buf 0) = None ->
  exists r, snd (replyh md5 rx cfg fs st s buf now rnd) = [ORet r].
Proof. exact replyh_unmatched. Qed.
Print Assumptions C11_reply_needs_holder.

(* dropped AND forgotten: when sendrq places nothing, the originating client's cache entry for the
   request's Identifier is gone, so the client's retransmission is treated as new *)
Theorem C11_drop_forgets : forall md5 cfg fs st h st' o r c, sendrq md5 cfg fs st h = (st', o) ->
  get_rq st h = Some r -> rq_from r = Some c -> enq_ids o = [] ->
  cache_entry st' c (rq_rqid r) = None.
Proof. exact sendrq_drop_forgets. Qed.
Print Assumptions C11_drop_forgets.
