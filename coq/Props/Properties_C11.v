(* C11 -- Outstanding requests to a server never share or steal an identifier.  Statements only.
   The outstanding table is indexed by identifier, so "pairwise distinct identifiers" is the statement
   that what sits in slot i carries i on the wire (C11_wire_id); the rest is about who may enter a slot. *)
From RSP Require Import Base Consts Ttl Crypt Packet Rewrite Choose Proxy Slots_proofs.
Local Open Scope N_scope.

(* All statements are for EVERY allocation-failure oracle fs (see Proxy.v): they hold whatever runs out of memory. *)

(* an occupied slot is never written *)
Theorem C11_occupied_refused : forall md5 cfg fs st s id h h',
  slot_of st s id = Some h' -> internal_sendrq md5 cfg fs st s id h = None.
Proof. exact internal_sendrq_occupied. Qed.
Print Assumptions C11_occupied_refused.

(* whatever sendrq does -- insert, or drop and forget -- every occupied slot of every server keeps its request *)
Theorem C11_never_displaces : forall md5 cfg fs st h st' o,
  sendrq md5 cfg fs st h = (st', o) -> keeps_slots st st'.
Proof. exact sendrq_keeps. Qed.
Print Assumptions C11_never_displaces.

(* sendrq announces at most one identifier; it was free, lies in the table, and with status-server enabled
   identifier 0 goes to Status-Server probes and to nothing else *)
Theorem C11_allocation : forall md5 cfg fs st h st' o r s, sendrq md5 cfg fs st h = (st', o) ->
  get_rq st h = Some r -> rq_to r = Some s -> s_nextid (get_server st s) <= Consts.MAX_REQUESTS ->
  let statsrv_on := negb (s_statsrv (get_server st s) =? Consts.RSP_STATSRV_OFF) in
  let isprobe := match rq_msg r with Some m => m_code m =? Consts.RAD_Status_Server | None => false end in
  enq_ids o = [] \/
  exists id, enq_ids o = [(s, id)] /\ slot_of st s id = None /\ id < Consts.MAX_REQUESTS /\
             (statsrv_on = true -> (id = 0 <-> isprobe = true)).
Proof. exact sendrq_ids. Qed.
Print Assumptions C11_allocation.

(* the Identifier octet of the packet placed in slot id is id *)
Theorem C11_wire_id : forall md5 cfg fs st s id h st' o, internal_sendrq md5 cfg fs st s id h = Some (st', o) ->
  exists b, o = [OEnq s id b] /\ nth 1 b 0 = id.
Proof. exact internal_sendrq_wire_id. Qed.
Print Assumptions C11_wire_id.

(* a scan that finds nothing means every identifier of the range was refused (table full => dropped) *)
Theorem C11_full_means_full : forall md5 cfg fs fuel st s i limit h, (N.to_nat (limit - i) <= fuel)%nat ->
  scan_ids md5 cfg fs fuel st s i limit h = None ->
  forall j, i <= j < limit -> internal_sendrq md5 cfg fs st s j h = None.
Proof. exact scan_ids_none. Qed.
Print Assumptions C11_full_means_full.

(* a reply whose Identifier names an empty slot is delivered to nobody *)
Theorem C11_reply_needs_holder : forall md5 rx cfg fs st s buf now rnd, slot_of st s (nth 1 buf 0) = None ->
  exists r, snd (replyh md5 rx cfg fs st s buf now rnd) = [ORet r].
Proof. exact replyh_unmatched. Qed.
Print Assumptions C11_reply_needs_holder.

(* dropped AND forgotten: when sendrq places nothing, the originating client's cache entry for the
   request's Identifier is gone, so the client's retransmission is treated as new *)
Theorem C11_drop_forgets : forall md5 cfg fs st h st' o r c, sendrq md5 cfg fs st h = (st', o) ->
  get_rq st h = Some r -> rq_from r = Some c -> enq_ids o = [] ->
  cache_entry st' c (rq_rqid r) = None.
Proof. exact sendrq_drop_forgets. Qed.
Print Assumptions C11_drop_forgets.

(* ---- over histories.  In every state reachable from the empty one by any sequence of the six operations on the
   request state (Proxy.hstep: request received, reply received, writer released, client queue drained, client
   gone, server gone), under any allocation failures and with no side condition at all:
   an occupied slot refers to a live request object that names this server and this identifier (rq->to,
   rq->newid), hence an outstanding request occupies exactly ONE identifier of exactly ONE server -- it can neither
   share an identifier (a slot holds one request) nor hold two. *)
From RSP Require Import BaseLemmas Keeps_proofs Refs_proofs Tight_proofs Reg_proofs Balance_proofs Slotinv_proofs.
Local Open Scope N_scope.

Theorem C11_slot_knows_its_request : forall md5 rx cfg nclients nservers ops s i h,
  let st := fold_left (hstep md5 rx cfg) ops (init_state nclients nservers) in
  slot_of st s i = Some h -> exists r, get_rq st h = Some r /\ rq_to r = Some s /\ rq_newid r = i.
Proof.
  intros md5 rx cfg nc ns ops s i h st E.
  assert (S : safe st zero) by (apply safe_history; apply safe_init).
  assert (Sl : SLOT st) by (apply SLOT_history; [apply safe_init | apply SLOT_init]).
  destruct (safe_no_dangling st S h ltac:(pose proof (slot_refs _ _ _ _ E); lia)) as (r & G & _).
  exists r. split; [exact G | exact (Sl _ _ _ _ E G)].
Qed.
Print Assumptions C11_slot_knows_its_request.

Theorem C11_one_identifier_per_request : forall md5 rx cfg nclients nservers ops s i s' i' h,
  let st := fold_left (hstep md5 rx cfg) ops (init_state nclients nservers) in
  slot_of st s i = Some h -> slot_of st s' i' = Some h -> s = s' /\ i = i'.
Proof.
  intros md5 rx cfg nc ns ops s i s' i' h st E1 E2.
  destruct (C11_slot_knows_its_request md5 rx cfg nc ns ops s i h E1) as (r & G & T1 & I1).
  destruct (C11_slot_knows_its_request md5 rx cfg nc ns ops s' i' h E2) as (r' & G' & T2 & I2).
  fold st in G, G'. rewrite G in G'. injection G' as <-. split; congruence.
Qed.
Print Assumptions C11_one_identifier_per_request.
