(* C14 -- Peers are identified by source address exactly as configured.  Statements only. *)
From RSP Require Import Base Consts Addr Spec_C14 Addr_proofs.
Local Open Scope N_scope.

(* prefixmatch compares exactly the leading `len` bits, for every pair of equal-length byte strings
   and every len below their bit length.  The per-byte mask facts are complete sweeps over the
   mask[] table read from hostport.c on this run (256 x 256 x 7 cases, vm_compute). *)
Theorem C14_prefix : forall a b len,
  wf_bytes a = true -> wf_bytes b = true -> length a = length b -> len < 8 * nlen a ->
  prefixmatch a b len = same_leading_bits a b len.
Proof. exact prefixmatch_spec. Qed.
Print Assumptions C14_prefix.

(* a host-list entry contains a source address iff: same family after unwrapping an IPv4-mapped IPv6
   source, and equal address (host entry, /32, /128; with the port when ports are checked) or equal
   leading prefix-length bits (address/length entry) *)
Theorem C14_match : forall h s checkport, hp_ok h = true -> src_ok s = true ->
  entry_matches h s checkport = spec_entry h s checkport.
Proof. exact entry_matches_spec. Qed.
Print Assumptions C14_match.

(* the block used is the first of that transport, in configuration order, whose host list contains
   the source; none matching => none is used *)
Theorem C14_first : forall blocks ty s checkport, blocks_ok blocks = true -> src_ok s = true ->
  spec_find blocks ty s checkport (find_conf blocks ty s checkport) = true.
Proof. exact find_conf_spec. Qed.
Print Assumptions C14_first.

Example C14_example :
  let blk := [mkBlock 0 [mkHp V4 [192;168;1;0] 1812 28]; mkBlock 0 [mkHp V4 [192;168;1;128] 1812 25]] in
  blocks_ok blk = true /\
  find_conf blk 0 (mkSrc V4 [192;168;1;200] 5) false = Some 1%nat /\
  find_conf blk 0 (mkSrc V6 [0;0;0;0;0;0;0;0;0;0;255;255;192;168;1;7] 5) false = Some 0%nat /\
  find_conf blk 0 (mkSrc V4 [192;168;1;16] 5) false = None.
Proof. vm_compute. repeat split. Qed.
