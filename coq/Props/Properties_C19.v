(* C19 -- A failed memory allocation never corrupts state or crashes uncontrolled.  Statements only.
   The model carries an oracle fs : N -> bool, "stage k of the handler runs out of memory" (Proxy.v lists the
   stages).  PARTIAL: the theorems below say what the MODEL does under failing stages, for every oracle; that
   the real code under a failing n-th allocation behaves as the model under some failing stage is what the
   fault-injection correspondence run checks (every n for representative exchanges), it is not a theorem.
   Memory safety of the failure paths themselves is the sanitizers' business. *)
From RSP Require Import Base Consts Ttl Crypt Packet Rewrite Choose Proxy Slots_proofs Dup_proofs Fail_proofs.
Local Open Scope N_scope.

(* whatever fails: no outstanding request is displaced ... *)
Theorem C19_never_displaces : forall md5 cfg fs st h st' o,
  sendrq md5 cfg fs st h = (st', o) -> keeps_slots st st'.
Proof. exact sendrq_keeps. Qed.
Print Assumptions C19_never_displaces.

(* ... and a request that could not be placed is forgotten by its client's cache (its retransmission is new) *)
Theorem C19_drop_forgets : forall md5 cfg fs st h st' o r c, sendrq md5 cfg fs st h = (st', o) ->
  get_rq st h = Some r -> rq_from r = Some c -> enq_ids o = [] ->
  cache_entry st' c (rq_rqid r) = None.
Proof. exact sendrq_drop_forgets. Qed.
Print Assumptions C19_drop_forgets.

(* whatever fails, what is placed in slot id carries identifier id and the slot was free *)
Theorem C19_wire_id : forall md5 cfg fs st s id h st' o, internal_sendrq md5 cfg fs st s id h = Some (st', o) ->
  exists b, o = [OEnq s id b] /\ nth 1 b 0 = id.
Proof. exact internal_sendrq_wire_id. Qed.
Print Assumptions C19_wire_id.

Theorem C19_request_parse_failure : forall md5 rx cfg fs st h c now rnd r0, get_rq st h = Some r0 -> fs 1 = true ->
  radsrv md5 rx cfg fs st h c now rnd = (freerq (set_rq st h (rq_set_buf r0 None)) h, [ORet 0]).
Proof. exact radsrv_parse_failure. Qed.
Print Assumptions C19_request_parse_failure.

Theorem C19_reply_parse_failure : forall md5 rx cfg fs st s buf now rnd, fs 20 = true ->
  snd (replyh md5 rx cfg fs st s buf now rnd) = [ORet 0].
Proof. exact replyh_parse_failure. Qed.
Print Assumptions C19_reply_parse_failure.

Theorem C19_local_reply_failure : forall md5 cfg fs st h code extra add_ma, fs 2 = true ->
  respond md5 cfg fs st h code extra add_ma = (st, []).
Proof. exact respond_failure. Qed.
Print Assumptions C19_local_reply_failure.

Theorem C19_reply_serialise_failure : forall md5 cfg fs st h r c, get_rq st h = Some r -> rq_from r = Some c ->
  rq_replybuf r = None -> fs 3 = true ->
  sendreply md5 cfg fs st h = (freerq (set_rq st h (rq_set_msg (rq_set_replybuf r None) None)) h, []).
Proof. exact sendreply_serialise_failure. Qed.
Print Assumptions C19_reply_serialise_failure.

Theorem C19_reply_queue_failure : forall md5 cfg fs st h r c, get_rq st h = Some r -> rq_from r = Some c -> fs 14 = true ->
  snd (sendreply md5 cfg fs st h) = [].
Proof. exact sendreply_queue_failure. Qed.
Print Assumptions C19_reply_queue_failure.

Theorem C19_request_serialise_failure : forall md5 cfg fs st s id h, fs (100 + id) = true ->
  internal_sendrq md5 cfg fs st s id h = None.
Proof. exact internal_sendrq_serialise_failure. Qed.
Print Assumptions C19_request_serialise_failure.

(* ---- "never corrupts state": whatever allocations fail, in whatever handler, the request state stays balanced.
   The failure oracle is an argument of every step of a history (HRecv/HReply/HWriter carry their own fs), so this is
   C17's invariant read for failures: after any history with any pattern of failed allocations every object's counter
   still equals the number of places that refer to it -- a failed allocation loses no reference and releases nothing
   that is still referred to. *)
From RSP Require Import BaseLemmas Keeps_proofs Refs_proofs Tight_proofs Reg_proofs Balance_proofs.
Local Open Scope N_scope.

Theorem C19_state_stays_balanced : forall md5, (forall x, length (md5 x) = 16%nat) -> (forall x, wf_bytes (md5 x) = true) ->
  forall rx cfg nclients nservers st op, cfg_ok cfg nservers -> op_ok nclients nservers op ->
  Bal nclients nservers st -> Bal nclients nservers (hstep md5 rx cfg st op).
Proof. intros md5 L W rx cfg nc ns st op Hc. exact (Bal_hstep md5 L W rx cfg nc ns Hc st op). Qed.
Print Assumptions C19_state_stays_balanced.

(* the unconditional half for the request handler alone: with any failure oracle, radsrv gives up the reference it was
   entered with exactly once and releases nothing that a cache, queue or slot still refers to *)
Theorem C19_radsrv_never_double_releases : forall md5 rx cfg fs st h c now rnd e,
  safe st (add1 e h) -> safe (fst (radsrv md5 rx cfg fs st h c now rnd)) e.
Proof. exact safe_radsrv. Qed.
Print Assumptions C19_radsrv_never_double_releases.
