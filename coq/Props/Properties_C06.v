(* C06 -- Every emitted packet is well-formed and authenticated for its recipient.  Statements only.
   Every packet the proxy emits is produced by radmsg2buf; `msg_ok` (attribute values <= 253 bytes,
   16-byte Message-Authenticators, 16-byte authenticator) is the invariant the parser and every
   pipeline stage maintain (Proxy theorems).  md5 is an arbitrary function with 16-byte output. *)
From RSP Require Import Base Consts Ttl Packet Spec_Packet Packet_proofs.
Local Open Scope N_scope.

Section C06.
  Variable md5 : bytes -> bytes.
  Hypothesis md5_len : forall x, length (md5 x) = 16%nat.

  (* the serializer's size bound, read from the source on every run, is the RFC limit *)
  Lemma max_is_4096 : Consts.RADMSG2BUF_MAX <= 4096.
  Proof. vm_compute. discriminate. Qed.

  (* length field = bytes emitted, 20 <= length <= 4096, attributes tile with lengths 2..255 *)
  Theorem C06_wf : forall m secret b a', msg_ok m = true ->
    radmsg2buf md5 m secret = Ok (Some (b, a')) -> wf_packet b = true.
  Proof. intros m secret b a' OK. exact (radmsg2buf_wf md5 md5_len m secret b a' OK max_is_4096). Qed.

  (* the Message-Authenticator write never leaves the buffer *)
  Theorem C06_no_fault : forall m secret, msg_ok m = true -> is_fault (radmsg2buf md5 m secret) = false.
  Proof. exact (radmsg2buf_no_fault md5 md5_len). Qed.

  (* Accept/Reject/Challenge/Accounting-Response/NAK (and Accounting-Request, whose authenticator
     field is zero when serialised): authenticator = MD5(Code+ID+Length+RequestAuth+Attributes+Secret) *)
  Theorem C06_response_auth : forall m secret b a', msg_ok m = true -> signed_code (m_code m) = true ->
    radmsg2buf md5 m secret = Ok (Some (b, a')) -> response_auth_ok md5 b (m_auth m) secret = true.
  Proof. intros m secret b a' OK. exact (radmsg2buf_response_auth md5 md5_len m secret b a' OK max_is_4096). Qed.

  (* a message with exactly one Message-Authenticator is emitted with a verifying one (RFC 3579 3.2);
     if it was put first it is the first attribute on the wire *)
  Theorem C06_msgauth : forall m secret b a', msg_ok m = true -> single_ma (m_attrs m) = true ->
    radmsg2buf md5 m secret = Ok (Some (b, a')) ->
    all_msgauth_ok md5 b (Some (m_auth m)) secret = true /\ has_msgauth b = true /\
    (match m_attrs m with a :: _ => tlv_t a = Consts.RAD_Attr_Message_Authenticator -> first_is_msgauth b = true | [] => True end).
  Proof. intros m secret b a' OK. exact (radmsg2buf_msgauth md5 md5_len m secret b a' OK max_is_4096). Qed.
End C06.
Print Assumptions C06_wf.
Print Assumptions C06_no_fault.
Print Assumptions C06_response_auth.
Print Assumptions C06_msgauth.

(* non-vacuity *)
Example C06_example :
  let md5 := fun x : bytes => firstn 16 (x ++ repeat 7 16) in
  let m := mkMsg 2 9 (repeat 5 16) [mkTlv 80 (repeat 0 16); mkTlv 18 [104; 105]] false in
  msg_ok m = true /\ single_ma (m_attrs m) = true /\
  match radmsg2buf md5 m [115] with Ok (Some (b, _)) => wf_packet b = true | _ => False end.
Proof. vm_compute. repeat split. Qed.

From RSP Require Import Crypt Rewrite Choose Proxy Slots_proofs Dup_proofs Reply_proofs Forward_proofs Wf_proofs Wfrw_proofs Keeps_proofs Local_proofs.

(* through the handlers, for every configuration whose rewrite blocks are well-formed (rw_wf: configured
   add/supplement attributes of <= 253 octets, replacement texts made of octets), every state, every received
   packet of >= 20 octets, every digest/regex oracle and every allocation-failure pattern:

   - whatever radsrv places in a server table is a well-formed RADIUS packet (length field = octets, 20..4096,
     attributes tile with lengths 2..255), a correctly signed Accounting-Request when it is one, and - Access-Request,
     no TTL insertion configured - carries the fresh Request Authenticator and, as first attribute, a Message-
     Authenticator that verifies under the server's secret;
   - whatever radsrv itself puts on a client's reply queue (C06_local_reply_wf) is the stored reply of an earlier
     copy of the request or a well-formed Access-Accept/-Reject/Accounting-Response/NAK carrying the request's
     Identifier, a Response Authenticator valid under the originating client's secret and (all but Accounting-
     Response) a verifying Message-Authenticator as first attribute;
   - whatever replyh delivers is a well-formed packet carrying a Response Authenticator valid under the
     receiving client's secret and ITS Request Authenticator, and - Access-Accept/Reject/Challenge, no TTL
     insertion configured - a verifying Message-Authenticator as first attribute.

   msg_ok is established by the parser and kept by every stage: rewrite blocks (remove, vendor remove, modify,
   vendor modify, supplement, add), TTL check, User-Name rewrite/restoration, CHAP-Challenge completion,
   User-Password / MS-MPPE / Tunnel-Password re-encryption, Message-Authenticator placeholder, TTL insertion
   (Proofs/Wf_proofs.v, Proofs/Wfrw_proofs.v, Proofs/Local_proofs.v). *)
Theorem C06_forwarded_wf : forall md5, (forall x, length (md5 x) = 16%nat) -> (forall x, wf_bytes (md5 x) = true) ->
  forall rx cfg fs st h c now rnd s i b,
  In (OEnq s i b) (snd (radsrv md5 rx cfg fs st h c now rnd)) ->
  rwo_wf (cc_rwin (clconf_of cfg c)) -> rwo_wf (sc_rwout (srvconf_of cfg s)) ->
  match cc_rwuser (clconf_of cfg c) with Some m => wf_bytes (mod_repl m) = true | None => True end ->
  (forall r0, get_rq st h = Some r0 -> exists buf, rq_buf r0 = Some buf /\ wf_bytes buf = true /\ (20 <= length buf)%nat) ->
  wf_bytes rnd = true -> is_byte (o_addttl (cf_opt cfg)) = true -> is_byte (sc_addttl (srvconf_of cfg s)) = true -> i < 256 ->
  wf_packet b = true /\
  (nth 0 b 0 = Consts.RAD_Accounting_Request -> acct_request_auth_ok md5 b (sc_secret (srvconf_of cfg s)) = true) /\
  (nth 0 b 0 = Consts.RAD_Access_Request -> o_addttl (cf_opt cfg) = 0 -> sc_addttl (srvconf_of cfg s) = 0 ->
   firstn 16 (skipn 4 b) = fst (take_rand rnd 16) /\
   first_is_msgauth b = true /\
   all_msgauth_ok md5 b (Some (fst (take_rand rnd 16))) (sc_secret (srvconf_of cfg s)) = true).
Proof. exact radsrv_emits_wf_rw. Qed.
Print Assumptions C06_forwarded_wf.

Theorem C06_delivered_wf : forall md5, (forall x, length (md5 x) = 16%nat) -> (forall x, wf_bytes (md5 x) = true) ->
  forall rx cfg fs st s buf now rnd c p,
  In (OReply c p) (snd (replyh md5 rx cfg fs st s buf now rnd)) ->
  rwo_wf (sc_rwin (srvconf_of cfg s)) -> rwo_wf (cc_rwout (clconf_of cfg c)) ->
  wf_bytes buf = true -> (20 <= length buf)%nat -> wf_bytes rnd = true ->
  (forall h r, slot_of st s (nth 1 buf 0) = Some h -> get_rq st h = Some r ->
     rq_replybuf r = None /\
     length (rq_rqauth r) = 16%nat /\ wf_bytes (rq_rqauth r) = true /\ is_byte (rq_rqid r) = true /\
     match rq_origuser r with Some ou => wf_bytes ou = true | None => True end) ->
  is_byte (o_addttl (cf_opt cfg)) = true -> is_byte (cc_addttl (clconf_of cfg c)) = true ->
  exists r, (exists h, slot_of st s (nth 1 buf 0) = Some h /\ get_rq st h = Some r) /\
    wf_packet p = true /\
    response_auth_ok md5 p (rq_rqauth r) (cc_secret (clconf_of cfg c)) = true /\
    (o_addttl (cf_opt cfg) = 0 -> cc_addttl (clconf_of cfg c) = 0 -> reply_code (nth 0 p 0) = true ->
     first_is_msgauth p = true /\ all_msgauth_ok md5 p (Some (rq_rqauth r)) (cc_secret (clconf_of cfg c)) = true).
Proof. exact replyh_emits_wf_rw. Qed.
Print Assumptions C06_delivered_wf.

(* local replies.  local_reply_ok md5 cfg msg c' p :=
     wf_packet p /\ code of p in {Access-Accept, Access-Reject, Accounting-Response, Disconnect-NAK, CoA-NAK} /\
     Identifier of p = Identifier of msg /\ response_auth_ok md5 p (authenticator of msg) (secret of c') /\
     (code <> Accounting-Response -> first_is_msgauth p /\ all_msgauth_ok md5 p (Some (authenticator of msg)) (secret of c')) *)
Theorem C06_local_reply_wf : forall md5, (forall x, length (md5 x) = 16%nat) -> (forall x, wf_bytes (md5 x) = true) ->
  forall rx cfg fs st h c now rnd c' p,
  In (OReply c' p) (snd (radsrv md5 rx cfg fs st h c now rnd)) ->
  rwo_wf (cc_rwin (clconf_of cfg c)) ->
  match cc_rwuser (clconf_of cfg c) with Some m => wf_bytes (mod_repl m) = true | None => True end ->
  (forall rl txt, In rl (cf_realms cfg) -> rl_msg rl = Some txt -> wf_bytes txt = true) ->
  (forall r0, get_rq st h = Some r0 ->
     rq_replybuf r0 = None /\ exists buf, rq_buf r0 = Some buf /\ wf_bytes buf = true /\ (20 <= length buf)%nat) ->
  (exists h' r', get_rq st h' = Some r' /\ rq_replybuf r' = Some p /\ rq_from r' = Some c') \/
  (exists r0 msg, get_rq st h = Some r0 /\ rq_from r0 = Some c' /\
     buf2radmsg md5 (match rq_buf r0 with Some x => x | None => [] end) (cc_secret (clconf_of cfg c)) None = Some msg /\
     local_reply_ok md5 cfg msg c' p).
Proof. exact radsrv_replies. Qed.
Print Assumptions C06_local_reply_wf.
