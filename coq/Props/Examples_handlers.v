(* Non-vacuity of the handler theorems: one concrete configuration (one client, one server, one realm), a toy
   digest with 16-octet output and a regex oracle that accepts everything.  A received Access-Request is
   forwarded, transmitted by the writer, answered by the server, and the answer is delivered; a Status-Server
   request is answered locally.  The hypotheses of C06_forwarded_wf, C06_local_reply_wf, C06_delivered_wf and
   C02_to_originator are discharged on these instances by computation, and the theorems applied. *)
From RSP Require Import Base Consts Ttl Crypt Packet Rewrite Choose Proxy Spec_Packet Packet_proofs
  Slots_proofs Dup_proofs Reply_proofs Forward_proofs Wf_proofs Wfrw_proofs Keeps_proofs Local_proofs
  Refs_proofs Tight_proofs Reg_proofs Balance_proofs Slotinv_proofs Properties_C02 Properties_C06 Properties_C17.
Local Open Scope N_scope.

Definition toy_md5 (x : bytes) : bytes := firstn 16 (map (fun b => (b * 7 + 3) mod 256) x ++ repeat 7 16).
Lemma toy_md5_len x : length (toy_md5 x) = 16%nat.
Proof. unfold toy_md5. rewrite firstn_length, app_length, repeat_length. apply Nat.min_l. apply Nat.le_add_l. Qed.
Lemma toy_md5_wf x : wf_bytes (toy_md5 x) = true.
Proof.
  unfold toy_md5. apply wf_firstn. rewrite wf_app. apply andb_true_iff. split; [|reflexivity].
  induction x as [|b x IH]; [reflexivity|]. cbn [map]. rewrite wf_cons, IH, is_byte_mod. reflexivity.
Qed.

Definition toy_rx (_ : N) (_ : bytes) : option (list (Z * Z)) := Some [].
Definition nofail (_ : N) := false.
Definition ex_cfg : config :=
  mkCfg (mkOpt 210 256 0 false false)
        [mkCl [99] 0 [115] 10 0 None None None false false]
        [mkSrvC [115; 118] 0 [116] 0 5 2 0 0 None None false]
        [mkRealm 0 None false [0%nat] [0%nat]].
Definition ex_auth : bytes := map N.of_nat (seq 1 16).
Definition ex_rnd : bytes := map N.of_nat (seq 100 40).
(* Access-Request, Identifier 7, User-Name "a@b" *)
Definition ex_request : bytes := [1; 7; 0; 25] ++ ex_auth ++ [1; 5; 97; 64; 98].
(* Status-Server, Identifier 8, signed under the client's secret *)
Definition ex_status : bytes :=
  match radmsg2buf toy_md5 (mkMsg 12 8 ex_auth [mkTlv 80 (zeros 16)] false) [115] with Ok (Some (b, _)) => b | _ => [] end.
Definition ex_state (buf : bytes) : state :=
  mkState [Some (mkRq 0 1 (Some buf) None None (Some 0%nat) None None 0 [] 0)]
          [mkClient (repeat None 256) []]
          [mkServer (repeat empty_slot 256) 0 0 0 0 0%Z 0%Z 0%Z 0%Z false false false].

Definition ex_fwd := radsrv toy_md5 toy_rx ex_cfg nofail (ex_state ex_request) 0 0 100%Z ex_rnd.
Definition ex_fwd_pkt : bytes := match snd ex_fwd with OEnq _ _ b :: _ => b | _ => [] end.
Definition ex_wr := writer_release toy_md5 ex_cfg nofail 4 (fst ex_fwd) 0 100%Z 0%Z ex_rnd false.
(* the server's Access-Accept for identifier 0, signed under the server's secret over the forwarded authenticator *)
Definition ex_reply : bytes :=
  match radmsg2buf toy_md5 (mkMsg 2 0 (firstn 16 ex_rnd) [mkTlv 80 (zeros 16); mkTlv 18 [104; 105]] false) [116] with
  | Ok (Some (b, _)) => b | _ => [] end.
Definition ex_dlv := replyh toy_md5 toy_rx ex_cfg nofail (fst ex_wr) 0 ex_reply 101%Z ex_rnd.
Definition ex_dlv_pkt : bytes := match snd ex_dlv with OReply _ b :: _ => b | _ => [] end.
Definition ex_loc := radsrv toy_md5 toy_rx ex_cfg nofail (ex_state ex_status) 0 0 100%Z ex_rnd.
Definition ex_loc_pkt : bytes := match snd ex_loc with OReply _ b :: _ => b | _ => [] end.

Example ex_runs :
  snd ex_fwd = [OEnq 0 0 ex_fwd_pkt; ORet 1] /\ snd ex_wr = [OTx 0 0 ex_fwd_pkt; OWake 105] /\
  snd ex_dlv = [OReply 0 ex_dlv_pkt; ORet 1] /\ snd ex_loc = [OReply 0 ex_loc_pkt; ORet 1] /\
  (20 < length ex_fwd_pkt)%nat /\ (20 < length ex_dlv_pkt)%nat /\ (20 < length ex_loc_pkt)%nat.
Proof. vm_compute. repeat split; apply Nat.leb_le; reflexivity. Qed.

Ltac heap_hyp := let r := fresh in let H := fresh in intros r H; vm_compute in H; injection H as <-.

(* C06_forwarded_wf applies to the forwarded request *)
Example ex_forwarded_wf :
  wf_packet ex_fwd_pkt = true /\
  firstn 16 (skipn 4 ex_fwd_pkt) = fst (take_rand ex_rnd 16) /\ first_is_msgauth ex_fwd_pkt = true /\
  all_msgauth_ok toy_md5 ex_fwd_pkt (Some (fst (take_rand ex_rnd 16))) [116] = true.
Proof.
  assert (Hin : In (OEnq 0 0 ex_fwd_pkt) (snd (radsrv toy_md5 toy_rx ex_cfg nofail (ex_state ex_request) 0 0 100%Z ex_rnd))) by (vm_compute; left; reflexivity).
  destruct (C06_forwarded_wf toy_md5 toy_md5_len toy_md5_wf toy_rx ex_cfg nofail (ex_state ex_request) 0 0 100%Z ex_rnd 0 0 ex_fwd_pkt Hin)
    as (W & _ & M); try exact I; try (vm_compute; reflexivity).
  - heap_hyp. eexists. split; [reflexivity|]. split; [reflexivity|]. vm_compute. apply Nat.leb_le. reflexivity.
  - split; [exact W|]. apply M; reflexivity.
Qed.

(* C06_local_reply_wf applies to the answer to Status-Server: it is the fresh-reply alternative *)
Example ex_local_reply_wf :
  exists msg, local_reply_ok toy_md5 ex_cfg msg 0 ex_loc_pkt /\ m_id msg = 8.
Proof.
  assert (Hin : In (OReply 0 ex_loc_pkt) (snd (radsrv toy_md5 toy_rx ex_cfg nofail (ex_state ex_status) 0 0 100%Z ex_rnd))) by (vm_compute; left; reflexivity).
  destruct (C06_local_reply_wf toy_md5 toy_md5_len toy_md5_wf toy_rx ex_cfg nofail (ex_state ex_status) 0 0 100%Z ex_rnd 0 ex_loc_pkt Hin)
    as [(h' & r' & G & Hb & _) | (r0 & msg & G & _ & Hp & Ok)]; try exact I.
  - intros rl txt [<- | []] E. discriminate E.
  - heap_hyp. split; [reflexivity|]. eexists. split; [reflexivity|]. split; [reflexivity|]. vm_compute. apply Nat.leb_le. reflexivity.
  - exfalso. destruct h' as [|[|h']]; vm_compute in G; try discriminate G. injection G as <-. discriminate Hb.
  - exists msg. split; [exact Ok|]. vm_compute in G. injection G as <-. vm_compute in Hp. injection Hp as <-. reflexivity.
Qed.

(* C02_to_originator and C06_delivered_wf apply to the delivered Access-Accept *)
Example ex_delivered :
  wf_packet ex_dlv_pkt = true /\ nth 1 ex_dlv_pkt 0 = 7 /\
  response_auth_ok toy_md5 ex_dlv_pkt ex_auth [115] = true /\
  first_is_msgauth ex_dlv_pkt = true /\ all_msgauth_ok toy_md5 ex_dlv_pkt (Some ex_auth) [115] = true.
Proof.
  assert (Hin : In (OReply 0 ex_dlv_pkt) (snd (replyh toy_md5 toy_rx ex_cfg nofail (fst ex_wr) 0 ex_reply 101%Z ex_rnd))) by (vm_compute; left; reflexivity).
  destruct (C06_delivered_wf toy_md5 toy_md5_len toy_md5_wf toy_rx ex_cfg nofail (fst ex_wr) 0 ex_reply 101%Z ex_rnd 0 ex_dlv_pkt Hin)
    as (r & (h & Hs & G) & W & RA & M); try exact I; try (vm_compute; reflexivity).
  - vm_compute. apply Nat.leb_le. reflexivity.
  - intros h r Hs G. vm_compute in Hs. injection Hs as <-. vm_compute in G. injection G as <-. repeat split.
  - vm_compute in Hs. injection Hs as <-. vm_compute in G. injection G as <-.
    destruct (M eq_refl eq_refl eq_refl) as [M1 M2].
    split; [exact W|]. split; [reflexivity|]. repeat split; assumption.
Qed.

(* C17_exactly_once is not vacuous: a valid history in which an object is referred to from two places, then from
   a reply queue as well, and is released when the last of them lets go *)
Definition ex_ops1 : list hop := [HRecv 0 100%Z ex_rnd ex_request nofail; HWriter 0 100%Z 0%Z ex_rnd false nofail].
Definition ex_ops2 : list hop := ex_ops1 ++ [HReply 0 ex_reply 101%Z ex_rnd nofail].
Definition ex_ops3 : list hop := ex_ops2 ++ [HDrain 0].
Example ex_history :
  cfg_ok ex_cfg 1 /\ Forall (op_ok 1 1) ex_ops3 /\
  (let st := fold_left (hstep toy_md5 toy_rx ex_cfg) ex_ops1 (init_state 1 1) in refs st 0 = 2 /\ rcount st 0 = 2) /\
  (let st := fold_left (hstep toy_md5 toy_rx ex_cfg) ex_ops2 (init_state 1 1) in refs st 0 = 2 /\ rcount st 0 = 2 /\ c_replyq (get_client st 0) = [0%nat]) /\
  (let st := fold_left (hstep toy_md5 toy_rx ex_cfg) ex_ops3 (init_state 1 1) in refs st 0 = 1 /\ rcount st 0 = 1 /\ c_replyq (get_client st 0) = []).
Proof.
  split.
  - intros rl s [<- | []] [<- | [<- | []]]; repeat constructor.
  - split; [repeat constructor; vm_compute; try reflexivity; apply Nat.leb_le; reflexivity|].
    vm_compute. repeat split; reflexivity.
Qed.

(* C11_slot_knows_its_request is not vacuous: after the request and a writer pass slot 0 of server 0 is occupied *)
Example ex_slot :
  let st := fold_left (hstep toy_md5 toy_rx ex_cfg) ex_ops1 (init_state 1 1) in
  slot_of st 0 0 = Some 0%nat /\ (exists r, get_rq st 0 = Some r /\ rq_to r = Some 0%nat /\ rq_newid r = 0).
Proof. vm_compute. split; [reflexivity|]. eexists. repeat split; reflexivity. Qed.

(* C17_client_gone_releases_its_requests is not vacuous: in the state after the reply was queued (object 0 referred to
   by client 0's cache and reply queue, rq_from = client 0) the client goes, and the object is released *)
Example ex_client_gone :
  let st := fold_left (hstep toy_md5 toy_rx ex_cfg) ex_ops2 (init_state 1 1) in
  (exists r, get_rq st 0 = Some r /\ rq_from r = Some 0%nat) /\ get_rq (removeclient st 0) 0 = None.
Proof. vm_compute. split; [eexists; split; reflexivity | reflexivity]. Qed.

(* C12 handshake: the premises of C12_reconnect_handshake are met by the connecter of the source, with a flag still
   pending from an earlier reset, a pass while the connection is down and one before the signal; the re-send pass on
   the new connection (generation 1) is the third *)
From RSP Require Import Connect.
Example ex_handshake :
  handshake_ok tcp_prog = true /\
  wake_after (signalled_at tcp_prog) [Some 1; None; Some 2; None; None; Some 3; None; Some 9]%Z = true /\
  run tcp_prog [Some 1; None; Some 2; None; None; Some 3; None; Some 9]%Z (mkLink true 0 true) =
    [mkPass 1 true true 0; mkPass 2 false false 0; mkPass 3 true true 1; mkPass 9 false true 1].
Proof. vm_compute. repeat split. Qed.

(* C10_in_flight_retransmission_not_forwarded, C10_superseded_late_reply_not_delivered and
   C17_server_gone_empties_its_table are not vacuous: in the state after the request and a writer pass (object 0 from
   client 0 outstanding at server 0 under identifier 0, DuplicateInterval 10, received at 100) a second object with
   its Identifier and authenticator arriving at 105 meets every premise and is not registered; superseding the
   original, or the server going away, empties the slot that was occupied *)
From RSP Require Import Dup_proofs.
Local Open Scope N_scope.
Example ex_in_flight :
  let st := fold_left (hstep toy_md5 toy_rx ex_cfg) ex_ops1 (init_state 1 1) in
  match get_rq st 0 with
  | Some r => slot_of st 0 0 = Some 0%nat /\ rq_from r = Some 0%nat /\
    is_dup ex_cfg r r 105%Z = true /\ is_dup ex_cfg r r 110%Z = false /\
    (let '(st1, h) := alloc_rq st r in addclientrq toy_md5 ex_cfg nofail st1 h 0 105%Z = (false, st1, [])) /\
    slot_of (removeclientrq st 0 (rq_rqid r)) 0 0 = None /\
    slot_of (freeserver st 0) 0 0 = None
  | None => False
  end.
Proof. vm_compute. repeat split; reflexivity. Qed.
