(* C15 -- A TLS/DTLS peer is authorised only by a certificate matching its block.  Statements only.
   The regex engine is an arbitrary oracle; chain verification, PSK and the handshake are OpenSSL's. *)
From RSP Require Import Base Consts Rewrite Cert Spec_C15 Cert_proofs.
Local Open Scope N_scope.

(* acceptance implies: (name check on) the NAIRealm clause or the block's expected name matches, AND
   every MatchCertificateAttribute term has a matching entry of its own kind -- whatever else the
   certificate contains *)
Theorem C15_accept_only_if : forall rx c conf connected nairealm,
  verifyconfcert rx c conf connected nairealm = true ->
  (cc_namecheck conf = true ->
     (exists realm v, nairealm = Some realm /\ In (GOther nairealm_oid v) (c_san c) /\ nairealm_authorises v realm) \/
     name_clause c conf connected) /\
  (forall t, In t (cc_terms conf) -> term_witness rx c t).
Proof. exact verifyconfcert_sound. Qed.
Print Assumptions C15_accept_only_if.

(* the expected name equals a subjectAltName IP entry, or matches a DNS entry, the subject CN being
   consulted only when CertificateCNCheck is on and the certificate has no DNS entry *)
Theorem C15_name : forall c h cncheck, certnamecheck c h cncheck = true -> h_plen h = 255 ->
  (exists a, h_ip h = Some a /\ In a (ip_sans c)) \/
  (exists d, In d (dns_sans c) /\ host_pattern_match d (h_name h) = true) \/
  (dns_sans c = [] /\ cncheck = true /\ exists cn, In cn (c_cn c) /\ host_pattern_match cn (h_name h) = true).
Proof. exact certnamecheck_sound. Qed.
Print Assumptions C15_name.

(* wildcards cover exactly one whole, non-empty leftmost label *)
Theorem C15_wildcard : forall pat host, host_pattern_match pat host = true -> ieq_bytes pat host = false ->
  exists rest label hr, pat = 42 :: 46 :: rest /\ host = label ++ 46 :: hr /\ label <> [] /\ ~ In 46 label /\ ieq_bytes hr rest = true.
Proof. exact wildcard_one_label. Qed.
Print Assumptions C15_wildcard.

(* a NAIRealm otherName replaces the name check only if it equals the looked-up realm or is a '*.'
   wildcard for exactly one leading label of it *)
Theorem C15_nairealm : forall c realm, certnairealmcheck c realm = true ->
  exists v, In (GOther nairealm_oid v) (c_san c) /\ nairealm_authorises v realm.
Proof. exact certnairealmcheck_sound. Qed.
Print Assumptions C15_nairealm.

Example C15_example :
  nairealm_value_match [101;120] [101;120;46;99] = false /\          (* "ex" does not authorise "ex.c" *)
  nairealm_value_match [42;46;99] [97;46;99] = true /\              (* "*.c" authorises "a.c" *)
  nairealm_value_match [42;46;99] [97;46;99;46;100] = false /\      (* ... but not "a.c.d" *)
  nairealm_value_match [42;46;99] [46;99] = false.                  (* ... nor ".c" *)
Proof. vm_compute. repeat split. Qed.
