(* C03 -- Hidden attributes are re-encrypted hop by hop without changing the plaintext.
   Statements only.  `md5` is an arbitrary function with 16-byte output: the theorems hold for
   every digest, every secret (any length, any octets), every authenticator and salt. *)
From RSP Require Import Base Consts Crypt Spec_C03 Crypt_proofs.
Local Open Scope N_scope.

Section C03.
  Variable md5 : bytes -> bytes.
  Hypothesis md5_len : forall x, length (md5 x) = 16%nat.

  (* the RFC decryption inverts the RFC encryption for any number of 16-byte blocks *)
  Theorem C03_rfc_roundtrip : forall S iv p, blocks_ok p = true ->
    rfc_decrypt md5 S iv (rfc_encrypt md5 S iv p) = p.
  Proof. exact (rfc_decrypt_encrypt md5 md5_len). Qed.

  (* the code's cipher in its two modes IS the RFC's encryption / decryption *)
  Theorem C03_pwd_is_rfc_enc : forall v S auth salt,
    pwdcrypt md5 true v S auth salt = concat (rfc_encrypt md5 S (auth ++ salt) (chunks16 v)).
  Proof. exact (pwdcrypt_enc md5). Qed.
  Theorem C03_pwd_is_rfc_dec : forall v S auth salt,
    pwdcrypt md5 false v S auth salt = concat (rfc_decrypt md5 S (auth ++ salt) (chunks16 v)).
  Proof. exact (pwdcrypt_dec md5). Qed.

  (* User-Password / Tunnel-Password: accepted exactly for lengths 16,32..128; same length; the
     new ciphertext decrypts under (new secret, new authenticator, new salt) to what the old one
     decrypts to under (old secret, old authenticator, old salt) *)
  Theorem C03_pwd_recrypt : forall v os ns oa na osalt nsalt,
    spec_pwd_recrypt md5 v os ns oa na osalt nsalt (pwdrecrypt md5 v os ns oa na osalt nsalt) = true.
  Proof. exact (pwdrecrypt_spec md5 md5_len). Qed.

  (* MS-MPPE-Send/Recv-Key: accepted exactly for 2 + 16k bytes (k >= 1), salt kept, plaintext kept *)
  Theorem C03_mppe_recrypt : forall v os ns oa na,
    spec_mppe_recrypt md5 v os ns oa na (msmpprecrypt md5 v os ns oa na) = true.
  Proof. exact (msmpprecrypt_spec md5 md5_len). Qed.
End C03.
Print Assumptions C03_rfc_roundtrip.
Print Assumptions C03_pwd_is_rfc_enc.
Print Assumptions C03_pwd_is_rfc_dec.
Print Assumptions C03_pwd_recrypt.
Print Assumptions C03_mppe_recrypt.

(* non-vacuity: a 32-byte value with a toy digest is accepted and changes *)
Example C03_example :
  let md5 := fun x : bytes => firstn 16 (x ++ repeat 7 16) in
  pwdrecrypt md5 (repeat 1 32) [1] [2] (repeat 3 16) (repeat 4 16) [] [] <> None.
Proof. vm_compute. discriminate. Qed.

From RSP Require Import Packet Rewrite Choose Proxy Slots_proofs Dup_proofs Reply_proofs.
(* placement in the reply path: a freshly serialised, delivered reply has gone through the MS-MPPE loop
   (every vendor-311 attribute, Send-Key then Recv-Key, keyed server secret/forwarded authenticator ->
   client secret/original authenticator) and, for Access-Accept, the Tunnel-Password loop (every attribute
   69) -- the fields dl_mppe and dl_tunnel of `delivered`; C03_mppe_recrypt / C03_pwd_recrypt apply to each
   re-encryption they perform *)
Theorem C03_reply_pipeline : forall md5 rx cfg fs st s buf now rnd c p,
  In (OReply c p) (snd (replyh md5 rx cfg fs st s buf now rnd)) ->
  (exists h r, slot_of st s (nth 1 buf 0) = Some h /\ get_rq st h = Some r /\ rq_from r = Some c /\ rq_replybuf r = Some p) \/
  delivered md5 rx cfg fs st s buf rnd c p.
Proof. exact replyh_delivered. Qed.
Print Assumptions C03_reply_pipeline.
