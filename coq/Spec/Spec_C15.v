(* C15 in its own terms *)
From RSP Require Import Base Consts Rewrite Cert.
Local Open Scope N_scope.

(* "is a '*.' wildcard for exactly one leading label of the realm" *)
Definition one_label_wildcard (pattern realm : bytes) : Prop :=
  exists label rest, pattern = 42 :: 46 :: rest /\ realm = label ++ 46 :: rest /\ label <> [] /\ ~ In 46 label.

(* a NAIRealm entry authorises the looked-up realm *)
Definition nairealm_authorises (value realm : bytes) : Prop :=
  cstr value = realm \/ one_label_wildcard (cstr value) realm.
