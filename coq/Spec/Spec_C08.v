(* C08 / C20 in their own terms *)
From RSP Require Import Base Consts Route.
Local Open Scope N_scope.

(* ASCII case-insensitive equality *)
Fixpoint ieq (a b : bytes) : bool :=
  match a, b with
  | [], [] => true
  | x :: a', y :: b' => (lower x =? lower y) && ieq a' b'
  | _, _ => false
  end.

(* "the User-Name ends in '@' followed by the name" *)
Fixpoint ends_with_at_name (user name : bytes) : bool :=
  ieq user (64 :: name) || match user with _ :: r => ends_with_at_name r name | [] => false end.

Definition name_char (c : N) : bool :=
  (c =? 46) || (c =? 45) || ((48 <=? c) && (c <=? 57)) || ((65 <=? c) && (c <=? 90)) || ((97 <=? c) && (c <=? 122)).

Definition name_ok (name : bytes) : bool := forallb name_char name.
