(* What a well-formed, authentic RADIUS packet is, written from RFC 2865 section 3, RFC 2866 section 3
   and RFC 3579 section 3.2 -- independent of how the model computes.  Used by C04, C05, C06. *)
From RSP Require Import Base Consts.
Local Open Scope N_scope.

(* attributes tile a byte string exactly, each with 2 <= length <= 255 *)
Fixpoint tiles_f (fuel : nat) (a : bytes) : bool :=
  match fuel with
  | O => false
  | S f =>
      match a with
      | [] => true
      | [_] => false
      | _ :: l :: rest =>
          (2 <=? l) && (l <=? 255) && (N.to_nat (l - 2) <=? length rest)%nat && tiles_f f (skipn (N.to_nat (l - 2)) rest)
      end
  end.
Definition tiles (a : bytes) : bool := tiles_f (S (length a)) a.

Definition length_field (b : bytes) : N := be_value (firstn 2 (skipn 2 b)).

(* well-formed packet: length field = bytes, within [20, 4096], attributes tile *)
Definition wf_packet (b : bytes) : bool :=
  (20 <=? nlen b) && (nlen b <=? 4096) && (length_field b =? nlen b) && tiles (skipn 20 b).

(* the list of (type, value-offset, value) of a tiled attribute area *)
Fixpoint attrs_of_f (fuel : nat) (a : bytes) (pos : nat) : list (N * nat * bytes) :=
  match fuel with
  | O => []
  | S f =>
      match a with
      | t :: l :: rest =>
          let vl := N.to_nat (l - 2) in
          (t, (pos + 2)%nat, firstn vl rest) :: attrs_of_f f (skipn vl rest) (pos + 2 + vl)
      | _ => []
      end
  end.
Definition attrs_of (b : bytes) : list (N * nat * bytes) := attrs_of_f (length b) (skipn 20 b) 20.

Section Auth.
  Variable md5 : bytes -> bytes.

  Definition pad64 (k : bytes) : bytes := k ++ repeat 0 (64 - length k).
  (* RFC 2104 *)
  Definition rfc_hmac_md5 (key msg : bytes) : bytes :=
    let k := pad64 (if (64 <? length key)%nat then md5 key else key) in
    md5 (map (N.lxor 92) k ++ md5 (map (N.lxor 54) k ++ msg)).

  (* RFC 2865 3: ResponseAuth = MD5(Code+ID+Length+RequestAuth+Attributes+Secret) *)
  Definition response_auth_ok (b reqauth secret : bytes) : bool :=
    beq_bytes (firstn 16 (skipn 4 b)) (md5 (firstn 4 b ++ reqauth ++ skipn 20 b ++ secret)).

  (* RFC 2866 3: Accounting-Request authenticator = the same with sixteen zero octets *)
  Definition acct_request_auth_ok (b secret : bytes) : bool := response_auth_ok b (repeat 0 16) secret.

  (* RFC 3579 3.2: Message-Authenticator = HMAC-MD5 over the packet with the attribute value zeroed
     and, for Access-Accept/Reject/Challenge, the Request Authenticator in the authenticator field *)
  Definition with_auth (b auth : bytes) : bytes := firstn 4 b ++ auth ++ skipn 20 b.
  Definition zero_at (b : bytes) (off : nat) : bytes := firstn off b ++ repeat 0 16 ++ skipn (off + 16) b.
  Definition msgauth_value_ok (b : bytes) (authfield : option bytes) (off : nat) (v secret : bytes) : bool :=
    (length v =? 16)%nat &&
    beq_bytes v (rfc_hmac_md5 secret (zero_at (match authfield with Some a => with_auth b a | None => b end) off)).

  Definition is_msgauth (x : N * nat * bytes) : bool := fst (fst x) =? Consts.RAD_Attr_Message_Authenticator.

  (* every Message-Authenticator the packet carries verifies *)
  Definition all_msgauth_ok (b : bytes) (authfield : option bytes) (secret : bytes) : bool :=
    forallb (fun x => negb (is_msgauth x) || msgauth_value_ok b authfield (snd (fst x)) (snd x) secret) (attrs_of b).

  Definition has_msgauth (b : bytes) : bool := existsb is_msgauth (attrs_of b).
  Definition first_is_msgauth (b : bytes) : bool :=
    match attrs_of b with x :: _ => is_msgauth x | [] => false end.
End Auth.
