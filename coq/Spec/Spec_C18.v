(* C18 in its own terms *)
From RSP Require Import Base Consts.
Local Open Scope N_scope.

Definition printable (b : N) : bool := (32 <=? b) && (b <=? 126).
Definition all_printable (s : bytes) : bool := forallb printable s.
Definition lower_hex (b : N) : bool := ((48 <=? b) && (b <=? 57)) || ((97 <=? b) && (b <=? 102)).
Definition all_lower_hex (s : bytes) : bool := forallb lower_hex s.

(* the normal form of an identifier: the lower-cased hex digits up to the first ';' *)
Fixpoint normal_form (s : bytes) : bytes :=
  match s with
  | [] => []
  | x :: r =>
      if x =? 59 then []
      else if (48 <=? x) && (x <=? 57) then x :: normal_form r
      else if (97 <=? x) && (x <=? 102) then x :: normal_form r
      else if (65 <=? x) && (x <=? 70) then (x + 32) :: normal_form r
      else normal_form r
  end.
