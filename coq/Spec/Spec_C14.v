(* C14 in its own terms: "the leading prefix-length bits are equal", bits numbered from the most
   significant bit of the first octet. *)
From RSP Require Import Base Consts Addr.
Local Open Scope N_scope.

Definition byte_bits (x : N) : list bool :=
  [N.testbit x 7; N.testbit x 6; N.testbit x 5; N.testbit x 4; N.testbit x 3; N.testbit x 2; N.testbit x 1; N.testbit x 0].
Definition bits (a : bytes) : list bool := concat (map byte_bits a).

Fixpoint beq_bits (a b : list bool) : bool :=
  match a, b with
  | [], [] => true
  | x :: a', y :: b' => Bool.eqb x y && beq_bits a' b'
  | _, _ => false
  end.

Definition same_leading_bits (a b : bytes) (n : N) : bool :=
  beq_bits (firstn (N.to_nat n) (bits a)) (firstn (N.to_nat n) (bits b)).

(* what "the host list contains the source address" means *)
Definition spec_entry (h : hostport) (s : source) (checkport : bool) : bool :=
  let s := normalize s in
  fam_eqb (hp_fam h) (src_fam s) &&
  (if (hp_plen h =? 255) || (hp_plen h =? full_len (hp_fam h))
   then beq_bytes (src_addr s) (hp_addr h) && (negb checkport || (hp_port h =? src_port s))
   else same_leading_bits (src_addr s) (hp_addr h) (hp_plen h)).

(* first block in configuration order *)
Definition spec_find (blocks : list peerblock) (ty : N) (s : source) (checkport : bool) (res : option nat) : bool :=
  match res with
  | Some i =>
      match nth_error blocks i with
      | Some b => (b_type b =? ty) && existsb (fun h => spec_entry h s checkport) (b_hosts b) &&
                  forallb (fun b' => negb ((b_type b' =? ty) && existsb (fun h => spec_entry h s checkport) (b_hosts b'))) (firstn i blocks)
      | None => false
      end
  | None => forallb (fun b' => negb ((b_type b' =? ty) && existsb (fun h => spec_entry h s checkport) (b_hosts b'))) blocks
  end.
