(* C01/C02 in their own terms, rewrite part: attributes that no configured rule names come out of
   a rewrite block byte-identical, exactly once, and in their original relative order; what is
   appended is taken from the configured supplement/add lists, in order. *)
From RSP Require Import Base Consts Ttl Rewrite.
Local Open Scope N_scope.

Definition tlv_eqb (x y : tlv) : bool := (tlv_t x =? tlv_t y) && beq_bytes (tlv_v x) (tlv_v y).

Definition listed (rm : option (list N)) (t : N) : bool :=
  match rm with Some l => existsb (N.eqb t) l | None => false end.

(* an attribute that none of the block's rules talks about: not vendor-specific, no modify rule
   for its type, and -- when removal/whitelisting is configured -- passed by the list *)
Definition untouched (w : rewrite) (a : tlv) : bool :=
  negb (tlv_t a =? Consts.RAD_Attr_Vendor_Specific) &&
  negb (existsb (fun m => mod_t m =? tlv_t a) (rw_mod w)) &&
  match rw_rm w, rw_rmv w with
  | None, None => true
  | _, _ => Bool.eqb (listed (rw_rm w) (tlv_t a)) (rw_whitelist w)
  end.

Fixpoint is_prefix (p l : list tlv) : bool :=
  match p, l with
  | [], _ => true
  | x :: p', y :: l' => tlv_eqb x y && is_prefix p' l'
  | _, [] => false
  end.

(* s is a subsequence of l *)
Fixpoint is_subseq (s l : list tlv) : bool :=
  match s, l with
  | [], _ => true
  | _, [] => false
  | x :: s', y :: l' => if tlv_eqb x y then is_subseq s' l' else is_subseq s l'
  end.

Definition spec_rewrite_untouched (w : rewrite) (attrs out : list tlv) : bool :=
  let k := filter (untouched w) in
  is_prefix (k attrs) (k out) &&
  is_subseq (skipn (length (k attrs)) (k out)) (k (rw_sup w ++ rw_add w)).
