(* C09 in its own terms. *)
From RSP Require Import Base Consts Choose.
Local Open Scope N_scope.

Definition usable (s : srv) : bool :=
  (s_state s =? Consts.RSP_SERVER_STATE_CONNECTED) || (s_state s =? Consts.RSP_SERVER_STATE_BLOCKING_STARTUP).
Definition clean (s : srv) : bool := usable s && (s_lost s =? 0).
Definition starting (s : srv) : bool :=
  (s_state s =? Consts.RSP_SERVER_STATE_STARTUP) || (s_state s =? Consts.RSP_SERVER_STATE_RECONNECTING).

Definition known_state (s : srv) : bool := usable s || starting s || failing s.

Fixpoint find_index {A} (p : A -> bool) (l : list A) : option nat :=
  match l with
  | [] => None
  | x :: r => if p x then Some O else option_map S (find_index p r)
  end.

Definition nth_ok {A} (p : A -> bool) (l : list A) (i : nat) : bool :=
  match nth_error l i with Some x => p x | None => false end.

(* the selection rule of the property, for lists of statically configured servers *)
Definition spec_choose (l : list srv) (c : option nat) : bool :=
  if existsb clean l then
    (* (a) the first connected/blocking server without unanswered requests *)
    match c, find_index clean l with Some i, Some j => Nat.eqb i j | _, _ => false end
  else if existsb usable l then
    (* (b) a connected/blocking server with the fewest unanswered requests *)
    match c with
    | Some i => nth_ok usable l i &&
                forallb (fun s => negb (usable s) ||
                                  match nth_error l i with Some x => s_lost x <=? s_lost s | None => false end) l
    | None => false
    end
  else if existsb starting l then
    (* (c) the first server still starting or reconnecting *)
    match c, find_index starting l with Some i, Some j => Nat.eqb i j | _, _ => false end
  else
    (* (d) all failed: none *)
    match c with None => true | Some _ => false end.

(* a failed server is never selected *)
Definition never_failing (l : list srv) (c : option nat) : bool :=
  match c with Some i => nth_ok (fun s => negb (failing s)) l i | None => true end.
