(* C03 in its own terms: the hiding schemes of RFC 2865 5.2 (User-Password), RFC 2868 3.5
   (Tunnel-Password) and RFC 2548 2.4.2/2.4.3 (MS-MPPE keys), written from the RFC text:
     b(1) = MD5(S + R [+ A]),  c(1) = p(1) xor b(1)
     b(i) = MD5(S + c(i-1)),   c(i) = p(i) xor b(i)                                   *)
From RSP Require Import Base Crypt.
Local Open Scope N_scope.

Section Spec.
  Variable md5 : bytes -> bytes.

  (* encryption of plaintext blocks; iv = R [+ A] for the first block *)
  Fixpoint rfc_encrypt (S iv : bytes) (p : list bytes) : list bytes :=
    match p with
    | [] => []
    | p1 :: r => let c1 := xor_bytes (md5 (S ++ iv)) p1 in c1 :: rfc_encrypt S c1 r
    end.

  (* decryption of ciphertext blocks *)
  Fixpoint rfc_decrypt (S iv : bytes) (c : list bytes) : list bytes :=
    match c with
    | [] => []
    | c1 :: r => xor_bytes (md5 (S ++ iv)) c1 :: rfc_decrypt S c1 r
    end.

  Definition blocks_ok (l : list bytes) : bool := forallb (fun b => (length b =? 16)%nat) l.
End Spec.

(* runtime form of the property, evaluated on an implementation's output *)
Section Check.
  Variable md5 : bytes -> bytes.
  Definition rfc_dec (S iv v : bytes) : bytes := concat (rfc_decrypt md5 S iv (chunks16 v)).

  (* valid ciphertext lengths of the two schemes *)
  Definition pwd_valid_len (n : N) : bool := (16 <=? n) && (n <=? 128) && (n mod 16 =? 0).
  Definition mppe_valid_len (n : N) : bool := (18 <=? n) && ((n - 2) mod 16 =? 0).

  Definition spec_pwd_recrypt (v os ns oa na osalt nsalt : bytes) (out : option bytes) : bool :=
    match out with
    | Some v' => pwd_valid_len (nlen v) && (length v' =? length v)%nat &&
                 beq_bytes (rfc_dec ns (na ++ nsalt) v') (rfc_dec os (oa ++ osalt) v)
    | None => negb (pwd_valid_len (nlen v))
    end.

  Definition spec_mppe_recrypt (v os ns oa na : bytes) (out : option bytes) : bool :=
    match out with
    | Some v' => mppe_valid_len (nlen v) && (length v' =? length v)%nat &&
                 beq_bytes (firstn 2 v') (firstn 2 v) &&
                 beq_bytes (rfc_dec ns (na ++ firstn 2 v') (skipn 2 v')) (rfc_dec os (oa ++ firstn 2 v) (skipn 2 v))
    | None => negb (mppe_valid_len (nlen v))
    end.
End Check.
