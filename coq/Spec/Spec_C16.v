(* C16 in its own terms: the packets of a byte stream, defined without any reference to delivery:
   take 4 bytes, read the big-endian length L at offset 2, if 20 <= L <= 4096 and L bytes are there
   take them as a packet, otherwise stop. *)
From RSP Require Import Base Consts.
Local Open Scope N_scope.

Fixpoint frames_f (fuel : nat) (s : bytes) : list bytes :=
  match fuel with
  | O => []
  | S f =>
      if (length s <? 4)%nat then []
      else
        let l := be_value (firstn 2 (skipn 2 s)) in
        if (l <? 20) || (4096 <? l) then []
        else if (length s <? N.to_nat l)%nat then []
        else firstn (N.to_nat l) s :: frames_f f (skipn (N.to_nat l) s)
  end.
Definition frames (s : bytes) : list bytes := frames_f (length s) s.

Fixpoint is_prefix_of (p l : list bytes) : bool :=
  match p, l with
  | [], _ => true
  | x :: p', y :: l' => beq_bytes x y && is_prefix_of p' l'
  | _, [] => false
  end.

Fixpoint list_beq (a b : list bytes) : bool :=
  match a, b with
  | [], [] => true
  | x :: a', y :: b' => beq_bytes x y && list_beq a' b'
  | _, _ => false
  end.
