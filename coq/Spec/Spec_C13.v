(* C13 in its own terms: TTL = unsigned big-endian integer, decremented by exactly one,
   discarded when zero before or after; AddTTL; loop prevention. *)
From RSP Require Import Base Consts Ttl.
Local Open Scope N_scope.

(* decrement: [out] = (result, new value) *)
Definition spec_decttl (v : bytes) (out : N * bytes) : bool :=
  let n := be_value v in
  let '(r, v') := out in
  if n =? 0 then (r =? 0) && beq_bytes v' v
  else beq_bytes v' (be_encode (length v) (n - 1)) && (r =? (if n - 1 =? 0 then 0 else 1)).

(* the value of the first plain TTL attribute of type t0, if any *)
Fixpoint first_of_type (t0 : N) (attrs : list tlv) : option bytes :=
  match attrs with
  | [] => None
  | a :: rest => if tlv_t a =? t0 then Some (tlv_v a) else first_of_type t0 rest
  end.

(* "changes nothing but the TTL value": all attributes other than the one carrying the
   TTL are identical, and that one keeps its type and length *)
Fixpoint same_shape (a b : list tlv) : bool :=
  match a, b with
  | [], [] => true
  | x :: a', y :: b' => (tlv_t x =? tlv_t y) && (length (tlv_v x) =? length (tlv_v y))%nat && same_shape a' b'
  | _, _ => false
  end.

Definition tlv_eqb (x y : tlv) : bool := (tlv_t x =? tlv_t y) && beq_bytes (tlv_v x) (tlv_v y).

(* number of positions at which two attribute lists differ *)
Fixpoint diff_count (a b : list tlv) : nat :=
  match a, b with
  | x :: a', y :: b' => (if tlv_eqb x y then 0 else 1) + diff_count a' b'
  | _, _ => 0
  end.

(* ---- the vendor form: a Vendor-Specific attribute = 4 vendor octets, then sub-attributes (type, length, value),
   possibly one stray octet at the end (tolerated by attrvalidate) ---- *)
Definition enc_sub (p : N * bytes) : bytes := fst p :: (nlen (snd p) + 2) :: snd p.
Definition enc_subs (l : list (N * bytes)) : bytes := concat (map enc_sub l).
Definition sub_ok (p : N * bytes) : bool := nlen (snd p) <=? 253.
Definition vsa (vb : bytes) (subs : list (N * bytes)) (tr : bytes) : tlv :=
  mkTlv Consts.RAD_Attr_Vendor_Specific (vb ++ enc_subs subs ++ tr).
(* an attribute that cannot carry the vendor-form TTL of vendor t0 *)
Definition other_vendor (t0 : N) (a : tlv) : bool :=
  negb (tlv_t a =? Consts.RAD_Attr_Vendor_Specific) || (tlv_l a <=? 4) || negb (vendor_of (tlv_v a) =? t0).
