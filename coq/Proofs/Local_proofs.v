(* C06 for the replies the proxy makes up itself (respond): NAKs for Disconnect/CoA requests, the answer to
   Status-Server, Access-Reject (EAP format, realm without servers), Accounting-Response.  Whatever radsrv puts on
   a client's reply queue is either the stored bytes of an earlier reply (a repeat inside the duplicate
   interval) or a well-formed packet signed for the client the request came from. *)
From RSP Require Import Base Consts Ttl Crypt Packet Rewrite Choose Proxy Spec_Packet BaseLemmas Packet_proofs
  Slots_proofs Dup_proofs Reply_proofs Forward_proofs Wf_proofs Wfrw_proofs Keeps_proofs.
From Coq Require Import ZifyBool ZifyNat ZifyN.
Local Open Scope N_scope.

Definition no_ma (l : list tlv) : bool := forallb (fun a => negb (tlv_t a =? Consts.RAD_Attr_Message_Authenticator)) l.

Section L.
  Variable md5 : bytes -> bytes.
  Hypothesis md5_len : forall x, length (md5 x) = 16%nat.
  Hypothesis md5_wf : forall x, wf_bytes (md5 x) = true.
  Variable cfg : config.
  Variable fs : N -> bool.

  Lemma copy_prefix_in : forall l j x, In x (copy_prefix fs l j) -> In x l.
  Proof.
    induction l as [|y l IH]; intros j x H; [exact H|]. cbn [copy_prefix] in H.
    destruct (fs (130 + j)); [destruct H|]. destruct H as [<- | H]; [left; reflexivity | right; exact (IH _ _ H)].
  Qed.

  Lemma single_ma_placeholder l : no_ma l = true -> single_ma (msgauth_placeholder :: l) = true.
  Proof.
    intro H. unfold single_ma. cbn [last_ma_split]. rewrite (last_ma_split_none _ H).
    unfold msgauth_placeholder. cbn [tlv_t]. rewrite N.eqb_refl. reflexivity.
  Qed.

  (* the attribute handed to a local reply *)
  Definition extra_ok (extra : option tlv) : Prop :=
    forall e, extra = Some e -> wf_bytes (tlv_v e) = true /\ is_byte (tlv_t e) = true /\
                               (tlv_t e =? Consts.RAD_Attr_Message_Authenticator) = false.

  Theorem respond_emits_wf st h code extra add_ma c p :
    In (OReply c p) (snd (respond md5 cfg fs st h code extra add_ma)) ->
    extra_ok extra -> is_byte code = true ->
    exists r m, get_rq st h = Some r /\ rq_msg r = Some m /\ rq_from r = Some c /\
      (rq_replybuf r = Some p \/
       (attrs_ok (getalltype Consts.RAD_Attr_Proxy_State (m_attrs m)) = true ->
        length (m_auth m) = 16%nat -> wf_bytes (m_auth m) = true -> is_byte (m_id m) = true ->
        wf_packet p = true /\ nth 0 p 0 = code /\ nth 1 p 0 = m_id m /\
        (signed_code code = true -> response_auth_ok md5 p (m_auth m) (cc_secret (clconf_of cfg c)) = true) /\
        (add_ma = true -> first_is_msgauth p = true /\
                          all_msgauth_ok md5 p (Some (m_auth m)) (cc_secret (clconf_of cfg c)) = true))).
  Proof.
    unfold respond. intros Hin Hex Bcode.
    destruct (get_rq st h) as [r|] eqn:G; [|destruct Hin].
    destruct (rq_msg r) as [m|] eqn:M; [|destruct Hin].
    cbv zeta in Hin.
    match type of Hin with In _ (snd (match ?e with Some a1 => _ | None => _ end)) => destruct e as [a1|] eqn:A1 end; [|destruct Hin].
    set (a0 := if add_ma then [msgauth_placeholder] else []) in *.
    set (ps := if fs 13 then [] else copy_prefix fs (getalltype Consts.RAD_Attr_Proxy_State (m_attrs m)) 0) in *.
    set (reply := mkMsg code (m_id m) (m_auth m) (a1 ++ ps) false) in *.
    set (st1 := set_rq st h (rq_set_msg r (Some reply))) in *.
    assert (G1 : get_rq st1 h = Some (rq_set_msg r (Some reply))) by (eapply get_rq_set_rq; exact G).
    assert (G2 : get_rq (newrqref st1 h) h = Some (rq_set_refcount (rq_set_msg r (Some reply)) (rq_refcount (rq_set_msg r (Some reply)) + 1))).
    { unfold newrqref. rewrite G1. eapply get_rq_set_rq. exact G1. }
    destruct (sendreply md5 cfg fs (newrqref st1 h) h) as [st2 o] eqn:SR. cbn [snd] in Hin.
    destruct (sendreply_out md5 cfg fs _ _ _ _ SR) as [-> | (r' & c' & b & Gr & Fr & -> & Hb)]; [destruct Hin|].
    destruct Hin as [E | []]. injection E as -> ->.
    rewrite G2 in Gr. injection Gr as <-. cbn [rq_from rq_set_refcount rq_set_msg rq_replybuf rq_msg] in Fr, Hb.
    exists r, m. split; [reflexivity|]. split; [exact M|]. split; [exact Fr|].
    destruct Hb as [Hb | (Hb & m' & a & Em & Ser)]; [left; exact Hb|]. right.
    injection Em as <-. intros Aps Lau Wau Bid.
    (* a1: the placeholder (if asked for), then the extra attribute (if there is one and it fits) *)
    assert (A1' : a1 = a0 \/ exists e, extra = Some e /\ tlv_l e <= 253 /\ a1 = a0 ++ [e]).
    { revert A1. destruct (fs 2); [discriminate|]. destruct extra as [e|]; [|intro X; injection X as <-; left; reflexivity].
      unfold radmsg_add. destruct (Consts.RAD_Max_Attr_Value_Length <? tlv_l e) eqn:Le; [discriminate|].
      intro X; injection X as <-. right. exists e. split; [reflexivity|]. split; [|reflexivity].
      unfold Consts.RAD_Max_Attr_Value_Length in Le. clear - Le. lia. }
    assert (K0 : attrs_ok a0 = true /\ no_ma (tl a0) = true).
    { subst a0. destruct add_ma; [|split; reflexivity]. split; [|reflexivity].
      rewrite attrs_ok_single. unfold aok, msgauth_placeholder, Ttl.tlv_l, nlen. cbn [tlv_v tlv_t]. rewrite wf_zeros.
      unfold zeros. rewrite repeat_length. reflexivity. }
    destruct K0 as [K0 N0].
    assert (Kps : attrs_ok ps = true /\ no_ma ps = true).
    { assert (Sub : forall x, In x ps -> In x (getalltype Consts.RAD_Attr_Proxy_State (m_attrs m))).
      { subst ps. destruct (fs 13); [intros x []|]. intros x Hx. exact (copy_prefix_in _ _ _ Hx). }
      split.
      - unfold attrs_ok. apply forallb_forall. intros x Hx. unfold attrs_ok in Aps. rewrite forallb_forall in Aps. exact (Aps _ (Sub _ Hx)).
      - unfold no_ma. apply forallb_forall. intros x Hx. specialize (Sub _ Hx). unfold getalltype in Sub. apply filter_In in Sub as [_ T].
        apply N.eqb_eq in T. rewrite T. reflexivity. }
    destruct Kps as [Kps Nps].
    assert (K1 : attrs_ok a1 = true /\ no_ma (tl (a1 ++ ps)) = true /\ (add_ma = true -> exists rest, a1 ++ ps = msgauth_placeholder :: rest)).
    { destruct A1' as [-> | (e & Ee & Le & ->)].
      - split; [exact K0|]. subst a0. destruct add_ma; cbn [app tl].
        + split; [exact Nps|]. intros _. eexists. reflexivity.
        + split; [destruct ps; [reflexivity|]; unfold no_ma in *; cbn [forallb tl] in *; apply andb_true_iff in Nps as [_ X]; exact X|]. discriminate.
      - destruct (Hex _ Ee) as (We & Be & Te).
        assert (Ke : aok e = true) by (unfold aok; rewrite We, Be; replace (tlv_l e <=? 253) with true by (clear - Le; lia); reflexivity).
        split; [rewrite attrs_ok_app, K0, attrs_ok_single; exact Ke|].
        assert (Ne : no_ma (e :: ps) = true) by (unfold no_ma in *; cbn [forallb]; rewrite Te, Nps; reflexivity).
        subst a0. destruct add_ma; cbn [app tl].
        + split; [exact Ne|]. intros _. eexists. reflexivity.
        + split; [exact Nps|]. discriminate. }
    destruct K1 as (K1 & N1 & Front).
    assert (NB : existsb bad_ma (m_attrs reply) = false).
    { unfold radmsg2buf in Ser. destruct (_ <? _); [discriminate|]. destruct (existsb bad_ma (m_attrs reply)); [discriminate | reflexivity]. }
    assert (OK : msg_ok reply = true).
    { unfold msg_ok. subst reply. cbn [m_attrs m_auth m_code m_id] in *.
      rewrite attrs_ok_app, K1, Kps, (not_bad_ma_ok _ NB), Lau, Wau, Bcode, Bid. reflexivity. }
    assert (MAX : Consts.RADMSG2BUF_MAX <= 4096) by (vm_compute; discriminate).
    pose proof (radmsg2buf_shape md5 md5_len reply (cc_secret (clconf_of cfg c)) OK) as Sh. rewrite Ser in Sh.
    destruct Sh as (_ & auth' & attrs' & Eb' & _).
    split; [exact (radmsg2buf_wf md5 md5_len reply _ p a OK MAX Ser)|].
    split; [rewrite Eb'; reflexivity|].
    split; [exact (radmsg2buf_id md5 reply _ p a Ser)|].
    split; [intro SC; exact (radmsg2buf_response_auth md5 md5_len reply _ p a OK MAX SC Ser)|].
    intro Hma. destruct (Front Hma) as (rest & Er).
    assert (SM : single_ma (m_attrs reply) = true).
    { subst reply. cbn [m_attrs]. rewrite Er. apply single_ma_placeholder. rewrite Er in N1. exact N1. }
    destruct (radmsg2buf_msgauth md5 md5_len reply _ p a OK MAX SM Ser) as (AM & _ & FM).
    split; [|exact AM]. subst reply. cbn [m_attrs] in FM. rewrite Er in FM. apply FM. reflexivity.
  Qed.
End L.

(* ---- the state a local reply is built from ---- *)
Lemma get_rq_upd_rq st h f : get_rq (upd_rq st h f) h = option_map f (get_rq st h).
Proof.
  unfold upd_rq. destruct (get_rq st h) as [r|] eqn:G; [|rewrite G; reflexivity].
  rewrite (get_rq_set_rq _ _ _ _ G). reflexivity.
Qed.

Section P.
  Variable h : nat.
  Variable r0 : request.
  Variable msg : radmsg.

  (* the request object h, if still there, is unanswered, came from the same client, and its message carries
     the Identifier and Request Authenticator of the parsed request and well-formed attributes *)
  Definition P (stX : state) : Prop :=
    forall rX, get_rq stX h = Some rX ->
      rq_replybuf rX = None /\ rq_from rX = rq_from r0 /\
      exists mX, rq_msg rX = Some mX /\ m_id mX = m_id msg /\ m_auth mX = m_auth msg /\ attrs_ok (m_attrs mX) = true.

  Lemma P_keeps a b : P a -> keeps a b -> P b.
  Proof.
    intros Pa K rX G. destruct (K _ _ G) as (r & Ga & (Sm & Sb & Sf & _)). destruct (Pa _ Ga) as (Hb & Hf & mX & Hm & X).
    split; [congruence|]. split; [congruence|]. exists mX. split; [congruence | exact X].
  Qed.

  Lemma P_upd st f a : P st -> attrs_ok a = true ->
    (forall r, rq_replybuf (f r) = rq_replybuf r /\ rq_from (f r) = rq_from r /\ rq_msg (f r) = Some (set_attrs msg a)) ->
    P (upd_rq st h f).
  Proof.
    intros Ps Aa Hf rX G. rewrite get_rq_upd_rq in G. destruct (get_rq st h) as [r|] eqn:Gs; [|discriminate].
    injection G as <-. destruct (Ps _ Gs) as (Hb & Hfr & _). destruct (Hf r) as (F1 & F2 & F3).
    split; [congruence|]. split; [congruence|]. exists (set_attrs msg a). split; [exact F3|].
    cbn [m_id m_auth m_attrs set_attrs]. repeat split. exact Aa.
  Qed.
End P.

Section SR.
  Variable md5 : bytes -> bytes.
  Variable cfg : config.
  Variable fs : N -> bool.

  Lemma sendrq_no_reply st h : forall x, In x (snd (sendrq md5 cfg fs st h)) -> is_reply x = false.
  Proof.
    unfold sendrq. destruct (get_rq st h) as [r|] eqn:Hr; [|intros x []]. cbv zeta.
    assert (Inv : forall stx s' k st1 o1, internal_sendrq md5 cfg fs stx s' k h = Some (st1, o1) ->
              forall x, In x o1 -> is_reply x = false).
    { intros stx s' k st1 o1 E x Hin. unfold internal_sendrq in E.
      destruct (sl_rq _); [discriminate|]. destruct (get_rq stx h) as [rx0|]; [|discriminate].
      destruct (rq_msg rx0) as [m|]; [|discriminate].
      destruct (fs (100 + k)); [discriminate|].
      destruct (radmsg2buf md5 (set_id m k) (sc_secret (srvconf_of cfg s'))) as [[[b' a]|]|] eqn:R; try discriminate.
      injection E as <- <-. destruct Hin as [<- | []]. reflexivity. }
    destruct (rq_to r) as [s'|] eqn:Ht; [|intros x []].
    match goal with |- context [if ?c then _ else _] => destruct c end.
    - destruct (internal_sendrq md5 cfg fs st s' 0 h) as [[st1 o1]|] eqn:E; [|intros x []].
      cbn [snd]. exact (Inv _ _ _ _ _ E).
    - match goal with |- context [scan_ids md5 cfg fs 257 ?st0 s' ?a Consts.MAX_REQUESTS h] =>
        destruct (scan_ids md5 cfg fs 257 st0 s' a Consts.MAX_REQUESTS h) as [[[k st1] o1]|] eqn:S1 end.
      + cbn [snd]. destruct (scan_ids_some _ _ _ _ _ _ _ _ _ _ _ _ S1) as [_ E]. exact (Inv _ _ _ _ _ E).
      + match goal with |- context [scan_ids md5 cfg fs 257 ?st0 s' ?a ?b' h] =>
          destruct (scan_ids md5 cfg fs 257 st0 s' a b' h) as [[[k st1] o1]|] eqn:S2 end; [|intros x []].
        cbn [snd]. destruct (scan_ids_some _ _ _ _ _ _ _ _ _ _ _ _ S2) as [_ E]. exact (Inv _ _ _ _ _ E).
  Qed.

  (* what a repeat can put on the reply queue: the stored bytes of the reply to the earlier copy *)
  Lemma addclientrq_replies st h c now isnew st' o c' p : addclientrq md5 cfg fs st h c now = (isnew, st', o) ->
    In (OReply c' p) o -> exists h' r, get_rq st h' = Some r /\ rq_replybuf r = Some p /\ rq_from r = Some c'.
  Proof.
    unfold addclientrq. destruct (get_rq st h) as [rq|]; [|intro H; injection H as _ _ <-; intros []]. cbv zeta.
    destruct (nth (N.to_nat (rq_rqid rq)) (c_rqs (get_client st c)) None) as [h'|]; [|intro H; injection H as _ _ <-; intros []].
    destruct (get_rq st h') as [r|] eqn:Gr; [|intro H; injection H as _ _ <-; intros []].
    match goal with |- context [if ?g then _ else _] => destruct g end; [|intro H; injection H as _ _ <-; intros []].
    destruct (rq_replybuf r) as [b0|] eqn:Hb; [|intro H; injection H as _ _ <-; intros []].
    destruct (sendreply md5 cfg fs (newrqref st h') h') as [st1 o1] eqn:SRq. intro H; injection H as _ _ <-. intro Hin.
    assert (G : get_rq (newrqref st h') h' = Some (rq_set_refcount r (rq_refcount r + 1))).
    { unfold newrqref. rewrite Gr. eapply get_rq_set_rq. exact Gr. }
    destruct (sendreply_out md5 cfg fs _ _ _ _ SRq) as [-> | (r' & c2 & b & Gr' & Fr & -> & Hb')]; [destruct Hin|].
    destruct Hin as [E | []]. injection E as -> ->. rewrite G in Gr'. injection Gr' as <-.
    cbn [rq_from rq_set_refcount rq_replybuf] in Fr, Hb'.
    exists h', r. split; [exact Gr|]. split; [|exact Fr]. destruct Hb' as [X | [X _]]; [exact X | congruence].
  Qed.
End SR.

(* replybuf and originator only: survives the bookkeeping AND the handler's own writes to the request *)
Definition keepsR (st st' : state) : Prop :=
  forall h r', get_rq st' h = Some r' -> exists r, get_rq st h = Some r /\ rq_replybuf r' = rq_replybuf r /\ rq_from r' = rq_from r.

Lemma keepsR_of_keeps a b : keeps a b -> keepsR a b.
Proof. intros K h r G. destruct (K _ _ G) as (r1 & G1 & (_ & S1 & S2 & _)). exists r1. repeat split; assumption. Qed.

Lemma keepsR_trans a b c : keepsR a b -> keepsR b c -> keepsR a c.
Proof.
  intros H1 H2 h r H. destruct (H2 _ _ H) as (r1 & G1 & S1 & T1). destruct (H1 _ _ G1) as (r2 & G2 & S2 & T2).
  exists r2. split; [exact G2|]. split; congruence.
Qed.

Lemma keepsR_set_rq st h r r1 : get_rq st h = Some r -> rq_replybuf r1 = rq_replybuf r -> rq_from r1 = rq_from r ->
  keepsR st (set_rq st h r1).
Proof.
  intros G S1 S2 h' r' H. unfold get_rq, set_rq, upd in H. cbn [st_heap] in H.
  destruct (nth_error_set_nth_cases (st_heap st) h (Some r1) h') as [E | [-> E]]; rewrite E in H.
  - exists r'. split; [exact H|]. split; reflexivity.
  - injection H as <-. exists r. repeat split; assumption.
Qed.

Definition local_code (c : N) : bool :=
  (c =? Consts.RAD_Access_Accept) || (c =? Consts.RAD_Access_Reject) || (c =? Consts.RAD_Accounting_Response) ||
  (c =? Consts.RAD_Disconnect_NAK) || (c =? Consts.RAD_CoA_NAK).

Section LR.
  Variable md5 : bytes -> bytes.
  Hypothesis md5_len : forall x, length (md5 x) = 16%nat.
  Hypothesis md5_wf : forall x, wf_bytes (md5 x) = true.
  Variable rx : N -> bytes -> option (list (Z * Z)).
  Variable cfg : config.
  Variable fs : N -> bool.

  (* what holds of a freshly made local reply *)
  Definition local_reply_ok (msg : radmsg) (c' : nat) (p : bytes) : Prop :=
    wf_packet p = true /\ local_code (nth 0 p 0) = true /\ nth 1 p 0 = m_id msg /\
    response_auth_ok md5 p (m_auth msg) (cc_secret (clconf_of cfg c')) = true /\
    (nth 0 p 0 <> Consts.RAD_Accounting_Response ->
     first_is_msgauth p = true /\ all_msgauth_ok md5 p (Some (m_auth msg)) (cc_secret (clconf_of cfg c')) = true).

  Lemma site h r0 msg stX code extra ma c' p :
    P h r0 msg stX -> extra_ok extra -> local_code code = true -> (ma = false -> code = Consts.RAD_Accounting_Response) ->
    length (m_auth msg) = 16%nat -> wf_bytes (m_auth msg) = true -> is_byte (m_id msg) = true ->
    In (OReply c' p) (snd (let '(st1, o) := respond md5 cfg fs stX h code extra ma in (freerq st1 h, o ++ [ORet 1]))) ->
    rq_from r0 = Some c' /\ local_reply_ok msg c' p.
  Proof.
    intros Px Hex Lc Hma Lau Wau Bid Hin.
    destruct (respond md5 cfg fs stX h code extra ma) as [st2 o] eqn:R. cbn [snd] in Hin.
    apply in_app_or in Hin. destruct Hin as [Hin | [E | []]]; [|discriminate E].
    assert (Bcode : is_byte code = true /\ signed_code code = true).
    { unfold local_code in Lc. unfold is_byte, signed_code.
      unfold Consts.RAD_Access_Accept, Consts.RAD_Access_Reject, Consts.RAD_Accounting_Response, Consts.RAD_Disconnect_NAK,
        Consts.RAD_CoA_NAK, Consts.RAD_Access_Challenge, Consts.RAD_Accounting_Request in *. clear - Lc. lia. }
    destruct Bcode as [Bcode SC].
    assert (Hin' : In (OReply c' p) (snd (respond md5 cfg fs stX h code extra ma))) by (rewrite R; exact Hin).
    destruct (respond_emits_wf md5 md5_len cfg fs _ _ _ _ _ _ _ Hin' Hex Bcode) as (r & m & Gx & Mx & Fx & W).
    destruct (Px _ Gx) as (Hb & Hf & mX & Hm & Eid & Eau & Aok).
    rewrite Mx in Hm. injection Hm as <-.
    split; [congruence|].
    destruct W as [W | W]; [congruence|].
    assert (Aps : attrs_ok (getalltype Consts.RAD_Attr_Proxy_State (m_attrs m)) = true) by (apply filter_ok; exact Aok).
    rewrite Eau in W. rewrite Eid in W.
    destruct (W Aps Lau Wau Bid) as (W1 & W2 & W3 & W4 & W5).
    unfold local_reply_ok. rewrite W2. split; [exact W1|]. split; [exact Lc|]. split; [exact W3|]. split; [exact (W4 SC)|].
    intro Hne. apply W5. destruct ma; [reflexivity|]. exfalso. apply Hne. apply Hma. reflexivity.
  Qed.
End LR.

Section LT.
  Variable md5 : bytes -> bytes.
  Hypothesis md5_len : forall x, length (md5 x) = 16%nat.
  Hypothesis md5_wf : forall x, wf_bytes (md5 x) = true.
  Variable rx : N -> bytes -> option (list (Z * Z)).
  Variable cfg : config.
  Variable fs : N -> bool.

  Ltac dead H := exfalso; cbn [snd app] in H; destruct H as [H | []]; discriminate H.

  (* every packet radsrv puts on a reply queue *)
  Theorem radsrv_replies st h c now rnd c' p :
    In (OReply c' p) (snd (radsrv md5 rx cfg fs st h c now rnd)) ->
    rwo_wf (cc_rwin (clconf_of cfg c)) ->
    match cc_rwuser (clconf_of cfg c) with Some m => wf_bytes (mod_repl m) = true | None => True end ->
    (forall rl txt, In rl (cf_realms cfg) -> rl_msg rl = Some txt -> wf_bytes txt = true) ->
    (forall r0, get_rq st h = Some r0 ->
       rq_replybuf r0 = None /\ exists buf, rq_buf r0 = Some buf /\ wf_bytes buf = true /\ (20 <= length buf)%nat) ->
    (* the stored reply of an earlier copy, to the client that copy came from *)
    (exists h' r', get_rq st h' = Some r' /\ rq_replybuf r' = Some p /\ rq_from r' = Some c') \/
    (* or a fresh local reply to the client this request came from *)
    (exists r0 msg, get_rq st h = Some r0 /\ rq_from r0 = Some c' /\
       buf2radmsg md5 (match rq_buf r0 with Some x => x | None => [] end) (cc_secret (clconf_of cfg c)) None = Some msg /\
       local_reply_ok md5 cfg msg c' p).
  Proof.
    unfold radsrv. intros Hin Hrwin Hrwu Hmsg Hbuf.
    destruct (get_rq st h) as [r0|] eqn:H0; [|dead Hin].
    destruct (Hbuf _ eq_refl) as (Hnb & buf & Eb & Wb & Lb). clear Hbuf.
    cbv zeta in Hin.
    destruct (fs 1) eqn:F1; [dead Hin|].
    destruct (buf2radmsg md5 _ (cc_secret (clconf_of cfg c)) None) as [msg|] eqn:Hp; [|dead Hin].
    assert (Hp' := Hp). rewrite Eb in Hp'.
    destruct (buf2radmsg_ok md5 md5_len md5_wf _ _ _ _ Wb Lb Hp') as (A0 & Lau & Wau & Bc & Bi). clear Hp'.
    destruct (m_mainvalid msg) eqn:Hv; [dead Hin|].
    set (cc := clconf_of cfg c) in *.
    set (stB := set_rq st h (rq_set_buf r0 None)) in *.
    assert (GB : get_rq stB h = Some (rq_set_buf r0 None)) by (eapply get_rq_set_rq; exact H0).
    set (r1 := rq_set_ids (rq_set_msg (rq_set_buf r0 None) (Some msg)) (m_id msg) (m_auth msg)) in *.
    set (stA := set_rq stB h r1) in *.
    assert (GA : get_rq stA h = Some r1) by (eapply get_rq_set_rq; exact GB).
    assert (PA : P h r0 msg stA).
    { intros rX G. rewrite GA in G. injection G as <-. subst r1. cbn [rq_replybuf rq_from rq_msg rq_set_ids rq_set_msg rq_set_buf].
      split; [exact Hnb|]. split; [reflexivity|]. exists msg. repeat split. exact A0. }
    assert (KA : keepsR st stA).
    { apply (keepsR_trans st stB stA).
      - apply (keepsR_set_rq st h r0 (rq_set_buf r0 None)); [exact H0 | reflexivity | reflexivity].
      - apply (keepsR_set_rq stB h (rq_set_buf r0 None) r1); [exact GB | reflexivity | reflexivity]. }
    assert (Fresh : forall stX code extra ma, P h r0 msg stX -> extra_ok extra -> local_code code = true ->
              (ma = false -> code = Consts.RAD_Accounting_Response) ->
              In (OReply c' p) (snd (let '(st1, o) := respond md5 cfg fs stX h code extra ma in (freerq st1 h, o ++ [ORet 1]))) ->
              exists r0' msg', Some r0 = Some r0' /\ rq_from r0' = Some c' /\
                buf2radmsg md5 (match rq_buf r0' with Some x => x | None => [] end) (cc_secret cc) None = Some msg' /\ local_reply_ok md5 cfg msg' c' p).
    { intros stX code extra ma Px Hex Lc Hma Hi.
      destruct (site md5 md5_len cfg fs h r0 msg stX code extra ma c' p Px Hex Lc Hma Lau Wau Bi Hi) as [Hf Ok].
      exists r0, msg. split; [reflexivity|]. split; [exact Hf|]. split; [exact Hp | exact Ok]. }
    assert (ExN : extra_ok None) by (intros e E; discriminate E).
    (* Disconnect / CoA *)
    destruct ((m_code msg =? Consts.RAD_Disconnect_Request) || (m_code msg =? Consts.RAD_CoA_Request)) eqn:C1.
    { right. refine (Fresh _ _ _ _ PA _ _ _ Hin).
      - intros e E. destruct (fs 11); [discriminate|]. injection E as <-. split; [exact (wf_be_encode 4 Consts.RAD_Err_Unsupported_Extension)|]. split; reflexivity.
      - destruct (m_code msg =? Consts.RAD_Disconnect_Request); reflexivity.
      - discriminate. }
    destruct (negb _) eqn:C2; [dead Hin|].
    destruct (addclientrq md5 cfg fs _ h c now) as [[isnew st1] o0] eqn:A.
    assert (KP : keeps stA (purgedupcache cfg stA c now)) by apply keeps_purgedupcache.
    destruct (negb isnew) eqn:NI.
    { left. cbn [snd] in Hin. apply in_app_or in Hin. destruct Hin as [Hin | [E | []]]; [|discriminate E].
      destruct (addclientrq_replies md5 cfg fs _ _ _ _ _ _ _ _ _ A Hin) as (h' & r & G & Hb & Hf).
      destruct (keepsR_of_keeps _ _ KP _ _ G) as (ra & Ga & Sb & Sf). destruct (KA _ _ Ga) as (rs & Gs & Tb & Tf).
      exists h', rs. split; [exact Gs|]. split; congruence. }
    assert (isnew = true) as -> by (destruct isnew; [reflexivity | discriminate NI]).
    assert (P1 : P h r0 msg st1).
    { eapply P_keeps; [exact PA|]. eapply keeps_trans; [exact KP|]. eapply keeps_addclientrq. exact A. }
    destruct (m_code msg =? Consts.RAD_Status_Server) eqn:C3.
    { right. refine (Fresh _ _ _ _ P1 ExN _ _ Hin); [reflexivity | discriminate]. }
    match type of Hin with context [if ?g then (freerq st1 h, [] ++ [ORet 1]) else _] => destruct g eqn:Pol end; [dead Hin|].
    destruct (o_verifyeap (cf_opt cfg) && (m_code msg =? Consts.RAD_Access_Request) && negb (verifyeapformat (m_attrs msg))) eqn:Eap.
    { right. refine (Fresh _ _ _ _ P1 ExN _ _ Hin); [reflexivity | discriminate]. }
    (* rewriteIn *)
    match type of Hin with context [match ?e with Some a1 => _ | None => (freerq _ h, [] ++ [ORet 1]) end] => destruct e as [a1|] eqn:Rw end;
      [|dead Hin].
    assert (Rw' : dorewrite rx (m_attrs msg) (cc_rwin cc) = Some a1)
      by (revert Rw; destruct (cc_rwin cc); [destruct (fs 4); [discriminate|]|]; exact (fun x => x)).
    pose proof (dorewrite_ok rx _ _ _ Hrwin A0 Rw') as A1.
    destruct (checkttl (o_ttl0 (cf_opt cfg)) (o_ttl1 (cf_opt cfg)) a1) as [ttlres a2] eqn:Ttl.
    assert (A2 : attrs_ok a2 = true).
    { pose proof (checkttl_ok (o_ttl0 (cf_opt cfg)) (o_ttl1 (cf_opt cfg)) _ A1) as X. rewrite Ttl in X. exact X. }
    set (st2 := upd_rq (upd_rq st1 h (fun r => rq_set_msg r (Some (set_attrs msg a1)))) h (fun r => rq_set_msg r (Some (set_attrs msg a2)))) in *.
    assert (P2 : P h r0 msg st2).
    { subst st2. apply (P_upd h r0 msg _ _ a2); [|exact A2 | intro r; repeat split].
      apply (P_upd h r0 msg _ _ a1); [exact P1 | exact A1 | intro r; repeat split]. }
    destruct (ttlres =? 0) eqn:T0; [dead Hin|].
    destruct (gettype Consts.RAD_Attr_User_Name a2) as [ua|] eqn:Ua.
    2:{ destruct (m_code msg =? Consts.RAD_Accounting_Request); [|dead Hin].
        right. refine (Fresh _ _ _ _ P2 ExN _ _ Hin); [reflexivity | reflexivity]. }
    match type of Hin with context [match ?e with Some p => _ | None => (freerq _ h, [] ++ [ORet 1]) end] => destruct e as [[uname orig]|] eqn:Un end;
      [|dead Hin].
    assert (Un' : match cc_rwuser cc with Some m => rewriteusername rx (tlv_v ua) m | None => Some (tlv_v ua, None) end = Some (uname, orig))
      by (revert Un; destruct (cc_rwuser cc); [destruct (fs 5); [discriminate|]|]; exact (fun x => x)).
    destruct (gettype_in _ _ _ Ua) as [Iua Tua].
    destruct (aok_parts _ (attrs_ok_in _ _ A2 Iua)) as (Lua & Wua & _). unfold Ttl.tlv_l in Lua.
    assert (Unw : wf_bytes uname = true /\ nlen uname <= 253).
    { destruct (cc_rwuser cc) as [m|]; [|injection Un' as <- _; split; assumption].
      unfold rewriteusername in Un'. destruct (dorewritemodattr rx (tlv_v ua) m) as [v'|] eqn:D; [|discriminate].
      destruct (dorewritemodattr_ok rx _ _ _ Wua Lua Hrwu D) as [W' L'].
      destruct (negb _ || negb _); injection Un' as <- _; split; assumption. }
    destruct Unw as [Wun Lun].
    set (a3 := replace_first Consts.RAD_Attr_User_Name uname a2) in *.
    assert (A3 : attrs_ok a3 = true).
    { apply replace_first_ok; [exact A2|]. unfold aok, Ttl.tlv_l. cbn [tlv_v tlv_t].
      rewrite Wun. replace (nlen uname <=? 253) with true by (clear - Lun; lia). reflexivity. }
    set (st3 := upd_rq st2 h (fun r => rq_set_origuser (rq_set_msg r (Some (set_attrs msg a3))) orig)) in *.
    assert (P3 : P h r0 msg st3).
    { subst st3. apply (P_upd h r0 msg _ _ a3); [exact P2 | exact A3 | intro r; repeat split]. }
    destruct ((nlen uname =? 0) || fs 6) eqn:U0; [dead Hin|].
    destruct (existsb (N.eqb 0) uname) eqn:Nul; [dead Hin|].
    destruct (fs 15); [dead Hin|].
    destruct (id2realm rx (cf_realms cfg) (cstr uname)) as [rl|] eqn:Rl; [|dead Hin].
    match type of Hin with context [choose ?stc ?l] => destruct (choose stc l) as [to stc'] eqn:Ch end.
    assert (P4 : P h r0 msg stc') by (eapply P_keeps; [exact P3 | eapply keeps_choose; exact Ch]).
    destruct to as [s'|].
    2:{ right. destruct (rl_msg rl) as [txt|] eqn:Erl.
        - destruct (m_code msg =? Consts.RAD_Access_Request).
          + refine (Fresh _ _ _ _ P4 _ _ _ Hin); [|reflexivity | discriminate].
            intros e E. destruct (fs 12); [discriminate|]. injection E as <-. cbn [tlv_v tlv_t]. split; [|split; reflexivity].
            destruct (id2realm_first rx _ _ _ Rl) as (pre & post & Er & _).
            apply (Hmsg rl txt); [rewrite Er; apply in_or_app; right; left; reflexivity | exact Erl].
          + destruct (rl_accresp rl && (m_code msg =? Consts.RAD_Accounting_Request)); [|dead Hin].
            refine (Fresh _ _ _ _ P4 ExN _ _ Hin); [reflexivity | reflexivity].
        - destruct (rl_accresp rl && (m_code msg =? Consts.RAD_Accounting_Request)); [|dead Hin].
          refine (Fresh _ _ _ _ P4 ExN _ _ Hin); [reflexivity | reflexivity]. }
    (* a server was chosen: nothing is put on a reply queue *)
    exfalso.
    match type of Hin with context [if ?g then (freerq _ h, [] ++ [ORet 1]) else _] => destruct g end; [dead Hin|].
    match type of Hin with context [match ?e with Some a4 => _ | None => (freerq _ h, [] ++ [ORet 1]) end] => destruct e as [a4|] end; [|dead Hin].
    match type of Hin with context [match ?e with Some a5 => _ | None => (freerq _ h, [] ++ [ORet 1]) end] => destruct e as [a5|] end; [|dead Hin].
    match type of Hin with context [match ?e with Some a6 => _ | None => (freerq _ h, [] ++ [ORet 1]) end] => destruct e as [a6|] end; [|dead Hin].
    match type of Hin with context [if ?g then (freerq _ h, [] ++ [ORet 1]) else _] => destruct g end; [dead Hin|].
    match type of Hin with context [sendrq md5 cfg fs ?stf h] => destruct (sendrq md5 cfg fs stf h) as [stZ oZ] eqn:Sq end.
    cbn [snd] in Hin. apply in_app_or in Hin. destruct Hin as [Hin | [E | []]]; [|discriminate E].
    pose proof (sendrq_no_reply md5 cfg fs _ _ (OReply c' p) ltac:(rewrite Sq; exact Hin)) as K. discriminate K.
  Qed.
End LT.
