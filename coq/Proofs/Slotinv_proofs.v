(* C11 over histories: a request that sits in a server's table knows that server and that identifier
   (rq->to, rq->newid); hence an outstanding request occupies exactly one identifier of exactly one server. *)
From RSP Require Import Base Consts Ttl Crypt Packet Rewrite Choose Proxy BaseLemmas Packet_proofs Slots_proofs Dup_proofs
  Keeps_proofs Wf_proofs Refs_proofs Tight_proofs Reg_proofs Balance_proofs.
From Coq Require Import ZifyBool ZifyNat ZifyN.
Local Open Scope N_scope.

Definition SLOT (st : state) : Prop := forall s i h r, slot_of st s i = Some h -> get_rq st h = Some r ->
  rq_to r = Some s /\ rq_newid r = i.

Definition unslotted (st : state) (h : nat) : Prop := forall s i, slot_of st s i <> Some h.

(* b's occupied slots are slots of a with the same occupant; surviving requests keep their identifier, and their
   server unless they have left every table *)
Definition R4 (a b : state) : Prop :=
  (forall s i h, slot_of b s i = Some h -> slot_of a s i = Some h) /\
  (forall h r', get_rq b h = Some r' -> exists r, get_rq a h = Some r /\ rq_newid r' = rq_newid r /\
     (rq_to r' = rq_to r \/ (rq_to r' = None /\ unslotted b h))).

Definition Q (a b : state) : Prop := SLOT a -> R4 a b.

Lemma SLOT_R4 a b : SLOT a -> R4 a b -> SLOT b.
Proof.
  intros Sa [SS K] s i h r' E G. destruct (K _ _ G) as (r & Ga & Ni & To). destruct (Sa _ _ _ _ (SS _ _ _ E) Ga) as [T I].
  split; [|congruence]. destruct To as [To | [_ U]]; [congruence | exfalso; exact (U _ _ E)].
Qed.

Lemma R4_refl a : R4 a a.
Proof. split; [intros s i h E; exact E|]. intros h r G. exists r. split; [exact G|]. split; [reflexivity | left; reflexivity]. Qed.

Lemma R4_trans a b c : R4 a b -> R4 b c -> R4 a c.
Proof.
  intros [S1 K1] [S2 K2]. split; [intros s i h E; apply S1; apply S2; exact E|].
  intros h r2 G. destruct (K2 _ _ G) as (r1 & G1 & N1 & T1). destruct (K1 _ _ G1) as (r0 & G0 & N0 & T0).
  exists r0. split; [exact G0|]. split; [congruence|].
  destruct T1 as [T1 | [T1 U1]]; [|right; split; assumption].
  destruct T0 as [T0 | [T0 U0]]; [left; congruence|]. right. split; [congruence|].
  intros s i E. exact (U0 _ _ (S2 _ _ _ E)).
Qed.

Lemma Q_refl a : Q a a.  Proof. intros _. apply R4_refl. Qed.
Lemma Q_trans a b c : Q a b -> Q b c -> Q a c.
Proof. intros H1 H2 Sa. pose proof (H1 Sa) as K1. eapply R4_trans; [exact K1 | apply H2; eapply SLOT_R4; eassumption]. Qed.
Lemma Q_of_R4 a b : R4 a b -> Q a b.  Proof. intros H _. exact H. Qed.

Lemma unslotted_R4 a b h : R4 a b -> unslotted a h -> unslotted b h.
Proof. intros [SS _] U s i E. exact (U _ _ (SS _ _ _ E)). Qed.

(* ---- primitives ---- *)
Lemma R4_set_rq st h r r' : get_rq st h = Some r -> rq_to r' = rq_to r -> rq_newid r' = rq_newid r -> R4 st (set_rq st h r').
Proof.
  intros G T I. split; [intros s i x E; exact E|].
  intros x r1 H. destruct (get_rq_set_rq_inv _ _ _ _ _ H) as [[-> ->] | H1].
  - exists r. split; [exact G|]. split; [exact I | left; exact T].
  - exists r1. split; [exact H1|]. split; [reflexivity | left; reflexivity].
Qed.

Lemma R4_upd_rq st h f : (forall r, rq_to (f r) = rq_to r /\ rq_newid (f r) = rq_newid r) -> R4 st (upd_rq st h f).
Proof.
  intro Hf. unfold upd_rq. destruct (get_rq st h) as [r|] eqn:G; [|apply R4_refl].
  destruct (Hf r) as [A B]. eapply R4_set_rq; eassumption.
Qed.

Lemma R4_del_rq st h : R4 st (del_rq st h).
Proof.
  split; [intros s i x E; exact E|]. intros x r H. exists r. split; [exact (get_rq_del_rq_inv _ _ _ _ H)|].
  split; [reflexivity | left; reflexivity].
Qed.

Lemma R4_newrqref st h : R4 st (newrqref st h).
Proof. unfold newrqref. destruct (get_rq st h) as [r|] eqn:G; [|apply R4_refl]. eapply R4_set_rq; [exact G | reflexivity | reflexivity]. Qed.

Lemma R4_freerq st h : R4 st (freerq st h).
Proof.
  unfold freerq. destruct (get_rq st h) as [r|] eqn:G; [|apply R4_refl].
  destruct (rq_refcount r <=? 1); [apply R4_del_rq | eapply R4_set_rq; [exact G | reflexivity | reflexivity]].
Qed.

Lemma R4_set_client st c x : R4 st (set_client st c x).
Proof. split; [intros s i h E; exact E|]. intros h r G. exists r. split; [exact G|]. split; [reflexivity | left; reflexivity]. Qed.

Lemma slot_of_set_server st s sv' s' i : slot_of (set_server st s sv') s' i =
  if Nat.eqb s' s then (if (s <? length (st_servers st))%nat then sl_rq (get_slot sv' i) else slot_of st s' i) else slot_of st s' i.
Proof.
  unfold slot_of. destruct (Nat.ltb_spec s (length (st_servers st))) as [L|L].
  - rewrite get_server_set_server by exact L. destruct (Nat.eqb s' s); reflexivity.
  - rewrite set_server_out by exact L. destruct (Nat.eqb s' s); reflexivity.
Qed.

(* a server record whose occupied slots are occupied slots of the old one, same occupants *)
Lemma R4_set_server st s sv' : (forall i h, sl_rq (get_slot sv' i) = Some h -> slot_of st s i = Some h) -> R4 st (set_server st s sv').
Proof.
  intro H. split.
  - intros s' i h E. rewrite slot_of_set_server in E. destruct (Nat.eqb_spec s' s) as [->|_]; [|exact E].
    destruct (_ <? _)%nat; [apply H; exact E | exact E].
  - intros h r G. exists r. split; [exact G|]. split; [reflexivity | left; reflexivity].
Qed.

Lemma R4_set_server_same st s sv' : s_slots sv' = s_slots (get_server st s) -> R4 st (set_server st s sv').
Proof. intro H. apply R4_set_server. intros i h E. unfold slot_of, get_slot in *. rewrite H in E. exact E. Qed.

Lemma get_slot_set_slot_cases sv i x j : get_slot (set_slot sv i x) j = get_slot sv j \/ (j = i /\ get_slot (set_slot sv i x) j = x).
Proof.
  unfold get_slot, set_slot. cbn [s_slots]. destruct (N.eq_dec j i) as [->|Hn].
  - destruct (Nat.lt_ge_cases (N.to_nat i) (length (s_slots sv))) as [L|L].
    + right. split; [reflexivity|]. apply nth_upd_same. exact L.
    + left. rewrite upd_out by exact L. reflexivity.
  - left. apply nth_upd_other. intro E. apply Hn. apply N2Nat.inj. symmetry. exact E.
Qed.

(* freerqoutdata: the occupant forgets its server, the slot is emptied -- and by SLOT it sat in no other slot *)
Lemma Q_freerqoutdata st s i : Q st (freerqoutdata st s i).
Proof.
  intro Sl. unfold freerqoutdata. cbv zeta.
  destruct (sl_rq (get_slot (get_server st s) i)) as [h|] eqn:E.
  2:{ apply R4_set_server. intros j x Ex. destruct (get_slot_set_slot_cases (get_server st s) i empty_slot j) as [K | [-> K]]; rewrite K in Ex; [exact Ex | discriminate Ex]. }
  destruct (get_rq st h) as [r|] eqn:G.
  2:{ apply R4_set_server. intros j x Ex. destruct (get_slot_set_slot_cases (get_server st s) i empty_slot j) as [K | [-> K]]; rewrite K in Ex; [exact Ex | discriminate Ex]. }
  set (R1 := rq_set_to (rq_set_buf r None) None).
  set (stf := freerq (set_rq st h R1) h).
  assert (Sv : get_server stf s = get_server st s) by (subst stf; rewrite get_server_freerq; reflexivity).
  rewrite Sv.
  (* slots of the result *)
  assert (SS : forall s' j x, slot_of (set_server stf s (set_slot (get_server st s) i empty_slot)) s' j = Some x ->
                slot_of st s' j = Some x /\ ~ (s' = s /\ j = i)).
  { intros s' j x Ex. rewrite slot_of_set_server in Ex.
    assert (Sof : forall a b, slot_of stf a b = slot_of st a b) by (intros a b; unfold slot_of; subst stf; rewrite get_server_freerq; reflexivity).
    destruct (Nat.eqb_spec s' s) as [->|Hn]; [|split; [rewrite <- Sof; exact Ex | intros [X _]; contradiction]].
    destruct (_ <? _)%nat eqn:L.
    - destruct (get_slot_set_slot_cases (get_server st s) i empty_slot j) as [K | [-> K]]; rewrite K in Ex; [|discriminate Ex].
      split; [exact Ex|]. intros [_ ->]. rewrite (get_slot_set_slot _ _ _ h E) in K. rewrite <- K in E. discriminate E.
    - split; [rewrite <- Sof; exact Ex|]. intros [_ ->]. rewrite Sof in Ex.
      (* s out of range: then slot (s,i) of st is empty, contradiction with E *)
      apply Nat.ltb_ge in L. unfold stf in L.
      assert (Ls : (length (st_servers st) <= s)%nat).
      { revert L. unfold freerq. destruct (get_rq (set_rq st h R1) h) as [r2|]; [destruct (rq_refcount r2 <=? 1)|]; exact (fun x => x). }
      rewrite (get_server_out st s Ls) in E. unfold get_slot in E. cbn [s_slots dummy_server] in E. destruct (N.to_nat i); discriminate E. }
  split.
  - intros s' j x Ex. exact (proj1 (SS _ _ _ Ex)).
  - intros x rx0 Gx. change (get_rq stf x = Some rx0) in Gx.
    destruct (proj2 (R4_freerq (set_rq st h R1) h) _ _ Gx) as (r1 & G1 & N1 & T1).
    assert (T1' : rq_to rx0 = rq_to r1).
    { destruct T1 as [T1 | [T1 _]]; [exact T1|]. (* freerq never changes rq_to *)
      revert Gx G1. unfold stf, freerq. destruct (get_rq (set_rq st h R1) h) as [r2|] eqn:G2; [|congruence].
      destruct (rq_refcount r2 <=? 1).
      - intros Gx G1. rewrite (get_rq_del_rq_inv _ _ _ _ Gx) in G1. congruence.
      - intros Gx G1. destruct (get_rq_set_rq_inv _ _ _ _ _ Gx) as [[-> ->] | H1]; [rewrite G2 in G1; injection G1 as <-; reflexivity | congruence]. }
    destruct (get_rq_set_rq_inv _ _ _ _ _ G1) as [[-> ->] | H1].
    + exists r. split; [exact G|]. split; [rewrite N1; reflexivity|]. right. split; [rewrite T1'; reflexivity|].
      intros s' j Ex. destruct (SS _ _ _ Ex) as [E0 Ne]. apply Ne.
      destruct (Sl _ _ _ _ E0 G) as [Ta Ia]. destruct (Sl _ _ _ _ E G) as [Tb Ib]. split; congruence.
    + exists r1. split; [exact H1|]. split; [exact N1 | left; exact T1'].
Qed.

Lemma Q_removeclientrq st c i : Q st (removeclientrq st c i).
Proof.
  unfold removeclientrq. cbv zeta.
  destruct (nth (N.to_nat i) (c_rqs (get_client st c)) None) as [h|]; [|apply Q_refl].
  destruct (get_rq st h) as [r|]; [|apply Q_refl].
  eapply Q_trans; [|apply Q_of_R4; apply R4_freerq]. eapply Q_trans; [|apply Q_of_R4; apply R4_set_client].
  destruct (rq_to r) as [s|]; [|apply Q_refl]. destruct (sl_rq _) as [h'|]; [|apply Q_refl].
  destruct (Nat.eqb h' h); [apply Q_freerqoutdata | apply Q_refl].
Qed.

Lemma R4_rmclientrq st h id : R4 st (rmclientrq st h id).
Proof.
  unfold rmclientrq. destruct (get_rq st h) as [r|] eqn:G; [|apply R4_refl].
  destruct (rq_from r) as [c|]; [|apply R4_refl].
  destruct (nth (N.to_nat id) (c_rqs (get_client st c)) None) as [h'|]; [|apply R4_refl].
  eapply R4_trans; [|apply R4_freerq]. eapply R4_trans; [apply R4_set_client|].
  eapply R4_set_rq; [exact G | reflexivity | reflexivity].
Qed.

Section H.
  Variable md5 : bytes -> bytes.
  Variable cfg : config.
  Variable fs : N -> bool.

  Lemma R4_sendreply st h : R4 st (fst (sendreply md5 cfg fs st h)).
  Proof.
    unfold sendreply. destruct (get_rq st h) as [r|] eqn:G; [|apply R4_refl].
    destruct (rq_from r) as [c|]; [|apply R4_refl]. cbv zeta.
    match goal with |- context [set_rq st h ?r1] => set (R1 := r1) end.
    assert (K1 : R4 st (set_rq st h R1)) by (eapply R4_set_rq; [exact G | reflexivity | reflexivity]).
    match goal with |- context [if fs 14 then None else ?rb] => destruct (if fs 14 then None else rb) as [b|] end; cbn [fst].
    - eapply R4_trans; [exact K1 | apply R4_set_client].
    - eapply R4_trans; [exact K1 | apply R4_freerq].
  Qed.

  Lemma R4_respond st h code extra ma : R4 st (fst (respond md5 cfg fs st h code extra ma)).
  Proof.
    unfold respond. destruct (get_rq st h) as [r|] eqn:G; [|apply R4_refl].
    destruct (rq_msg r) as [m|]; [|apply R4_refl]. cbv zeta.
    match goal with |- context [match ?x with Some a1 => _ | None => (st, []) end] => destruct x as [a1|] end; [|apply R4_refl].
    match goal with |- context [set_rq st h ?r1] => set (R1 := r1) end.
    eapply R4_trans; [|apply R4_sendreply]. eapply R4_trans; [|apply R4_newrqref].
    eapply R4_set_rq; [exact G | reflexivity | reflexivity].
  Qed.

  Lemma Q_purge_f c now : forall fuel st i, Q st (purge_f cfg fuel st c i now).
  Proof.
    induction fuel as [|f IH]; intros st i; [apply Q_refl|]. cbn [purge_f]. cbv zeta.
    eapply Q_trans; [|apply IH].
    destruct (nth i (c_rqs (get_client st c)) None) as [h|]; [|apply Q_refl].
    destruct (get_rq st h) as [r|]; [|apply Q_refl].
    match goal with |- context [if ?g then _ else _] => destruct g end; [apply Q_removeclientrq | apply Q_refl].
  Qed.

  Lemma Q_purgedupcache st c now : Q st (purgedupcache cfg st c now).
  Proof. unfold purgedupcache. generalize 256%nat. intro n. apply Q_purge_f. Qed.

  Lemma Q_addclientrq st h c now isnew st' o : addclientrq md5 cfg fs st h c now = (isnew, st', o) -> Q st st'.
  Proof.
    unfold addclientrq. intro A. destruct (get_rq st h) as [rq|]; [|injection A as _ <- _; apply Q_refl]. cbv zeta in A.
    assert (Reg : forall stx, R4 stx (newrqref (set_client stx c (mkClient (upd (c_rqs (get_client stx c)) (N.to_nat (rq_rqid rq)) (Some h)) (c_replyq (get_client stx c)))) h))
      by (intro stx; eapply R4_trans; [apply R4_set_client | apply R4_newrqref]).
    destruct (nth (N.to_nat (rq_rqid rq)) (c_rqs (get_client st c)) None) as [h'|]; [|injection A as _ <- _; apply Q_of_R4; apply Reg].
    destruct (get_rq st h') as [r|]; [|injection A as _ <- _; apply Q_of_R4; apply Reg].
    match type of A with context [if ?g then _ else _] => destruct g end.
    - destruct (rq_replybuf r).
      + destruct (sendreply md5 cfg fs (newrqref st h') h') as [st1 o1] eqn:SR. injection A as _ <- _.
        change st1 with (fst (st1, o1)). rewrite <- SR. apply Q_of_R4. eapply R4_trans; [apply R4_newrqref | apply R4_sendreply].
      + injection A as _ <- _. apply Q_refl.
    - injection A as _ <- _. eapply Q_trans; [apply Q_removeclientrq | apply Q_of_R4; apply Reg].
  Qed.

  (* _internal_sendrq puts an unslotted request that names server s into slot (s, id) and records the identifier *)
  Lemma SLOT_internal_sendrq st s id h st1 o : internal_sendrq md5 cfg fs st s id h = Some (st1, o) ->
    (forall r, get_rq st h = Some r -> rq_to r = Some s) -> unslotted st h -> SLOT st -> SLOT st1.
  Proof.
    unfold internal_sendrq. cbv zeta. intros I Ht U Sl.
    destruct (sl_rq (get_slot (get_server st s) id)) eqn:E0; [discriminate|].
    destruct (get_rq st h) as [r|] eqn:G; [|discriminate]. specialize (Ht r eq_refl).
    destruct (rq_msg r) as [m|]; [|discriminate].
    destruct (fs (100 + id)); [discriminate|].
    destruct (radmsg2buf md5 (set_id m id) (sc_secret (srvconf_of cfg s))) as [[[b a]|]|]; try discriminate.
    injection I as <- _.
    match goal with |- context [set_rq st h ?r1] => set (R1 := r1) end.
    intros s' j x rx0 Ex Gx. change (get_rq (set_rq st h R1) x = Some rx0) in Gx.
    rewrite slot_of_set_server in Ex. change (get_server (set_rq st h R1) s) with (get_server st s) in Ex.
    change (length (st_servers (set_rq st h R1))) with (length (st_servers st)) in Ex.
    change (slot_of (set_rq st h R1) s' j) with (slot_of st s' j) in Ex.
    assert (Old : slot_of st s' j = Some x -> rq_to rx0 = Some s' /\ rq_newid rx0 = j).
    { intro Eo. destruct (get_rq_set_rq_inv _ _ _ _ _ Gx) as [[-> _] | G1]; [exfalso; exact (U _ _ Eo) | exact (Sl _ _ _ _ Eo G1)]. }
    destruct (Nat.eqb_spec s' s) as [->|_]; [|exact (Old Ex)].
    destruct (_ <? _)%nat; [|exact (Old Ex)].
    destruct (get_slot_set_slot_cases (get_server st s) id (mkSlot (Some h) (sl_tries (get_slot (get_server st s) id)) (sl_expiry (get_slot (get_server st s) id))) j) as [K | [-> K]];
      rewrite K in Ex; [exact (Old Ex)|].
    cbn [sl_rq] in Ex. injection Ex as <-. rewrite (get_rq_set_rq _ _ _ _ G) in Gx. injection Gx as <-.
    subst R1. cbn [rq_to rq_newid rq_set_msg rq_set_buf rq_set_newid]. split; [exact Ht | reflexivity].
  Qed.

  Lemma SLOT_scan_ids s h : forall fuel st i limit k st1 o, scan_ids md5 cfg fs fuel st s i limit h = Some (k, st1, o) ->
    (forall r, get_rq st h = Some r -> rq_to r = Some s) -> unslotted st h -> SLOT st -> SLOT st1.
  Proof.
    induction fuel as [|f IH]; intros st i limit k st1 o Sc Ht U Sl; [discriminate|]. cbn [scan_ids] in Sc.
    destruct (limit <=? i); [discriminate|].
    destruct (internal_sendrq md5 cfg fs st s i h) as [[st2 o2]|] eqn:I.
    - injection Sc as _ <- _. eapply SLOT_internal_sendrq; eassumption.
    - eapply IH; eassumption.
  Qed.

  Lemma SLOT_sendrq st h : unslotted st h -> SLOT st -> SLOT (fst (sendrq md5 cfg fs st h)).
  Proof.
    intros U Sl.
    assert (Fail : forall stx, SLOT stx ->
              SLOT (freerq (match get_rq stx h with
                            | Some r' => match rq_from r' with Some _ => rmclientrq stx h (rq_rqid r') | None => stx end
                            | None => stx end) h)).
    { intros stx Sx. eapply SLOT_R4; [|apply R4_freerq]. destruct (get_rq stx h) as [r'|]; [|exact Sx].
      destruct (rq_from r'); [eapply SLOT_R4; [exact Sx | apply R4_rmclientrq] | exact Sx]. }
    pose proof (Fail st Sl) as F0.
    unfold sendrq. destruct (get_rq st h) as [r|] eqn:G; [|exact Sl]. cbv zeta.
    destruct (rq_to r) as [s|] eqn:To; [|cbn [fst]; exact F0].
    assert (Ht : forall r2, get_rq st h = Some r2 -> rq_to r2 = Some s) by (intros r2 G2; rewrite G in G2; injection G2 as <-; exact To).
    assert (Same : forall stx sv', s_slots sv' = s_slots (get_server stx s) -> SLOT stx -> SLOT (set_server stx s sv'))
      by (intros stx sv' Hs Sx; eapply SLOT_R4; [exact Sx | apply R4_set_server_same; exact Hs]).
    match goal with |- context [if ?c then _ else _] => destruct c end.
    - destruct (internal_sendrq md5 cfg fs st s 0 h) as [[st1 o1]|] eqn:I; cbn [fst]; [|exact F0].
      apply Same; [reflexivity|]. eapply SLOT_internal_sendrq; eassumption.
    - match goal with |- context [scan_ids md5 cfg fs 257 ?st0 s ?a Consts.MAX_REQUESTS h] => set (ST0 := st0) end.
      assert (S0 : SLOT ST0) by (subst ST0; apply Same; [reflexivity | exact Sl]).
      assert (U0 : unslotted ST0 h) by (subst ST0; eapply unslotted_R4; [apply R4_set_server_same; reflexivity | exact U]).
      assert (Ht0 : forall r2, get_rq ST0 h = Some r2 -> rq_to r2 = Some s) by exact Ht.
      match goal with |- context [scan_ids md5 cfg fs 257 ST0 s ?a Consts.MAX_REQUESTS h] =>
        destruct (scan_ids md5 cfg fs 257 ST0 s a Consts.MAX_REQUESTS h) as [[[k st1] o1]|] eqn:S1 end.
      + cbn [fst]. apply Same; [reflexivity|]. pose proof (SLOT_scan_ids _ _ _ _ _ _ _ _ _ S1 Ht0 U0 S0) as K.
        destruct (_ <=? k); [apply Same; [reflexivity | exact K] | exact K].
      + match goal with |- context [scan_ids md5 cfg fs 257 ST0 s ?a ?b' h] =>
          destruct (scan_ids md5 cfg fs 257 ST0 s a b' h) as [[[k st1] o1]|] eqn:S2 end; cbn [fst].
        * apply Same; [reflexivity|]. pose proof (SLOT_scan_ids _ _ _ _ _ _ _ _ _ S2 Ht0 U0 S0) as K.
          destruct (_ <=? k); [apply Same; [reflexivity | exact K] | exact K].
        * apply Fail. exact S0.
  Qed.

  Lemma R4_choose st idxs to st' : choose st idxs = (to, st') -> R4 st st'.
  Proof.
    unfold choose. destruct (choosesrvconf _) as [cidx l']. intro H. injection H as _ <-.
    generalize (combine idxs l'). intro l. revert st. induction l as [|p l IH]; intro st; [apply R4_refl|].
    cbn [fold_left]. eapply R4_trans; [|apply IH]. apply R4_set_server_same. reflexivity.
  Qed.
End H.

Lemma SLOT_set_rq_unslotted st h r' : unslotted st h -> SLOT st -> SLOT (set_rq st h r').
Proof.
  intros U Sl s i x rx0 E Gx. change (slot_of st s i = Some x) in E.
  destruct (get_rq_set_rq_inv _ _ _ _ _ Gx) as [[-> _] | G1]; [exfalso; exact (U _ _ E) | exact (Sl _ _ _ _ E G1)].
Qed.

Lemma SLOT_upd_rq_unslotted st h f : unslotted st h -> SLOT st -> SLOT (upd_rq st h f).
Proof. intros U Sl. unfold upd_rq. destruct (get_rq st h); [apply SLOT_set_rq_unslotted; assumption | exact Sl]. Qed.

Lemma unslotted_upd_rq st h f x : unslotted st x -> unslotted (upd_rq st h f) x.
Proof. intros U s i E. apply (U s i). unfold upd_rq in E. destruct (get_rq st h); exact E. Qed.

Section R.
  Variable md5 : bytes -> bytes.
  Variable rx : N -> bytes -> option (list (Z * Z)).
  Variable cfg : config.
  Variable fs : N -> bool.

  Theorem SLOT_radsrv st h c now rnd : unslotted st h -> SLOT st -> SLOT (fst (radsrv md5 rx cfg fs st h c now rnd)).
  Proof.
    intros U0 Sl0. unfold radsrv. destruct (get_rq st h) as [r0|] eqn:H0; [|exact Sl0]. cbv zeta.
    set (stB := set_rq st h (rq_set_buf r0 None)).
    assert (QB : Q st stB) by (apply Q_of_R4; eapply R4_set_rq; [exact H0 | reflexivity | reflexivity]).
    assert (GB : get_rq stB h = Some (rq_set_buf r0 None)) by (eapply get_rq_set_rq; exact H0).
    assert (Fin : forall stX, Q st stX -> SLOT stX) by (intros stX QX; eapply SLOT_R4; [exact Sl0 | exact (QX Sl0)]).
    assert (Ex : forall stX (o : list out), Q st stX -> SLOT (fst (freerq stX h, o ++ [ORet 1])))
      by (intros stX o QX; cbn [fst]; apply Fin; eapply Q_trans; [exact QX | apply Q_of_R4; apply R4_freerq]).
    assert (Rm : forall stX (o : list out) id, Q st stX -> SLOT (fst (freerq (rmclientrq stX h id) h, o ++ [ORet 1]))).
    { intros stX o id QX. cbn [fst]. apply Fin. eapply Q_trans; [exact QX|]. apply Q_of_R4. eapply R4_trans; [apply R4_rmclientrq | apply R4_freerq]. }
    assert (Re : forall stX code extra ma, Q st stX ->
              SLOT (fst (let '(st1, o) := respond md5 cfg fs stX h code extra ma in (freerq st1 h, o ++ [ORet 1])))).
    { intros stX code extra ma QX. pose proof (R4_respond md5 cfg fs stX h code extra ma) as K.
      destruct (respond md5 cfg fs stX h code extra ma) as [st1 o]. cbn [fst] in *. apply Fin.
      eapply Q_trans; [exact QX|]. apply Q_of_R4. eapply R4_trans; [exact K | apply R4_freerq]. }
    match goal with |- context [match ?x with Some msg => _ | None => (freerq _ h, [ORet 0]) end] => destruct x as [msg|] end;
      [|cbn [fst]; apply Fin; eapply Q_trans; [exact QB | apply Q_of_R4; apply R4_freerq]].
    destruct (m_mainvalid msg); [cbn [fst]; apply Fin; eapply Q_trans; [exact QB | apply Q_of_R4; apply R4_freerq]|].
    match goal with |- context [set_rq stB h ?r1] => set (R1 := r1) end.
    set (stA := set_rq stB h R1).
    assert (QA : Q st stA) by (eapply Q_trans; [exact QB|]; apply Q_of_R4; eapply R4_set_rq; [exact GB | reflexivity | reflexivity]).
    assert (UpQ : forall stX f, (forall r, rq_to (f r) = rq_to r /\ rq_newid (f r) = rq_newid r) -> Q st stX -> Q st (upd_rq stX h f))
      by (intros stX f Hf QX; eapply Q_trans; [exact QX | apply Q_of_R4; apply R4_upd_rq; exact Hf]).
    destruct ((m_code msg =? Consts.RAD_Disconnect_Request) || (m_code msg =? Consts.RAD_CoA_Request)); [apply Re; exact QA|].
    destruct (negb _); [apply Ex; exact QA|].
    destruct (addclientrq md5 cfg fs _ h c now) as [[isnew st1] o0] eqn:A.
    assert (Q1 : Q st st1).
    { eapply Q_trans; [exact QA|]. eapply Q_trans; [apply Q_purgedupcache | eapply Q_addclientrq; exact A]. }
    destruct (negb isnew); [apply Ex; exact Q1|].
    destruct (m_code msg =? Consts.RAD_Status_Server); [apply Re; exact Q1|].
    match goal with |- context [if ?g then (freerq st1 h, [] ++ [ORet 1]) else _] => destruct g end; [apply Ex; exact Q1|].
    destruct (o_verifyeap (cf_opt cfg) && (m_code msg =? Consts.RAD_Access_Request) && negb (verifyeapformat (m_attrs msg))); [apply Re; exact Q1|].
    match goal with |- context [match ?x with Some a1 => _ | None => (freerq _ h, [] ++ [ORet 1]) end] => destruct x as [a1|] end;
      [|apply Rm; exact Q1].
    destruct (checkttl (o_ttl0 (cf_opt cfg)) (o_ttl1 (cf_opt cfg)) a1) as [ttlres a2].
    match goal with |- context [if ttlres =? 0 then (freerq ?stx h, _) else _] => set (st2 := stx) end.
    assert (Q2 : Q st st2) by (subst st2; apply UpQ; [intro r; split; reflexivity|]; apply UpQ; [intro r; split; reflexivity | exact Q1]).
    destruct (ttlres =? 0); [apply Ex; exact Q2|].
    destruct (gettype Consts.RAD_Attr_User_Name a2) as [ua|].
    2:{ destruct (m_code msg =? Consts.RAD_Accounting_Request); [apply Re | apply Ex]; exact Q2. }
    match goal with |- context [match ?x with Some p => _ | None => (freerq _ h, [] ++ [ORet 1]) end] => destruct x as [[uname orig]|] end;
      [|apply Rm; exact Q2].
    match goal with |- context [if (nlen uname =? 0) || fs 6 then (freerq (rmclientrq ?stx h _) h, _) else _] => set (st3 := stx) end.
    assert (Q3 : Q st st3) by (subst st3; apply UpQ; [intro r; split; reflexivity | exact Q2]).
    destruct ((nlen uname =? 0) || fs 6); [apply Rm; exact Q3|].
    match goal with |- context [match ?x with Some rl => _ | None => (freerq st3 h, [] ++ [ORet 1]) end] => destruct x as [rl|] end;
      [|apply Ex; exact Q3].
    match goal with |- context [choose ?stc ?l] => destruct (choose stc l) as [to stc'] eqn:Ch end.
    assert (Q4 : Q st stc') by (eapply Q_trans; [exact Q3 | apply Q_of_R4; eapply R4_choose; exact Ch]).
    destruct to as [s'|].
    2:{ destruct (rl_msg rl) as [txt|].
        - destruct (m_code msg =? Consts.RAD_Access_Request); [apply Re; exact Q4|].
          destruct (rl_accresp rl && (m_code msg =? Consts.RAD_Accounting_Request)); [apply Re | apply Ex]; exact Q4.
        - destruct (rl_accresp rl && (m_code msg =? Consts.RAD_Accounting_Request)); [apply Re | apply Ex]; exact Q4. }
    match goal with |- context [if ?g then (freerq stc' h, [] ++ [ORet 1]) else _] => destruct g end; [apply Ex; exact Q4|].
    match goal with |- context [match ?x with Some a4 => _ | None => (freerq _ h, [] ++ [ORet 1]) end] => destruct x as [a4|] end;
      [|apply Rm; exact Q4].
    match goal with |- context [match ?x with Some a5 => _ | None => (freerq _ h, [] ++ [ORet 1]) end] => destruct x as [a5|] end;
      [|apply Rm; apply UpQ; [intro r; split; reflexivity | exact Q4]].
    match goal with |- context [match ?x with Some a6 => _ | None => (freerq _ h, [] ++ [ORet 1]) end] => destruct x as [a6|] end;
      [|apply Rm; apply UpQ; [intro r; split; reflexivity | exact Q4]].
    match goal with |- context [if ?g then (freerq _ h, [] ++ [ORet 1]) else _] => destruct g end;
      [apply Rm; apply UpQ; [intro r; split; reflexivity | exact Q4]|].
    (* the request is handed to a server: it was in no table until now *)
    assert (S4 : SLOT stc') by exact (Fin _ Q4).
    assert (U4 : unslotted stc' h) by (eapply unslotted_R4; [exact (Q4 Sl0) | exact U0]).
    match goal with |- context [sendrq md5 cfg fs ?stf h] =>
      pose proof (SLOT_sendrq md5 cfg fs stf h ltac:(apply unslotted_upd_rq; exact U4) ltac:(apply SLOT_upd_rq_unslotted; assumption)) as K;
      destruct (sendrq md5 cfg fs stf h) as [stZ oZ] end.
    cbn [fst] in *. exact K.
  Qed.

  Theorem Q_replyh st s buf now rnd : Q st (fst (replyh md5 rx cfg fs st s buf now rnd)).
  Proof.
    unfold replyh. cbv zeta.
    set (stL := set_server st s (set_lost (get_server st s) 0)).
    assert (QL : Q st stL) by (apply Q_of_R4; apply R4_set_server_same; reflexivity).
    assert (Same : forall stX sv', s_slots sv' = s_slots (get_server stX s) -> Q stX (set_server stX s sv'))
      by (intros; apply Q_of_R4; apply R4_set_server_same; assumption).
    destruct (sl_rq (get_slot (get_server stL s) (nth 1 buf 0))) as [h|] eqn:Sl.
    2:{ match goal with |- context [match ?x with Some msg => _ | None => (stL, [ORet 0]) end] => destruct x as [msg|] end; [|exact QL].
        destruct (negb (reply_codes (m_code msg))); exact QL. }
    destruct (get_rq stL h) as [r|] eqn:G.
    2:{ match goal with |- context [match ?x with Some msg => _ | None => (stL, [ORet 0]) end] => destruct x as [msg|] end; [|exact QL].
        destruct (negb (reply_codes (m_code msg))); exact QL. }
    match goal with |- context [match ?x with Some msg => _ | None => (stL, [ORet 0]) end] => destruct x as [msg|] end; [|exact QL].
    destruct (negb (reply_codes (m_code msg))); [exact QL|].
    destruct (sl_tries _ =? 0); [exact QL|].
    destruct (m_mainvalid msg); [exact QL|].
    match goal with |- context [if ?g then (stL, [ORet 1]) else _] => destruct g end; [exact QL|].
    match goal with |- context [if ?g =? Consts.RAD_Status_Server then _ else _] => destruct (g =? Consts.RAD_Status_Server) end.
    { cbn [fst].
      match goal with |- context [freerqoutdata ?stx s ?i] => set (stM := stx); set (stF := freerqoutdata stM s i) end.
      assert (QM : Q st stM) by (subst stM; eapply Q_trans; [exact QL | apply Same; reflexivity]).
      assert (QF : Q st stF) by (subst stF; eapply Q_trans; [exact QM | apply Q_freerqoutdata]).
      destruct (s_statsrv (get_server stF s) =? Consts.RSP_STATSRV_AUTO); [eapply Q_trans; [exact QF | apply Same; reflexivity] | exact QF]. }
    match goal with |- context [match ?x with Some a1 => _ | None => (?stx, [ORet 1]) end] => set (stT := stx) end.
    assert (QT : Q st stT).
    { subst stT. match goal with |- Q st (set_server ?stx s _) => assert (QX : Q st stx) by (eapply Q_trans; [exact QL | apply Same; reflexivity]) end.
      eapply Q_trans; [exact QX | apply Same; reflexivity]. }
    match goal with |- context [match ?x with Some a1 => _ | None => (stT, [ORet 1]) end] => destruct x as [a1|] end; [|exact QT].
    assert (GT : get_rq stT h = Some r) by exact G.
    destruct (checkttl (o_ttl0 (cf_opt cfg)) (o_ttl1 (cf_opt cfg)) a1) as [ttlres a2].
    destruct (ttlres =? 0); [exact QT|].
    destruct (rq_from r) as [c|]; [|exact QT].
    match goal with |- context [match ?x with Some a3 => _ | None => (stT, [ORet 1]) end] => destruct x as [a3|] end; [|exact QT].
    match goal with |- context [match ?x with Some a4 => _ | None => (stT, [ORet 1]) end] => destruct x as [a4|] end; [|exact QT].
    match goal with |- context [match ?x with Some a5 => _ | None => (stT, [ORet 1]) end] => destruct x as [a5|] end; [|exact QT].
    match goal with |- context [match ?x with Some a6 => _ | None => (stT, [ORet 1]) end] => destruct x as [a6|] end; [|exact QT].
    match goal with |- context [if ?g then (stT, [ORet 1]) else _] => destruct g end; [exact QT|].
    match goal with |- context [set_rq stT h ?r1] => set (R1 := r1) end.
    pose proof (R4_sendreply md5 cfg fs (newrqref (set_rq stT h R1) h) h) as K.
    destruct (sendreply md5 cfg fs (newrqref (set_rq stT h R1) h) h) as [st2 o2]. cbn [fst] in *.
    eapply Q_trans; [exact QT|]. eapply Q_trans; [|apply Q_freerqoutdata]. apply Q_of_R4.
    apply (R4_trans _ (set_rq stT h R1)); [apply (R4_set_rq stT h r R1 GT); reflexivity|].
    apply (R4_trans _ (newrqref (set_rq stT h R1) h)); [apply R4_newrqref | exact K].
  Qed.
End R.

(* a slot is a holder *)
Lemma slot_refs st s i h : slot_of st s i = Some h -> 1 <= refs st h.
Proof.
  intro E. unfold slot_of in E.
  assert (Ls : (s < length (st_servers st))%nat).
  { destruct (Nat.lt_ge_cases s (length (st_servers st))) as [L|L]; [exact L|].
    rewrite (get_server_out st s L) in E. unfold get_slot in E. cbn [s_slots dummy_server] in E. destruct (N.to_nat i); discriminate E. }
  rewrite refs_eq. pose proof (sumN_ge (sf h) dummy_server (st_servers st) s Ls) as K. fold (get_server st s) in K.
  assert (1 <= sf h (get_server st s)); [|lia].
  unfold sf. apply (occ_opt_pos h _ (N.to_nat i)). unfold get_slot in E.
  change None with (sl_rq empty_slot). rewrite map_nth. exact E.
Qed.

Lemma unslotted_fresh st e h : safe st (add1 e h) -> (forall r, get_rq st h = Some r -> rq_refcount r = 1) -> unslotted st h.
Proof.
  intros S H1 s i E. pose proof (slot_refs _ _ _ _ E) as K. specialize (S h). unfold add1 in S. rewrite ind_same in S.
  unfold rcount in S. destruct (get_rq st h) as [r|]; [rewrite (H1 r eq_refl) in S|]; lia.
Qed.

Lemma SLOT_alloc_rq st r : safe st zero -> SLOT st -> SLOT (fst (alloc_rq st r)).
Proof.
  intros S Sl s i x rx0 E Gx. unfold alloc_rq in *. cbn [fst] in *. change (slot_of st s i = Some x) in E.
  unfold get_rq in Gx. cbn [st_heap] in Gx.
  destruct (Nat.lt_ge_cases x (length (st_heap st))) as [L|L].
  - rewrite (nth_error_app1 _ _ L) in Gx. exact (Sl _ _ _ _ E Gx).
  - exfalso. pose proof (slot_refs _ _ _ _ E) as K. specialize (S x). unfold zero, rcount, get_rq in S.
    rewrite (proj2 (nth_error_None _ _) L) in S. lia.
Qed.

Section W.
  Variable md5 : bytes -> bytes.
  Variable cfg : config.
  Variable fs : N -> bool.

  Lemma Q_slots_pass s tick do_resend putfail : forall fuel st i now, Q st (fst (slots_pass cfg fuel st s i now tick do_resend putfail)).
  Proof.
    induction fuel as [|f IH]; intros st i now; [apply Q_refl|]. cbn [slots_pass]. cbv zeta.
    assert (Nx : forall stX nowX (o : list out), Q st stX ->
              Q st (fst (let '(st', o') := slots_pass cfg f stX s (S i) nowX tick do_resend putfail in (st', o ++ o')))).
    { intros stX nowX o Kx. pose proof (IH stX (S i) nowX) as K. destruct (slots_pass cfg f stX s (S i) nowX tick do_resend putfail).
      cbn [fst] in *. eapply Q_trans; eassumption. }
    destruct (sl_rq (get_slot (get_server st s) (N.of_nat i))) as [h|] eqn:Sl; [|apply Nx; apply Q_refl].
    destruct (get_rq st h) as [r|]; [|apply Nx; apply Q_refl].
    destruct (slot_action _ _ _ _ _ _ _) as [[act tries] expiry].
    set (sv := get_server st s) in *.
    (* a slot rewritten with the same occupant *)
    assert (Keep : forall svw t x, s_slots svw = s_slots sv ->
              forall j y, sl_rq (get_slot (set_slot svw (N.of_nat i) (mkSlot (Some h) t x)) j) = Some y -> slot_of st s j = Some y).
    { intros svw t x Hs j y Ey. unfold slot_of. fold sv.
      destruct (get_slot_set_slot_cases svw (N.of_nat i) (mkSlot (Some h) t x) j) as [K | [-> K]]; rewrite K in Ey.
      - unfold get_slot in *. rewrite Hs in Ey. exact Ey.
      - cbn [sl_rq] in Ey. injection Ey as <-. exact Sl. }
    match goal with |- context [set_slot ?svw (N.of_nat i) (mkSlot (Some h) ?t1 (sl_expiry (get_slot sv (N.of_nat i))))] =>
      set (SV1 := set_slot svw (N.of_nat i) (mkSlot (Some h) t1 (sl_expiry (get_slot sv (N.of_nat i))))) end.
    assert (K1 : forall j y, sl_rq (get_slot SV1 j) = Some y -> slot_of st s j = Some y) by (subst SV1; apply Keep; reflexivity).
    destruct act; apply Nx.
    - apply Q_of_R4. apply R4_set_server_same. reflexivity.
    - eapply Q_trans; [apply Q_of_R4; apply R4_set_server; exact K1 | apply Q_freerqoutdata].
    - eapply Q_trans; [|apply Q_freerqoutdata]. rewrite set_server_set_server. apply Q_of_R4. apply R4_set_server.
      intros j y Ey. apply K1. unfold get_slot in *. rewrite slots_abandon in Ey. exact Ey.
    - rewrite set_server_set_server. apply Q_of_R4. apply R4_set_server. intros j y Ey.
      assert (E2 : forall sv2, s_slots (if putfail then incrementlostrqs sv2 else sv2) = s_slots sv2) by (intro sv2; destruct putfail; [apply slots_incr | reflexivity]).
      unfold get_slot in Ey. rewrite E2 in Ey. fold (get_slot (set_slot (set_wr SV1 (s_laststatsrv SV1) (min_timeout (s_timeout SV1) expiry) (s_newrq SV1) (s_conreset SV1) (s_statsrv_requested SV1)) (N.of_nat i) (mkSlot (Some h) tries expiry)) j) in Ey.
      destruct (get_slot_set_slot_cases (set_wr SV1 (s_laststatsrv SV1) (min_timeout (s_timeout SV1) expiry) (s_newrq SV1) (s_conreset SV1) (s_statsrv_requested SV1)) (N.of_nat i) (mkSlot (Some h) tries expiry) j) as [K | [-> K]]; rewrite K in Ey.
      + apply K1. exact Ey.
      + cbn [sl_rq] in Ey. injection Ey as <-. exact Sl.
  Qed.

  Lemma SLOT_writer_iteration st s now tick rnd putfail : safe st zero -> SLOT st ->
    SLOT (fst (fst (writer_iteration md5 cfg fs st s now tick rnd putfail))).
  Proof.
    intros S Sl. unfold writer_iteration. cbv zeta.
    match goal with |- context [slots_pass cfg 256 ?stw s 0 now tick ?dr putfail] =>
      assert (Sw : SLOT stw) by (eapply SLOT_R4; [exact Sl | apply R4_set_server_same; destruct (s_conreset (get_server st s)); reflexivity]);
      pose proof (Q_slots_pass s tick dr putfail 256 stw 0%nat now Sw) as K;
      pose proof (safe_slots_pass cfg s tick dr putfail zero 256 stw 0%nat now
                    ltac:(apply safe_set_server_sle; [apply sle_same; destruct (s_conreset (get_server st s)); reflexivity | exact S])) as KS;
      destruct (slots_pass cfg 256 stw s 0 now tick dr putfail) as [st1 o1] end.
    cbn [fst] in K, KS. assert (S1 : SLOT st1) by (eapply SLOT_R4; eassumption).
    match goal with |- context [if ?g then _ else (st1, o1, rnd)] => destruct g end; [|exact S1].
    assert (K2 : forall x, SLOT (set_server st1 s (set_wr (get_server st1 s) x (s_timeout (get_server st1 s)) (s_newrq (get_server st1 s)) (s_conreset (get_server st1 s)) false)))
      by (intro x; eapply SLOT_R4; [exact S1 | apply R4_set_server_same; reflexivity]).
    destruct (fs 40); [apply K2|]. destruct (fs 41); [apply K2|].
    match goal with |- context [createstatsrvrq ?stc s ?nw rnd] =>
      assert (Sc : safe stc zero) by (apply safe_set_server_sle; [apply sle_same; reflexivity | exact KS]);
      pose proof (SLOT_alloc_rq stc (mkRq nw 1 None None (Some (mkMsg Consts.RAD_Status_Server 0 (fst (take_rand rnd 16)) [msgauth_placeholder] false)) None (Some s) None 0 (zeros 16) 0) Sc (K2 _)) as KA;
      pose proof (safe_alloc_rq stc (mkRq nw 1 None None (Some (mkMsg Consts.RAD_Status_Server 0 (fst (take_rand rnd 16)) [msgauth_placeholder] false)) None (Some s) None 0 (zeros 16) 0) zero eq_refl Sc) as KF;
      pose proof (get_rq_alloc stc (mkRq nw 1 None None (Some (mkMsg Consts.RAD_Status_Server 0 (fst (take_rand rnd 16)) [msgauth_placeholder] false)) None (Some s) None 0 (zeros 16) 0)) as KG;
      unfold createstatsrvrq; destruct (alloc_rq stc _) as [st2 hn] end.
    cbn [fst snd] in *.
    assert (U2 : unslotted st2 hn) by (apply (unslotted_fresh st2 zero hn KF); intros r G; rewrite KG in G; injection G as <-; reflexivity).
    pose proof (SLOT_sendrq md5 cfg fs st2 hn U2 KA) as KQ.
    destruct (sendrq md5 cfg fs st2 hn) as [st3 o2]. exact KQ.
  Qed.

  Lemma SLOT_writer_release s tick putfail : forall fuel st now rnd, safe st zero -> SLOT st ->
    SLOT (fst (writer_release md5 cfg fs fuel st s now tick rnd putfail)).
  Proof.
    induction fuel as [|f IH]; intros st now rnd S Sl; [exact Sl|]. cbn [writer_release].
    pose proof (SLOT_writer_iteration st s now tick rnd putfail S Sl) as K.
    pose proof (safe_writer_iteration md5 cfg fs st s now tick rnd putfail zero S) as KS.
    destruct (writer_iteration md5 cfg fs st s now tick rnd putfail) as [[st1 o1] rnd']. cbn [fst] in K, KS.
    destruct (s_newrq (get_server st1 s)).
    - pose proof (IH st1 (now + tick * count_tx o1)%Z rnd' KS K) as K2.
      destruct (writer_release md5 cfg fs f st1 s _ tick rnd' putfail). exact K2.
    - unfold prewait. cbv zeta. cbn [fst]. eapply SLOT_R4; [exact K | apply R4_set_server_same; reflexivity].
  Qed.
End W.

Lemma R4_fold_freerq : forall q st, R4 st (fold_left freerq q st).
Proof. induction q as [|x q IH]; intro st; [apply R4_refl|]. cbn [fold_left]. eapply R4_trans; [apply R4_freerq | apply IH]. Qed.

Lemma R4_drain_replyq st c : R4 st (drain_replyq st c).
Proof. unfold drain_replyq. cbv zeta. eapply R4_trans; [apply R4_set_client | apply R4_fold_freerq]. Qed.

Lemma Q_removeclient st c : Q st (removeclient st c).
Proof.
  unfold removeclient. eapply Q_trans; [|apply Q_of_R4; apply R4_drain_replyq].
  generalize (seq 0 256). intro l. revert st. induction l as [|i l IH]; intro st; [apply Q_refl|].
  cbn [fold_left]. eapply Q_trans; [apply Q_removeclientrq | apply IH].
Qed.

Lemma Q_freeserver st s : Q st (freeserver st s).
Proof.
  unfold freeserver. generalize (seq 0 256). intro l. revert st. induction l as [|i l IH]; intro st; [apply Q_refl|].
  cbn [fold_left]. eapply Q_trans; [apply Q_freerqoutdata | apply IH].
Qed.

(* ---- every history ---- *)
Section Hist.
  Variable md5 : bytes -> bytes.
  Variable rx : N -> bytes -> option (list (Z * Z)).
  Variable cfg : config.

  Theorem SLOT_hstep st op : safe st zero -> SLOT st -> SLOT (hstep md5 rx cfg st op).
  Proof.
    intros S Sl. destruct op as [c now rnd pkt fs | s buf now rnd fs | s now tick rnd putfail fs | c | c | s]; cbn [hstep].
    - pose proof (safe_alloc_rq st (new_request c now pkt) zero eq_refl S) as S1.
      pose proof (SLOT_alloc_rq st (new_request c now pkt) S Sl) as L1.
      pose proof (get_rq_alloc st (new_request c now pkt)) as G1.
      destruct (alloc_rq st (new_request c now pkt)) as [st1 h]. cbn [fst snd] in *.
      apply SLOT_radsrv; [|exact L1]. apply (unslotted_fresh st1 zero h S1). intros r G. rewrite G1 in G. injection G as <-. reflexivity.
    - eapply SLOT_R4; [exact Sl | apply Q_replyh; exact Sl].
    - apply SLOT_writer_release; assumption.
    - eapply SLOT_R4; [exact Sl | apply R4_drain_replyq].
    - eapply SLOT_R4; [exact Sl | apply Q_removeclient; exact Sl].
    - eapply SLOT_R4; [exact Sl | apply Q_freeserver; exact Sl].
  Qed.

  Theorem SLOT_history : forall ops st, safe st zero -> SLOT st -> SLOT (fold_left (hstep md5 rx cfg) ops st).
  Proof.
    induction ops as [|op ops IH]; intros st S Sl; [exact Sl|]. cbn [fold_left].
    apply IH; [apply safe_hstep; exact S | apply SLOT_hstep; assumption].
  Qed.
End Hist.

Lemma SLOT_init nc ns : SLOT (init_state nc ns).
Proof. intros s i h r E G. unfold get_rq, init_state in G. cbn [st_heap] in G. destruct h; discriminate G. Qed.

(* an outstanding request occupies one identifier of one server *)
Theorem one_slot_per_request st : SLOT st -> forall s i s' i' h r, get_rq st h = Some r ->
  slot_of st s i = Some h -> slot_of st s' i' = Some h -> s = s' /\ i = i'.
Proof.
  intros Sl s i s' i' h r G E1 E2. destruct (Sl _ _ _ _ E1 G) as [T1 I1]. destruct (Sl _ _ _ _ E2 G) as [T2 I2].
  split; congruence.
Qed.

(* ---- a client goes: nothing of it stays in its tables ---- *)
Lemma entry_removeclientrq_other st c i j : j <> N.to_nat i -> entry (removeclientrq st c i) c j = entry st c j \/ entry (removeclientrq st c i) c j = None.
Proof.
  intro Hn. unfold removeclientrq. cbv zeta.
  destruct (nth (N.to_nat i) (c_rqs (get_client st c)) None) as [h|] eqn:En; [|left; reflexivity].
  destruct (get_rq st h) as [r|] eqn:G; [|left; reflexivity].
  set (st1 := match rq_to r with Some s => _ | None => st end).
  assert (C1 : get_client st1 c = get_client st c).
  { subst st1. destruct (rq_to r) as [s|]; [|reflexivity]. destruct (sl_rq _) as [h2|]; [|reflexivity].
    destruct (Nat.eqb h2 h); [apply get_client_freerqoutdata | reflexivity]. }
  unfold entry. rewrite get_client_freerq.
  destruct (Nat.lt_ge_cases c (length (st_clients st1))) as [L|L].
  - rewrite get_client_set_client by exact L. rewrite Nat.eqb_refl. cbn [c_rqs]. rewrite C1.
    left. apply nth_upd_other. congruence.
  - rewrite set_client_out by exact L. rewrite C1. left. reflexivity.
Qed.

Lemma entry_removeclientrq_same st c i : safe st zero -> entry (removeclientrq st c i) c (N.to_nat i) = None.
Proof.
  intro S. destruct (entry st c (N.to_nat i)) as [h|] eqn:En.
  - destruct (safe_no_dangling st S h ltac:(pose proof (entry_refs _ _ _ _ En); lia)) as (r & G & _).
    exact (removeclientrq_entry_cleared st c i h r En G).
  - unfold removeclientrq. cbv zeta. unfold entry in En. rewrite En. exact En.
Qed.

Lemma fold_removeclientrq_clears c : forall n st0 k, safe st0 zero -> (forall j, (j < k)%nat -> entry st0 c j = None) ->
  safe (fold_left (fun st i => removeclientrq st c (N.of_nat i)) (seq k n) st0) zero /\
  forall j, (j < k + n)%nat -> entry (fold_left (fun st i => removeclientrq st c (N.of_nat i)) (seq k n) st0) c j = None.
Proof.
  induction n as [|n IH]; intros st0 k S0 Hk.
  - cbn [seq fold_left]. split; [exact S0|]. intros j Hj. apply Hk. lia.
  - cbn [seq fold_left].
    assert (S1 : safe (removeclientrq st0 c (N.of_nat k)) zero) by (apply safe_removeclientrq; exact S0).
    assert (H1 : forall j, (j < Datatypes.S k)%nat -> entry (removeclientrq st0 c (N.of_nat k)) c j = None).
    { intros j Hj. destruct (Nat.eq_dec j k) as [->|Hn].
      - pose proof (entry_removeclientrq_same st0 c (N.of_nat k) S0) as E. rewrite Nat2N.id in E. exact E.
      - destruct (entry_removeclientrq_other st0 c (N.of_nat k) j ltac:(rewrite Nat2N.id; exact Hn)) as [E | E]; [rewrite E; apply Hk; lia | exact E]. }
    destruct (IH _ (Datatypes.S k) S1 H1) as [Sa Ha]. split; [exact Sa|].
    intros j Hj. apply Ha. lia.
Qed.

Theorem removeclient_empties st c : safe st zero ->
  (forall j, (j < 256)%nat -> entry (removeclient st c) c j = None) /\ c_replyq (get_client (removeclient st c) c) = [].
Proof.
  intros Hs. unfold removeclient. generalize 256%nat. intro n.
  set (stF := fold_left (fun st i => removeclientrq st c (N.of_nat i)) (seq 0 n) st).
  assert (F : safe stF zero /\ forall j, (j < n)%nat -> entry stF c j = None).
  { pose proof (fold_removeclientrq_clears c n st 0%nat Hs (fun j (Hj : (j < 0)%nat) => match Nat.nlt_0_r j Hj with end)) as [Sa Ha].
    split; [exact Sa|]. intros j Hj. exact (Ha j Hj). }
  destruct F as [SF EF]. clearbody stF.
  unfold drain_replyq. cbv zeta.
  set (stc := set_client stF c (mkClient (c_rqs (get_client stF c)) [])).
  assert (Cl : forall q stx, get_client (fold_left freerq q stx) c = get_client stx c).
  { induction q as [|x q IH]; intro stx; [reflexivity|]. cbn [fold_left]. rewrite IH. apply get_client_freerq. }
  split.
  - intros j Hj. unfold entry. rewrite Cl. subst stc.
    destruct (Nat.lt_ge_cases c (length (st_clients stF))) as [L|L].
    + rewrite get_client_set_client by exact L. rewrite Nat.eqb_refl. exact (EF j Hj).
    + rewrite set_client_out by exact L. exact (EF j Hj).
  - rewrite Cl. subst stc.
    destruct (Nat.lt_ge_cases c (length (st_clients stF))) as [L|L].
    + rewrite get_client_set_client by exact L. rewrite Nat.eqb_refl. reflexivity.
    + rewrite set_client_out by exact L. rewrite (get_client_out stF c L). reflexivity.
Qed.
