From RSP Require Import Base Consts Frame Spec_C16 BaseLemmas.
From Coq Require Import ZifyBool ZifyNat ZifyN.
Local Open Scope N_scope.
Ltac Zify.zify_post_hook ::= Z.div_mod_to_equations.

Lemma firstn_split {A} (l : list A) n w : (n <= w)%nat -> firstn n l ++ firstn (w - n) (skipn n l) = firstn w l.
Proof.
  revert l w. induction n as [|n IH]; intros l w H.
  - simpl. rewrite Nat.sub_0_r. reflexivity.
  - destruct l as [|x l]; [rewrite !firstn_nil; reflexivity|].
    destruct w as [|w]; [lia|]. cbn [firstn skipn app]. rewrite <- (IH l w) by lia. reflexivity.
Qed.

Lemma skipn_skipn' {A} (l : list A) n m : skipn m (skipn n l) = skipn (n + m) l.
Proof.
  revert l. induction n as [|n IH]; intro l; [reflexivity|].
  destruct l as [|x l]; [rewrite !skipn_nil; reflexivity|]. cbn [skipn Nat.add]. apply IH.
Qed.

(* ------------------------------------------------------------------ read_n *)
(* whatever the delivery schedule: a completed read returns exactly the next `want` bytes of the stream *)
Lemma read_n_got : forall sched want acc stream b st' s',
  read_n sched want acc stream = (Got b, st', s') ->
  b = acc ++ firstn want stream /\ st' = skipn want stream /\ (want <= length stream)%nat.
Proof.
  induction sched as [|e sched IH]; intros want acc stream b st' s' H.
  - destruct want; cbn [read_n] in H; [|discriminate]. injection H as <- <- <-.
    rewrite app_nil_r. repeat split; lia.
  - destruct want as [|w]; cbn [read_n] in H.
    + injection H as <- <- <-. rewrite app_nil_r. repeat split; lia.
    + destruct e as [k| | |].
      * destruct stream as [|x stream]; [discriminate|].
        set (st := x :: stream) in *.
        set (n := Nat.min (Nat.max k 1) (Nat.min (S w) (length st))) in *.
        assert (Hn : (1 <= n <= S w)%nat /\ (n <= length st)%nat) by (subst n st; cbn [length]; lia).
        destruct (IH _ _ _ _ _ _ H) as (Hb & Hs & Hl).
        rewrite skipn_length in Hl. repeat split.
        -- rewrite Hb, <- app_assoc. f_equal. apply firstn_split. lia.
        -- rewrite Hs, skipn_skipn'. f_equal. lia.
        -- lia.
      * destruct acc; discriminate.
      * apply (IH _ _ _ _ _ _ H).
      * discriminate.
Qed.

(* an idle timeout consumed nothing *)
Lemma read_n_timedout : forall sched want acc stream st' s',
  read_n sched want acc stream = (TimedOut, st', s') -> acc = [] /\ st' = stream.
Proof.
  induction sched as [|e sched IH]; intros want acc stream st' s' H.
  - destruct want; cbn [read_n] in H; discriminate.
  - destruct want as [|w]; cbn [read_n] in H; [discriminate|].
    destruct e as [k| | |].
    + destruct stream as [|x stream]; [discriminate|].
      destruct (IH _ _ _ _ _ H) as [Ha _]. exfalso.
      apply app_eq_nil in Ha as [_ Ha].
      assert (L : length (firstn (Nat.min (Nat.max k 1) (Nat.min (S w) (length (x :: stream)))) (x :: stream)) = 0%nat) by (rewrite Ha; reflexivity).
      rewrite firstn_length in L. cbn [length] in L. lia.
    + destruct acc; [injection H as <- _; split; reflexivity | discriminate].
    + apply (IH _ _ _ _ _ H).
    + discriminate.
Qed.

(* ------------------------------------------------------------------ one packet *)
Lemma checked_len_spec hdr len : checked_len hdr = Some len ->
  let l := be_value (firstn 2 (skipn 2 hdr)) in
  len = N.to_nat l /\ (l <? 20) || (4096 <? l) = false.
Proof.
  unfold checked_len, Consts.RAD_Min_Length, Consts.RAD_Max_Length.
  destruct ((be_value (firstn 2 (skipn 2 hdr)) <? 20) || (4096 <? be_value (firstn 2 (skipn 2 hdr)))) eqn:E; [discriminate|].
  intro H. injection H as <-. split; reflexivity.
Qed.

Lemma header_of_prefix (s : bytes) : (4 <= length s)%nat -> firstn 2 (skipn 2 (firstn 4 s)) = firstn 2 (skipn 2 s).
Proof.
  intro H. destruct s as [|a [|b [|c [|d s]]]]; simpl in H; try lia. reflexivity.
Qed.

Lemma radget_packet sched stream p st' s' : radget sched stream = (Packet p, st', s') ->
  (4 <= length stream)%nat /\
  let l := be_value (firstn 2 (skipn 2 stream)) in
  (l <? 20) || (4096 <? l) = false /\ (N.to_nat l <= length stream)%nat /\
  p = firstn (N.to_nat l) stream /\ st' = skipn (N.to_nat l) stream.
Proof.
  unfold radget. intro H.
  destruct (read_n sched 4 [] stream) as [[r st1] s1] eqn:R1.
  destruct r as [hdr| |]; [|discriminate|discriminate].
  destruct (read_n_got _ _ _ _ _ _ _ R1) as (Hh & Hs1 & Hl1). cbn [app] in Hh.
  destruct (checked_len hdr) as [len|] eqn:CL; [|discriminate].
  destruct (read_n s1 (len - 4) [] st1) as [[r2 st2] s2] eqn:R2.
  destruct r2 as [body| |]; [|discriminate|discriminate].
  injection H as <- <- <-.
  destruct (read_n_got _ _ _ _ _ _ _ R2) as (Hb & Hs2 & Hl2). cbn [app] in Hb.
  destruct (checked_len_spec _ _ CL) as [Hlen Hrange].
  rewrite Hh, header_of_prefix in Hlen, Hrange by exact Hl1.
  split; [exact Hl1|]. cbv zeta.
  set (l := be_value (firstn 2 (skipn 2 stream))) in *.
  assert (H20 : (20 <= len)%nat) by lia.
  rewrite Hs1, skipn_length in Hl2.
  split; [exact Hrange|]. split; [lia|]. split.
  - rewrite Hh, Hb, Hs1. rewrite <- Hlen. apply firstn_split. lia.
  - rewrite Hs2, Hs1, skipn_skipn'. f_equal. lia.
Qed.

Lemma radget_idle sched stream st' s' : radget sched stream = (Idle, st', s') -> st' = stream.
Proof.
  unfold radget. intro H.
  destruct (read_n sched 4 [] stream) as [[r st1] s1] eqn:R1.
  destruct r as [hdr| |].
  - destruct (checked_len hdr); [|discriminate].
    destruct (read_n s1 _ [] st1) as [[r2 st2] s2]. destruct r2; discriminate.
  - injection H as <- _. apply (read_n_timedout _ _ _ _ _ _ R1).
  - discriminate.
Qed.

(* ------------------------------------------------------------------ the reader: prefix of frames *)
Lemma is_prefix_of_nil l : is_prefix_of [] l = true.
Proof. reflexivity. Qed.

Theorem reader_prefix : forall fuel idle accept sched stream ffuel, (length stream <= ffuel)%nat ->
  is_prefix_of (reader fuel idle accept sched stream) (frames_f ffuel stream) = true.
Proof.
  induction fuel as [|fuel IH]; intros idle accept sched stream ffuel Hf; [reflexivity|].
  cbn [reader]. destruct (radget sched stream) as [[g st'] s'] eqn:G.
  destruct g as [p| |].
  - destruct (radget_packet _ _ _ _ _ G) as (H4 & Hr & Hl & Hp & Hs). cbv zeta in *.
    set (l := be_value (firstn 2 (skipn 2 stream))) in *.
    destruct ffuel as [|ffuel]; [lia|]. cbn [frames_f]. fold l.
    replace (length stream <? 4)%nat with false by lia. rewrite Hr.
    replace (length stream <? N.to_nat l)%nat with false by lia.
    rewrite <- Hp, <- Hs.
    assert (Hrest : (length st' <= ffuel)%nat) by (rewrite Hs, skipn_length; lia).
    destruct (accept p); cbn [is_prefix_of]; rewrite beq_bytes_refl; cbn [andb]; [apply IH; exact Hrest | reflexivity].
  - rewrite (radget_idle _ _ _ _ G). destruct idle; [apply IH; exact Hf | reflexivity].
  - reflexivity.
Qed.

(* ------------------------------------------------------------------ data-only schedules: independence *)
Definition is_data (e : ev) : bool := match e with R _ | W => true | _ => false end.
Fixpoint count_r (s : list ev) : nat := match s with [] => O | R _ :: r => S (count_r r) | _ :: r => count_r r end.

(* with a schedule that only delivers data and outlasts the stream, a read of `want` bytes succeeds
   exactly when the stream still has them *)
Lemma read_n_data : forall sched want acc stream, forallb is_data sched = true -> (length stream < count_r sched)%nat ->
  match read_n sched want acc stream with
  | (Got b, st', s') => forallb is_data s' = true /\ (length st' < count_r s')%nat
  | (TimedOut, _, _) => False
  | (Closed, _, _) => (length stream < want)%nat
  end.
Proof.
  induction sched as [|e sched IH]; intros want acc stream D C; [simpl in C; lia|].
  cbn [forallb] in D. apply andb_true_iff in D as [De D].
  destruct want as [|w]; cbn [read_n].
  - split; [cbn [forallb]; rewrite De, D; reflexivity | exact C].
  - destruct e as [k| | |]; try discriminate.
    + cbn [count_r] in C. destruct stream as [|x stream]; [cbn [length]; lia|].
      set (st := x :: stream) in *.
      set (n := Nat.min (Nat.max k 1) (Nat.min (S w) (length st))).
      assert (Hn : (1 <= n <= S w)%nat /\ (n <= length st)%nat) by (subst n st; cbn [length]; lia).
      assert (C' : (length (skipn n st) < count_r sched)%nat) by (rewrite skipn_length; lia).
      specialize (IH (S w - n)%nat (acc ++ firstn n st) (skipn n st) D C').
      destruct (read_n sched (S w - n) (acc ++ firstn n st) (skipn n st)) as [[r st'] s']. destruct r; try exact IH.
      rewrite skipn_length in IH. lia.
    + cbn [count_r] in C. apply IH; assumption.
Qed.

Lemma frames_f_S f s : frames_f (S f) s =
  if (length s <? 4)%nat then []
  else let l := be_value (firstn 2 (skipn 2 s)) in
       if (l <? 20) || (4096 <? l) then []
       else if (length s <? N.to_nat l)%nat then []
       else firstn (N.to_nat l) s :: frames_f f (skipn (N.to_nat l) s).
Proof. reflexivity. Qed.

(* more fuel than bytes changes nothing *)
Lemma frames_f_fuel : forall f1 f2 s, (length s <= f1)%nat -> (length s <= f2)%nat -> frames_f f1 s = frames_f f2 s.
Proof.
  induction f1 as [|f1 IHf]; intros f2 s0 H1 H2.
  - destruct s0; [|simpl in H1; lia]. destruct f2; reflexivity.
  - destruct f2 as [|f2].
    + destruct s0; [reflexivity | simpl in H2; lia].
    + rewrite !frames_f_S. destruct (length s0 <? 4)%nat eqn:L4; [reflexivity|]. cbv zeta.
      destruct ((be_value (firstn 2 (skipn 2 s0)) <? 20) || (4096 <? be_value (firstn 2 (skipn 2 s0)))) eqn:B; [reflexivity|].
      destruct (length s0 <? N.to_nat (be_value (firstn 2 (skipn 2 s0))))%nat eqn:L5; [reflexivity|].
      f_equal. apply IHf; rewrite skipn_length; lia.
Qed.

Theorem reader_indep : forall fuel idle sched stream,
  forallb is_data sched = true -> (length stream < count_r sched)%nat -> (length stream < fuel)%nat ->
  reader fuel idle (fun _ => true) sched stream = frames_f (length stream) stream.
Proof.
  induction fuel as [|fuel IH]; intros idle sched stream D C F; [lia|].
  rewrite (frames_f_fuel (length stream) (S (length stream)) stream) by lia. rewrite frames_f_S.
  cbn [reader]. unfold radget.
  pose proof (read_n_data sched 4 [] stream D C) as R1.
  destruct (read_n sched 4 [] stream) as [[r st1] s1] eqn:E1. destruct r as [hdr| |]; [|contradiction|].
  - destruct R1 as [D1 C1]. destruct (read_n_got _ _ _ _ _ _ _ E1) as (Hh & Hs1 & Hl1). cbn [app] in Hh.
    replace (length stream <? 4)%nat with false by lia. cbv zeta.
    unfold checked_len, Consts.RAD_Min_Length, Consts.RAD_Max_Length.
    rewrite Hh, header_of_prefix by exact Hl1.
    set (l := be_value (firstn 2 (skipn 2 stream))).
    destruct ((l <? 20) || (4096 <? l)) eqn:BAD; [reflexivity|].
    pose proof (read_n_data s1 (N.to_nat l - 4) [] st1 D1 C1) as R2.
    destruct (read_n s1 (N.to_nat l - 4) [] st1) as [[r2 st2] s2] eqn:E2. destruct r2 as [body| |]; [|contradiction|].
    + destruct R2 as [D2 C2]. destruct (read_n_got _ _ _ _ _ _ _ E2) as (Hb & Hs2 & Hl2). cbn [app] in Hb.
      rewrite Hs1, skipn_length in Hl2.
      replace (length stream <? N.to_nat l)%nat with false by lia.
      assert (Hp : firstn 4 stream ++ body = firstn (N.to_nat l) stream).
      { rewrite Hb, Hs1. apply firstn_split. lia. }
      assert (Hst : st2 = skipn (N.to_nat l) stream).
      { rewrite Hs2, Hs1, skipn_skipn'. f_equal. lia. }
      rewrite Hp. f_equal. rewrite Hst in *.
      assert (Lr : (length (skipn (N.to_nat l) stream) <= length stream)%nat) by (rewrite skipn_length; lia).
      assert (Lf : (length (skipn (N.to_nat l) stream) < fuel)%nat) by (rewrite skipn_length; lia).
      rewrite (IH idle s2 _ D2 C2 Lf).
      apply frames_f_fuel; lia.
    + (* the stream ends inside the packet *)
      rewrite Hs1, skipn_length in R2.
      replace (length stream <? N.to_nat l)%nat with true by lia. reflexivity.
  - (* fewer than 4 bytes left *)
    replace (length stream <? 4)%nat with true by lia. reflexivity.
Qed.
