From RSP Require Import Base Consts Route Spec_C08 BaseLemmas.
From Coq Require Import ZifyBool ZifyNat ZifyN.
Local Open Scope N_scope.


Lemma name_char_not_meta c : name_char c = true -> is_meta c = false /\ (c =? 36) = false /\ (c =? 92) = false.
Proof.
  unfold name_char, is_meta. intro H. cbn [existsb]. repeat split; lia.
Qed.

(* the expression built for a plain realm name compiles to: '@', the name's characters, end anchor *)
Lemma compile_esc name : name_ok name = true -> forall fuel, (length name < fuel)%nat ->
  compile_f fuel (esc_dots name ++ [36]) = Some (map ALit name ++ [AEnd]).
Proof.
  induction name as [|c name IH]; intros OK fuel F.
  - destruct fuel; [simpl in F; lia|]. reflexivity.
  - cbn [name_ok forallb] in OK. apply andb_true_iff in OK as [Hc OK].
    destruct (name_char_not_meta c Hc) as (M & D & B).
    cbn [length] in F. destruct fuel as [|fuel]; [lia|].
    cbn [esc_dots flat_map]. fold (esc_dots name).
    destruct (N.eqb_spec c 46) as [->|NE].
    + cbn [app compile_f]. cbn [N.eqb Pos.eqb andb].
      rewrite IH by (try assumption; lia). reflexivity.
    + cbn [app compile_f]. rewrite D, B. cbn [andb].
      replace (c =? 46) with false by lia. rewrite M.
      rewrite IH by (try assumption; lia). reflexivity.
Qed.

Lemma esc_dots_length name : (length (esc_dots name) <= 2 * length name)%nat.
Proof.
  induction name as [|c n IH]; [simpl; lia|]. cbn [esc_dots flat_map]. fold (esc_dots n).
  rewrite app_length. destruct (c =? 46); cbn [length]; lia.
Qed.

Lemma plain_kind name : name_ok name = true -> realm_kind_of name = RPlain.
Proof.
  intro OK. destruct name as [|c [|d r]]; try reflexivity.
  - cbn [name_ok forallb] in OK. apply andb_true_iff in OK as [Hc _]. unfold name_char in Hc.
    unfold realm_kind_of. destruct c as [|p]; [reflexivity|].
    repeat (destruct p as [p|p|]; try reflexivity); cbn in Hc; try discriminate; reflexivity.
  - cbn [name_ok forallb] in OK. apply andb_true_iff in OK as [Hc _]. unfold name_char in Hc.
    unfold realm_kind_of. destruct c as [|p]; [reflexivity|].
    repeat (destruct p as [p|p|]; try reflexivity); cbn in Hc; try discriminate; reflexivity.
Qed.

Lemma compile_f_lit f c r : (c =? 36) = false -> (c =? 92) = false -> (c =? 46) = false -> is_meta c = false ->
  compile_f (S f) (c :: r) = option_map (cons (ALit c)) (compile_f f r).
Proof. intros H1 H2 H3 H4. cbn [compile_f]. rewrite H1, H2, H3, H4. reflexivity. Qed.

Theorem compile_plain name : name_ok name = true ->
  compile (realm_regex name) = Some (ALit 64 :: map ALit name ++ [AEnd]).
Proof.
  intro OK. unfold realm_regex. rewrite (plain_kind name OK). unfold compile.
  set (re := esc_dots name ++ [36]).
  change (length (64 :: re)) with (S (length re)).
  rewrite compile_f_lit by reflexivity. subst re.
  rewrite compile_esc; [reflexivity | exact OK |].
  rewrite app_length. cbn [length].
  assert (length name <= length (esc_dots name))%nat.
  { clear. induction name as [|c n IH]; [simpl; lia|]. cbn [esc_dots flat_map]. fold (esc_dots n).
    rewrite app_length. destruct (c =? 46); cbn [length]; lia. }
  lia.
Qed.

(* anchored match of a literal string followed by the end anchor = case-insensitive equality *)
Lemma match_here_lits name s : match_here (map ALit name ++ [AEnd]) s = ieq s name.
Proof.
  revert s. induction name as [|c name IH]; intro s.
  - destruct s; reflexivity.
  - cbn [map app match_here]. destruct s as [|x s]; [reflexivity|]. cbn [ieq].
    rewrite IH. unfold ceq. rewrite (N.eqb_sym (lower c) (lower x)). reflexivity.
Qed.

Lemma ere_search_plain name user :
  ere_search (ALit 64 :: map ALit name ++ [AEnd]) user = ends_with_at_name user name.
Proof.
  induction user as [|x u IH].
  - cbn [ere_search match_here ends_with_at_name ieq]. reflexivity.
  - cbn [ere_search ends_with_at_name]. rewrite IH. f_equal.
    change (ALit 64 :: map ALit name ++ [AEnd]) with (map ALit (64 :: name) ++ [AEnd]).
    apply match_here_lits.
Qed.

(* C08_plain *)
Theorem realm_matches_plain name user : name_ok name = true ->
  realm_matches name user = Some (ends_with_at_name user name).
Proof.
  intro OK. unfold realm_matches. rewrite (compile_plain name OK). rewrite ere_search_plain. reflexivity.
Qed.

(* C08_star *)
Theorem realm_matches_star user : realm_matches [42] user = Some true.
Proof.
  unfold realm_matches. cbn. destruct user; reflexivity.
Qed.

(* ------------------------------------------------------------------ C20 *)
Lemma after_last_at_spec s : forall acc r, after_last_at s acc = Some r ->
  (exists pre, s = pre ++ 64 :: r /\ ~ In 64 r) \/ (acc = Some r /\ ~ In 64 s).
Proof.
  induction s as [|x s IH]; intros acc r H.
  - right. split; [exact H | intros []].
  - cbn [after_last_at] in H. destruct (N.eqb_spec x 64) as [->|NE].
    + destruct (IH _ _ H) as [(pre & -> & Hn) | (Ha & Hn)].
      * left. exists (64 :: pre). split; [reflexivity | exact Hn].
      * injection Ha as <-. left. exists []. split; [reflexivity | exact Hn].
    + destruct (IH _ _ H) as [(pre & -> & Hn) | (Ha & Hn)].
      * left. exists (x :: pre). split; [reflexivity | exact Hn].
      * right. split; [exact Ha|]. intros [E|I]; [congruence | contradiction].
Qed.

Theorem dynrealm_sanitised id r : dynrealm id = Some r ->
  r <> [] /\ forallb realm_char_ok r = true /\ exists pre, id = pre ++ 64 :: r /\ ~ In 64 r.
Proof.
  unfold dynrealm. intro H. destruct (existsb (N.eqb 0) id); [discriminate|].
  destruct (after_last_at id None) as [t|] eqn:A; [|discriminate].
  destruct t as [|c t]; [discriminate|].
  destruct (forallb realm_char_ok (c :: t)) eqn:F; [|discriminate]. injection H as <-.
  split; [discriminate|]. split; [exact F|].
  destruct (after_last_at_spec _ _ _ A) as [W | (C & _)]; [exact W | discriminate].
Qed.

(* and conversely: a lookup is started for every User-Name whose part after the last '@' is non-empty and clean *)
Theorem dynrealm_complete pre r : r <> [] -> forallb realm_char_ok r = true -> ~ In 64 r ->
  existsb (N.eqb 0) (pre ++ 64 :: r) = false ->
  dynrealm (pre ++ 64 :: r) = Some r.
Proof.
  intros NE F NI NZ. unfold dynrealm. rewrite NZ. clear NZ.
  assert (A : forall acc, after_last_at (pre ++ 64 :: r) acc = Some r).
  { induction pre as [|x pre IH]; intro acc.
    - cbn [app after_last_at N.eqb Pos.eqb].
      assert (G : forall s a, ~ In 64 s -> after_last_at s a = a).
      { induction s as [|y s IHs]; intros a Hn; [reflexivity|]. cbn [after_last_at].
        destruct (N.eqb_spec y 64) as [->|]; [exfalso; apply Hn; left; reflexivity|].
        apply IHs. intro I. apply Hn. right. exact I. }
      apply G. exact NI.
    - cbn [app after_last_at]. apply IH. }
  rewrite A. destruct r; [congruence|]. rewrite F. reflexivity.
Qed.
