(* C17, the other half of the reference accounting: nothing leaks.  `tight st e`: no object's counter exceeds the
   places that refer to it plus the references e held by the running code -- so an object nobody refers to has been
   released.  Unlike `safe` this needs the tables to have their configured shape (client and server indices in
   range, 256 cache entries and slots) -- a reference handed to a table that does not exist would be lost. *)
From RSP Require Import Base Consts Ttl Crypt Packet Rewrite Choose Proxy BaseLemmas Packet_proofs Slots_proofs Dup_proofs
  Keeps_proofs Wf_proofs Refs_proofs.
From Coq Require Import ZifyBool ZifyNat ZifyN.
Local Open Scope N_scope.

Definition tight (st : state) (e : nat -> N) : Prop := forall h, rcount st h <= refs st h + e h.

Definition sv_ok (sv : server) : Prop := length (s_slots sv) = 256%nat /\ s_nextid sv <= 256.

Definition shape (nc ns : nat) (st : state) : Prop :=
  length (st_clients st) = nc /\ length (st_servers st) = ns /\
  (forall c, (c < nc)%nat -> length (c_rqs (get_client st c)) = 256%nat) /\
  (forall s, (s < ns)%nat -> sv_ok (get_server st s)).

Definition rq_ok (nc ns : nat) (r : request) : Prop :=
  match rq_from r with Some c => (c < nc)%nat | None => True end /\
  match rq_to r with Some s => (s < ns)%nat | None => True end /\
  1 <= rq_refcount r.

Definition heap_ok (nc ns : nat) (st : state) : Prop := forall h r, get_rq st h = Some r -> rq_ok nc ns r.

Definition T (nc ns : nat) (st : state) (e : nat -> N) : Prop := tight st e /\ shape nc ns st /\ heap_ok nc ns st.

Lemma T_weaken nc ns st e e' : (forall h, e h <= e' h) -> T nc ns st e -> T nc ns st e'.
Proof. intros H (Ti & Sh & Hp). split; [|split; assumption]. intro h. specialize (H h). specialize (Ti h). lia. Qed.

Lemma T_add nc ns st e h0 : T nc ns st e -> T nc ns st (add1 e h0).
Proof. apply T_weaken. intro h. unfold add1. lia. Qed.

(* ---- the heap ---- *)
Lemma get_rq_set_rq_inv st h0 r' h r : get_rq (set_rq st h0 r') h = Some r -> (h = h0 /\ r = r') \/ get_rq st h = Some r.
Proof.
  intro H. destruct (get_rq_set_rq_cases st h0 r' h) as [E | [-> E]]; rewrite E in H; [right; exact H | left; split; [reflexivity | congruence]].
Qed.

Lemma get_rq_del_rq_inv st h0 h r : get_rq (del_rq st h0) h = Some r -> get_rq st h = Some r.
Proof.
  unfold get_rq, del_rq, upd. cbn [st_heap]. intro H.
  destruct (nth_error_set_nth_cases (st_heap st) h0 None h) as [E | [_ E]]; rewrite E in H; [exact H | discriminate H].
Qed.

Lemma T_set_rq nc ns st h0 r r' e : get_rq st h0 = Some r -> rq_refcount r' = rq_refcount r -> rq_ok nc ns r' ->
  T nc ns st e -> T nc ns (set_rq st h0 r') e.
Proof.
  intros G R Ok (Ti & Sh & Hp). split; [|split].
  - intro h. specialize (Ti h). rewrite refs_set_rq, (rcount_set_rq _ _ _ _ _ G).
    destruct (Nat.eqb_spec h h0) as [->|_]; [|exact Ti]. unfold rcount in Ti. rewrite G in Ti. lia.
  - exact Sh.
  - intros h r1 H. destruct (get_rq_set_rq_inv _ _ _ _ _ H) as [[_ ->] | H1]; [exact Ok | exact (Hp _ _ H1)].
Qed.

Lemma T_upd_rq nc ns st h0 f e : (forall r, rq_refcount (f r) = rq_refcount r) -> (forall r, rq_ok nc ns r -> rq_ok nc ns (f r)) ->
  T nc ns st e -> T nc ns (upd_rq st h0 f) e.
Proof.
  intros Hf Ho Tt. unfold upd_rq. destruct (get_rq st h0) as [r|] eqn:G; [|exact Tt].
  eapply T_set_rq; [exact G | apply Hf | apply Ho; destruct Tt as (_ & _ & Hp); exact (Hp _ _ G) | exact Tt].
Qed.

Lemma T_newrqref nc ns st h0 e : T nc ns st e -> T nc ns (newrqref st h0) (add1 e h0).
Proof.
  intro Tt. unfold newrqref. destruct (get_rq st h0) as [r|] eqn:G; [|apply T_add; exact Tt].
  destruct Tt as (Ti & Sh & Hp). split; [|split].
  - intro h. specialize (Ti h). rewrite refs_set_rq, (rcount_set_rq _ _ _ _ _ G). unfold add1.
    destruct (ind_cases h h0) as [[-> E] | [Hn E]]; rewrite E.
    + rewrite Nat.eqb_refl. unfold rcount in Ti. rewrite G in Ti. cbn [rq_refcount rq_set_refcount]. lia.
    + rewrite (proj2 (Nat.eqb_neq _ _) Hn). lia.
  - exact Sh.
  - intros h r1 H. destruct (get_rq_set_rq_inv _ _ _ _ _ H) as [[_ ->] | H1]; [|exact (Hp _ _ H1)].
    destruct (Hp _ _ G) as (A & B & C). split; [exact A|]. split; [exact B|]. cbn [rq_refcount rq_set_refcount]. lia.
Qed.

Lemma T_freerq nc ns st h0 e : T nc ns st (add1 e h0) -> T nc ns (freerq st h0) e.
Proof.
  intros (Ti & Sh & Hp). unfold freerq. destruct (get_rq st h0) as [r|] eqn:G.
  - destruct (rq_refcount r <=? 1) eqn:L1; (split; [|split; [exact Sh|]]).
    + intro h. specialize (Ti h). rewrite refs_del_rq, rcount_del_rq. unfold add1 in Ti.
      destruct (ind_cases h h0) as [[-> E] | [Hn E]]; rewrite E in Ti.
      * rewrite Nat.eqb_refl. lia.
      * rewrite (proj2 (Nat.eqb_neq _ _) Hn). lia.
    + intros h r1 H. exact (Hp _ _ (get_rq_del_rq_inv _ _ _ _ H)).
    + intro h. specialize (Ti h). rewrite refs_set_rq, (rcount_set_rq _ _ _ _ _ G). unfold add1 in Ti.
      destruct (ind_cases h h0) as [[-> E] | [Hn E]]; rewrite E in Ti.
      * rewrite Nat.eqb_refl. unfold rcount in Ti. rewrite G in Ti. cbn [rq_refcount rq_set_refcount]. lia.
      * rewrite (proj2 (Nat.eqb_neq _ _) Hn). lia.
    + intros h r1 H. destruct (get_rq_set_rq_inv _ _ _ _ _ H) as [[_ ->] | H1]; [|exact (Hp _ _ H1)].
      destruct (Hp _ _ G) as (A & B & C). split; [exact A|]. split; [exact B|]. cbn [rq_refcount rq_set_refcount]. lia.
  - split; [|split; assumption]. intro h. specialize (Ti h). unfold add1 in Ti.
    destruct (ind_cases h h0) as [[-> E] | [Hn E]]; rewrite E in Ti; [|lia]. unfold rcount in *. rewrite G in *. lia.
Qed.

(* ---- tables ---- *)
Lemma nth_upd_same {A} (l : list A) i x d : (i < length l)%nat -> nth i (upd l i x) d = x.
Proof. intro H. unfold upd. rewrite nth_set_nth. destruct (Nat.ltb_spec i (length l)); [reflexivity | lia]. Qed.
Lemma nth_upd_other {A} (l : list A) i j x d : i <> j -> nth j (upd l i x) d = nth j l d.
Proof. intro H. unfold upd. apply nth_set_nth_other. exact H. Qed.
Lemma length_upd {A} (l : list A) i x : length (upd l i x) = length l.
Proof. unfold upd. revert i. induction l as [|y l IH]; intros [|i]; cbn [set_nth length]; try reflexivity. rewrite IH. reflexivity. Qed.

Lemma get_client_set_client st c x c' : (c < length (st_clients st))%nat ->
  get_client (set_client st c x) c' = if Nat.eqb c' c then x else get_client st c'.
Proof.
  intro H. unfold get_client, set_client. cbn [st_clients]. destruct (Nat.eqb_spec c' c) as [->|Hn].
  - apply nth_upd_same. exact H.
  - apply nth_upd_other. congruence.
Qed.
Lemma get_server_set_server st s x s' : (s < length (st_servers st))%nat ->
  get_server (set_server st s x) s' = if Nat.eqb s' s then x else get_server st s'.
Proof.
  intro H. unfold get_server, set_server. cbn [st_servers]. destruct (Nat.eqb_spec s' s) as [->|Hn].
  - apply nth_upd_same. exact H.
  - apply nth_upd_other. congruence.
Qed.

(* replacing a client record (in range, same cache size): for every object that is alive, what the old record held
   plus what the code held must be covered by what the new record holds plus what the code holds afterwards *)
Lemma T_set_client nc ns st c cl' e e' : (c < nc)%nat -> length (c_rqs cl') = 256%nat ->
  (forall h, rcount st h = 0 \/ cf h (get_client st c) + e h <= cf h cl' + e' h) ->
  T nc ns st e -> T nc ns (set_client st c cl') e'.
Proof.
  intros Hc Hl H (Ti & Sh & Hp). destruct Sh as (Lc & Ls & Sc & Ss). split; [|split].
  - intro h. specialize (Ti h). rewrite rcount_set_client.
    pose proof (refs_set_client st c cl' h ltac:(lia)) as R. destruct (H h) as [Z | K]; lia.
  - split; [unfold set_client; cbn [st_clients]; rewrite length_upd; exact Lc|]. split; [exact Ls|]. split; [|exact Ss].
    intros c' Hc'. rewrite get_client_set_client by lia. destruct (Nat.eqb c' c); [exact Hl | apply Sc; exact Hc'].
  - exact Hp.
Qed.

Lemma T_set_server nc ns st s sv' e e' : (s < ns)%nat -> sv_ok sv' ->
  (forall h, rcount st h = 0 \/ sf h (get_server st s) + e h <= sf h sv' + e' h) ->
  T nc ns st e -> T nc ns (set_server st s sv') e'.
Proof.
  intros Hs Hl H (Ti & Sh & Hp). destruct Sh as (Lc & Ls & Sc & Ss). split; [|split].
  - intro h. specialize (Ti h). rewrite rcount_set_server.
    pose proof (refs_set_server st s sv' h ltac:(lia)) as R. destruct (H h) as [Z | K]; lia.
  - split; [exact Lc|]. split; [unfold set_server; cbn [st_servers]; rewrite length_upd; exact Ls|]. split; [exact Sc|].
    intros s' Hs'. rewrite get_server_set_server by lia. destruct (Nat.eqb s' s); [exact Hl | apply Ss; exact Hs'].
  - exact Hp.
Qed.

(* a server record whose slots are untouched (any index) *)
Lemma T_set_server_same nc ns st s sv' e : s_slots sv' = s_slots (get_server st s) -> s_nextid sv' = s_nextid (get_server st s) ->
  T nc ns st e -> T nc ns (set_server st s sv') e.
Proof.
  intros H Hn Tt. destruct (Nat.lt_ge_cases s ns) as [Hs|Hs].
  - assert (Sh := Tt). destruct Sh as (_ & (_ & _ & _ & Ss) & _).
    apply (T_set_server nc ns st s sv' e e Hs); [unfold sv_ok; rewrite H, Hn; apply Ss; exact Hs | | exact Tt].
    intro h. right. unfold sf. rewrite H. lia.
  - destruct Tt as (Ti & Sh & Hp). rewrite set_server_out; [split; [|split]; assumption|]. destruct Sh as (_ & Ls & _). lia.
Qed.

Lemma T_set_server_any nc ns st s sv' e e' :
  ((s < ns)%nat -> sv_ok sv' /\ forall h, rcount st h = 0 \/ sf h (get_server st s) + e h <= sf h sv' + e' h) ->
  (forall h, e h <= e' h) -> T nc ns st e -> T nc ns (set_server st s sv') e'.
Proof.
  intros H Hw Tt. destruct (Nat.lt_ge_cases s ns) as [Hs|Hs].
  - destruct (H Hs) as [Hl Hh]. apply (T_set_server nc ns st s sv' e e' Hs Hl Hh Tt).
  - assert (Sh := Tt). destruct Sh as (_ & (_ & Ls & _) & _). rewrite set_server_out by lia. eapply T_weaken; [exact Hw | exact Tt].
Qed.

Lemma T_set_client_any nc ns st c cl' e e' :
  ((c < nc)%nat -> length (c_rqs cl') = 256%nat /\ forall h, rcount st h = 0 \/ cf h (get_client st c) + e h <= cf h cl' + e' h) ->
  (forall h, e h <= e' h) -> T nc ns st e -> T nc ns (set_client st c cl') e'.
Proof.
  intros H Hw Tt. destruct (Nat.lt_ge_cases c nc) as [Hc|Hc].
  - destruct (H Hc) as [Hl Hh]. apply (T_set_client nc ns st c cl' e e' Hc Hl Hh Tt).
  - assert (Sh := Tt). destruct Sh as (_ & (Lc & _) & _). rewrite set_client_out by lia. eapply T_weaken; [exact Hw | exact Tt].
Qed.

Lemma sf_set_slot_eq h sv i sl' : (N.to_nat i < length (s_slots sv))%nat ->
  sf h (set_slot sv i sl') + oind (sl_rq (get_slot sv i)) h = sf h sv + oind (sl_rq sl') h.
Proof.
  intro Hi. unfold sf, set_slot, get_slot. cbn [s_slots]. rewrite map_upd.
  pose proof (occ_opt_upd h (map sl_rq (s_slots sv)) (N.to_nat i) (sl_rq sl') ltac:(rewrite map_length; exact Hi)) as H.
  replace (nth (N.to_nat i) (map sl_rq (s_slots sv)) None) with (sl_rq (nth (N.to_nat i) (s_slots sv) empty_slot)) in H
    by (symmetry; exact (map_nth sl_rq (s_slots sv) empty_slot (N.to_nat i))). exact H.
Qed.

Lemma cf_set_cache_eq h rqs q i x : (i < length rqs)%nat ->
  cf h (mkClient (upd rqs i x) q) + oind (nth i rqs None) h = cf h (mkClient rqs q) + oind x h.
Proof. intro Hi. unfold cf. cbn [c_rqs c_replyq]. pose proof (occ_opt_upd h rqs i x Hi). lia. Qed.

Lemma length_set_slot sv i x : length (s_slots (set_slot sv i x)) = length (s_slots sv).
Proof. unfold set_slot. cbn [s_slots]. apply length_upd. Qed.
Lemma sv_ok_set_slot sv i x : sv_ok sv -> sv_ok (set_slot sv i x).
Proof. intros [A B]. split; [rewrite length_set_slot; exact A | exact B]. Qed.

Lemma rcount_dead st h : get_rq st h = None -> rcount st h = 0.
Proof. intro H. unfold rcount. rewrite H. reflexivity. Qed.

Lemma nth_some_in_range (l : list (option nat)) i h : nth i l None = Some h -> (i < length l)%nat.
Proof. intro H. destruct (Nat.lt_ge_cases i (length l)) as [L|L]; [exact L|]. rewrite (nth_overflow _ _ L) in H. discriminate. Qed.

(* the effect of emptying slot i of server s on the holders *)
Lemma clear_slot_cond st s i e :
  match sl_rq (get_slot (get_server st s) i) with
  | Some h => forall x, sf x (get_server st s) + e x <= sf x (set_slot (get_server st s) i empty_slot) + add1 e h x
  | None => forall x, sf x (get_server st s) + e x <= sf x (set_slot (get_server st s) i empty_slot) + e x
  end.
Proof.
  destruct (sl_rq (get_slot (get_server st s) i)) as [h|] eqn:Sl; intro x.
  - pose proof (sf_set_slot_eq x (get_server st s) i empty_slot (get_slot_in_range _ _ _ Sl)) as K.
    rewrite Sl in K. cbn [oind sl_rq empty_slot] in K. unfold add1. rewrite (ind_sym x h). lia.
  - destruct (Nat.lt_ge_cases (N.to_nat i) (length (s_slots (get_server st s)))) as [L|L].
    + pose proof (sf_set_slot_eq x (get_server st s) i empty_slot L) as K. rewrite Sl in K. cbn [oind sl_rq empty_slot] in K. lia.
    + unfold set_slot, sf. cbn [s_slots]. rewrite (upd_out _ _ _ L). lia.
Qed.

Lemma T_freerqoutdata nc ns st s i e : T nc ns st e -> T nc ns (freerqoutdata st s i) e.
Proof.
  intro Tt. unfold freerqoutdata. cbv zeta. pose proof (clear_slot_cond st s i e) as CC.
  assert (Sh := Tt). destruct Sh as (_ & (_ & _ & _ & Ss) & Hp).
  destruct (sl_rq (get_slot (get_server st s) i)) as [h|] eqn:Sl.
  - destruct (get_rq st h) as [r|] eqn:G.
    + rewrite get_server_freerq. change (get_server (set_rq st h (rq_set_to (rq_set_buf r None) None)) s) with (get_server st s).
      rewrite <- freerq_set_server. apply T_freerq.
      apply (T_set_server_any nc ns (set_rq st h (rq_set_to (rq_set_buf r None) None)) s _ e (add1 e h)).
      * intro Hs. split; [apply sv_ok_set_slot; apply Ss; exact Hs|]. intro x. right. exact (CC x).
      * intro x. unfold add1. lia.
      * eapply T_set_rq; [exact G | reflexivity | | exact Tt]. destruct (Hp _ _ G) as (F & _ & C). split; [exact F|]. split; [exact I | exact C].
    + apply (T_set_server_any nc ns st s _ e e); [|intro x; lia | exact Tt].
      intro Hs. split; [apply sv_ok_set_slot; apply Ss; exact Hs|]. intro x.
      destruct (Nat.eq_dec x h) as [->|Hn]; [left; apply rcount_dead; exact G|]. right.
      specialize (CC x). unfold add1 in CC. rewrite (ind_diff _ _ Hn) in CC. lia.
  - apply (T_set_server_any nc ns st s _ e e); [|intro x; lia | exact Tt].
    intro Hs. split; [apply sv_ok_set_slot; apply Ss; exact Hs|]. intro x. right. exact (CC x).
Qed.

Lemma cache_entry_client_in_range st c i h : nth i (c_rqs (get_client st c)) None = Some h -> (c < length (st_clients st))%nat.
Proof.
  intro H. destruct (Nat.lt_ge_cases c (length (st_clients st))) as [L|L]; [exact L|].
  rewrite (get_client_out st c L) in H. cbn [c_rqs] in H. destruct i; discriminate H.
Qed.

(* clearing cache entry i of client c, which holds h *)
Lemma T_clear_cache nc ns st c i h e : nth i (c_rqs (get_client st c)) None = Some h -> T nc ns st e ->
  T nc ns (set_client st c (mkClient (upd (c_rqs (get_client st c)) i None) (c_replyq (get_client st c)))) (add1 e h).
Proof.
  intros En Tt. assert (Sh := Tt). destruct Sh as (_ & (Lc & _ & Sc & _) & _).
  pose proof (cache_entry_client_in_range _ _ _ _ En) as Hc. rewrite Lc in Hc.
  apply (T_set_client nc ns st c _ e (add1 e h) Hc); [cbn [c_rqs]; rewrite length_upd; apply Sc; exact Hc | | exact Tt].
  intro x. right. pose proof (cf_set_cache_eq x (c_rqs (get_client st c)) (c_replyq (get_client st c)) i None (nth_some_in_range _ _ _ En)) as K.
  rewrite En, client_eta in K. cbn [oind] in K. unfold add1. rewrite (ind_sym x h). lia.
Qed.

Lemma T_removeclientrq nc ns st c i e : T nc ns st e -> T nc ns (removeclientrq st c i) e.
Proof.
  intro Tt. unfold removeclientrq. cbv zeta.
  destruct (nth (N.to_nat i) (c_rqs (get_client st c)) None) as [h|] eqn:En; [|exact Tt].
  destruct (get_rq st h) as [r|] eqn:G; [|exact Tt].
  set (st1 := match rq_to r with Some s => _ | None => st end).
  assert (T1 : T nc ns st1 e).
  { subst st1. destruct (rq_to r) as [s|]; [|exact Tt]. destruct (sl_rq _) as [h'|]; [|exact Tt].
    destruct (Nat.eqb h' h); [apply T_freerqoutdata|]; exact Tt. }
  assert (C1 : get_client st1 c = get_client st c).
  { subst st1. destruct (rq_to r) as [s|]; [|reflexivity]. destruct (sl_rq _) as [h'|]; [|reflexivity].
    destruct (Nat.eqb h' h); [apply get_client_freerqoutdata | reflexivity]. }
  apply T_freerq. rewrite C1. rewrite <- C1 at 1 2. apply T_clear_cache; [rewrite C1; exact En | exact T1].
Qed.

Lemma T_rmclientrq nc ns st h id e : T nc ns st e -> T nc ns (rmclientrq st h id) e.
Proof.
  intro Tt. unfold rmclientrq. destruct (get_rq st h) as [r|] eqn:G; [|exact Tt].
  destruct (rq_from r) as [c|] eqn:F; [|exact Tt].
  destruct (nth (N.to_nat id) (c_rqs (get_client st c)) None) as [h'|] eqn:En; [|exact Tt].
  apply T_freerq.
  assert (Hp := Tt). destruct Hp as (_ & _ & Hp). destruct (Hp _ _ G) as (_ & Ht).
  apply (T_set_rq nc ns _ h r (rq_set_from r None)); [exact G | reflexivity | split; [exact I | exact Ht] |].
  apply T_clear_cache; [exact En | exact Tt].
Qed.

Lemma T_drop_dead nc ns st e h0 : get_rq st h0 = None -> T nc ns st (add1 e h0) -> T nc ns st e.
Proof.
  intros G (Ti & Sh & Hp). split; [|split; assumption]. intro h. specialize (Ti h). unfold add1 in Ti.
  destruct (ind_cases h h0) as [[-> E] | [Hn E]]; rewrite E in Ti; [|lia]. rewrite (rcount_dead _ _ G). lia.
Qed.

Section H.
  Variable md5 : bytes -> bytes.
  Variable cfg : config.
  Variable fs : N -> bool.
  Variables nc ns : nat.

  (* sendreply takes over the caller's reference -- provided the request has an originating client (the C code
     dereferences rq->from without a test) *)
  Lemma T_sendreply st h e : (forall r, get_rq st h = Some r -> rq_from r <> None) ->
    T nc ns st (add1 e h) -> T nc ns (fst (sendreply md5 cfg fs st h)) e.
  Proof.
    intros Hf Tt. unfold sendreply. destruct (get_rq st h) as [r|] eqn:G; [|exact (T_drop_dead _ _ _ _ _ G Tt)].
    destruct (rq_from r) as [c|] eqn:F; [|exfalso; exact (Hf r eq_refl F)]. cbv zeta.
    assert (Hp := Tt). destruct Hp as (_ & (_ & _ & Sc & _) & Hp). destruct (Hp _ _ G) as (Hc & Ht). rewrite F in Hc.
    match goal with |- context [set_rq st h ?r1] => set (R1 := r1) end.
    assert (T1 : T nc ns (set_rq st h R1) (add1 e h)).
    { eapply T_set_rq; [exact G | reflexivity | | exact Tt]. subst R1. split; cbn [rq_from rq_to rq_set_msg rq_set_replybuf]; [rewrite F; exact Hc | exact Ht]. }
    match goal with |- context [if fs 14 then None else ?rb] => destruct (if fs 14 then None else rb) as [b|] end; cbn [fst].
    - apply (T_set_client nc ns (set_rq st h R1) c _ (add1 e h) e Hc); [cbn [c_rqs]; apply Sc; exact Hc | | exact T1].
      intro x. right. rewrite cf_push, client_eta. unfold add1. rewrite (ind_sym x h). lia.
    - apply T_freerq. exact T1.
  Qed.

  Lemma T_respond st h code extra ma e : (forall r, get_rq st h = Some r -> rq_from r <> None) ->
    T nc ns st e -> T nc ns (fst (respond md5 cfg fs st h code extra ma)) e.
  Proof.
    intros Hf Tt. unfold respond. destruct (get_rq st h) as [r|] eqn:G; [|exact Tt].
    destruct (rq_msg r) as [m|]; [|exact Tt]. cbv zeta.
    match goal with |- context [match ?x with Some a1 => _ | None => (st, []) end] => destruct x as [a1|] end; [|exact Tt].
    match goal with |- context [set_rq st h ?r1] => set (R1 := r1) end.
    assert (G1 : get_rq (set_rq st h R1) h = Some R1) by (eapply get_rq_set_rq; exact G).
    apply T_sendreply.
    - intros r2 G2. unfold newrqref in G2. rewrite G1 in G2. rewrite (get_rq_set_rq _ _ _ _ G1) in G2. injection G2 as <-.
      cbn [rq_from rq_set_refcount]. subst R1. cbn [rq_from rq_set_msg]. exact (Hf r eq_refl).
    - apply T_newrqref. assert (Hp := Tt). destruct Hp as (_ & _ & Hp).
      eapply T_set_rq; [exact G | reflexivity | exact (Hp _ _ G) | exact Tt].
  Qed.

  Lemma T_purge_f c now : forall fuel st i e, T nc ns st e -> T nc ns (purge_f cfg fuel st c i now) e.
  Proof.
    induction fuel as [|f IH]; intros st i e Tt; [exact Tt|]. cbn [purge_f]. cbv zeta. apply IH.
    destruct (nth i (c_rqs (get_client st c)) None) as [h|]; [|exact Tt].
    destruct (get_rq st h) as [r|]; [|exact Tt].
    match goal with |- context [if ?g then _ else _] => destruct g end; [apply T_removeclientrq|]; exact Tt.
  Qed.

  Lemma T_purgedupcache st c now e : T nc ns st e -> T nc ns (purgedupcache cfg st c now) e.
  Proof. unfold purgedupcache. generalize 256%nat. intro n. apply T_purge_f. Qed.
End H.

Lemma newrqref_set_client st c x h : newrqref (set_client st c x) h = set_client (newrqref st h) c x.
Proof. unfold newrqref. change (get_rq (set_client st c x) h) with (get_rq st h). destruct (get_rq st h); reflexivity. Qed.

Lemma get_client_newrqref st h c : get_client (newrqref st h) c = get_client st c.
Proof. unfold newrqref. destruct (get_rq st h); reflexivity. Qed.

Lemma rcount_newrqref_dead st h h' : get_rq st h' = None -> rcount (newrqref st h) h' = 0.
Proof.
  intro G. unfold newrqref. destruct (get_rq st h) as [r|] eqn:Gh; [|apply rcount_dead; exact G].
  rewrite (rcount_set_rq _ _ _ _ _ Gh). destruct (Nat.eqb_spec h' h) as [->|_]; [congruence | apply rcount_dead; exact G].
Qed.

Lemma removeclientrq_entry_cleared st c i h r : nth (N.to_nat i) (c_rqs (get_client st c)) None = Some h -> get_rq st h = Some r ->
  nth (N.to_nat i) (c_rqs (get_client (removeclientrq st c i) c)) None = None.
Proof.
  intros En G. unfold removeclientrq. cbv zeta. rewrite En, G.
  set (st1 := match rq_to r with Some s => _ | None => st end).
  assert (C1 : get_client st1 c = get_client st c).
  { subst st1. destruct (rq_to r) as [s|]; [|reflexivity]. destruct (sl_rq _) as [h'|]; [|reflexivity].
    destruct (Nat.eqb h' h); [apply get_client_freerqoutdata | reflexivity]. }
  assert (L1 : length (st_clients st1) = length (st_clients st)).
  { subst st1. destruct (rq_to r) as [s|]; [|reflexivity]. destruct (sl_rq _) as [h'|]; [|reflexivity].
    destruct (Nat.eqb h' h); [|reflexivity]. unfold freerqoutdata. cbv zeta.
    destruct (sl_rq (get_slot (get_server st s) (rq_newid r))) as [h2|]; [|reflexivity].
    destruct (get_rq st h2) as [r2|]; [|reflexivity]. unfold freerq.
    destruct (get_rq _ h2) as [r3|]; [|reflexivity]. destruct (rq_refcount r3 <=? 1); reflexivity. }
  rewrite get_client_freerq. rewrite get_client_set_client by (rewrite L1; exact (cache_entry_client_in_range _ _ _ _ En)).
  rewrite Nat.eqb_refl. cbn [c_rqs]. rewrite C1. apply nth_upd_same. exact (nth_some_in_range _ _ _ En).
Qed.

Section H2.
  Variable md5 : bytes -> bytes.
  Variable cfg : config.
  Variable fs : N -> bool.
  Variables nc ns : nat.

  (* addclientrq: whatever it registers or queues gets a reference of its own; nothing else changes hands *)
  Lemma T_addclientrq st h c now e isnew st' o : addclientrq md5 cfg fs st h c now = (isnew, st', o) ->
    (c < nc)%nat -> (forall rq, get_rq st h = Some rq -> rq_rqid rq < 256) ->
    (forall i h' r, nth i (c_rqs (get_client st c)) None = Some h' -> get_rq st h' = Some r -> rq_from r <> None) ->
    T nc ns st e -> T nc ns st' e.
  Proof.
    unfold addclientrq. intros A Hc Hid Hfrom Tt. destruct (get_rq st h) as [rq|] eqn:G; [|injection A as _ <- _; exact Tt].
    cbv zeta in A. specialize (Hid rq eq_refl).
    assert (Reg : forall stx, T nc ns stx e ->
              nth (N.to_nat (rq_rqid rq)) (c_rqs (get_client stx c)) None = None \/
              (exists h', nth (N.to_nat (rq_rqid rq)) (c_rqs (get_client stx c)) None = Some h' /\ get_rq stx h' = None) ->
              T nc ns (newrqref (set_client stx c (mkClient (upd (c_rqs (get_client stx c)) (N.to_nat (rq_rqid rq)) (Some h)) (c_replyq (get_client stx c)))) h) e).
    { intros stx Tx Hold. rewrite newrqref_set_client.
      assert (Sh := Tx). destruct Sh as (_ & (_ & _ & Sc & _) & _).
      apply (T_set_client nc ns (newrqref stx h) c _ (add1 e h) e Hc); [cbn [c_rqs]; rewrite length_upd; apply Sc; exact Hc | | apply T_newrqref; exact Tx].
      intro x. rewrite get_client_newrqref.
      pose proof (cf_set_cache_eq x (c_rqs (get_client stx c)) (c_replyq (get_client stx c)) (N.to_nat (rq_rqid rq)) (Some h)
                    ltac:(rewrite (Sc c Hc); lia)) as K.
      rewrite client_eta in K. cbn [oind] in K. unfold add1. rewrite (ind_sym x h).
      destruct Hold as [En | (h' & En & Gd)]; rewrite En in K; cbn [oind] in K.
      - right. lia.
      - destruct (Nat.eq_dec x h') as [->|Hn]; [left; apply rcount_newrqref_dead; exact Gd|]. right.
        rewrite (ind_diff h' x) in K by congruence. lia. }
    destruct (nth (N.to_nat (rq_rqid rq)) (c_rqs (get_client st c)) None) as [h'|] eqn:En.
    2:{ injection A as _ <- _. apply Reg; [exact Tt | left; exact En]. }
    destruct (get_rq st h') as [r|] eqn:G'.
    2:{ injection A as _ <- _. apply Reg; [exact Tt | right; exists h'; split; assumption]. }
    match type of A with context [if ?g then _ else _] => destruct g end.
    - destruct (rq_replybuf r).
      + destruct (sendreply md5 cfg fs (newrqref st h') h') as [st1 o1] eqn:SR. injection A as _ <- _.
        change st1 with (fst (st1, o1)). rewrite <- SR. apply T_sendreply; [|apply T_newrqref; exact Tt].
        intros r2 G2. unfold newrqref in G2. rewrite G' in G2. rewrite (get_rq_set_rq _ _ _ _ G') in G2. injection G2 as <-.
        cbn [rq_from rq_set_refcount]. exact (Hfrom _ _ _ En G').
      + injection A as _ <- _. exact Tt.
    - injection A as _ <- _. apply Reg; [apply T_removeclientrq; exact Tt|]. left.
      exact (removeclientrq_entry_cleared st c (rq_rqid rq) h' r En G').
  Qed.
End H2.

Section H3.
  Variable md5 : bytes -> bytes.
  Variable cfg : config.
  Variable fs : N -> bool.
  Variables nc ns : nat.

  Lemma T_internal_sendrq st s id h e st1 o : internal_sendrq md5 cfg fs st s id h = Some (st1, o) ->
    (s < ns)%nat -> id < 256 -> T nc ns st (add1 e h) -> T nc ns st1 e.
  Proof.
    unfold internal_sendrq. cbv zeta. intros I Hs Hid Tt.
    destruct (sl_rq (get_slot (get_server st s) id)) as [x|] eqn:Sl; [discriminate|].
    destruct (get_rq st h) as [r|] eqn:G; [|discriminate].
    destruct (rq_msg r) as [m|]; [|discriminate].
    destruct (fs (100 + id)); [discriminate|].
    destruct (radmsg2buf md5 (set_id m id) (sc_secret (srvconf_of cfg s))) as [[[b a]|]|]; try discriminate.
    injection I as <- _.
    assert (Sh := Tt). destruct Sh as (_ & (_ & _ & _ & Ss) & Hp). destruct (Ss s Hs) as [Ls Ln].
    match goal with |- context [set_rq st h ?r1] => set (R1 := r1) end.
    apply (T_set_server nc ns (set_rq st h R1) s _ (add1 e h) e Hs).
    - change (get_server (set_rq st h R1) s) with (get_server st s). apply sv_ok_set_slot. split; assumption.
    - intro x. right. change (get_server (set_rq st h R1) s) with (get_server st s).
      pose proof (sf_set_slot_eq x (get_server st s) id (mkSlot (Some h) (sl_tries (get_slot (get_server st s) id)) (sl_expiry (get_slot (get_server st s) id)))
                    ltac:(rewrite Ls; lia)) as K.
      rewrite Sl in K. cbn [oind sl_rq] in K. unfold add1. rewrite (ind_sym x h). lia.
    - eapply T_set_rq; [exact G | reflexivity | exact (Hp _ _ G) | exact Tt].
  Qed.

  Lemma T_sendrq st h e : T nc ns st (add1 e h) -> T nc ns (fst (sendrq md5 cfg fs st h)) e.
  Proof.
    intro Tt.
    assert (Fail : forall stx, T nc ns stx (add1 e h) ->
              T nc ns (freerq (match get_rq stx h with
                               | Some r' => match rq_from r' with Some _ => rmclientrq stx h (rq_rqid r') | None => stx end
                               | None => stx end) h) e).
    { intros stx Tx. apply T_freerq. destruct (get_rq stx h) as [r'|]; [|exact Tx].
      destruct (rq_from r'); [apply T_rmclientrq|]; exact Tx. }
    pose proof (Fail st Tt) as F0.
    unfold sendrq. destruct (get_rq st h) as [r|] eqn:G; [|exact (T_drop_dead _ _ _ _ _ G Tt)]. cbv zeta.
    destruct (rq_to r) as [s|] eqn:To; [|cbn [fst]; exact F0].
    assert (Hs : (s < ns)%nat).
    { destruct Tt as (_ & _ & Hp). destruct (Hp _ _ G) as (_ & Ht & _). rewrite To in Ht. exact Ht. }
    assert (Sig : forall stx ex, T nc ns stx ex -> T nc ns (set_server stx s (set_newrq (get_server stx s) true)) ex)
      by (intros stx ex Tx; apply T_set_server_same; [reflexivity | reflexivity | exact Tx]).
    assert (Nx : forall stx ex n, n <= 256 -> T nc ns stx ex -> T nc ns (set_server stx s (set_nextid (get_server stx s) n)) ex).
    { intros stx ex n Hn Tx. assert (Sh := Tx). destruct Sh as (_ & (_ & _ & _ & Ss) & _). destruct (Ss s Hs) as [Ls _].
      apply (T_set_server nc ns stx s _ ex ex Hs); [split; [exact Ls | exact Hn] | | exact Tx].
      intro x. right. unfold sf. cbn [s_slots set_nextid]. lia. }
    assert (Sh := Tt). destruct Sh as (_ & (_ & _ & _ & Ss) & _). destruct (Ss s Hs) as [_ Ln].
    match goal with |- context [if ?c then _ else _] => destruct c end.
    - destruct (internal_sendrq md5 cfg fs st s 0 h) as [[st1 o1]|] eqn:I; cbn [fst]; [|exact F0].
      apply Sig. eapply T_internal_sendrq; [exact I | exact Hs | lia | exact Tt].
    - set (start := if s_statsrv (get_server st s) =? Consts.RSP_STATSRV_OFF then 0 else 1) in *.
      assert (Hst : start <= 1) by (subst start; destruct (_ =? _); lia).
      set (nextid := if s_nextid (get_server st s) =? 0 then start else s_nextid (get_server st s)) in *.
      assert (Hnx : nextid <= 256) by (subst nextid; destruct (_ =? 0); lia).
      match goal with |- context [scan_ids md5 cfg fs 257 ?st0 s nextid Consts.MAX_REQUESTS h] => set (ST0 := st0) end.
      assert (T0 : T nc ns ST0 (add1 e h)) by (apply Nx; [exact Hnx | exact Tt]).
      destruct (scan_ids md5 cfg fs 257 ST0 s nextid Consts.MAX_REQUESTS h) as [[[k st1] o1]|] eqn:S1.
      + cbn [fst]. apply Sig. destruct (scan_ids_some md5 cfg fs _ _ _ _ _ _ _ _ _ S1) as [[_ Hk] E].
        unfold Consts.MAX_REQUESTS in Hk.
        pose proof (T_internal_sendrq _ _ _ _ e _ _ E Hs ltac:(lia) T0) as K.
        destruct (start <=? k); [apply Nx; [lia | exact K] | exact K].
      + destruct (scan_ids md5 cfg fs 257 ST0 s start nextid h) as [[[k st1] o1]|] eqn:S2; cbn [fst].
        * apply Sig. destruct (scan_ids_some md5 cfg fs _ _ _ _ _ _ _ _ _ S2) as [[_ Hk] E].
          pose proof (T_internal_sendrq _ _ _ _ e _ _ E Hs ltac:(lia) T0) as K.
          destruct (start <=? k); [apply Nx; [lia | exact K] | exact K].
        * apply Fail. exact T0.
  Qed.

  Lemma T_choose st idxs to st' e : choose st idxs = (to, st') -> T nc ns st e -> T nc ns st' e.
  Proof.
    unfold choose. destruct (choosesrvconf _) as [cidx l']. intro H. injection H as _ <-.
    generalize (combine idxs l'). intro l. revert st. induction l as [|p l IH]; intros st Tt; [exact Tt|].
    cbn [fold_left]. apply IH. apply T_set_server_same; [reflexivity | reflexivity | exact Tt].
  Qed.
End H3.

Lemma get_rq_upd_rq_h st h f : get_rq (upd_rq st h f) h = option_map f (get_rq st h).
Proof.
  unfold upd_rq. destruct (get_rq st h) as [r|] eqn:G; [|rewrite G; reflexivity].
  rewrite (get_rq_set_rq _ _ _ _ G). reflexivity.
Qed.

(* the purge only removes cache entries *)
Lemma removeclientrq_entries st c i j h' : nth j (c_rqs (get_client (removeclientrq st c i) c)) None = Some h' ->
  nth j (c_rqs (get_client st c)) None = Some h'.
Proof.
  unfold removeclientrq. cbv zeta.
  destruct (nth (N.to_nat i) (c_rqs (get_client st c)) None) as [h|] eqn:En; [|exact (fun x => x)].
  destruct (get_rq st h) as [r|] eqn:G; [|exact (fun x => x)].
  set (st1 := match rq_to r with Some s => _ | None => st end).
  assert (C1 : get_client st1 c = get_client st c).
  { subst st1. destruct (rq_to r) as [s|]; [|reflexivity]. destruct (sl_rq _) as [h2|]; [|reflexivity].
    destruct (Nat.eqb h2 h); [apply get_client_freerqoutdata | reflexivity]. }
  rewrite get_client_freerq. intro H.
  destruct (Nat.lt_ge_cases c (length (st_clients st1))) as [L|L].
  - rewrite get_client_set_client in H by exact L. rewrite Nat.eqb_refl in H. cbn [c_rqs] in H. rewrite C1 in H.
    destruct (Nat.eq_dec (N.to_nat i) j) as [<-|Hn].
    + rewrite nth_upd_same in H by exact (nth_some_in_range _ _ _ En). discriminate H.
    + rewrite nth_upd_other in H by exact Hn. exact H.
  - rewrite set_client_out in H by exact L. rewrite C1 in H. exact H.
Qed.

Lemma purge_f_entries cfg c now j h' : forall fuel st i, nth j (c_rqs (get_client (purge_f cfg fuel st c i now) c)) None = Some h' ->
  nth j (c_rqs (get_client st c)) None = Some h'.
Proof.
  induction fuel as [|f IH]; intros st i H; [exact H|]. cbn [purge_f] in H. cbv zeta in H. apply IH in H.
  destruct (nth i (c_rqs (get_client st c)) None) as [h|]; [|exact H].
  destruct (get_rq st h) as [r|]; [|exact H].
  match type of H with context [if ?g then _ else _] => destruct g end; [exact (removeclientrq_entries _ _ _ _ _ H) | exact H].
Qed.

Lemma purgedupcache_entries cfg st c now j h' : nth j (c_rqs (get_client (purgedupcache cfg st c now) c)) None = Some h' ->
  nth j (c_rqs (get_client st c)) None = Some h'.
Proof. unfold purgedupcache. generalize 256%nat. intro n. apply purge_f_entries. Qed.

Definition cfg_ok (cfg : config) (ns : nat) : Prop :=
  forall rl s, In rl (cf_realms cfg) -> In s (rl_srv rl ++ rl_acc rl) -> (s < ns)%nat.

Lemma id2realm_in rx : forall realms id r, id2realm rx realms id = Some r -> In r realms.
Proof.
  induction realms as [|q realms IH]; intros id r H; [discriminate|]. cbn [id2realm] in H.
  destruct (rx (rl_rx q) id); [injection H as <-; left; reflexivity | right; exact (IH _ _ H)].
Qed.

Section R.
  Variable md5 : bytes -> bytes.
  Hypothesis md5_len : forall x, length (md5 x) = 16%nat.
  Hypothesis md5_wf : forall x, wf_bytes (md5 x) = true.
  Variable rx : N -> bytes -> option (list (Z * Z)).
  Variable cfg : config.
  Variable fs : N -> bool.
  Variables nc ns : nat.
  Hypothesis Hcfg : cfg_ok cfg ns.

  Theorem T_radsrv st h c now rnd e : (c < nc)%nat ->
    (forall r0, get_rq st h = Some r0 -> rq_from r0 <> None /\
       exists buf, rq_buf r0 = Some buf /\ wf_bytes buf = true /\ (20 <= length buf)%nat) ->
    (forall i h' r, nth i (c_rqs (get_client st c)) None = Some h' -> get_rq st h' = Some r -> rq_from r <> None) ->
    T nc ns st (add1 e h) -> T nc ns (fst (radsrv md5 rx cfg fs st h c now rnd)) e.
  Proof.
    intros Hc Hr0 Hfrom T0. unfold radsrv. destruct (get_rq st h) as [r0|] eqn:H0; [|exact (T_drop_dead _ _ _ _ _ H0 T0)]. cbv zeta.
    destruct (Hr0 _ eq_refl) as (F0 & buf & Eb & Wb & Lb). clear Hr0.
    assert (Ok0 : rq_ok nc ns r0) by (destruct T0 as (_ & _ & Hp); exact (Hp _ _ H0)).
    assert (TB : T nc ns (set_rq st h (rq_set_buf r0 None)) (add1 e h)) by (eapply T_set_rq; [exact H0 | reflexivity | exact Ok0 | exact T0]).
    assert (GB : get_rq (set_rq st h (rq_set_buf r0 None)) h = Some (rq_set_buf r0 None)) by (eapply get_rq_set_rq; exact H0).
    destruct (fs 1); [cbn [fst]; apply T_freerq; exact TB|].
    destruct (buf2radmsg md5 _ (cc_secret (clconf_of cfg c)) None) as [msg|] eqn:Hp; [|cbn [fst]; apply T_freerq; exact TB].
    rewrite Eb in Hp. destruct (buf2radmsg_ok md5 md5_len md5_wf _ _ _ _ Wb Lb Hp) as (_ & _ & _ & _ & Bi).
    destruct (m_mainvalid msg); [cbn [fst]; apply T_freerq; exact TB|].
    match goal with |- context [set_rq (set_rq st h (rq_set_buf r0 None)) h ?r1] => set (R1 := r1) end.
    set (stA := set_rq (set_rq st h (rq_set_buf r0 None)) h R1).
    assert (TA : T nc ns stA (add1 e h)) by (eapply T_set_rq; [exact GB | reflexivity | exact Ok0 | exact TB]).
    assert (GA : get_rq stA h = Some R1) by (eapply get_rq_set_rq; exact GB).
    (* facts about h that survive the bookkeeping: its originator and its identifier *)
    pose (PF := fun stX : state => forall rX, get_rq stX h = Some rX -> rq_from rX <> None /\ rq_rqid rX = m_id msg).
    assert (PA : PF stA) by (intros rX G; rewrite GA in G; injection G as <-; split; [exact F0 | reflexivity]).
    assert (PK : forall a b, PF a -> keeps a b -> PF b).
    { intros a b Pa K rX G. destruct (K _ _ G) as (r & Ga & (_ & _ & Sf & Si & _)). destruct (Pa _ Ga) as [X Y]. split; congruence. }
    assert (PU : forall a f, PF a -> (forall r, rq_from (f r) = rq_from r /\ rq_rqid (f r) = rq_rqid r) -> PF (upd_rq a h f)).
    { intros a f Pa Hf rX G. rewrite get_rq_upd_rq_h in G. destruct (get_rq a h) as [r|] eqn:Ga; [|discriminate].
      injection G as <-. destruct (Pa _ Ga) as [X Y]. destruct (Hf r) as [Z1 Z2]. split; congruence. }
    (* the exits *)
    assert (Ex : forall stX (o : list out), T nc ns stX (add1 e h) -> T nc ns (fst (freerq stX h, o ++ [ORet 1])) e)
      by (intros stX o Tx; cbn [fst]; apply T_freerq; exact Tx).
    assert (Rm : forall stX (o : list out) id, T nc ns stX (add1 e h) -> T nc ns (fst (freerq (rmclientrq stX h id) h, o ++ [ORet 1])) e)
      by (intros stX o id Tx; cbn [fst]; apply T_freerq; apply T_rmclientrq; exact Tx).
    assert (Re : forall stX code extra ma, PF stX -> T nc ns stX (add1 e h) ->
              T nc ns (fst (let '(st1, o) := respond md5 cfg fs stX h code extra ma in (freerq st1 h, o ++ [ORet 1]))) e).
    { intros stX code extra ma Px Tx.
      pose proof (T_respond md5 cfg fs nc ns stX h code extra ma _ (fun r G => proj1 (Px r G)) Tx) as K.
      destruct (respond md5 cfg fs stX h code extra ma) as [st1 o]. cbn [fst] in *. apply T_freerq. exact K. }
    assert (Up : forall stX f, (forall r, rq_refcount (f r) = rq_refcount r) -> (forall r, rq_ok nc ns r -> rq_ok nc ns (f r)) ->
              T nc ns stX (add1 e h) -> T nc ns (upd_rq stX h f) (add1 e h))
      by (intros stX f Hf Ho Tx; apply T_upd_rq; assumption).
    destruct ((m_code msg =? Consts.RAD_Disconnect_Request) || (m_code msg =? Consts.RAD_CoA_Request)); [apply Re; [exact PA | exact TA]|].
    destruct (negb _); [apply Ex; exact TA|].
    set (stP := purgedupcache cfg stA c now) in *.
    assert (KP : keeps stA stP) by apply keeps_purgedupcache.
    assert (TP : T nc ns stP (add1 e h)) by (apply T_purgedupcache; exact TA).
    destruct (addclientrq md5 cfg fs stP h c now) as [[isnew st1] o0] eqn:A.
    assert (T1 : T nc ns st1 (add1 e h)).
    { eapply (T_addclientrq md5 cfg fs nc ns stP h c now _ _ _ _ A Hc); [| |exact TP].
      - intros rq G. destruct (PK _ _ PA KP _ G) as [_ Y]. rewrite Y. unfold is_byte in Bi. lia.
      - intros i h' r En G. apply purgedupcache_entries in En.
        destruct (KP _ _ G) as (ra & Ga & (_ & _ & Sf & _)). rewrite Sf.
        change (get_client stA c) with (get_client st c) in En.
        unfold stA in Ga. destruct (get_rq_set_rq_inv _ _ _ _ _ Ga) as [[_ ->] | Ga1]; [exact F0|].
        destruct (get_rq_set_rq_inv _ _ _ _ _ Ga1) as [[_ ->] | Ga2]; [exact F0 | exact (Hfrom _ _ _ En Ga2)]. }
    destruct (negb isnew) eqn:NI; [apply Ex; exact T1|].
    assert (isnew = true) as -> by (destruct isnew; [reflexivity | discriminate NI]).
    assert (P1 : PF st1) by (eapply PK; [exact PA|]; eapply keeps_trans; [exact KP | eapply keeps_addclientrq; exact A]).
    destruct (m_code msg =? Consts.RAD_Status_Server); [apply Re; [exact P1 | exact T1]|].
    match goal with |- context [if ?g then (freerq st1 h, [] ++ [ORet 1]) else _] => destruct g end; [apply Ex; exact T1|].
    destruct (o_verifyeap (cf_opt cfg) && (m_code msg =? Consts.RAD_Access_Request) && negb (verifyeapformat (m_attrs msg))); [apply Re; [exact P1 | exact T1]|].
    match goal with |- context [match ?x with Some a1 => _ | None => (freerq _ h, [] ++ [ORet 1]) end] => destruct x as [a1|] end;
      [|apply Rm; exact T1].
    destruct (checkttl (o_ttl0 (cf_opt cfg)) (o_ttl1 (cf_opt cfg)) a1) as [ttlres a2].
    assert (OkM : forall m r, rq_ok nc ns r -> rq_ok nc ns (rq_set_msg r m)) by (intros m r X; exact X).
    match goal with |- context [if ttlres =? 0 then (freerq ?stx h, _) else _] => set (st2 := stx) end.
    assert (T2 : T nc ns st2 (add1 e h)) by (subst st2; apply Up; [reflexivity | apply OkM |]; apply Up; [reflexivity | apply OkM | exact T1]).
    assert (P2 : PF st2) by (subst st2; apply PU; [apply PU; [exact P1|] |]; intro r; split; reflexivity).
    destruct (ttlres =? 0); [apply Ex; exact T2|].
    destruct (gettype Consts.RAD_Attr_User_Name a2) as [ua|].
    2:{ destruct (m_code msg =? Consts.RAD_Accounting_Request); [apply Re; [exact P2 | exact T2] | apply Ex; exact T2]. }
    match goal with |- context [match ?x with Some p => _ | None => (freerq _ h, [] ++ [ORet 1]) end] => destruct x as [[uname orig]|] end;
      [|apply Rm; exact T2].
    match goal with |- context [if (nlen uname =? 0) || fs 6 then (freerq (rmclientrq ?stx h _) h, _) else _] => set (st3 := stx) end.
    assert (T3 : T nc ns st3 (add1 e h)) by (subst st3; apply Up; [reflexivity | intros r X; exact X | exact T2]).
    assert (P3 : PF st3) by (subst st3; apply PU; [exact P2|]; intro r; split; reflexivity).
    destruct ((nlen uname =? 0) || fs 6); [apply Rm; exact T3|].
    match goal with |- context [match ?x with Some rl => _ | None => (freerq st3 h, [] ++ [ORet 1]) end] => destruct x as [rl|] eqn:Rl end;
      [|apply Ex; exact T3].
    assert (Rin : In rl (cf_realms cfg)).
    { revert Rl. destruct (existsb (N.eqb 0) uname); [discriminate|]. destruct (fs 15); [discriminate|]. apply id2realm_in. }
    match goal with |- context [choose ?stc ?l] => destruct (choose stc l) as [to stc'] eqn:Ch end.
    assert (T4 : T nc ns stc' (add1 e h)) by (eapply T_choose; [exact Ch | exact T3]).
    assert (P4 : PF stc') by (eapply PK; [exact P3 | eapply keeps_choose; exact Ch]).
    destruct to as [s'|].
    2:{ destruct (rl_msg rl) as [txt|].
        - destruct (m_code msg =? Consts.RAD_Access_Request); [apply Re; [exact P4 | exact T4]|].
          destruct (rl_accresp rl && (m_code msg =? Consts.RAD_Accounting_Request)); [apply Re; [exact P4 | exact T4] | apply Ex; exact T4].
        - destruct (rl_accresp rl && (m_code msg =? Consts.RAD_Accounting_Request)); [apply Re; [exact P4 | exact T4] | apply Ex; exact T4]. }
    assert (Hs' : (s' < ns)%nat).
    { unfold choose in Ch. destruct (choosesrvconf _) as [cidx l'] in Ch. injection Ch as Hc' _.
      destruct cidx as [k|]; [|discriminate]. apply nth_error_In in Hc'. apply (Hcfg rl s' Rin).
      apply in_or_app. destruct (m_code msg =? Consts.RAD_Accounting_Request); [right | left]; exact Hc'. }
    match goal with |- context [if ?g then (freerq stc' h, [] ++ [ORet 1]) else _] => destruct g end; [apply Ex; exact T4|].
    match goal with |- context [match ?x with Some a4 => _ | None => (freerq _ h, [] ++ [ORet 1]) end] => destruct x as [a4|] end;
      [|apply Rm; exact T4].
    match goal with |- context [match ?x with Some a5 => _ | None => (freerq _ h, [] ++ [ORet 1]) end] => destruct x as [a5|] end;
      [|apply Rm; apply Up; [reflexivity | apply OkM | exact T4]].
    match goal with |- context [match ?x with Some a6 => _ | None => (freerq _ h, [] ++ [ORet 1]) end] => destruct x as [a6|] end;
      [|apply Rm; apply Up; [reflexivity | apply OkM | exact T4]].
    match goal with |- context [if ?g then (freerq _ h, [] ++ [ORet 1]) else _] => destruct g end;
      [apply Rm; apply Up; [reflexivity | apply OkM | exact T4]|].
    match goal with |- context [sendrq md5 cfg fs ?stf h] =>
      assert (TF : T nc ns stf (add1 e h)) end.
    { apply Up; [reflexivity | | exact T4]. intros r (X & _ & Z). split; [exact X|]. split; [exact Hs' | exact Z]. }
    match goal with |- context [sendrq md5 cfg fs ?stf h] =>
      pose proof (T_sendrq md5 cfg fs nc ns stf h e TF) as K; destruct (sendrq md5 cfg fs stf h) as [stZ oZ] end.
    cbn [fst] in *. exact K.
  Qed.
End R.

(* ---- replyh, the writer ---- *)
Definition sge (sv' sv : server) : Prop := forall h, sf h sv <= sf h sv'.
Lemma sge_trans a b c : sge a b -> sge b c -> sge a c.
Proof. intros H1 H2 h. specialize (H1 h). specialize (H2 h). lia. Qed.
Lemma sge_same a b : s_slots a = s_slots b -> sge a b.
Proof. intros H h. unfold sf. rewrite H. lia. Qed.
Lemma sge_set_slot_keep sv i h t x : sl_rq (get_slot sv i) = Some h -> sge (set_slot sv i (mkSlot (Some h) t x)) sv.
Proof.
  intros H h'. pose proof (sf_set_slot_eq h' sv i (mkSlot (Some h) t x) (get_slot_in_range _ _ _ H)) as K.
  rewrite H in K. cbn [sl_rq] in K. lia.
Qed.
Lemma sv_ok_same a b : s_slots a = s_slots b -> s_nextid a = s_nextid b -> sv_ok b -> sv_ok a.
Proof. intros H1 H2 [A B]. split; [rewrite H1; exact A | rewrite H2; exact B]. Qed.

Lemma T_set_server_sge nc ns st s sv' e : sv_ok sv' -> sge sv' (get_server st s) -> T nc ns st e -> T nc ns (set_server st s sv') e.
Proof.
  intros Ok Hg Tt. apply (T_set_server_any nc ns st s sv' e e); [|intro h; lia | exact Tt].
  intros _. split; [exact Ok|]. intro h. right. specialize (Hg h). lia.
Qed.

Section W.
  Variable md5 : bytes -> bytes.
  Variable rx : N -> bytes -> option (list (Z * Z)).
  Variable cfg : config.
  Variable fs : N -> bool.
  Variables nc ns : nat.

  Theorem T_replyh st s buf now rnd e : T nc ns st e -> T nc ns (fst (replyh md5 rx cfg fs st s buf now rnd)) e.
  Proof.
    intro T0. unfold replyh. cbv zeta.
    set (stL := set_server st s (set_lost (get_server st s) 0)).
    assert (TL : T nc ns stL e) by (apply T_set_server_same; [reflexivity | reflexivity | exact T0]).
    assert (Same : forall stX ex sv', s_slots sv' = s_slots (get_server stX s) -> s_nextid sv' = s_nextid (get_server stX s) ->
              T nc ns stX ex -> T nc ns (set_server stX s sv') ex)
      by (intros; apply T_set_server_same; assumption).
    destruct (sl_rq (get_slot (get_server stL s) (nth 1 buf 0))) as [h|] eqn:Sl.
    2:{ match goal with |- context [match ?x with Some msg => _ | None => (stL, [ORet 0]) end] => destruct x as [msg|] end; [|exact TL].
        destruct (negb (reply_codes (m_code msg))); exact TL. }
    destruct (get_rq stL h) as [r|] eqn:G.
    2:{ match goal with |- context [match ?x with Some msg => _ | None => (stL, [ORet 0]) end] => destruct x as [msg|] end; [|exact TL].
        destruct (negb (reply_codes (m_code msg))); exact TL. }
    match goal with |- context [match ?x with Some msg => _ | None => (stL, [ORet 0]) end] => destruct x as [msg|] end; [|exact TL].
    destruct (negb (reply_codes (m_code msg))); [exact TL|].
    destruct (sl_tries _ =? 0); [exact TL|].
    destruct (m_mainvalid msg); [exact TL|].
    match goal with |- context [if ?g then (stL, [ORet 1]) else _] => destruct g end; [exact TL|].
    match goal with |- context [if ?g =? Consts.RAD_Status_Server then _ else _] => destruct (g =? Consts.RAD_Status_Server) end.
    { cbn [fst].
      match goal with |- context [freerqoutdata ?stx s ?i] => set (stF := freerqoutdata stx s i) end.
      assert (TF : T nc ns stF e) by (subst stF; apply T_freerqoutdata; apply Same; [reflexivity | reflexivity | exact TL]).
      destruct (s_statsrv (get_server stF s) =? Consts.RSP_STATSRV_AUTO); [apply Same; [reflexivity | reflexivity | exact TF] | exact TF]. }
    match goal with |- context [match ?x with Some a1 => _ | None => (?stx, [ORet 1]) end] => set (stT := stx); destruct x as [a1|] end.
    2:{ cbn [fst]. subst stT. apply Same; [reflexivity | reflexivity|]. apply Same; [reflexivity | reflexivity | exact TL]. }
    assert (TT : T nc ns stT e) by (subst stT; apply Same; [reflexivity | reflexivity|]; apply Same; [reflexivity | reflexivity | exact TL]).
    assert (GT : get_rq stT h = Some r) by exact G.
    destruct (checkttl (o_ttl0 (cf_opt cfg)) (o_ttl1 (cf_opt cfg)) a1) as [ttlres a2].
    destruct (ttlres =? 0); [exact TT|].
    destruct (rq_from r) as [c|] eqn:F; [|exact TT].
    match goal with |- context [match ?x with Some a3 => _ | None => (stT, [ORet 1]) end] => destruct x as [a3|] end; [|exact TT].
    match goal with |- context [match ?x with Some a4 => _ | None => (stT, [ORet 1]) end] => destruct x as [a4|] end; [|exact TT].
    match goal with |- context [match ?x with Some a5 => _ | None => (stT, [ORet 1]) end] => destruct x as [a5|] end; [|exact TT].
    match goal with |- context [match ?x with Some a6 => _ | None => (stT, [ORet 1]) end] => destruct x as [a6|] end; [|exact TT].
    match goal with |- context [if ?g then (stT, [ORet 1]) else _] => destruct g end; [exact TT|].
    match goal with |- context [set_rq stT h ?r1] => set (R1 := r1) end.
    assert (G1 : get_rq (set_rq stT h R1) h = Some R1) by (eapply get_rq_set_rq; exact GT).
    assert (T1 : T nc ns (newrqref (set_rq stT h R1) h) (add1 e h)).
    { apply T_newrqref. assert (Hp := TT). destruct Hp as (_ & _ & Hp).
      eapply T_set_rq; [exact GT | reflexivity | exact (Hp _ _ GT) | exact TT]. }
    assert (Hf : forall r2, get_rq (newrqref (set_rq stT h R1) h) h = Some r2 -> rq_from r2 <> None).
    { intros r2 G2. unfold newrqref in G2. rewrite G1 in G2. rewrite (get_rq_set_rq _ _ _ _ G1) in G2. injection G2 as <-.
      subst R1. cbn [rq_from rq_set_refcount rq_set_msg]. rewrite F. discriminate. }
    pose proof (T_sendreply md5 cfg fs nc ns _ h e Hf T1) as K.
    destruct (sendreply md5 cfg fs (newrqref (set_rq stT h R1) h) h) as [st2 o2]. cbn [fst] in *.
    apply T_freerqoutdata. exact K.
  Qed.

  Lemma nextid_abandon sv b : s_nextid (abandon_server sv b) = s_nextid sv.
  Proof.
    unfold abandon_server, incrementlostrqs. cbv zeta.
    repeat match goal with |- context [if ?g then _ else _] => destruct g end; reflexivity.
  Qed.
  Lemma nextid_incr sv : s_nextid (incrementlostrqs sv) = s_nextid sv.
  Proof. unfold incrementlostrqs. destruct (_ <? _); reflexivity. Qed.

  Lemma T_slots_pass s tick do_resend putfail e : (s < ns)%nat -> forall fuel st i now, T nc ns st e ->
    T nc ns (fst (slots_pass cfg fuel st s i now tick do_resend putfail)) e.
  Proof.
    intro Hs. induction fuel as [|f IH]; intros st i now Tt; [exact Tt|]. cbn [slots_pass]. cbv zeta.
    assert (Nx : forall stX nowX (o : list out), T nc ns stX e ->
              T nc ns (fst (let '(st', o') := slots_pass cfg f stX s (S i) nowX tick do_resend putfail in (st', o ++ o'))) e).
    { intros stX nowX o Tx. pose proof (IH stX (S i) nowX Tx) as K. destruct (slots_pass cfg f stX s (S i) nowX tick do_resend putfail). exact K. }
    destruct (sl_rq (get_slot (get_server st s) (N.of_nat i))) as [h|] eqn:Sl; [|apply Nx; exact Tt].
    destruct (get_rq st h) as [r|]; [|apply Nx; exact Tt].
    destruct (slot_action _ _ _ _ _ _ _) as [[act tries] expiry].
    assert (Sh := Tt). destruct Sh as (_ & (_ & _ & _ & Ss) & _). pose proof (Ss s Hs) as Ok0.
    set (sv := get_server st s) in *.
    match goal with |- context [set_slot ?svw (N.of_nat i) (mkSlot (Some h) ?t1 (sl_expiry (get_slot sv (N.of_nat i))))] =>
      set (SV1 := set_slot svw (N.of_nat i) (mkSlot (Some h) t1 (sl_expiry (get_slot sv (N.of_nat i))))) end.
    assert (L1 : sge SV1 sv).
    { subst SV1. eapply sge_trans; [apply sge_set_slot_keep; exact Sl | apply sge_same; reflexivity]. }
    assert (Ok1 : sv_ok SV1) by (subst SV1; apply sv_ok_set_slot; eapply sv_ok_same; [| |exact Ok0]; reflexivity).
    assert (G1 : sl_rq (get_slot SV1 (N.of_nat i)) = Some h).
    { subst SV1. rewrite (get_slot_set_slot _ _ _ h); [reflexivity | exact Sl]. }
    destruct act.
    - apply Nx. apply T_set_server_same; [reflexivity | reflexivity | exact Tt].
    - apply Nx. apply T_freerqoutdata. apply T_set_server_sge; [exact Ok1 | exact L1 | exact Tt].
    - apply Nx. apply T_freerqoutdata. rewrite set_server_set_server.
      apply T_set_server_sge; [eapply sv_ok_same; [apply slots_abandon | apply nextid_abandon | exact Ok1] | | exact Tt].
      eapply sge_trans; [apply sge_same; apply slots_abandon | exact L1].
    - apply Nx. rewrite set_server_set_server.
      match goal with |- T nc ns (set_server st s (if putfail then incrementlostrqs ?sv2 else ?sv2)) e =>
        assert (L2 : sge sv2 SV1 /\ sv_ok sv2) end.
      { split; [eapply sge_trans; [apply sge_set_slot_keep; exact G1 | apply sge_same; reflexivity]|].
        apply sv_ok_set_slot. eapply sv_ok_same; [| |exact Ok1]; reflexivity. }
      destruct L2 as [L2 Ok2]. destruct putfail.
      + apply T_set_server_sge; [eapply sv_ok_same; [apply slots_incr | apply nextid_incr | exact Ok2] | | exact Tt].
        eapply sge_trans; [apply sge_same; apply slots_incr|]. eapply sge_trans; [exact L2 | exact L1].
      + apply T_set_server_sge; [exact Ok2 | eapply sge_trans; [exact L2 | exact L1] | exact Tt].
  Qed.
End W.

Lemma T_alloc_rq nc ns st r e : rq_refcount r = 1 -> rq_ok nc ns r -> T nc ns st e ->
  T nc ns (fst (alloc_rq st r)) (add1 e (snd (alloc_rq st r))).
Proof.
  intros R Ok (Ti & Sh & Hp). unfold alloc_rq. cbn [fst snd]. split; [|split].
  - intro h. specialize (Ti h).
    change (refs (mkState (st_heap st ++ [Some r]) (st_clients st) (st_servers st)) h) with (refs st h).
    unfold rcount, get_rq in *. cbn [st_heap].
    destruct (Nat.lt_ge_cases h (length (st_heap st))) as [L|L].
    + rewrite (nth_error_app1 _ _ L). unfold add1. lia.
    + rewrite (nth_error_app2 _ _ L). destruct (Nat.eq_dec h (length (st_heap st))) as [->|Hn].
      * rewrite Nat.sub_diag. cbn [nth_error]. unfold add1. rewrite ind_same. lia.
      * destruct (h - length (st_heap st))%nat as [|k] eqn:D; [lia|]. cbn [nth_error]. destruct k; cbn [nth_error]; lia.
  - exact Sh.
  - intros h r1 H. unfold get_rq in H. cbn [st_heap] in H.
    destruct (Nat.lt_ge_cases h (length (st_heap st))) as [L|L].
    + rewrite (nth_error_app1 _ _ L) in H. exact (Hp h r1 H).
    + rewrite (nth_error_app2 _ _ L) in H. destruct (h - length (st_heap st))%nat as [|k]; cbn [nth_error] in H.
      * injection H as <-. exact Ok.
      * destruct k; discriminate H.
Qed.

Section W2.
  Variable md5 : bytes -> bytes.
  Variable cfg : config.
  Variable fs : N -> bool.
  Variables nc ns : nat.

  Lemma T_writer_iteration st s now tick rnd putfail e : (s < ns)%nat -> T nc ns st e ->
    T nc ns (fst (fst (writer_iteration md5 cfg fs st s now tick rnd putfail))) e.
  Proof.
    intros Hs Tt. unfold writer_iteration. cbv zeta.
    match goal with |- context [slots_pass cfg 256 ?stw s 0 now tick ?dr putfail] =>
      assert (Tw : T nc ns stw e) end.
    { apply T_set_server_same; [destruct (s_conreset (get_server st s)); reflexivity | destruct (s_conreset (get_server st s)); reflexivity | exact Tt]. }
    match goal with |- context [slots_pass cfg 256 ?stw s 0 now tick ?dr putfail] =>
      pose proof (T_slots_pass cfg nc ns s tick dr putfail e Hs 256 stw 0%nat now Tw) as K;
      destruct (slots_pass cfg 256 stw s 0 now tick dr putfail) as [st1 o1] end.
    cbn [fst] in K.
    match goal with |- context [if ?g then _ else (st1, o1, rnd)] => destruct g end; [|exact K].
    assert (K2 : forall x, T nc ns (set_server st1 s (set_wr (get_server st1 s) x (s_timeout (get_server st1 s)) (s_newrq (get_server st1 s)) (s_conreset (get_server st1 s)) false)) e)
      by (intro x; apply T_set_server_same; [reflexivity | reflexivity | exact K]).
    destruct (fs 40); [apply K2|]. destruct (fs 41); [apply K2|].
    match goal with |- context [createstatsrvrq ?stc s ?nw rnd] =>
      pose proof (T_alloc_rq nc ns stc (mkRq nw 1 None None (Some (mkMsg Consts.RAD_Status_Server 0 (fst (take_rand rnd 16)) [msgauth_placeholder] false)) None (Some s) None 0 (zeros 16) 0) e eq_refl
                    (conj I (conj Hs (N.le_refl 1))) (K2 _)) as KA;
      unfold createstatsrvrq; destruct (alloc_rq stc _) as [st2 hn] end.
    cbn [fst snd] in KA. pose proof (T_sendrq md5 cfg fs nc ns st2 hn e KA) as KS.
    destruct (sendrq md5 cfg fs st2 hn) as [st3 o2]. exact KS.
  Qed.

  Lemma T_writer_release s tick putfail e : (s < ns)%nat -> forall fuel st now rnd, T nc ns st e ->
    T nc ns (fst (writer_release md5 cfg fs fuel st s now tick rnd putfail)) e.
  Proof.
    intro Hs. induction fuel as [|f IH]; intros st now rnd Tt; [exact Tt|]. cbn [writer_release].
    pose proof (T_writer_iteration st s now tick rnd putfail e Hs Tt) as K.
    destruct (writer_iteration md5 cfg fs st s now tick rnd putfail) as [[st1 o1] rnd']. cbn [fst] in K.
    destruct (s_newrq (get_server st1 s)).
    - pose proof (IH st1 (now + tick * count_tx o1)%Z rnd' K) as K2.
      destruct (writer_release md5 cfg fs f st1 s _ tick rnd' putfail). exact K2.
    - unfold prewait. cbv zeta. cbn [fst]. apply T_set_server_same; [reflexivity | reflexivity | exact K].
  Qed.
End W2.

(* ---- the queue drains, a client goes, a server goes ---- *)
Lemma T_fold_freerq nc ns : forall q st e, T nc ns st (fun h => e h + occ h q) -> T nc ns (fold_left freerq q st) e.
Proof.
  induction q as [|x q IH]; intros st e Tt.
  - cbn [fold_left]. eapply T_weaken; [|exact Tt]. intro h. cbn. lia.
  - cbn [fold_left]. apply IH. apply T_freerq. eapply T_weaken; [|exact Tt].
    intro h. unfold add1. rewrite occ_cons, (ind_sym h x). lia.
Qed.

Lemma T_drain_replyq nc ns st c e : T nc ns st e -> T nc ns (drain_replyq st c) e.
Proof.
  intro Tt. unfold drain_replyq. cbv zeta. apply T_fold_freerq.
  assert (Sh := Tt). destruct Sh as (_ & (_ & _ & Sc & _) & _).
  apply (T_set_client_any nc ns st c _ e); [| intro h; lia | exact Tt].
  intro Hc. split; [cbn [c_rqs]; apply Sc; exact Hc|]. intro h. right. unfold cf. cbn [c_rqs c_replyq]. cbn. lia.
Qed.

Lemma T_removeclient nc ns st c e : T nc ns st e -> T nc ns (removeclient st c) e.
Proof.
  intro Tt. unfold removeclient. apply T_drain_replyq.
  generalize (seq 0 256). intro l. revert st Tt. induction l as [|i l IH]; intros st Tt; [exact Tt|].
  cbn [fold_left]. apply IH. apply T_removeclientrq. exact Tt.
Qed.

Lemma T_freeserver nc ns st s e : T nc ns st e -> T nc ns (freeserver st s) e.
Proof.
  intro Tt. unfold freeserver. generalize (seq 0 256). intro l. revert st Tt. induction l as [|i l IH]; intros st Tt; [exact Tt|].
  cbn [fold_left]. apply IH. apply T_freerqoutdata. exact Tt.
Qed.

Lemma T_init nc ns : T nc ns (init_state nc ns) zero.
Proof.
  split; [|split].
  - intro h. unfold rcount, get_rq, init_state. cbn [st_heap]. destruct h; cbn [nth_error]; lia.
  - unfold shape, init_state, get_client, get_server. cbn [st_clients st_servers]. rewrite !repeat_length.
    split; [reflexivity|]. split; [reflexivity|]. split.
    + intros c Hc. rewrite (nth_indep _ _ (mkClient (repeat None 256) [])) by (rewrite repeat_length; exact Hc).
      rewrite nth_repeat. cbn [c_rqs]. apply repeat_length.
    + intros s Hs. rewrite (nth_indep _ _ (mkServer (repeat empty_slot 256) 0 0 0 0 0%Z 0%Z 0%Z 0%Z false false false)) by (rewrite repeat_length; exact Hs).
      rewrite nth_repeat. split; [cbn [s_slots]; apply repeat_length | cbn [s_nextid]; lia].
  - intros h r H. unfold get_rq, init_state in H. cbn [st_heap] in H. destruct h; discriminate H.
Qed.
