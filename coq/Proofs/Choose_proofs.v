From RSP Require Import Base Consts Choose Spec_C09.
Local Open Scope N_scope.

Definition static_ok (l : list srv) : bool := forallb (fun s => negb (s_dyn s) && known_state s) l.
Definition nonfailing (s : srv) : bool := negb (failing s).

Lemma find_index_app_none {A} (p : A -> bool) pre r :
  existsb p pre = false ->
  find_index p (pre ++ r) = option_map (Nat.add (length pre)) (find_index p r).
Proof.
  induction pre as [|x pre IH]; simpl; intro H.
  - destruct (find_index p r); reflexivity.
  - apply orb_false_iff in H as [Hx Hp]. rewrite Hx, (IH Hp).
    destruct (find_index p r); reflexivity.
Qed.

Lemma find_index_app_some {A} (p : A -> bool) pre r i :
  find_index p pre = Some i -> find_index p (pre ++ r) = Some i.
Proof.
  revert i. induction pre as [|x pre IH]; simpl; intros i H; [discriminate|].
  destruct (p x); [exact H|]. destruct (find_index p pre) as [j|]; [|discriminate].
  rewrite (IH j eq_refl). exact H.
Qed.

Lemma find_index_none {A} (p : A -> bool) l : find_index p l = None <-> existsb p l = false.
Proof.
  induction l as [|x l IH]; simpl; [tauto|]. destruct (p x); simpl.
  - split; discriminate.
  - rewrite <- IH. destruct (find_index p l); simpl; split; congruence.
Qed.

Lemma find_index_ext {A} (p q : A -> bool) l :
  forallb (fun x => Bool.eqb (p x) (q x)) l = true -> find_index p l = find_index q l.
Proof.
  induction l as [|x l IH]; simpl; [reflexivity|]. intro H. apply andb_true_iff in H as [Hx Hl].
  apply eqb_prop in Hx. rewrite Hx, (IH Hl). reflexivity.
Qed.

Lemma nth_ok_app_l {A} (p : A -> bool) pre r i : nth_ok p pre i = true -> nth_ok p (pre ++ r) i = true.
Proof.
  unfold nth_ok. destruct (nth_error pre i) as [x|] eqn:E; [|discriminate].
  rewrite nth_error_app1 by (apply nth_error_Some; congruence). rewrite E. auto.
Qed.

Lemma nth_error_app_l {A} (pre r : list A) i x : nth_error pre i = Some x -> nth_error (pre ++ r) i = Some x.
Proof. intro E. rewrite nth_error_app1 by (apply nth_error_Some; congruence). exact E. Qed.

Lemma nth_error_mid {A} (pre : list A) x r : nth_error (pre ++ x :: r) (length pre) = Some x.
Proof. rewrite nth_error_app2 by lia. rewrite Nat.sub_diag. reflexivity. Qed.

Definition Inv (pre : list srv) (first best : option nat) (bl : N) : Prop :=
  existsb clean pre = false /\
  first = find_index nonfailing pre /\
  match best with
  | None => existsb usable pre = false
  | Some b => nth_ok usable pre b = true /\ (exists x, nth_error pre b = Some x /\ s_lost x = bl) /\
              forallb (fun s => negb (usable s) || (bl <=? s_lost s)) pre = true
  end.

(* classification of a server with a known state *)
Lemma classify s : known_state s = true ->
  (failing s = true /\ waiting s = false /\ usable s = false) \/
  (failing s = false /\ waiting s = true /\ usable s = false) \/
  (failing s = false /\ waiting s = false /\ usable s = true).
Proof.
  unfold known_state, failing, waiting, usable, starting.
  unfold Consts.RSP_SERVER_STATE_FAILING, Consts.RSP_SERVER_STATE_STARTUP, Consts.RSP_SERVER_STATE_RECONNECTING,
    Consts.RSP_SERVER_STATE_CONNECTED, Consts.RSP_SERVER_STATE_BLOCKING_STARTUP.
  destruct (N.eqb_spec (s_state s) 4); destruct (N.eqb_spec (s_state s) 0); destruct (N.eqb_spec (s_state s) 3);
  destruct (N.eqb_spec (s_state s) 2); destruct (N.eqb_spec (s_state s) 1); simpl; intro H; try discriminate; try lia; auto.
Qed.

Lemma snoc_assoc {A} (pre : list A) x r : pre ++ x :: r = (pre ++ [x]) ++ r.
Proof. rewrite <- app_assoc. reflexivity. Qed.

Lemma cloop_inv r : forall pre first best bl,
  static_ok r = true -> Inv pre first best bl ->
  match cloop r (length pre) first best bl with
  | CRet k => find_index clean (pre ++ r) = Some k
  | CCont f b bl' => Inv (pre ++ r) f b bl'
  end.
Proof.
  induction r as [|s r IH]; intros pre first best bl Hs HI.
  - simpl. rewrite app_nil_r. exact HI.
  - simpl in Hs. apply andb_true_iff in Hs as [Hs0 Hr]. apply andb_true_iff in Hs0 as [Hdyn Hk].
    apply negb_true_iff in Hdyn. cbn [cloop]. rewrite Hdyn.
    destruct HI as (Hclean & Hfirst & Hbest).
    assert (Hlen : S (length pre) = length (pre ++ [s])) by (rewrite app_length; simpl; lia).
    rewrite (snoc_assoc pre s r).
    destruct (classify s Hk) as [(Hf & Hw & Hu) | [(Hf & Hw & Hu) | (Hf & Hw & Hu)]]; rewrite Hf.
    + (* failing: skipped *)
      rewrite Hlen. apply IH; [exact Hr|]. repeat split.
      * rewrite existsb_app, Hclean. simpl. unfold clean. rewrite Hu. reflexivity.
      * destruct (find_index nonfailing pre) as [j|] eqn:E.
        -- rewrite (find_index_app_some _ _ _ _ E). exact Hfirst.
        -- apply find_index_none in E. rewrite (find_index_app_none _ _ _ E). simpl.
           unfold nonfailing. rewrite Hf. simpl. exact Hfirst.
      * destruct best as [b|].
        -- destruct Hbest as (Hb1 & (x & Hx1 & Hx2) & Hb3). repeat split.
           ++ apply nth_ok_app_l. exact Hb1.
           ++ exists x. split; [apply nth_error_app_l; exact Hx1 | exact Hx2].
           ++ rewrite forallb_app, Hb3. simpl. rewrite Hu. reflexivity.
        -- rewrite existsb_app, Hbest. simpl. rewrite Hu. reflexivity.
    + (* starting / reconnecting *)
      rewrite Hw. rewrite Hlen. apply IH; [exact Hr|]. repeat split.
      * rewrite existsb_app, Hclean. simpl. unfold clean. rewrite Hu. reflexivity.
      * destruct (find_index nonfailing pre) as [j|] eqn:E.
        -- rewrite (find_index_app_some _ _ _ _ E). rewrite Hfirst. reflexivity.
        -- apply find_index_none in E. rewrite (find_index_app_none _ _ _ E). simpl.
           unfold nonfailing. rewrite Hf. simpl. rewrite Hfirst. f_equal. lia.
      * destruct best as [b|].
        -- destruct Hbest as (Hb1 & (x & Hx1 & Hx2) & Hb3). repeat split.
           ++ apply nth_ok_app_l. exact Hb1.
           ++ exists x. split; [apply nth_error_app_l; exact Hx1 | exact Hx2].
           ++ rewrite forallb_app, Hb3. simpl. rewrite Hu. reflexivity.
        -- rewrite existsb_app, Hbest. simpl. rewrite Hu. reflexivity.
    + (* connected / blocking start-up *)
      rewrite Hw.
      destruct (N.eqb_spec (s_lost s) 0) as [Hz|Hnz].
      * (* clean: returned *)
        rewrite <- app_assoc. rewrite (find_index_app_none _ _ _ Hclean). simpl.
        unfold clean at 1. rewrite Hu, Hz. simpl. f_equal. lia.
      * assert (Hclean' : existsb clean (pre ++ [s]) = false).
        { rewrite existsb_app, Hclean. simpl. unfold clean. rewrite Hu.
          destruct (N.eqb_spec (s_lost s) 0); [contradiction|reflexivity]. }
        assert (Hfirst' : match first with None => Some (length pre) | Some _ => first end = find_index nonfailing (pre ++ [s])).
        { destruct (find_index nonfailing pre) as [j|] eqn:E.
          - rewrite (find_index_app_some _ _ _ _ E). rewrite Hfirst. reflexivity.
          - apply find_index_none in E. rewrite (find_index_app_none _ _ _ E). simpl.
            unfold nonfailing. rewrite Hf. simpl. rewrite Hfirst. f_equal. lia. }
        destruct best as [b|].
        -- destruct Hbest as (Hb1 & (x & Hx1 & Hx2) & Hb3).
           destruct (N.ltb_spec (s_lost s) bl) as [Hlt|Hge].
           ++ rewrite Hlen. apply IH; [exact Hr|]. repeat split; try assumption.
              ** unfold nth_ok. rewrite nth_error_app2 by lia. rewrite Nat.sub_diag. simpl. exact Hu.
              ** exists s. split; [|reflexivity]. rewrite nth_error_app2 by lia. rewrite Nat.sub_diag. reflexivity.
              ** rewrite forallb_app. simpl. rewrite N.leb_refl, orb_true_r, andb_true_r.
                 apply forallb_forall. intros y Hy. rewrite forallb_forall in Hb3. specialize (Hb3 y Hy).
                 apply orb_true_iff in Hb3 as [H1|H1]; [rewrite H1; reflexivity|].
                 apply N.leb_le in H1. apply orb_true_iff. right. apply N.leb_le. lia.
           ++ rewrite Hlen. apply IH; [exact Hr|]. repeat split; try assumption.
              ** apply nth_ok_app_l. exact Hb1.
              ** exists x. split; [apply nth_error_app_l; exact Hx1 | exact Hx2].
              ** rewrite forallb_app, Hb3. simpl. rewrite andb_true_r. apply orb_true_iff. right. apply N.leb_le. lia.
        -- rewrite Hlen. apply IH; [exact Hr|]. repeat split; try assumption.
           ++ unfold nth_ok. rewrite nth_error_app2 by lia. rewrite Nat.sub_diag. simpl. exact Hu.
           ++ exists s. split; [|reflexivity]. rewrite nth_error_app2 by lia. rewrite Nat.sub_diag. reflexivity.
           ++ rewrite forallb_app. simpl. rewrite N.leb_refl, orb_true_r, andb_true_r.
              apply forallb_forall. intros y Hy.
              assert (usable y = false).
              { destruct (usable y) eqn:Uy; [|reflexivity].
                assert (existsb usable pre = true) by (apply existsb_exists; exists y; auto). congruence. }
              rewrite H. reflexivity.
Qed.

Lemma existsb_nth_ok {A} (p : A -> bool) l i : nth_ok p l i = true -> existsb p l = true.
Proof.
  unfold nth_ok. destruct (nth_error l i) as [x|] eqn:E; [|discriminate]. intro H.
  apply existsb_exists. exists x. split; [eapply nth_error_In; eauto | exact H].
Qed.

Theorem choose_spec l : static_ok l = true ->
  spec_choose l (fst (choosesrvconf l)) = true /\ never_failing l (fst (choosesrvconf l)) = true.
Proof.
  intro Hs. unfold choosesrvconf.
  pose proof (cloop_inv l [] None None Consts.MAX_LOSTRQS Hs) as H. simpl in H.
  assert (I0 : Inv [] None None Consts.MAX_LOSTRQS) by (repeat split).
  specialize (H I0).
  destruct (cloop l 0 None None Consts.MAX_LOSTRQS) as [k | f b bl]; cbn [fst].
  - (* returned a clean server *)
    assert (Hex : existsb clean l = true).
    { destruct (existsb clean l) eqn:E; [reflexivity|]. apply find_index_none in E. congruence. }
    unfold spec_choose. rewrite Hex, H, Nat.eqb_refl. split; [reflexivity|].
    unfold never_failing, nth_ok.
    (* the index found is clean hence not failing *)
    clear -H Hs. revert k H Hs. induction l as [|x l IH]; simpl; intros k H Hs; [discriminate|].
    apply andb_true_iff in Hs as [Hx Hl]. apply andb_true_iff in Hx as [_ Hk].
    destruct (clean x) eqn:C.
    + injection H as <-. simpl. unfold clean in C. apply andb_true_iff in C as [U _].
      destruct (classify x Hk) as [(F & _ & U') | [(F & _ & U') | (F & _ & _)]]; try congruence. rewrite F. reflexivity.
    + destruct (find_index clean l) as [j|] eqn:E; [|discriminate]. injection H as <-. simpl. apply (IH j eq_refl Hl).
  - destruct H as (Hclean & Hfirst & Hbest). unfold spec_choose. rewrite Hclean.
    destruct b as [b|].
    + destruct Hbest as (Hb1 & (x & Hx1 & Hx2) & Hb3).
      rewrite (existsb_nth_ok _ _ _ Hb1). rewrite Hb1. simpl. split.
      * rewrite Hx1. rewrite Hx2. exact Hb3.
      * unfold never_failing, nth_ok in *. rewrite Hx1 in *.
        assert (Hkx : known_state x = true).
        { unfold static_ok in Hs. rewrite forallb_forall in Hs. specialize (Hs x (nth_error_In _ _ Hx1)).
          apply andb_true_iff in Hs. tauto. }
        destruct (classify x Hkx) as [(F & _ & U') | [(F & _ & U') | (F & _ & _)]]; try congruence. rewrite F. reflexivity.
    + rewrite Hbest.
      (* without usable servers, non-failing = starting *)
      assert (Hext : forallb (fun s => Bool.eqb (nonfailing s) (starting s)) l = true).
      { apply forallb_forall. intros y Hy.
        assert (Hky : known_state y = true).
        { unfold static_ok in Hs. rewrite forallb_forall in Hs. specialize (Hs y Hy). apply andb_true_iff in Hs. tauto. }
        assert (Uy : usable y = false).
        { destruct (usable y) eqn:U; [|reflexivity].
          assert (existsb usable l = true) by (apply existsb_exists; exists y; auto). congruence. }
        unfold nonfailing. destruct (classify y Hky) as [(F & W & U') | [(F & W & U') | (F & W & U')]]; try congruence;
          rewrite F; unfold waiting in W; unfold starting; rewrite W; reflexivity. }
      rewrite Hfirst, (find_index_ext _ _ _ Hext).
      destruct (existsb starting l) eqn:ES.
      * destruct (find_index starting l) as [j|] eqn:E.
        -- rewrite Nat.eqb_refl. split; [reflexivity|].
           unfold never_failing, nth_ok.
           clear -E Hext. revert j E Hext. induction l as [|x l IH]; simpl; intros j E Hext; [discriminate|].
           apply andb_true_iff in Hext as [Hx Hl]. destruct (starting x) eqn:S1.
           ++ injection E as <-. simpl. apply eqb_prop in Hx. unfold nonfailing in Hx. exact Hx.
           ++ destruct (find_index starting l) as [i|] eqn:E2; [|discriminate]. injection E as <-. simpl. apply (IH i eq_refl Hl).
        -- apply find_index_none in E. congruence.
      * apply find_index_none in ES. rewrite ES. split; reflexivity.
Qed.

Lemma find_index_first {A} (p : A -> bool) l i :
  nth_ok p l i = true -> (forall j, (j < i)%nat -> nth_ok p l j = false) -> find_index p l = Some i.
Proof.
  revert i. induction l as [|x l IH]; intros i Hi Hlt.
  - unfold nth_ok in Hi. destruct i; discriminate.
  - destruct i as [|i].
    + unfold nth_ok in Hi. simpl in Hi. simpl. rewrite Hi. reflexivity.
    + simpl. assert (p x = false) as ->. { specialize (Hlt O). unfold nth_ok in Hlt. simpl in Hlt. apply Hlt. lia. }
      rewrite (IH i); [reflexivity | exact Hi |].
      intros j Hj. specialize (Hlt (S j)). unfold nth_ok in *. simpl in Hlt. apply Hlt. lia.
Qed.

(* fail-back: as soon as an earlier server is connected with a zero count, it is preferred again *)
Theorem choose_failback l i : static_ok l = true ->
  nth_ok clean l i = true -> (forall j, (j < i)%nat -> nth_ok clean l j = false) ->
  fst (choosesrvconf l) = Some i.
Proof.
  intros Hs Hi Hlt. destruct (choose_spec l Hs) as [H _]. unfold spec_choose in H.
  rewrite (existsb_nth_ok _ _ _ Hi) in H. rewrite (find_index_first _ _ _ Hi Hlt) in H.
  destruct (fst (choosesrvconf l)) as [k|]; [|discriminate]. apply Nat.eqb_eq in H. congruence.
Qed.
