(* C02 / C17 over histories: whatever sits in a client's reply queue is (the reply to) a request that came from that
   client -- "every reply a client receives corresponds to a request it sent on that same association". *)
From RSP Require Import Base Consts Ttl Crypt Packet Rewrite Choose Proxy BaseLemmas Packet_proofs Slots_proofs Dup_proofs
  Keeps_proofs Wf_proofs Refs_proofs Tight_proofs Reg_proofs Balance_proofs.
From Coq Require Import ZifyBool ZifyNat ZifyN.
Local Open Scope N_scope.

Definition queued (st : state) (c h : nat) : Prop := In h (c_replyq (get_client st c)).
Definition unqueued (st : state) (h : nat) : Prop := forall c, ~ queued st c h.

Definition RQI (st : state) : Prop := forall c h r, queued st c h -> get_rq st h = Some r -> rq_from r = Some c.

(* b's queues are parts of a's; surviving requests keep their originator *)
Definition R5 (a b : state) : Prop :=
  (forall h r', get_rq b h = Some r' -> exists r, get_rq a h = Some r /\ rq_from r' = rq_from r) /\
  (forall c h, queued b c h -> queued a c h).

Lemma R5_refl a : R5 a a.
Proof. split; [intros h r G; exists r; split; [exact G | reflexivity] | intros c h Q; exact Q]. Qed.

Lemma R5_trans a b c : R5 a b -> R5 b c -> R5 a c.
Proof.
  intros [H1 Q1] [H2 Q2]. split.
  - intros h r G. destruct (H2 _ _ G) as (r1 & G1 & F1). destruct (H1 _ _ G1) as (r0 & G0 & F0). exists r0. split; [exact G0 | congruence].
  - intros x h Q. apply Q1. apply Q2. exact Q.
Qed.

Lemma RQI_R5 a b : RQI a -> R5 a b -> RQI b.
Proof. intros Ra [H Q] c h r Qb G. destruct (H _ _ G) as (r0 & G0 & F). rewrite F. exact (Ra c h r0 (Q _ _ Qb) G0). Qed.

Lemma unqueued_R5 a b h : R5 a b -> unqueued a h -> unqueued b h.
Proof. intros [_ Q] U c Qb. exact (U c (Q _ _ Qb)). Qed.

(* ---- primitives ---- *)
Lemma R5_set_rq st h r r' : get_rq st h = Some r -> rq_from r' = rq_from r -> R5 st (set_rq st h r').
Proof.
  intros G F. split; [|intros c x Q; exact Q].
  intros x r1 H. destruct (get_rq_set_rq_inv _ _ _ _ _ H) as [[-> ->] | H1]; [exists r; split; assumption | exists r1; split; [exact H1 | reflexivity]].
Qed.
Lemma R5_upd_rq st h f : (forall r, rq_from (f r) = rq_from r) -> R5 st (upd_rq st h f).
Proof. intro Hf. unfold upd_rq. destruct (get_rq st h) as [r|] eqn:G; [|apply R5_refl]. eapply R5_set_rq; [exact G | apply Hf]. Qed.
Lemma R5_del_rq st h : R5 st (del_rq st h).
Proof. split; [|intros c x Q; exact Q]. intros x r H. exists r. split; [exact (get_rq_del_rq_inv _ _ _ _ H) | reflexivity]. Qed.
Lemma R5_newrqref st h : R5 st (newrqref st h).
Proof. unfold newrqref. destruct (get_rq st h) as [r|] eqn:G; [|apply R5_refl]. eapply R5_set_rq; [exact G | reflexivity]. Qed.
Lemma R5_freerq st h : R5 st (freerq st h).
Proof.
  unfold freerq. destruct (get_rq st h) as [r|] eqn:G; [|apply R5_refl].
  destruct (rq_refcount r <=? 1); [apply R5_del_rq | eapply R5_set_rq; [exact G | reflexivity]].
Qed.
Lemma R5_set_server st s x : R5 st (set_server st s x).
Proof. split; [intros h r G; exists r; split; [exact G | reflexivity] | intros c h Q; exact Q]. Qed.

(* a client record whose reply queue is part of the old one *)
Lemma R5_set_client st c cl' : (forall h, In h (c_replyq cl') -> queued st c h) -> R5 st (set_client st c cl').
Proof.
  intro H. split; [intros h r G; exists r; split; [exact G | reflexivity]|].
  intros c' h Q. unfold queued in *.
  destruct (Nat.lt_ge_cases c (length (st_clients st))) as [L|L].
  - rewrite get_client_set_client in Q by exact L. destruct (Nat.eqb_spec c' c) as [->|_]; [apply H; exact Q | exact Q].
  - rewrite set_client_out in Q by exact L. exact Q.
Qed.

Lemma R5_freerqoutdata st s i : R5 st (freerqoutdata st s i).
Proof.
  unfold freerqoutdata. cbv zeta. eapply R5_trans; [|apply R5_set_server].
  destruct (sl_rq (get_slot (get_server st s) i)) as [h|]; [|apply R5_refl].
  destruct (get_rq st h) as [r|] eqn:G; [|apply R5_refl].
  eapply R5_trans; [|apply R5_freerq]. eapply R5_set_rq; [exact G | reflexivity].
Qed.

Lemma R5_removeclientrq st c i : R5 st (removeclientrq st c i).
Proof.
  unfold removeclientrq. cbv zeta.
  destruct (nth (N.to_nat i) (c_rqs (get_client st c)) None) as [h|]; [|apply R5_refl].
  destruct (get_rq st h) as [r|]; [|apply R5_refl].
  eapply R5_trans; [|apply R5_freerq].
  set (st1 := match rq_to r with Some s => _ | None => st end).
  assert (K1 : R5 st st1).
  { subst st1. destruct (rq_to r) as [s|]; [|apply R5_refl]. destruct (sl_rq _) as [h'|]; [|apply R5_refl].
    destruct (Nat.eqb h' h); [apply R5_freerqoutdata | apply R5_refl]. }
  eapply R5_trans; [exact K1|]. apply R5_set_client. intros x Hx. exact Hx.
Qed.

(* rmclientrq detaches a request from its client: fine as long as no reply to it is queued *)
Lemma RQI_rmclientrq st h id : unqueued st h -> RQI st -> RQI (rmclientrq st h id).
Proof.
  intros U Rq. unfold rmclientrq. destruct (get_rq st h) as [r|] eqn:G; [|exact Rq].
  destruct (rq_from r) as [c|]; [|exact Rq].
  destruct (nth (N.to_nat id) (c_rqs (get_client st c)) None) as [h'|]; [|exact Rq].
  eapply RQI_R5; [|apply R5_freerq].
  set (stc := set_client st c _).
  assert (Kc : R5 st stc) by (subst stc; apply R5_set_client; intros x Hx; exact Hx).
  intros c' x rx0 Q Gx. change (queued stc c' x) in Q.
  destruct (get_rq_set_rq_inv _ _ _ _ _ Gx) as [[-> _] | G1].
  - exfalso. exact (U c' (proj2 Kc _ _ Q)).
  - exact (Rq c' x rx0 (proj2 Kc _ _ Q) G1).
Qed.

Lemma unqueued_rmclientrq st h id x : unqueued st x -> unqueued (rmclientrq st h id) x.
Proof.
  intro U. unfold rmclientrq. destruct (get_rq st h) as [r|]; [|exact U].
  destruct (rq_from r) as [c|]; [|exact U].
  destruct (nth (N.to_nat id) (c_rqs (get_client st c)) None) as [h'|]; [|exact U].
  eapply unqueued_R5; [apply R5_freerq|]. intros c' Q. apply (U c').
  change (queued (set_client st c (mkClient (upd (c_rqs (get_client st c)) (N.to_nat id) None) (c_replyq (get_client st c)))) c' x) in Q.
  exact (proj2 (R5_set_client st c (mkClient (upd (c_rqs (get_client st c)) (N.to_nat id) None) (c_replyq (get_client st c))) (fun y Hy => Hy)) _ _ Q).
Qed.

Section H.
  Variable md5 : bytes -> bytes.
  Variable cfg : config.
  Variable fs : N -> bool.

  (* sendreply queues the reply for the client the request came from *)
  Lemma RQI_sendreply st h : RQI st -> RQI (fst (sendreply md5 cfg fs st h)).
  Proof.
    intro Rq. unfold sendreply. destruct (get_rq st h) as [r|] eqn:G; [|exact Rq].
    destruct (rq_from r) as [c|] eqn:F; [|exact Rq]. cbv zeta.
    match goal with |- context [set_rq st h ?r1] => set (R1 := r1) end.
    assert (K1 : R5 st (set_rq st h R1)) by (eapply R5_set_rq; [exact G | reflexivity]).
    assert (G1 : get_rq (set_rq st h R1) h = Some R1) by (eapply get_rq_set_rq; exact G).
    match goal with |- context [if fs 14 then None else ?rb] => destruct (if fs 14 then None else rb) as [b|] end; cbn [fst].
    - intros c' x rx0 Q Gx. change (get_rq (set_rq st h R1) x = Some rx0) in Gx. unfold queued in Q.
      destruct (Nat.lt_ge_cases c (length (st_clients (set_rq st h R1)))) as [L|L].
      + rewrite get_client_set_client in Q by exact L. destruct (Nat.eqb_spec c' c) as [->|_].
        * cbn [c_replyq] in Q. apply in_app_or in Q. destruct Q as [Q | [<- | []]].
          -- exact (RQI_R5 _ _ Rq K1 c x rx0 Q Gx).
          -- rewrite G1 in Gx. injection Gx as <-. subst R1. cbn [rq_from rq_set_msg rq_set_replybuf]. exact F.
        * exact (RQI_R5 _ _ Rq K1 c' x rx0 Q Gx).
      + rewrite set_client_out in Q by exact L. exact (RQI_R5 _ _ Rq K1 c' x rx0 Q Gx).
    - eapply RQI_R5; [exact Rq|]. eapply R5_trans; [exact K1 | apply R5_freerq].
  Qed.

  Lemma RQI_respond st h code extra ma : RQI st -> RQI (fst (respond md5 cfg fs st h code extra ma)).
  Proof.
    intro Rq. unfold respond. destruct (get_rq st h) as [r|] eqn:G; [|exact Rq].
    destruct (rq_msg r) as [m|]; [|exact Rq]. cbv zeta.
    match goal with |- context [match ?x with Some a1 => _ | None => (st, []) end] => destruct x as [a1|] end; [|exact Rq].
    match goal with |- context [set_rq st h ?r1] => set (R1 := r1) end.
    apply RQI_sendreply. eapply RQI_R5; [exact Rq|]. eapply R5_trans; [|apply R5_newrqref].
    eapply R5_set_rq; [exact G | reflexivity].
  Qed.

  Lemma R5_purge_f c now : forall fuel st i, R5 st (purge_f cfg fuel st c i now).
  Proof.
    induction fuel as [|f IH]; intros st i; [apply R5_refl|]. cbn [purge_f]. cbv zeta.
    eapply R5_trans; [|apply IH].
    destruct (nth i (c_rqs (get_client st c)) None) as [h|]; [|apply R5_refl].
    destruct (get_rq st h) as [r|]; [|apply R5_refl].
    match goal with |- context [if ?g then _ else _] => destruct g end; [apply R5_removeclientrq | apply R5_refl].
  Qed.
  Lemma R5_purgedupcache st c now : R5 st (purgedupcache cfg st c now).
  Proof. unfold purgedupcache. generalize 256%nat. intro n. apply R5_purge_f. Qed.

  (* addclientrq: a registration changes no queue (R5); a repeat may queue the stored reply of the earlier copy *)
  Lemma RQI_addclientrq st h c now isnew st' o : addclientrq md5 cfg fs st h c now = (isnew, st', o) -> RQI st ->
    RQI st' /\ (isnew = true -> R5 st st').
  Proof.
    unfold addclientrq. intros A Rq. destruct (get_rq st h) as [rq|]; [|injection A as <- <- _; split; [exact Rq | discriminate]]. cbv zeta in A.
    assert (Reg : forall stx, R5 stx (newrqref (set_client stx c (mkClient (upd (c_rqs (get_client stx c)) (N.to_nat (rq_rqid rq)) (Some h)) (c_replyq (get_client stx c)))) h)).
    { intro stx. eapply R5_trans; [|apply R5_newrqref]. apply R5_set_client. intros x Hx. exact Hx. }
    destruct (nth (N.to_nat (rq_rqid rq)) (c_rqs (get_client st c)) None) as [h'|].
    2:{ injection A as _ <- _. split; [eapply RQI_R5; [exact Rq | apply Reg] | intros _; apply Reg]. }
    destruct (get_rq st h') as [r|].
    2:{ injection A as _ <- _. split; [eapply RQI_R5; [exact Rq | apply Reg] | intros _; apply Reg]. }
    match type of A with context [if ?g then _ else _] => destruct g end.
    - destruct (rq_replybuf r).
      + destruct (sendreply md5 cfg fs (newrqref st h') h') as [st1 o1] eqn:SR. injection A as <- <- _.
        split; [|discriminate]. change st1 with (fst (st1, o1)). rewrite <- SR. apply RQI_sendreply.
        eapply RQI_R5; [exact Rq | apply R5_newrqref].
      + injection A as <- <- _. split; [exact Rq | discriminate].
    - injection A as _ <- _.
      assert (K : R5 st (newrqref (set_client (removeclientrq st c (rq_rqid rq)) c (mkClient (upd (c_rqs (get_client (removeclientrq st c (rq_rqid rq)) c)) (N.to_nat (rq_rqid rq)) (Some h)) (c_replyq (get_client (removeclientrq st c (rq_rqid rq)) c)))) h))
        by (eapply R5_trans; [apply R5_removeclientrq | apply Reg]).
      split; [eapply RQI_R5; [exact Rq | exact K] | intros _; exact K].
  Qed.

  Lemma R5_internal_sendrq st s id h st1 o : internal_sendrq md5 cfg fs st s id h = Some (st1, o) -> R5 st st1.
  Proof.
    unfold internal_sendrq. cbv zeta. intro I.
    destruct (sl_rq (get_slot (get_server st s) id)); [discriminate|].
    destruct (get_rq st h) as [r|] eqn:G; [|discriminate].
    destruct (rq_msg r) as [m|]; [|discriminate].
    destruct (fs (100 + id)); [discriminate|].
    destruct (radmsg2buf md5 (set_id m id) (sc_secret (srvconf_of cfg s))) as [[[b a]|]|]; try discriminate.
    injection I as <- _. eapply R5_trans; [|apply R5_set_server]. eapply R5_set_rq; [exact G | reflexivity].
  Qed.

  Lemma R5_scan_ids s h : forall fuel st i limit k st1 o, scan_ids md5 cfg fs fuel st s i limit h = Some (k, st1, o) -> R5 st st1.
  Proof.
    induction fuel as [|f IH]; intros st i limit k st1 o Sc; [discriminate|]. cbn [scan_ids] in Sc.
    destruct (limit <=? i); [discriminate|].
    destruct (internal_sendrq md5 cfg fs st s i h) as [[st2 o2]|] eqn:I.
    - injection Sc as _ <- _. eapply R5_internal_sendrq; eassumption.
    - eapply IH; eassumption.
  Qed.

  (* sendrq: when it has to forget the request (no identifier) no reply to it may be queued *)
  Lemma RQI_sendrq st h : unqueued st h -> RQI st -> RQI (fst (sendrq md5 cfg fs st h)).
  Proof.
    intros U Rq.
    assert (Fail : forall stx, unqueued stx h -> RQI stx ->
              RQI (freerq (match get_rq stx h with
                           | Some r' => match rq_from r' with Some _ => rmclientrq stx h (rq_rqid r') | None => stx end
                           | None => stx end) h)).
    { intros stx Ux Rx. eapply RQI_R5; [|apply R5_freerq]. destruct (get_rq stx h) as [r'|]; [|exact Rx].
      destruct (rq_from r'); [apply RQI_rmclientrq; assumption | exact Rx]. }
    pose proof (Fail st U Rq) as F0.
    unfold sendrq. destruct (get_rq st h) as [r|] eqn:G; [|exact Rq]. cbv zeta.
    destruct (rq_to r) as [s|]; [|cbn [fst]; exact F0].
    match goal with |- context [if ?c then _ else _] => destruct c end.
    - destruct (internal_sendrq md5 cfg fs st s 0 h) as [[st1 o1]|] eqn:I; cbn [fst]; [|exact F0].
      eapply RQI_R5; [exact Rq|]. eapply R5_trans; [eapply R5_internal_sendrq; exact I | apply R5_set_server].
    - match goal with |- context [scan_ids md5 cfg fs 257 ?st0 s ?a Consts.MAX_REQUESTS h] => set (ST0 := st0) end.
      assert (K0 : R5 st ST0) by apply R5_set_server.
      match goal with |- context [scan_ids md5 cfg fs 257 ST0 s ?a Consts.MAX_REQUESTS h] =>
        destruct (scan_ids md5 cfg fs 257 ST0 s a Consts.MAX_REQUESTS h) as [[[k st1] o1]|] eqn:S1 end.
      + cbn [fst]. eapply RQI_R5; [exact Rq|]. eapply R5_trans; [exact K0|]. eapply R5_trans; [eapply R5_scan_ids; exact S1|].
        eapply R5_trans; [|apply R5_set_server]. destruct (_ <=? k); [apply R5_set_server | apply R5_refl].
      + match goal with |- context [scan_ids md5 cfg fs 257 ST0 s ?a ?b' h] =>
          destruct (scan_ids md5 cfg fs 257 ST0 s a b' h) as [[[k st1] o1]|] eqn:S2 end; cbn [fst].
        * eapply RQI_R5; [exact Rq|]. eapply R5_trans; [exact K0|]. eapply R5_trans; [eapply R5_scan_ids; exact S2|].
          eapply R5_trans; [|apply R5_set_server]. destruct (_ <=? k); [apply R5_set_server | apply R5_refl].
        * apply Fail; [eapply unqueued_R5; [exact K0 | exact U] | eapply RQI_R5; [exact Rq | exact K0]].
  Qed.

  Lemma R5_choose st idxs to st' : choose st idxs = (to, st') -> R5 st st'.
  Proof.
    unfold choose. destruct (choosesrvconf _) as [cidx l']. intro H. injection H as _ <-.
    generalize (combine idxs l'). intro l. revert st. induction l as [|p l IH]; intro st; [apply R5_refl|].
    cbn [fold_left]. eapply R5_trans; [apply R5_set_server | apply IH].
  Qed.
End H.

(* a reply queue entry is a holder *)
Lemma occ_pos h : forall q, In h q -> 1 <= occ h q.
Proof.
  induction q as [|x q IH]; intro H; [destruct H|]. rewrite occ_cons. destruct H as [-> | H]; [rewrite ind_same; lia | specialize (IH H); lia].
Qed.

Lemma queued_refs st c h : queued st c h -> 1 <= refs st h.
Proof.
  intro Q. unfold queued in Q.
  assert (L : (c < length (st_clients st))%nat).
  { destruct (Nat.lt_ge_cases c (length (st_clients st))) as [L|L]; [exact L|]. rewrite (get_client_out st c L) in Q. destruct Q. }
  rewrite refs_eq. pose proof (sumN_ge (cf h) (mkClient [] []) (st_clients st) c L) as K. fold (get_client st c) in K.
  unfold cf in K at 1. pose proof (occ_pos h _ Q). lia.
Qed.

Lemma unqueued_fresh st e h : safe st (add1 e h) -> (forall r, get_rq st h = Some r -> rq_refcount r = 1) -> unqueued st h.
Proof.
  intros S H1 c Q. pose proof (queued_refs _ _ _ Q) as K. specialize (S h). unfold add1 in S. rewrite ind_same in S.
  unfold rcount in S. destruct (get_rq st h) as [r|]; [rewrite (H1 r eq_refl) in S|]; lia.
Qed.

Lemma RQI_alloc_rq st r : safe st zero -> RQI st -> RQI (fst (alloc_rq st r)).
Proof.
  intros S Rq c x rx0 Q Gx. unfold alloc_rq in *. cbn [fst] in *. change (queued st c x) in Q.
  unfold get_rq in Gx. cbn [st_heap] in Gx.
  destruct (Nat.lt_ge_cases x (length (st_heap st))) as [L|L].
  - rewrite (nth_error_app1 _ _ L) in Gx. exact (Rq _ _ _ Q Gx).
  - exfalso. pose proof (queued_refs _ _ _ Q) as K. specialize (S x). unfold zero, rcount, get_rq in S.
    rewrite (proj2 (nth_error_None _ _) L) in S. lia.
Qed.

Section R.
  Variable md5 : bytes -> bytes.
  Variable rx : N -> bytes -> option (list (Z * Z)).
  Variable cfg : config.
  Variable fs : N -> bool.

  Theorem RQI_radsrv st h c now rnd : unqueued st h -> RQI st -> RQI (fst (radsrv md5 rx cfg fs st h c now rnd)).
  Proof.
    intros U0 Rq0. unfold radsrv. destruct (get_rq st h) as [r0|] eqn:H0; [|exact Rq0]. cbv zeta.
    set (stB := set_rq st h (rq_set_buf r0 None)).
    assert (KB : R5 st stB) by (eapply R5_set_rq; [exact H0 | reflexivity]).
    assert (GB : get_rq stB h = Some (rq_set_buf r0 None)) by (eapply get_rq_set_rq; exact H0).
    assert (Fin : forall stX, R5 st stX -> RQI stX) by (intros stX KX; eapply RQI_R5; [exact Rq0 | exact KX]).
    assert (Ex : forall stX (o : list out), RQI stX -> RQI (fst (freerq stX h, o ++ [ORet 1])))
      by (intros stX o Rx; cbn [fst]; eapply RQI_R5; [exact Rx | apply R5_freerq]).
    assert (Rm : forall stX (o : list out) id, R5 st stX -> RQI (fst (freerq (rmclientrq stX h id) h, o ++ [ORet 1]))).
    { intros stX o id KX. cbn [fst]. eapply RQI_R5; [|apply R5_freerq]. apply RQI_rmclientrq; [eapply unqueued_R5; [exact KX | exact U0] | exact (Fin _ KX)]. }
    assert (Re : forall stX code extra ma, RQI stX ->
              RQI (fst (let '(st1, o) := respond md5 cfg fs stX h code extra ma in (freerq st1 h, o ++ [ORet 1])))).
    { intros stX code extra ma Rx. pose proof (RQI_respond md5 cfg fs stX h code extra ma Rx) as K.
      destruct (respond md5 cfg fs stX h code extra ma) as [st1 o]. cbn [fst] in *. eapply RQI_R5; [exact K | apply R5_freerq]. }
    match goal with |- context [match ?x with Some msg => _ | None => (freerq _ h, [ORet 0]) end] => destruct x as [msg|] end;
      [|cbn [fst]; apply Fin; eapply R5_trans; [exact KB | apply R5_freerq]].
    destruct (m_mainvalid msg); [cbn [fst]; apply Fin; eapply R5_trans; [exact KB | apply R5_freerq]|].
    match goal with |- context [set_rq stB h ?r1] => set (R1 := r1) end.
    set (stA := set_rq stB h R1).
    assert (KA : R5 st stA) by (eapply R5_trans; [exact KB|]; eapply R5_set_rq; [exact GB | reflexivity]).
    assert (UpK : forall stX f, (forall r, rq_from (f r) = rq_from r) -> R5 st stX -> R5 st (upd_rq stX h f))
      by (intros stX f Hf KX; eapply R5_trans; [exact KX | apply R5_upd_rq; exact Hf]).
    destruct ((m_code msg =? Consts.RAD_Disconnect_Request) || (m_code msg =? Consts.RAD_CoA_Request)); [apply Re; exact (Fin _ KA)|].
    destruct (negb _); [apply Ex; exact (Fin _ KA)|].
    destruct (addclientrq md5 cfg fs _ h c now) as [[isnew st1] o0] eqn:A.
    assert (KP : R5 st (purgedupcache cfg stA c now)) by (eapply R5_trans; [exact KA | apply R5_purgedupcache]).
    destruct (RQI_addclientrq md5 cfg fs _ _ _ _ _ _ _ A (Fin _ KP)) as [R1' K1'].
    destruct (negb isnew) eqn:NI; [apply Ex; exact R1'|].
    assert (isnew = true) as -> by (destruct isnew; [reflexivity | discriminate NI]).
    assert (K1 : R5 st st1) by (eapply R5_trans; [exact KP | exact (K1' eq_refl)]).
    destruct (m_code msg =? Consts.RAD_Status_Server); [apply Re; exact R1'|].
    match goal with |- context [if ?g then (freerq st1 h, [] ++ [ORet 1]) else _] => destruct g end; [apply Ex; exact R1'|].
    destruct (o_verifyeap (cf_opt cfg) && (m_code msg =? Consts.RAD_Access_Request) && negb (verifyeapformat (m_attrs msg))); [apply Re; exact R1'|].
    match goal with |- context [match ?x with Some a1 => _ | None => (freerq _ h, [] ++ [ORet 1]) end] => destruct x as [a1|] end;
      [|apply Rm; exact K1].
    destruct (checkttl (o_ttl0 (cf_opt cfg)) (o_ttl1 (cf_opt cfg)) a1) as [ttlres a2].
    match goal with |- context [if ttlres =? 0 then (freerq ?stx h, _) else _] => set (st2 := stx) end.
    assert (K2 : R5 st st2) by (subst st2; apply UpK; [intro r; reflexivity|]; apply UpK; [intro r; reflexivity | exact K1]).
    destruct (ttlres =? 0); [apply Ex; exact (Fin _ K2)|].
    destruct (gettype Consts.RAD_Attr_User_Name a2) as [ua|].
    2:{ destruct (m_code msg =? Consts.RAD_Accounting_Request); [apply Re | apply Ex]; exact (Fin _ K2). }
    match goal with |- context [match ?x with Some p => _ | None => (freerq _ h, [] ++ [ORet 1]) end] => destruct x as [[uname orig]|] end;
      [|apply Rm; exact K2].
    match goal with |- context [if (nlen uname =? 0) || fs 6 then (freerq (rmclientrq ?stx h _) h, _) else _] => set (st3 := stx) end.
    assert (K3 : R5 st st3) by (subst st3; apply UpK; [intro r; reflexivity | exact K2]).
    destruct ((nlen uname =? 0) || fs 6); [apply Rm; exact K3|].
    match goal with |- context [match ?x with Some rl => _ | None => (freerq st3 h, [] ++ [ORet 1]) end] => destruct x as [rl|] end;
      [|apply Ex; exact (Fin _ K3)].
    match goal with |- context [choose ?stc ?l] => destruct (choose stc l) as [to stc'] eqn:Ch end.
    assert (K4 : R5 st stc') by (eapply R5_trans; [exact K3 | eapply R5_choose; exact Ch]).
    destruct to as [s'|].
    2:{ destruct (rl_msg rl) as [txt|].
        - destruct (m_code msg =? Consts.RAD_Access_Request); [apply Re; exact (Fin _ K4)|].
          destruct (rl_accresp rl && (m_code msg =? Consts.RAD_Accounting_Request)); [apply Re | apply Ex]; exact (Fin _ K4).
        - destruct (rl_accresp rl && (m_code msg =? Consts.RAD_Accounting_Request)); [apply Re | apply Ex]; exact (Fin _ K4). }
    match goal with |- context [if ?g then (freerq stc' h, [] ++ [ORet 1]) else _] => destruct g end; [apply Ex; exact (Fin _ K4)|].
    match goal with |- context [match ?x with Some a4 => _ | None => (freerq _ h, [] ++ [ORet 1]) end] => destruct x as [a4|] end;
      [|apply Rm; exact K4].
    match goal with |- context [match ?x with Some a5 => _ | None => (freerq _ h, [] ++ [ORet 1]) end] => destruct x as [a5|] end;
      [|apply Rm; apply UpK; [intro r; reflexivity | exact K4]].
    match goal with |- context [match ?x with Some a6 => _ | None => (freerq _ h, [] ++ [ORet 1]) end] => destruct x as [a6|] end;
      [|apply Rm; apply UpK; [intro r; reflexivity | exact K4]].
    match goal with |- context [if ?g then (freerq _ h, [] ++ [ORet 1]) else _] => destruct g end;
      [apply Rm; apply UpK; [intro r; reflexivity | exact K4]|].
    match goal with |- context [sendrq md5 cfg fs ?stf h] =>
      assert (KF : R5 st stf) by (apply UpK; [intro r; reflexivity | exact K4]);
      pose proof (RQI_sendrq md5 cfg fs stf h ltac:(eapply unqueued_R5; [exact KF | exact U0]) (Fin _ KF)) as K;
      destruct (sendrq md5 cfg fs stf h) as [stZ oZ] end.
    cbn [fst] in *. exact K.
  Qed.

  Theorem RQI_replyh st s buf now rnd : RQI st -> RQI (fst (replyh md5 rx cfg fs st s buf now rnd)).
  Proof.
    intro Rq0. unfold replyh. cbv zeta.
    set (stL := set_server st s (set_lost (get_server st s) 0)).
    assert (RL : RQI stL) by (eapply RQI_R5; [exact Rq0 | apply R5_set_server]).
    assert (Same : forall stX x, RQI stX -> RQI (set_server stX s x)) by (intros stX x Rx; eapply RQI_R5; [exact Rx | apply R5_set_server]).
    destruct (sl_rq (get_slot (get_server stL s) (nth 1 buf 0))) as [h|] eqn:Sl.
    2:{ match goal with |- context [match ?x with Some msg => _ | None => (stL, [ORet 0]) end] => destruct x as [msg|] end; [|exact RL].
        destruct (negb (reply_codes (m_code msg))); exact RL. }
    destruct (get_rq stL h) as [r|] eqn:G.
    2:{ match goal with |- context [match ?x with Some msg => _ | None => (stL, [ORet 0]) end] => destruct x as [msg|] end; [|exact RL].
        destruct (negb (reply_codes (m_code msg))); exact RL. }
    match goal with |- context [match ?x with Some msg => _ | None => (stL, [ORet 0]) end] => destruct x as [msg|] end; [|exact RL].
    destruct (negb (reply_codes (m_code msg))); [exact RL|].
    destruct (sl_tries _ =? 0); [exact RL|].
    destruct (m_mainvalid msg); [exact RL|].
    match goal with |- context [if ?g then (stL, [ORet 1]) else _] => destruct g end; [exact RL|].
    match goal with |- context [if ?g =? Consts.RAD_Status_Server then _ else _] => destruct (g =? Consts.RAD_Status_Server) end.
    { cbn [fst].
      match goal with |- context [freerqoutdata ?stx s ?i] => set (stF := freerqoutdata stx s i) end.
      assert (RF : RQI stF) by (subst stF; eapply RQI_R5; [apply Same; exact RL | apply R5_freerqoutdata]).
      destruct (s_statsrv (get_server stF s) =? Consts.RSP_STATSRV_AUTO); [apply Same; exact RF | exact RF]. }
    match goal with |- context [match ?x with Some a1 => _ | None => (?stx, [ORet 1]) end] => set (stT := stx) end.
    assert (RT : RQI stT) by (subst stT; apply Same; apply Same; exact RL).
    match goal with |- context [match ?x with Some a1 => _ | None => (stT, [ORet 1]) end] => destruct x as [a1|] end; [|exact RT].
    assert (GT : get_rq stT h = Some r) by exact G.
    destruct (checkttl (o_ttl0 (cf_opt cfg)) (o_ttl1 (cf_opt cfg)) a1) as [ttlres a2].
    destruct (ttlres =? 0); [exact RT|].
    destruct (rq_from r) as [c|]; [|exact RT].
    match goal with |- context [match ?x with Some a3 => _ | None => (stT, [ORet 1]) end] => destruct x as [a3|] end; [|exact RT].
    match goal with |- context [match ?x with Some a4 => _ | None => (stT, [ORet 1]) end] => destruct x as [a4|] end; [|exact RT].
    match goal with |- context [match ?x with Some a5 => _ | None => (stT, [ORet 1]) end] => destruct x as [a5|] end; [|exact RT].
    match goal with |- context [match ?x with Some a6 => _ | None => (stT, [ORet 1]) end] => destruct x as [a6|] end; [|exact RT].
    match goal with |- context [if ?g then (stT, [ORet 1]) else _] => destruct g end; [exact RT|].
    match goal with |- context [set_rq stT h ?r1] => set (R1 := r1) end.
    assert (R1q : RQI (newrqref (set_rq stT h R1) h)).
    { eapply RQI_R5; [exact RT|]. apply (R5_trans _ (set_rq stT h R1)); [apply (R5_set_rq stT h r R1 GT); reflexivity | apply R5_newrqref]. }
    pose proof (RQI_sendreply md5 cfg fs _ h R1q) as K.
    destruct (sendreply md5 cfg fs (newrqref (set_rq stT h R1) h) h) as [st2 o2]. cbn [fst] in *.
    eapply RQI_R5; [exact K | apply R5_freerqoutdata].
  Qed.
End R.

Section W.
  Variable md5 : bytes -> bytes.
  Variable cfg : config.
  Variable fs : N -> bool.

  Lemma R5_slots_pass s tick do_resend putfail : forall fuel st i now, R5 st (fst (slots_pass cfg fuel st s i now tick do_resend putfail)).
  Proof.
    induction fuel as [|f IH]; intros st i now; [apply R5_refl|]. cbn [slots_pass]. cbv zeta.
    assert (Nx : forall stX nowX (o : list out), R5 st stX ->
              R5 st (fst (let '(st', o') := slots_pass cfg f stX s (S i) nowX tick do_resend putfail in (st', o ++ o')))).
    { intros stX nowX o Kx. pose proof (IH stX (S i) nowX) as K. destruct (slots_pass cfg f stX s (S i) nowX tick do_resend putfail).
      cbn [fst] in *. eapply R5_trans; eassumption. }
    destruct (sl_rq (get_slot (get_server st s) (N.of_nat i))) as [h|]; [|apply Nx; apply R5_refl].
    destruct (get_rq st h) as [r|]; [|apply Nx; apply R5_refl].
    destruct (slot_action _ _ _ _ _ _ _) as [[act tries] expiry].
    destruct act; apply Nx.
    - apply R5_set_server.
    - eapply R5_trans; [apply R5_set_server | apply R5_freerqoutdata].
    - eapply R5_trans; [apply R5_set_server|]. eapply R5_trans; [apply R5_set_server | apply R5_freerqoutdata].
    - eapply R5_trans; apply R5_set_server.
  Qed.

  Lemma RQI_writer_iteration st s now tick rnd putfail : safe st zero -> RQI st ->
    RQI (fst (fst (writer_iteration md5 cfg fs st s now tick rnd putfail))).
  Proof.
    intros Hs Rq. unfold writer_iteration. cbv zeta.
    match goal with |- context [slots_pass cfg 256 ?stw s 0 now tick ?dr putfail] =>
      pose proof (R5_slots_pass s tick dr putfail 256 stw 0%nat now) as K;
      pose proof (safe_slots_pass cfg s tick dr putfail zero 256 stw 0%nat now
                    ltac:(apply safe_set_server_sle; [apply sle_same; destruct (s_conreset (get_server st s)); reflexivity | exact Hs])) as KS;
      destruct (slots_pass cfg 256 stw s 0 now tick dr putfail) as [st1 o1] end.
    cbn [fst] in K, KS.
    assert (R1 : RQI st1) by (eapply RQI_R5; [exact Rq|]; eapply R5_trans; [apply R5_set_server | exact K]).
    match goal with |- context [if ?g then _ else (st1, o1, rnd)] => destruct g end; [|exact R1].
    assert (K2 : forall x, RQI (set_server st1 s x)) by (intro x; eapply RQI_R5; [exact R1 | apply R5_set_server]).
    destruct (fs 40); [apply K2|]. destruct (fs 41); [apply K2|].
    match goal with |- context [createstatsrvrq ?stc s ?nw rnd] =>
      assert (Sc : safe stc zero) by (apply safe_set_server_sle; [apply sle_same; reflexivity | exact KS]);
      pose proof (RQI_alloc_rq stc (mkRq nw 1 None None (Some (mkMsg Consts.RAD_Status_Server 0 (fst (take_rand rnd 16)) [msgauth_placeholder] false)) None (Some s) None 0 (zeros 16) 0) Sc (K2 _)) as KA;
      pose proof (safe_alloc_rq stc (mkRq nw 1 None None (Some (mkMsg Consts.RAD_Status_Server 0 (fst (take_rand rnd 16)) [msgauth_placeholder] false)) None (Some s) None 0 (zeros 16) 0) zero eq_refl Sc) as KF;
      pose proof (get_rq_alloc stc (mkRq nw 1 None None (Some (mkMsg Consts.RAD_Status_Server 0 (fst (take_rand rnd 16)) [msgauth_placeholder] false)) None (Some s) None 0 (zeros 16) 0)) as KG;
      unfold createstatsrvrq; destruct (alloc_rq stc _) as [st2 hn] end.
    cbn [fst snd] in *.
    assert (U2 : unqueued st2 hn) by (apply (unqueued_fresh st2 zero hn KF); intros r G; rewrite KG in G; injection G as <-; reflexivity).
    pose proof (RQI_sendrq md5 cfg fs st2 hn U2 KA) as KQ.
    destruct (sendrq md5 cfg fs st2 hn) as [st3 o2]. exact KQ.
  Qed.

  Lemma RQI_writer_release s tick putfail : forall fuel st now rnd, safe st zero -> RQI st ->
    RQI (fst (writer_release md5 cfg fs fuel st s now tick rnd putfail)).
  Proof.
    induction fuel as [|f IH]; intros st now rnd Hs Rq; [exact Rq|]. cbn [writer_release].
    pose proof (RQI_writer_iteration st s now tick rnd putfail Hs Rq) as K.
    pose proof (safe_writer_iteration md5 cfg fs st s now tick rnd putfail zero Hs) as KS.
    destruct (writer_iteration md5 cfg fs st s now tick rnd putfail) as [[st1 o1] rnd']. cbn [fst] in K, KS.
    destruct (s_newrq (get_server st1 s)).
    - pose proof (IH st1 (now + tick * count_tx o1)%Z rnd' KS K) as K2.
      destruct (writer_release md5 cfg fs f st1 s _ tick rnd' putfail). exact K2.
    - unfold prewait. cbv zeta. cbn [fst]. eapply RQI_R5; [exact K | apply R5_set_server].
  Qed.
End W.

Lemma R5_fold_freerq : forall q st, R5 st (fold_left freerq q st).
Proof. induction q as [|x q IH]; intro st; [apply R5_refl|]. cbn [fold_left]. eapply R5_trans; [apply R5_freerq | apply IH]. Qed.

Lemma R5_drain_replyq st c : R5 st (drain_replyq st c).
Proof. unfold drain_replyq. cbv zeta. eapply R5_trans; [|apply R5_fold_freerq]. apply R5_set_client. intros h []. Qed.

Lemma R5_removeclient st c : R5 st (removeclient st c).
Proof.
  unfold removeclient. eapply R5_trans; [|apply R5_drain_replyq].
  generalize (seq 0 256). intro l. revert st. induction l as [|i l IH]; intro st; [apply R5_refl|].
  cbn [fold_left]. eapply R5_trans; [apply R5_removeclientrq | apply IH].
Qed.

Lemma R5_freeserver st s : R5 st (freeserver st s).
Proof.
  unfold freeserver. generalize (seq 0 256). intro l. revert st. induction l as [|i l IH]; intro st; [apply R5_refl|].
  cbn [fold_left]. eapply R5_trans; [apply R5_freerqoutdata | apply IH].
Qed.

Section Hist.
  Variable md5 : bytes -> bytes.
  Variable rx : N -> bytes -> option (list (Z * Z)).
  Variable cfg : config.

  Theorem RQI_hstep st op : safe st zero -> RQI st -> RQI (hstep md5 rx cfg st op).
  Proof.
    intros Hs Rq. destruct op as [c now rnd pkt fs | s buf now rnd fs | s now tick rnd putfail fs | c | c | s]; cbn [hstep].
    - pose proof (safe_alloc_rq st (new_request c now pkt) zero eq_refl Hs) as S1.
      pose proof (RQI_alloc_rq st (new_request c now pkt) Hs Rq) as L1.
      pose proof (get_rq_alloc st (new_request c now pkt)) as G1.
      destruct (alloc_rq st (new_request c now pkt)) as [st1 h]. cbn [fst snd] in *.
      apply RQI_radsrv; [|exact L1]. apply (unqueued_fresh st1 zero h S1). intros r G. rewrite G1 in G. injection G as <-. reflexivity.
    - apply RQI_replyh. exact Rq.
    - apply RQI_writer_release; assumption.
    - eapply RQI_R5; [exact Rq | apply R5_drain_replyq].
    - eapply RQI_R5; [exact Rq | apply R5_removeclient].
    - eapply RQI_R5; [exact Rq | apply R5_freeserver].
  Qed.

  Theorem RQI_history : forall ops st, safe st zero -> RQI st -> RQI (fold_left (hstep md5 rx cfg) ops st).
  Proof.
    induction ops as [|op ops IH]; intros st Hs Rq; [exact Rq|]. cbn [fold_left].
    apply IH; [apply safe_hstep; exact Hs | apply RQI_hstep; assumption].
  Qed.
End Hist.

Lemma RQI_init nc ns : RQI (init_state nc ns).
Proof. intros c h r Q G. unfold get_rq, init_state in G. cbn [st_heap] in G. destruct h; discriminate G. Qed.
