(* C13, vendor form: the TTL inside a Vendor-Specific attribute among other sub-attributes *)
From RSP Require Import Base Consts Ttl Spec_C13 BaseLemmas Ttl_proofs.
From Coq Require Import ZifyBool ZifyNat ZifyN.
Local Open Scope N_scope.

Lemma enc_subs_cons p l : enc_subs (p :: l) = fst p :: (nlen (snd p) + 2) :: snd p ++ enc_subs l.
Proof. reflexivity. Qed.

Lemma enc_subs_app a b : enc_subs (a ++ b) = enc_subs a ++ enc_subs b.
Proof. unfold enc_subs. rewrite map_app, concat_app. reflexivity. Qed.

Lemma sub_vl (v : bytes) : N.to_nat (nlen v + 2 - 2) = length v.
Proof. unfold nlen. lia. Qed.

(* the sub-attribute area validates, whatever the fuel *)
Lemma attrvalidate_enc tr : (length tr <= 1)%nat -> forall l fuel, forallb sub_ok l = true ->
  attrvalidate_f fuel (enc_subs l ++ tr) = true.
Proof.
  intros Htr. induction l as [|p l IH]; intros fuel Hl.
  - cbn [enc_subs map concat app]. destruct fuel; [reflexivity|]. cbn [attrvalidate_f].
    destruct tr as [|x [|y tr]]; [reflexivity | reflexivity | cbn [length] in Htr; lia].
  - cbn [forallb] in Hl. apply andb_true_iff in Hl as [Hp Hl]. destruct fuel; [reflexivity|].
    rewrite enc_subs_cons. cbn [app attrvalidate_f].
    destruct (N.ltb_spec (nlen (snd p) + 2) 2) as [L|_]; [exfalso; clear - L; unfold nlen in L; lia|].
    match goal with |- context [nlen ?a <? nlen (snd p) + 2] => destruct (N.ltb_spec (nlen a) (nlen (snd p) + 2)) as [L|_] end.
    { exfalso. unfold nlen in L. cbn [length] in L. rewrite !app_length in L. clear - L. lia. }
    replace (N.to_nat (nlen (snd p) + 2)) with (S (S (length (snd p)))) by (unfold nlen; lia).
    cbn [skipn]. rewrite <- app_assoc, skipn_app_exact_l. apply IH. exact Hl.
Qed.

(* the walk finds the first sub-attribute of the TTL type and decrements its value in place *)
Lemma subttl_enc t1 v subs2 tr : wf_bytes v = true -> forall subs1 fuel,
  forallb (fun p => negb (fst p =? t1)) subs1 = true -> (length subs1 < fuel)%nat ->
  subttl_f fuel t1 (enc_subs (subs1 ++ (t1, v) :: subs2) ++ tr) =
  Some (fst (decttl v), enc_subs (subs1 ++ (t1, snd (decttl v)) :: subs2) ++ tr).
Proof.
  intro Wv. induction subs1 as [|p subs1 IH]; intros fuel Hn Hf; (destruct fuel as [|fuel]; [cbn [length] in Hf; lia|]).
  - cbn [app]. rewrite !enc_subs_cons. cbn [fst snd app subttl_f]. rewrite N.eqb_refl, sub_vl.
    rewrite <- app_assoc, firstn_app_exact_l, skipn_app_exact_l.
    destruct (decttl v) as [r v'] eqn:D. cbn [fst snd].
    f_equal. f_equal. rewrite <- app_assoc.
    pose proof (decttl_length v Wv) as L. rewrite D in L. cbn [snd] in L. unfold nlen. rewrite L. reflexivity.
  - cbn [forallb] in Hn. apply andb_true_iff in Hn as [Hp Hn]. apply negb_true_iff in Hp.
    cbn [app]. rewrite !enc_subs_cons. cbn [app subttl_f]. rewrite Hp, sub_vl.
    rewrite <- !app_assoc, firstn_app_exact_l, skipn_app_exact_l.
    rewrite (IH fuel Hn) by (cbn [length] in Hf; lia). reflexivity.
Qed.

Lemma enc_subs_length l : (2 * length l <= length (enc_subs l))%nat.
Proof.
  induction l as [|p l IH]; [cbn; lia|]. rewrite enc_subs_cons. cbn [length]. rewrite app_length. lia.
Qed.

(* an attribute list none of whose members can carry the vendor-form TTL: no TTL, nothing changes *)
Theorem checkttl_vendor_none t0 t1 : forall attrs, forallb (other_vendor t0) attrs = true ->
  checkttl_vendor t0 t1 attrs = (ttl_none, attrs).
Proof.
  induction attrs as [|a attrs IH]; intro H; [reflexivity|]. cbn [forallb] in H. apply andb_true_iff in H as [Ha H].
  cbn [checkttl_vendor]. rewrite (IH H). unfold other_vendor in Ha.
  destruct (negb (tlv_t a =? Consts.RAD_Attr_Vendor_Specific) || (tlv_l a <=? 4)); [reflexivity|].
  cbn [orb] in Ha. rewrite Ha. reflexivity.
Qed.

(* the first Vendor-Specific attribute of the TTL vendor that carries the TTL sub-type: its FIRST such
   sub-attribute is decremented in place (any length, any position among the sub-attributes, a stray octet at the
   end tolerated); the result is decttl's; nothing else changes *)
Theorem checkttl_vendor_spec t0 t1 vb subs1 v subs2 tr post :
  length vb = 4%nat -> be_value vb = t0 -> wf_bytes v = true -> (length tr <= 1)%nat ->
  forallb sub_ok (subs1 ++ (t1, v) :: subs2) = true ->
  forallb (fun p => negb (fst p =? t1)) subs1 = true ->
  forall pre, forallb (other_vendor t0) pre = true ->
  checkttl_vendor t0 t1 (pre ++ vsa vb (subs1 ++ (t1, v) :: subs2) tr :: post) =
  (fst (decttl v), pre ++ vsa vb (subs1 ++ (t1, snd (decttl v)) :: subs2) tr :: post).
Proof.
  intros Lvb Evb Wv Ltr Hok Hn. induction pre as [|a pre IH]; intro Hpre.
  - cbn [app checkttl_vendor]. unfold vsa. cbn [tlv_t tlv_v]. unfold Ttl.tlv_l. cbn [tlv_v].
    set (X := enc_subs (subs1 ++ (t1, v) :: subs2) ++ tr).
    rewrite N.eqb_refl. cbn [negb orb].
    assert (LX : (2 <= length X)%nat).
    { subst X. rewrite app_length. pose proof (enc_subs_length (subs1 ++ (t1, v) :: subs2)) as E.
      rewrite app_length in E. cbn [length] in E. lia. }
    assert (F4 : firstn 4 (vb ++ X) = vb) by (rewrite <- Lvb; apply firstn_app_exact_l).
    assert (S4 : skipn 4 (vb ++ X) = X) by (rewrite <- Lvb; apply skipn_app_exact_l).
    destruct (N.leb_spec (nlen (vb ++ X)) 4) as [L|_]; [exfalso; unfold nlen in L; rewrite app_length in L; lia|].
    unfold vendor_of. rewrite F4, S4, Evb, N.eqb_refl. cbn [negb].
    unfold attrvalidate. subst X. rewrite (attrvalidate_enc tr Ltr _ _ Hok). cbn [negb].
    unfold subttl. rewrite (subttl_enc t1 v subs2 tr Wv subs1 _ Hn).
    2:{ rewrite app_length. pose proof (enc_subs_length (subs1 ++ (t1, v) :: subs2)) as E. rewrite app_length in E. cbn [length] in E. lia. }
    reflexivity.
  - cbn [forallb] in Hpre. apply andb_true_iff in Hpre as [Ha Hpre]. cbn [app checkttl_vendor]. rewrite (IH Hpre).
    unfold other_vendor in Ha.
    destruct (negb (tlv_t a =? Consts.RAD_Attr_Vendor_Specific) || (tlv_l a <=? 4)); [reflexivity|].
    cbn [orb] in Ha. rewrite Ha. reflexivity.
Qed.
