(* C10: duplicate detection (addclientrq), replay of the stored reply, superseding *)
From RSP Require Import Base Consts Ttl Crypt Packet Rewrite Choose Proxy Slots_proofs.
From Coq Require Import ZifyBool ZifyNat ZifyN.
Local Open Scope N_scope.

Lemma nth_error_set_nth {A} (l : list A) i x : (i < length l)%nat -> nth_error (set_nth l i x) i = Some x.
Proof.
  revert i. induction l as [|y l IH]; intros [|i] H; cbn [length] in H; try lia; cbn [set_nth nth_error]; [reflexivity|].
  apply IH. lia.
Qed.

Lemma get_rq_in_range st h r : get_rq st h = Some r -> (h < length (st_heap st))%nat.
Proof.
  unfold get_rq. intro H. destruct (nth_error (st_heap st) h) eqn:E; [|discriminate].
  apply nth_error_Some. congruence.
Qed.

Lemma get_rq_set_rq st h r r' : get_rq st h = Some r -> get_rq (set_rq st h r') h = Some r'.
Proof.
  intro H. unfold get_rq, set_rq, upd. cbn [st_heap].
  rewrite nth_error_set_nth by (eapply get_rq_in_range; exact H). reflexivity.
Qed.

Section D.
  Variable md5 : bytes -> bytes.
  Variable cfg : config.
  Variable fs : N -> bool.      (* allocation-failure oracle: the statements hold whatever fails *)

  (* what the duplicate test of addclientrq looks at *)
  Definition dup_window (r : request) : Z :=
    Z.of_N (match rq_from r with Some c' => cc_dupint (clconf_of cfg c') | None => 0 end).
  Definition is_dup (rq r : request) (now : Z) : bool :=
    beq_bytes (rq_rqauth rq) (rq_rqauth r) && (now - rq_created r <? dup_window r)%Z.

  (* a repeat inside the interval is not registered; what comes out is nothing, or the stored reply bytes
     to the client the original came from -- never a new request towards a server *)
  Theorem addclientrq_dup st h c now rq h' r :
    get_rq st h = Some rq -> cache_entry st c (rq_rqid rq) = Some h' -> get_rq st h' = Some r ->
    is_dup rq r now = true ->
    exists st' o, addclientrq md5 cfg fs st h c now = (false, st', o) /\
      match rq_replybuf r, rq_from r with
      | Some b, Some c' => o = [OReply c' b] \/ (fs 14 = true /\ o = [])
      | _, _ => o = []
      end.
  Proof.
    intros Hq Hc Hr Hd. unfold addclientrq. rewrite Hq. cbv zeta.
    unfold cache_entry in Hc. rewrite Hc, Hr.
    unfold is_dup, dup_window in Hd. rewrite Hd.
    destruct (rq_replybuf r) as [b|] eqn:Hb.
    - assert (G : get_rq (newrqref st h') h' = Some (rq_set_refcount r (rq_refcount r + 1))).
      { unfold newrqref. rewrite Hr. eapply get_rq_set_rq. exact Hr. }
      unfold sendreply. rewrite G. cbn [rq_from rq_set_refcount rq_replybuf rq_msg].
      destruct (rq_from r) as [c'|].
      + rewrite Hb. destruct (fs 14) eqn:F14.
        * eexists. eexists. split; [reflexivity|]. right. split; reflexivity.
        * eexists. eexists. split; [reflexivity|]. left. reflexivity.
      + eexists. eexists. split; reflexivity.
    - eexists. eexists. split; [reflexivity|]. reflexivity.
  Qed.

  (* a request with another authenticator, or at/after the interval, is registered as new *)
  Theorem addclientrq_new st h c now rq h' r :
    get_rq st h = Some rq -> cache_entry st c (rq_rqid rq) = Some h' -> get_rq st h' = Some r ->
    is_dup rq r now = false ->
    exists st', addclientrq md5 cfg fs st h c now = (true, st', []).
  Proof.
    intros Hq Hc Hr Hd. unfold addclientrq. rewrite Hq. cbv zeta.
    unfold cache_entry in Hc. rewrite Hc, Hr.
    unfold is_dup, dup_window in Hd. rewrite Hd. eexists. reflexivity.
  Qed.

  Theorem addclientrq_first st h c now rq :
    get_rq st h = Some rq -> cache_entry st c (rq_rqid rq) = None ->
    exists st', addclientrq md5 cfg fs st h c now = (true, st', []).
  Proof.
    intros Hq Hc. unfold addclientrq. rewrite Hq. cbv zeta.
    unfold cache_entry in Hc. rewrite Hc. eexists. reflexivity.
  Qed.

  (* the boundary: with interval d, a repeat d-1 seconds later is a duplicate, one d seconds later is not;
     interval 0 never yields a duplicate *)
  Theorem dup_boundary rq r now : beq_bytes (rq_rqauth rq) (rq_rqauth r) = true ->
    is_dup rq r now = (now - rq_created r <? dup_window r)%Z.
  Proof. intro H. unfold is_dup. rewrite H. reflexivity. Qed.

  Theorem dup_interval_zero rq r now : dup_window r = 0%Z -> (rq_created r <= now)%Z -> is_dup rq r now = false.
  Proof. intros H L. unfold is_dup. rewrite H. apply andb_false_iff. right. lia. Qed.
End D.

(* superseding cancels the in-flight copy: removeclientrq releases the server slot that holds the request,
   so that its late reply finds no holder (C11_reply_needs_holder) *)
Lemma servers_set_client st c x : st_servers (set_client st c x) = st_servers st.
Proof. reflexivity. Qed.

Lemma freerqoutdata_releases st s i : (s < length (st_servers st))%nat ->
  (N.to_nat i < length (s_slots (get_server st s)))%nat ->
  slot_of (freerqoutdata st s i) s i = None.
Proof.
  intros Hs Hi. unfold freerqoutdata. cbv zeta.
  set (st1 := match sl_rq (get_slot (get_server st s) i) with Some h => _ | None => st end).
  assert (E : st_servers st1 = st_servers st).
  { subst st1. destruct (sl_rq _) as [h|]; [|reflexivity]. destruct (get_rq st h) as [r|]; [|reflexivity].
    rewrite servers_freerq. reflexivity. }
  unfold slot_of, get_server, set_server, upd, get_slot, set_slot. cbn [st_servers]. rewrite E.
  rewrite nth_set_nth. destruct (Nat.ltb_spec s (length (st_servers st))) as [_|L]; [|lia].
  cbn [s_slots]. rewrite nth_set_nth.
  unfold get_server in Hi. destruct (Nat.ltb_spec (N.to_nat i) (length (s_slots (nth s (st_servers st) dummy_server)))) as [_|L]; [reflexivity | lia].
Qed.

Theorem removeclientrq_cancels st c i h r s : cache_entry st c i = Some h -> get_rq st h = Some r ->
  rq_to r = Some s -> slot_of st s (rq_newid r) = Some h ->
  (s < length (st_servers st))%nat -> (N.to_nat (rq_newid r) < length (s_slots (get_server st s)))%nat ->
  slot_of (removeclientrq st c i) s (rq_newid r) = None.
Proof.
  intros Hc Hr Ht Hs Ls Li. unfold removeclientrq. unfold cache_entry in Hc. cbv zeta. rewrite Hc, Hr, Ht.
  unfold slot_of in Hs. rewrite Hs. rewrite Nat.eqb_refl.
  unfold slot_of, get_server. rewrite servers_freerq, servers_set_client.
  apply (freerqoutdata_releases st s (rq_newid r) Ls Li).
Qed.

(* the handler: a request that addclientrq classifies as a repeat leaves radsrv with nothing but the replayed
   reply -- no OEnq (nothing is put in any server's table), no other reply *)
Section H.
  Variable md5 : bytes -> bytes.
  Variable rx : N -> bytes -> option (list (Z * Z)).
  Variable cfg : config.
  Variable fs : N -> bool.

  Definition request_code (code : N) : bool :=
    (code =? Consts.RAD_Access_Request) || (code =? Consts.RAD_Status_Server) || (code =? Consts.RAD_Accounting_Request).

  Theorem radsrv_dup st h c now rnd r0 msg rq h' r :
    get_rq st h = Some r0 ->
    buf2radmsg md5 (match rq_buf r0 with Some b => b | None => [] end) (cc_secret (clconf_of cfg c)) None = Some msg ->
    fs 1 = false -> m_mainvalid msg = false -> request_code (m_code msg) = true ->
    let r1 := rq_set_ids (rq_set_msg (rq_set_buf r0 None) (Some msg)) (m_id msg) (m_auth msg) in
    let stp := purgedupcache cfg (set_rq (set_rq st h (rq_set_buf r0 None)) h r1) c now in
    get_rq stp h = Some rq -> cache_entry stp c (rq_rqid rq) = Some h' -> get_rq stp h' = Some r ->
    is_dup cfg rq r now = true ->
    exists st' o, radsrv md5 rx cfg fs st h c now rnd = (st', o) /\
      match rq_replybuf r, rq_from r with
      | Some b, Some c' => o = [OReply c' b; ORet 1] \/ (fs 14 = true /\ o = [ORet 1])
      | _, _ => o = [ORet 1]
      end.
  Proof.
    intros H0 Hp F1 Hv Hc r1 stp Hq He Hr Hd.
    destruct (addclientrq_dup md5 cfg fs stp h c now rq h' r Hq He Hr Hd) as (st2 & o & Ha & Ho).
    unfold radsrv. rewrite H0. cbv zeta. rewrite F1, Hp, Hv.
    unfold request_code in Hc.
    assert (C1 : (m_code msg =? Consts.RAD_Disconnect_Request) || (m_code msg =? Consts.RAD_CoA_Request) = false).
    { unfold Consts.RAD_Disconnect_Request, Consts.RAD_CoA_Request, Consts.RAD_Access_Request, Consts.RAD_Status_Server, Consts.RAD_Accounting_Request in *. lia. }
    rewrite C1. rewrite Hc. cbn [negb].
    fold r1. fold stp. rewrite Ha. cbn [negb].
    eexists. eexists. split; [reflexivity|].
    destruct (rq_replybuf r) as [b|]; [destruct (rq_from r) as [c'|]|].
    - destruct Ho as [-> | [F ->]]; [left; reflexivity | right; split; [exact F | reflexivity]].
    - rewrite Ho. reflexivity.
    - rewrite Ho. reflexivity.
  Qed.
End H.
