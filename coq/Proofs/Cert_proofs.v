From RSP Require Import Base Consts Rewrite Cert Spec_C15 BaseLemmas.
Local Open Scope N_scope.

Lemma split_at_dot_spec a label rest : split_at_dot a = (label, Some rest) -> a = label ++ 46 :: rest /\ ~ In 46 label.
Proof.
  revert label rest. induction a as [|x a IH]; intros label rest H; [discriminate|].
  cbn [split_at_dot] in H. destruct (x =? 46) eqn:E.
  - apply N.eqb_eq in E. subst x. inversion H; subst. split; [reflexivity | intros []].
  - apply N.eqb_neq in E. destruct (split_at_dot a) as [l r] eqn:S. inversion H; subst.
    destruct (IH l rest eq_refl) as [-> Hn]. split; [reflexivity|].
    intros [Hx|Hi]; [congruence | contradiction].
Qed.

(* C15_nairealm: the NAIRealm clause holds only for an equal realm or a one-label wildcard of it *)
Lemma firstn2_eq (v : bytes) a b : beq_bytes (firstn 2 v) [a; b] = true -> v = a :: b :: skipn 2 v.
Proof.
  intro H. apply beq_bytes_eq in H. destruct v as [|x [|y r]]; try discriminate. injection H as -> ->. reflexivity.
Qed.

Theorem nairealm_value_match_sound raw realm :
  nairealm_value_match raw realm = true -> nairealm_authorises raw realm.
Proof.
  unfold nairealm_value_match, nairealm_authorises.
  destruct ((2 <? length raw)%nat && beq_bytes (firstn 2 (cstr raw)) [42; 46]) eqn:W.
  - apply andb_true_iff in W as [_ W]. apply firstn2_eq in W.
    destruct (existsb (N.eqb 42) (skipn 2 (cstr raw))); [discriminate|].
    destruct (split_at_dot realm) as [label r] eqn:S. destruct r as [rr|]; [|discriminate].
    intro H. apply andb_true_iff in H as [Hl Hr]. apply beq_bytes_eq in Hr. subst rr.
    destruct (split_at_dot_spec _ _ _ S) as [-> Hn].
    right. exists label, (skipn 2 (cstr raw)). repeat split; try assumption.
    destruct label; [discriminate | discriminate].
  - intro H. left. apply beq_bytes_eq. exact H.
Qed.

Section V.
  Variable rx : N -> bytes -> option (list (Z * Z)).

  Theorem certnairealmcheck_sound c realm : certnairealmcheck c realm = true ->
    exists v, In (GOther nairealm_oid v) (c_san c) /\ nairealm_authorises v realm.
  Proof.
    unfold certnairealmcheck. intro H. apply existsb_exists in H as (g & Hin & Hg).
    destruct g as [| | | |o v]; try discriminate. apply andb_true_iff in Hg as [Ho Hv].
    apply beq_bytes_eq in Ho. subst o. exists v. split; [exact Hin | apply nairealm_value_match_sound; exact Hv].
  Qed.

  (* the SAN walk returns 1 only through an entry of the term's own kind that matches *)
  Lemma san_walk_one t san r : san_walk rx t san r = 1 -> r = 1 \/ exists g, In g san /\ entry_kind_matches rx t g = Some true.
  Proof.
    revert r. induction san as [|g rest IH]; intros r H; [left; exact H|]. cbn [san_walk] in H.
    destruct (entry_kind_matches rx t g) as [[|]|] eqn:E.
    - right. exists g. split; [left; reflexivity | exact E].
    - destruct (IH _ H) as [C | (g' & Hi & Hg)]; [discriminate | right; exists g'; split; [right; exact Hi | exact Hg]].
    - destruct (IH _ H) as [C | (g' & Hi & Hg)]; [left; exact C | right; exists g'; split; [right; exact Hi | exact Hg]].
  Qed.

  Definition term_witness (c : cert) (t : term) : Prop :=
    match t with
    | TCn r => exists cn, In cn (c_cn c) /\ regex_match rx r cn = true
    | _ => exists g, In g (c_san c) /\ entry_kind_matches rx t g = Some true
    end.

  Theorem matchsubjaltname_one c t : matchsubjaltname rx c t = 1 -> term_witness c t.
  Proof.
    destruct t as [r|r|r|a|o|o r]; cbn [matchsubjaltname term_witness]; intro H.
    - destruct (existsb (regex_match rx r) (c_cn c)) eqn:E; [|discriminate]. apply existsb_exists in E. exact E.
    - destruct (san_walk_one _ _ _ H) as [C|W]; [discriminate | exact W].
    - destruct (san_walk_one _ _ _ H) as [C|W]; [discriminate | exact W].
    - destruct (san_walk_one _ _ _ H) as [C|W]; [discriminate | exact W].
    - destruct (san_walk_one _ _ _ H) as [C|W]; [discriminate | exact W].
    - destruct (san_walk_one _ _ _ H) as [C|W]; [discriminate | exact W].
  Qed.

  (* the expected name of a block: ServerName, else the connected host, else any configured host *)
  Definition name_clause (c : cert) (conf : certconf) (connected : option hostent) : Prop :=
    match cc_servername conf with
    | Some sn => certnamecheck c sn (cc_cncheck conf) = true
    | None => match connected with
              | Some h => certnamecheck c h (cc_cncheck conf) = true
              | None => exists h, In h (cc_hosts conf) /\ certnamecheck c h (cc_cncheck conf) = true
              end
    end.

  Theorem verifyconfcert_sound c conf connected nairealm : verifyconfcert rx c conf connected nairealm = true ->
    (cc_namecheck conf = true ->
       (exists realm v, nairealm = Some realm /\ In (GOther nairealm_oid v) (c_san c) /\ nairealm_authorises v realm) \/
       name_clause c conf connected) /\
    (forall t, In t (cc_terms conf) -> term_witness c t).
  Proof.
    unfold verifyconfcert. intro H. apply andb_true_iff in H as [Hn Ht]. split.
    - intro NC. rewrite NC in Hn.
      destruct nairealm as [realm|].
      + destruct (certnairealmcheck c realm) eqn:N.
        * left. destruct (certnairealmcheck_sound _ _ N) as (v & Hi & Ha). exists realm, v. repeat split; assumption.
        * right. unfold name_clause. destruct (cc_servername conf); [exact Hn|]. destruct connected; [exact Hn|].
          apply existsb_exists in Hn. exact Hn.
      + right. unfold name_clause. destruct (cc_servername conf); [exact Hn|]. destruct connected; [exact Hn|].
        apply existsb_exists in Hn. exact Hn.
    - intros t Hin. rewrite forallb_forall in Ht. specialize (Ht t Hin). apply N.eqb_eq in Ht.
      apply matchsubjaltname_one. exact Ht.
  Qed.

  (* the name check proper: what certnamecheck accepts *)
  Theorem certnamecheck_sound c h cncheck : certnamecheck c h cncheck = true -> h_plen h = 255 ->
    (exists a, h_ip h = Some a /\ In a (ip_sans c)) \/
    (exists d, In d (dns_sans c) /\ host_pattern_match d (h_name h) = true) \/
    (dns_sans c = [] /\ cncheck = true /\ exists cn, In cn (c_cn c) /\ host_pattern_match cn (h_name h) = true).
  Proof.
    unfold certnamecheck. intros H P. rewrite P in H. cbn [N.eqb Pos.eqb negb] in H.
    apply orb_true_iff in H as [H|H].
    - left. destruct (h_ip h) as [a|]; [|discriminate]. unfold x509_check_ip in H.
      apply existsb_exists in H as (x & Hi & Hx). apply beq_bytes_eq in Hx. subst x. exists a. split; [reflexivity | exact Hi].
    - right. unfold x509_check_host in H. destruct (dns_sans c) as [|d l] eqn:D.
      + right. apply andb_true_iff in H as [Hc Hcn]. apply existsb_exists in Hcn. repeat split; assumption.
      + left. apply existsb_exists in H as (x & Hi & Hx). exists x. split; assumption.
  Qed.

  (* a wildcard dNSName covers exactly one whole, non-empty leftmost label *)
  Theorem wildcard_one_label pat host : host_pattern_match pat host = true -> ieq_bytes pat host = false ->
    exists rest label hr, pat = 42 :: 46 :: rest /\ host = label ++ 46 :: hr /\ label <> [] /\ ~ In 46 label /\ ieq_bytes hr rest = true.
  Proof.
    unfold host_pattern_match. intros H NE. destruct (has_nul pat); [discriminate|]. rewrite NE in H.
    destruct (beq_bytes (firstn 2 pat) [42; 46]) eqn:W; [|discriminate]. apply firstn2_eq in W.
    apply andb_true_iff in H as [_ H]. destruct (split_at_dot host) as [label hrest] eqn:S.
    destruct hrest as [hr|]; [|discriminate]. apply andb_true_iff in H as [H Hi]. apply andb_true_iff in H as [Hl _].
    destruct (split_at_dot_spec _ _ _ S) as [-> Hn]. exists (skipn 2 pat), label, hr. repeat split; try assumption.
    destruct label; [discriminate | discriminate].
  Qed.
End V.
