(* C11: the identifier allocator (sendrq / _internal_sendrq) never overwrites an occupied slot, keeps
   identifier 0 for Status-Server probes, drops when the table is full. *)
From RSP Require Import Base Consts Ttl Crypt Packet Rewrite Choose Proxy.
From Coq Require Import ZifyBool ZifyNat ZifyN.
Local Open Scope N_scope.

Lemma nth_set_nth {A} (l : list A) i x d : nth i (set_nth l i x) d = if (i <? length l)%nat then x else d.
Proof.
  revert i. induction l as [|y l IH]; intros [|i]; simpl; try reflexivity.
  rewrite IH. reflexivity.
Qed.

Lemma nth_set_nth_other {A} (l : list A) i j x d : i <> j -> nth j (set_nth l i x) d = nth j l d.
Proof.
  revert i j. induction l as [|y l IH]; intros [|i] [|j] H; simpl; try reflexivity; try congruence.
  apply IH. congruence.
Qed.

Section S.
  Variable md5 : bytes -> bytes.
  Variable cfg : config.
  Variable fs : N -> bool.      (* every statement holds under every allocation-failure oracle *)

  Definition slot_of (st : state) (s : nat) (i : N) : option nat := sl_rq (get_slot (get_server st s) i).

  (* changing only the allocation cursor of a server does not change its slots *)
  Lemma slot_of_set_nextid st s n i :
    slot_of (set_server st s (set_nextid (get_server st s) n)) s i = slot_of st s i.
  Proof.
    unfold slot_of, get_server, set_server, upd. cbn [st_servers]. rewrite nth_set_nth.
    destruct (s <? length (st_servers st))%nat eqn:L; [reflexivity|].
    rewrite nth_overflow by (apply Nat.ltb_ge in L; lia). reflexivity.
  Qed.

  (* C11 (iii): an occupied slot is never written *)
  Theorem internal_sendrq_occupied st s id h h' : slot_of st s id = Some h' -> internal_sendrq md5 cfg fs st s id h = None.
  Proof. unfold slot_of, internal_sendrq. intro H. rewrite H. reflexivity. Qed.

  (* a successful insertion happens into an empty slot and announces exactly that identifier *)
  Theorem internal_sendrq_out st s id h st' o : internal_sendrq md5 cfg fs st s id h = Some (st', o) ->
    slot_of st s id = None /\ exists b, o = [OEnq s id b].
  Proof.
    unfold internal_sendrq, slot_of. destruct (sl_rq (get_slot (get_server st s) id)) as [x|]; [discriminate|].
    destruct (get_rq st h) as [r|]; [|discriminate]. destruct (rq_msg r) as [m|]; [|discriminate].
    destruct (fs (100 + id)); [discriminate|].
    destruct (radmsg2buf md5 (set_id m id) (sc_secret (srvconf_of cfg s))) as [[[b a]|]|]; try discriminate.
    intro H. injection H as <- <-. split; [reflexivity | exists b; reflexivity].
  Qed.

  (* the scan stops at the first identifier of the range whose insertion succeeds *)
  Lemma scan_ids_some fuel : forall st s i limit h k st' o,
    scan_ids md5 cfg fs fuel st s i limit h = Some (k, st', o) ->
    i <= k < limit /\ internal_sendrq md5 cfg fs st s k h = Some (st', o).
  Proof.
    induction fuel as [|fuel IH]; intros st s i limit h k st' o H; [discriminate|].
    cbn [scan_ids] in H. destruct (limit <=? i) eqn:L; [discriminate|].
    destruct (internal_sendrq md5 cfg fs st s i h) as [[st1 o1]|] eqn:E.
    - injection H as <- <- <-. split; [lia | exact E].
    - destruct (IH _ _ _ _ _ _ _ _ H) as [R I]. split; [lia | exact I].
  Qed.

  Lemma scan_ids_none fuel : forall st s i limit h, (N.to_nat (limit - i) <= fuel)%nat ->
    scan_ids md5 cfg fs fuel st s i limit h = None ->
    forall j, i <= j < limit -> internal_sendrq md5 cfg fs st s j h = None.
  Proof.
    induction fuel as [|fuel IH]; intros st s i limit h F H j Hj; [lia|].
    cbn [scan_ids] in H. destruct (limit <=? i) eqn:L; [lia|].
    destruct (internal_sendrq md5 cfg fs st s i h) as [[st1 o1]|] eqn:E; [discriminate|].
    destruct (N.eq_dec j i) as [->|NE]; [exact E|].
    apply (IH st s (i + 1) limit h); [lia | exact H | lia].
  Qed.

  (* what sendrq announces *)
  Definition enq_ids (o : list out) : list (nat * N) :=
    flat_map (fun x => match x with OEnq s id _ => [(s, id)] | _ => [] end) o.

  (* C11: every identifier sendrq hands out was free, and with status-server enabled identifier 0 is
     given to Status-Server probes only and a probe gets no other identifier *)
  Theorem sendrq_ids st h st' o r s : sendrq md5 cfg fs st h = (st', o) ->
    get_rq st h = Some r -> rq_to r = Some s -> s_nextid (get_server st s) <= Consts.MAX_REQUESTS ->
    let statsrv_on := negb (s_statsrv (get_server st s) =? Consts.RSP_STATSRV_OFF) in
    let isprobe := match rq_msg r with Some m => m_code m =? Consts.RAD_Status_Server | None => false end in
    (enq_ids o = [] \/ exists id, enq_ids o = [(s, id)] /\ slot_of st s id = None /\ id < Consts.MAX_REQUESTS /\
                                  (statsrv_on = true -> (id = 0 <-> isprobe = true))).
  Proof.
    intros H Hr Ht Hcur. unfold sendrq in H. rewrite Hr, Ht in H. cbv zeta in *.
    set (sv := get_server st s) in *.
    set (start := if s_statsrv sv =? Consts.RSP_STATSRV_OFF then 0 else 1) in *.
    assert (Hfail : forall stx, enq_ids (snd (let st1 := match get_rq stx h with
                                 | Some r' => match rq_from r' with Some _ => rmclientrq stx h (rq_rqid r') | None => stx end
                                 | None => stx end in (freerq st1 h, @nil out))) = []) by reflexivity.
    destruct (negb (start =? 0) && ((match rq_msg r with Some m => m_code m | None => 0 end) =? Consts.RAD_Status_Server)) eqn:PB.
    - (* a probe on a server with status-server enabled: slot 0 or nothing *)
      apply andb_true_iff in PB as [S1 P1].
      destruct (internal_sendrq md5 cfg fs st s 0 h) as [[st1 o1]|] eqn:E.
      + injection H as <- <-. destruct (internal_sendrq_out _ _ _ _ _ _ E) as [F (b & ->)].
        right. exists 0. cbn [enq_ids flat_map app].
        split; [reflexivity|]. split; [exact F|]. split; [reflexivity|]. intros _. split.
        * intros _. destruct (rq_msg r); [exact P1 | discriminate].
        * intros _. reflexivity.
      + left. injection H as <- <-. reflexivity.
    - set (nextid := if s_nextid sv =? 0 then start else s_nextid sv) in *.
      set (st0 := set_server st s (set_nextid sv nextid)) in *.
      assert (Hslot : forall i, slot_of st0 s i = slot_of st s i) by (intro i; apply slot_of_set_nextid).
      assert (Hcase : forall k st1 o1, internal_sendrq md5 cfg fs st0 s k h = Some (st1, o1) -> start <= k -> k < Consts.MAX_REQUESTS ->
                 exists id, enq_ids o1 = [(s, id)] /\ slot_of st s id = None /\ id < Consts.MAX_REQUESTS /\
                   (negb (s_statsrv sv =? Consts.RSP_STATSRV_OFF) = true ->
                    (id = 0 <-> match rq_msg r with Some m => m_code m =? Consts.RAD_Status_Server | None => false end = true))).
      { intros k st1 o1 E Hk Hm. destruct (internal_sendrq_out _ _ _ _ _ _ E) as [F (b & ->)].
        exists k. cbn [enq_ids flat_map app]. rewrite Hslot in F.
        split; [reflexivity|]. split; [exact F|]. split; [exact Hm|]. intros H0. split.
        - intros ->. unfold start in Hk. rewrite (negb_true_iff _) in H0. rewrite H0 in Hk. lia.
        - intro P. exfalso. unfold start in PB. rewrite (proj1 (negb_true_iff _) H0) in PB. cbn [N.eqb negb andb] in PB.
          destruct (rq_msg r); [congruence | discriminate]. }
      destruct (scan_ids md5 cfg fs 257 st0 s nextid Consts.MAX_REQUESTS h) as [[[k st1] o1]|] eqn:S1.
      + destruct (scan_ids_some _ _ _ _ _ _ _ _ _ S1) as [R E].
        assert (start <= k) by (unfold nextid in R; destruct (s_nextid sv =? 0) eqn:Z; lia || (unfold start in *; destruct (s_statsrv sv =? Consts.RSP_STATSRV_OFF); lia)).
        destruct (Hcase _ _ _ E) as (id & Q); [assumption | lia |].
        right. exists id. injection H as <- <-. exact Q.
      + destruct (scan_ids md5 cfg fs 257 st0 s start nextid h) as [[[k st1] o1]|] eqn:S2.
        * destruct (scan_ids_some _ _ _ _ _ _ _ _ _ S2) as [R E].
          assert (Hn : nextid <= Consts.MAX_REQUESTS).
          { unfold nextid. destruct (s_nextid sv =? 0); [|exact Hcur].
            unfold start. destruct (s_statsrv sv =? Consts.RSP_STATSRV_OFF); vm_compute; discriminate. }
          destruct (Hcase _ _ _ E) as (id & Q); [lia | lia |].
          right. exists id. injection H as <- <-. exact Q.
        * left. injection H as <- <-. reflexivity.
  Qed.

  (* ---------------------------------------------------------------- nothing is displaced *)
  Definition keeps_slots (st st' : state) : Prop :=
    forall s j h, slot_of st s j = Some h -> slot_of st' s j = Some h.

  Lemma keeps_refl st : keeps_slots st st.  Proof. intros s j h H. exact H. Qed.
  Lemma keeps_trans a b c : keeps_slots a b -> keeps_slots b c -> keeps_slots a c.
  Proof. intros H1 H2 s j h H. apply H2, H1, H. Qed.
  Lemma keeps_same_servers st st' : st_servers st' = st_servers st -> keeps_slots st st'.
  Proof. intros E s j h H. unfold slot_of, get_server in *. rewrite E. exact H. Qed.

  Lemma servers_freerq st h : st_servers (freerq st h) = st_servers st.
  Proof. unfold freerq. destruct (get_rq st h) as [r|]; [|reflexivity]. destruct (rq_refcount r <=? 1); reflexivity. Qed.

  Lemma servers_rmclientrq st h id : st_servers (rmclientrq st h id) = st_servers st.
  Proof.
    unfold rmclientrq. destruct (get_rq st h) as [r|]; [|reflexivity]. destruct (rq_from r) as [c|]; [|reflexivity].
    destruct (nth (N.to_nat id) (c_rqs (get_client st c)) None) as [h'|]; [|reflexivity].
    rewrite servers_freerq. reflexivity.
  Qed.

  (* replacing a server by one with the same slot table changes no slot *)
  Lemma slot_of_set_server_same st s x : s_slots x = s_slots (get_server st s) ->
    forall s' j, slot_of (set_server st s x) s' j = slot_of st s' j.
  Proof.
    intros E s' j. unfold slot_of, get_server, set_server, upd, get_slot in *. cbn [st_servers].
    destruct (Nat.eq_dec s s') as [<-|NE].
    - rewrite nth_set_nth. destruct (s <? length (st_servers st))%nat eqn:L.
      + rewrite E. reflexivity.
      + rewrite (nth_overflow (st_servers st)) by (apply Nat.ltb_ge in L; lia). reflexivity.
    - rewrite nth_set_nth_other by exact NE. reflexivity.
  Qed.

  Lemma keeps_set_server_same st s x : s_slots x = s_slots (get_server st s) -> keeps_slots st (set_server st s x).
  Proof. intros E s' j h H. rewrite slot_of_set_server_same by exact E. exact H. Qed.

  Lemma internal_sendrq_keeps st s id h st' o : internal_sendrq md5 cfg fs st s id h = Some (st', o) -> keeps_slots st st'.
  Proof.
    unfold internal_sendrq. destruct (sl_rq (get_slot (get_server st s) id)) as [x|] eqn:F; [discriminate|].
    destruct (get_rq st h) as [r|]; [|discriminate]. destruct (rq_msg r) as [m|]; [|discriminate].
    destruct (fs (100 + id)); [discriminate|].
    destruct (radmsg2buf md5 (set_id m id) (sc_secret (srvconf_of cfg s))) as [[[b a]|]|]; try discriminate.
    intro H. injection H as <- <-. intros s' j h' Hs.
    unfold slot_of, get_server, set_server, set_rq, upd, get_slot, set_slot in *. cbn [st_servers s_slots] in *.
    destruct (Nat.eq_dec s s') as [<-|NE].
    - rewrite nth_set_nth. destruct (s <? length (st_servers st))%nat eqn:L.
      + cbn [s_slots]. destruct (N.eq_dec id j) as [<-|NJ]; [rewrite F in Hs; discriminate|].
        rewrite nth_set_nth_other by lia. exact Hs.
      + rewrite (nth_overflow (st_servers st)) in Hs by (apply Nat.ltb_ge in L; lia). exact Hs.
    - rewrite nth_set_nth_other by exact NE. exact Hs.
  Qed.

  (* C11: a new request never displaces an outstanding one -- whatever sendrq does (insert, or drop and
     forget when the table is full or serialisation fails), every occupied slot of every server still
     holds the same request afterwards *)
  Theorem sendrq_keeps st h st' o : sendrq md5 cfg fs st h = (st', o) -> keeps_slots st st'.
  Proof.
    unfold sendrq. destruct (get_rq st h) as [r|] eqn:Hr; [|intro H; injection H as <- <-; apply keeps_refl].
    cbv zeta.
    assert (Hfail : forall stx, keeps_slots stx (freerq (match get_rq stx h with
                                 | Some r' => match rq_from r' with Some _ => rmclientrq stx h (rq_rqid r') | None => stx end
                                 | None => stx end) h)).
    { intro stx. apply keeps_same_servers. rewrite servers_freerq.
      destruct (get_rq stx h) as [r'|]; [|reflexivity]. destruct (rq_from r'); [apply servers_rmclientrq | reflexivity]. }
    pose proof (Hfail st) as Hfail_st. rewrite Hr in Hfail_st.
    destruct (rq_to r) as [s|]; [|intro H; injection H as <- <-; exact Hfail_st].
    set (sv := get_server st s).
    assert (Hsig : forall stx, keeps_slots stx (set_server stx s (set_newrq (get_server stx s) true))).
    { intro stx. apply keeps_set_server_same. reflexivity. }
    assert (Hnext : forall stx n, keeps_slots stx (set_server stx s (set_nextid (get_server stx s) n))).
    { intros stx n. apply keeps_set_server_same. reflexivity. }
    match goal with |- (if ?c then _ else _) = _ -> _ => destruct c end.
    - destruct (internal_sendrq md5 cfg fs st s 0 h) as [[st1 o1]|] eqn:E; intro H; injection H as <- <-.
      + eapply keeps_trans; [eapply internal_sendrq_keeps; exact E | apply Hsig].
      + exact Hfail_st.
    - set (nextid := if s_nextid sv =? 0 then _ else _).
      set (st0 := set_server st s (set_nextid sv nextid)).
      assert (H0 : keeps_slots st st0) by apply Hnext.
      assert (Hdone : forall i st1 o1, internal_sendrq md5 cfg fs st0 s i h = Some (st1, o1) ->
                keeps_slots st (set_server (if (if s_statsrv sv =? Consts.RSP_STATSRV_OFF then 0 else 1) <=? i
                                            then set_server st1 s (set_nextid (get_server st1 s) (i + 1)) else st1) s
                                  (set_newrq (get_server (if (if s_statsrv sv =? Consts.RSP_STATSRV_OFF then 0 else 1) <=? i
                                            then set_server st1 s (set_nextid (get_server st1 s) (i + 1)) else st1) s) true))).
      { intros i st1 o1 E. eapply keeps_trans; [exact H0|]. eapply keeps_trans; [eapply internal_sendrq_keeps; exact E|].
        eapply keeps_trans; [|apply Hsig]. destruct (_ <=? i); [apply Hnext | apply keeps_refl]. }
      destruct (scan_ids md5 cfg fs 257 st0 s nextid Consts.MAX_REQUESTS h) as [[[k st1] o1]|] eqn:S1.
      + destruct (scan_ids_some _ _ _ _ _ _ _ _ _ S1) as [_ E]. intro H; injection H as <- <-. eapply Hdone; exact E.
      + destruct (scan_ids md5 cfg fs 257 st0 s _ nextid h) as [[[k st1] o1]|] eqn:S2.
        * destruct (scan_ids_some _ _ _ _ _ _ _ _ _ S2) as [_ E]. intro H; injection H as <- <-. eapply Hdone; exact E.
        * intro H; injection H as <- <-. eapply keeps_trans; [exact H0 | apply Hfail].
  Qed.

  (* the Identifier octet of what is placed in slot id is id: the table index IS the identifier on the
     wire, so outstanding requests of one server carry pairwise distinct identifiers by construction *)
  Lemma nth1_splice buf off new d : (2 <= off)%nat -> (2 <= length buf)%nat ->
    nth 1 (splice buf off new) d = nth 1 buf d /\ (2 <= length (splice buf off new))%nat.
  Proof using.
    clear. intros Ho Hl. unfold splice. destruct buf as [|a [|b rest]]; cbn [length] in Hl; try lia.
    destruct off as [|[|off]]; try lia. cbn [firstn app nth length]. split; [reflexivity | lia].
  Qed.

  Theorem internal_sendrq_wire_id st s id h st' o : internal_sendrq md5 cfg fs st s id h = Some (st', o) ->
    exists b, o = [OEnq s id b] /\ nth 1 b 0 = id.
  Proof.
    unfold internal_sendrq. destruct (sl_rq (get_slot (get_server st s) id)) as [x|]; [discriminate|].
    destruct (get_rq st h) as [r|]; [|discriminate]. destruct (rq_msg r) as [m|]; [|discriminate].
    destruct (fs (100 + id)); [discriminate|].
    destruct (radmsg2buf md5 (set_id m id) (sc_secret (srvconf_of cfg s))) as [[[b a]|]|] eqn:R; try discriminate.
    intro H. injection H as <- <-. exists b. split; [reflexivity|].
    unfold radmsg2buf in R. cbv zeta in R.
    destruct (Consts.RADMSG2BUF_MAX <? _); [discriminate|].
    destruct (existsb _ _); [discriminate|].
    set (buf0 := radius_header _ _ _ _ ++ _) in R.
    assert (B0 : nth 1 buf0 0 = id /\ (2 <= length buf0)%nat).
    { subst buf0. unfold radius_header. cbn [app nth length m_id set_id]. split; [reflexivity | lia]. }
    assert (R1 : forall buf1, match last_ma_split (m_attrs (set_id m id)) with
                 | None => Ok buf0
                 | Some (bef, _, _) =>
                     if (length buf0 <? 20 + length (attrs_bytes bef) + 2 + 16)%nat then Fault "radmsg2buf: message-authenticator beyond buffer"%string
                     else Ok (splice (splice buf0 (20 + length (attrs_bytes bef) + 2) (zeros 16)) (20 + length (attrs_bytes bef) + 2)
                                (hmac_md5 md5 (sc_secret (srvconf_of cfg s)) (splice buf0 (20 + length (attrs_bytes bef) + 2) (zeros 16))))
                 end = Ok buf1 -> nth 1 buf1 0 = id /\ (2 <= length buf1)%nat).
    { clear R. intros buf1. destruct (last_ma_split _) as [[[bef x] y]|].
      - destruct (_ <? _)%nat; [discriminate|]. intro E. injection E as <-.
        destruct B0 as [B1 B2].
        destruct (nth1_splice buf0 (20 + length (attrs_bytes bef) + 2) (zeros 16) 0) as [S1 S2]; [lia | exact B2 |].
        destruct (nth1_splice (splice buf0 (20 + length (attrs_bytes bef) + 2) (zeros 16)) (20 + length (attrs_bytes bef) + 2)
                    (hmac_md5 md5 (sc_secret (srvconf_of cfg s)) (splice buf0 (20 + length (attrs_bytes bef) + 2) (zeros 16))) 0) as [T1 T2]; [lia | exact S2 |].
        split; [etransitivity; [exact T1|]; etransitivity; [exact S1 | exact B1] | exact T2].
      - intro E. injection E as <-. exact B0. }
    match type of R with (match ?r1 with _ => _ end) = _ => destruct r1 as [buf1|] eqn:E1; [|discriminate] end.
    destruct (R1 buf1 eq_refl) as [I1 I2].
    injection R as <- _.
    destruct (signed_code _); [|exact I1].
    destruct (nth1_splice buf1 4 (md5 (buf1 ++ sc_secret (srvconf_of cfg s))) 0) as [U1 _]; [lia | exact I2 |]. congruence.
  Qed.
End S.

Section R.
  Variable md5 : bytes -> bytes.
  Variable rx : N -> bytes -> option (list (Z * Z)).
  Variable cfg : config.
  Variable fs : N -> bool.

  (* C11: a reply is matched only against the request currently holding its Identifier -- when that slot
     is empty nothing is delivered to any client and no slot changes hands *)
  Theorem replyh_unmatched st s buf now rnd : slot_of st s (nth 1 buf 0) = None ->
    exists r, snd (replyh md5 rx cfg fs st s buf now rnd) = [ORet r].
  Proof.
    intro H. unfold replyh. cbv zeta.
    set (st0 := set_server st s (set_lost (get_server st s) 0)).
    assert (H0 : sl_rq (get_slot (get_server st0 s) (nth 1 buf 0)) = None).
    { change (slot_of st0 s (nth 1 buf 0) = None). subst st0. rewrite (slot_of_set_server_same fs) by reflexivity. exact H. }
    rewrite H0.
    destruct (fs 20); [eexists; reflexivity|].
    destruct (buf2radmsg md5 buf (sc_secret (srvconf_of cfg s)) None) as [msg|]; [|eexists; reflexivity].
    destruct (negb (reply_codes (m_code msg))); eexists; reflexivity.
  Qed.
End R.

(* C11: "dropped and forgotten" -- when sendrq cannot place the request, the originating client's cache no
   longer remembers it, so that the client's retransmission is treated as a new request *)
Section F.
  Variable md5 : bytes -> bytes.
  Variable cfg : config.
  Variable fs : N -> bool.

  Definition cache_entry (st : state) (c : nat) (id : N) : option nat := nth (N.to_nat id) (c_rqs (get_client st c)) None.

  Lemma clients_freerq st h : st_clients (freerq st h) = st_clients st.
  Proof. unfold freerq. destruct (get_rq st h) as [r|]; [|reflexivity]. destruct (rq_refcount r <=? 1); reflexivity. Qed.

  Lemma rmclientrq_forgets st h r c : get_rq st h = Some r -> rq_from r = Some c ->
    cache_entry (rmclientrq st h (rq_rqid r)) c (rq_rqid r) = None.
  Proof.
    intros Hr Hf. unfold rmclientrq. rewrite Hr, Hf. unfold cache_entry.
    destruct (nth (N.to_nat (rq_rqid r)) (c_rqs (get_client st c)) None) as [h'|] eqn:E; [|exact E].
    unfold get_client. rewrite clients_freerq. cbn [set_rq set_client st_clients]. unfold upd.
    rewrite nth_set_nth. destruct (Nat.ltb_spec c (length (st_clients st))) as [L|L].
    - cbn [c_rqs]. rewrite nth_set_nth. match goal with |- (if ?b then _ else _) = _ => destruct b end; reflexivity.
    - unfold get_client in E. rewrite (nth_overflow (st_clients st)) in E by exact L.
      cbn in E. destruct (N.to_nat (rq_rqid r)); discriminate.
  Qed.

  Lemma get_rq_set_server st s x h : get_rq (set_server st s x) h = get_rq st h.
  Proof. reflexivity. Qed.
  Lemma get_client_set_server st s x c : get_client (set_server st s x) c = get_client st c.
  Proof. reflexivity. Qed.

  Theorem sendrq_drop_forgets st h st' o r c : sendrq md5 cfg fs st h = (st', o) ->
    get_rq st h = Some r -> rq_from r = Some c -> enq_ids o = [] ->
    cache_entry st' c (rq_rqid r) = None.
  Proof.
    intros H Hr Hf He. unfold sendrq in H. rewrite Hr in H. cbv zeta in H.
    assert (Hfail : forall stx, get_rq stx h = Some r -> get_client stx c = get_client st c ->
              cache_entry (freerq (match get_rq stx h with
                                 | Some r' => match rq_from r' with Some _ => rmclientrq stx h (rq_rqid r') | None => stx end
                                 | None => stx end) h) c (rq_rqid r) = None).
    { intros stx Hx _. rewrite Hx, Hf. unfold cache_entry, get_client. rewrite clients_freerq.
      apply (rmclientrq_forgets stx h r c Hx Hf). }
    assert (Hins : forall stx s i st1 o1, internal_sendrq md5 cfg fs stx s i h = Some (st1, o1) -> enq_ids o1 <> []).
    { intros stx s i st1 o1 E. destruct (internal_sendrq_out _ _ _ _ _ _ _ _ _ E) as [_ (b & ->)]. discriminate. }
    pose proof (Hfail st Hr eq_refl) as Hfail_st. rewrite Hr in Hfail_st.
    destruct (rq_to r) as [s|].
    - match type of H with (if ?c then _ else _) = _ => destruct c end.
      + destruct (internal_sendrq md5 cfg fs st s 0 h) as [[st1 o1]|] eqn:E; injection H as <- <-.
        * exfalso. exact (Hins _ _ _ _ _ E He).
        * exact Hfail_st.
      + match type of H with context [scan_ids md5 cfg fs 257 ?st0 s ?a Consts.MAX_REQUESTS h] =>
          destruct (scan_ids md5 cfg fs 257 st0 s a Consts.MAX_REQUESTS h) as [[[k st1] o1]|] eqn:S1 end.
        * injection H as <- <-. destruct (scan_ids_some _ _ _ _ _ _ _ _ _ _ _ _ S1) as [_ E]. exfalso. exact (Hins _ _ _ _ _ E He).
        * match type of H with context [scan_ids md5 cfg fs 257 ?st0 s ?a ?b h] =>
            destruct (scan_ids md5 cfg fs 257 st0 s a b h) as [[[k st1] o1]|] eqn:S2 end.
          -- injection H as <- <-. destruct (scan_ids_some _ _ _ _ _ _ _ _ _ _ _ _ S2) as [_ E]. exfalso. exact (Hins _ _ _ _ _ E He).
          -- injection H as <- <-. apply Hfail; [rewrite get_rq_set_server; exact Hr | apply get_client_set_server].
    - injection H as <- <-. exact Hfail_st.
  Qed.
End F.
