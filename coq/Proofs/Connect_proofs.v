(* C12: when a connection is re-established the writer makes a re-send pass on the new connection, for every
   interleaving of the connecter's steps with the writer's passes. *)
From RSP Require Import Base Consts Ttl Crypt Packet Rewrite Choose Proxy Writer_proofs Connect.
From Coq Require Import Lia.

Lemma ends_up_mono pre : forall b, ends_up pre false = true -> ends_up pre b = true.
Proof. induction pre as [|c r IH]; intros b H; [discriminate|]. destruct c; cbn [ends_up] in *; auto. Qed.

Lemma split_at_raise_app prog : forall pre post, split_at_raise prog = Some (pre, post) -> prog = pre ++ CRaise :: post.
Proof.
  induction prog as [|c r IH]; intros pre post H; [discriminate|].
  destruct c; cbn [split_at_raise] in H;
    try (destruct (split_at_raise r) as [[a b]|] eqn:E; [|discriminate]; injection H as <- <-; cbn [app]; f_equal; apply IH; reflexivity).
  injection H as <- <-. reflexivity.
Qed.

Lemma count_up_quiet post : forallb quiet post = true -> count_up post = 0%nat.
Proof.
  unfold count_up. induction post as [|c r IH]; intro H; [reflexivity|].
  cbn [forallb] in H. apply andb_true_iff in H as [Hc Hr]. destruct c; try discriminate; cbn [filter]; auto.
Qed.

Lemma count_up_app a b : count_up (a ++ b) = (count_up a + count_up b)%nat.
Proof. unfold count_up. rewrite filter_app, app_length. reflexivity. Qed.

(* after the flag has been raised on the new connection: the first pass consumes it there *)
Lemma after_raise g : forall sch post l n, forallb quiet post = true -> l_up l = true -> l_cr l = true -> l_gen l = g ->
  wake_after n sch = true -> existsb (good_pass g) (run post sch l) = true.
Proof.
  induction sch as [|[now|] r IH]; intros post l n Q U C G W; [discriminate| |].
  - cbn [run existsb]. unfold good_pass at 1. cbn [p_resend p_up p_gen]. rewrite U, C, G, Nat.eqb_refl. reflexivity.
  - cbn [run wake_after] in *. destruct post as [|c p].
    + apply (IH [] l (pred n)); assumption.
    + cbn [forallb] in Q. apply andb_true_iff in Q as [Qc Qp].
      assert (E : conn_step c l = l) by (destruct c; try discriminate; reflexivity).
      rewrite E. apply (IH p l (pred n)); assumption.
Qed.

(* before: whatever the writer does meanwhile, the state is CONNECTED by the time the flag is raised *)
Lemma before_raise post : forallb quiet post = true -> forall sch pre l n, ends_up pre (l_up l) = true -> (length pre < n)%nat ->
  wake_after n sch = true -> existsb (good_pass (l_gen l + count_up pre)) (run (pre ++ CRaise :: post) sch l) = true.
Proof.
  intro Q. induction sch as [|[now|] r IH]; intros pre l n E L W; [discriminate| |].
  - cbn [run existsb]. apply orb_true_iff. right.
    cbn [wake_after] in W. destruct n as [|n']; [lia|].
    apply (IH pre (mkLink (l_up l) (l_gen l) false) (S n')); [exact E | exact L | exact W].
  - cbn [wake_after] in W. destruct pre as [|c pre'].
    + cbn [app run ends_up] in *. cbn [conn_step].
      replace (l_gen l + count_up [])%nat with (l_gen l) by (unfold count_up; cbn; lia).
      apply (after_raise (l_gen l) r post _ (pred n)); [exact Q | exact E | reflexivity | reflexivity | exact W].
    + cbn [app run]. cbn [length] in L.
      replace (l_gen l + count_up (c :: pre'))%nat with (l_gen (conn_step c l) + count_up pre')%nat
        by (unfold count_up; destruct c; cbn [filter length conn_step l_gen]; lia).
      apply (IH pre' (conn_step c l) (pred n)); [| lia | exact W].
      destruct c; cbn [ends_up conn_step l_up] in *; exact E.
Qed.

Theorem handshake prog : handshake_ok prog = true -> forall sch l, wake_after (signalled_at prog) sch = true ->
  existsb (good_pass (l_gen l + count_up prog)) (run prog sch l) = true.
Proof.
  unfold handshake_ok, signalled_at. destruct (split_at_raise prog) as [[pre post]|] eqn:S0; [|discriminate].
  intros H sch l W. apply andb_true_iff in H as [H Sg]. apply andb_true_iff in H as [E Q].
  rewrite (split_at_raise_app _ _ _ S0).
  replace (count_up (pre ++ CRaise :: post)) with (count_up pre)
    by (rewrite count_up_app; change (CRaise :: post) with ([CRaise] ++ post); rewrite count_up_app, (count_up_quiet post Q); unfold count_up; cbn; lia).
  apply (before_raise post Q sch pre l (length pre + 1 + signal_index post)); [apply ends_up_mono; exact E | lia | exact W].
Qed.

(* the three connecters, as they are in the source now *)
Lemma connecters_ok : handshake_ok tcp_prog = true /\ handshake_ok tls_prog = true /\ handshake_ok dtls_prog = true.
Proof. vm_compute. repeat split. Qed.

(* and why the order matters: with the flag raised before the connection is up there is a schedule in which the
   only re-send pass writes to no connection *)
Lemma order_matters : exists sch l, wake_after (length [CDown; CRaise; CUp; CSignal]) sch = true /\
  existsb (good_pass (l_gen l + 1)) (run [CDown; CRaise; CUp; CSignal] sch l) = false.
Proof. exists [None; None; Some 5%Z; None; None; Some 9%Z], (mkLink true 0 false). vm_compute. split; reflexivity. Qed.

(* on that pass every outstanding request is sent again, on the new connection, without consuming a retry *)
Local Open Scope N_scope.
Lemma reestablished_resends_all : forall prog, In prog [tcp_prog; tls_prog; dtls_prog] -> forall sch l,
  wake_after (signalled_at prog) sch = true ->
  exists p, In p (run prog sch l) /\ p_up p = true /\ p_gen p = (l_gen l + count_up prog)%nat /\
    forall ri rc tries expiry, 0 < tries -> tries <= rc + 1 ->
      slot_action ri rc false (p_resend p) (p_now p) tries expiry = (ASend, tries, (p_now p + Z.of_N ri)%Z).
Proof.
  intros prog Hin sch l W.
  assert (Hok : handshake_ok prog = true)
    by (destruct connecters_ok as (A & B & C); destruct Hin as [<-|[<-|[<-|[]]]]; assumption).
  pose proof (handshake prog Hok sch l W) as E. apply existsb_exists in E as (p & Hp & G).
  unfold good_pass in G. apply andb_true_iff in G as [G G3]. apply andb_true_iff in G as [G1 G2].
  exists p. split; [exact Hp|]. split; [exact G2|]. split; [apply Nat.eqb_eq; exact G3|].
  intros ri rc tries expiry H0 H1. rewrite G1. apply resend_keeps_tries; [reflexivity | exact H0 | exact H1].
Qed.
