(* C07: the DNS record parsers never read outside the record data, whatever the record contains *)
From RSP Require Import Base Dns BaseLemmas.
From Coq Require Import ZifyBool ZifyNat ZifyN.
Local Open Scope Z_scope.

Lemma wf_nth b : wf_bytes b = true -> forall i, (nth i b 0%N < 256)%N.
Proof.
  unfold wf_bytes. intro H. induction b as [|x b IH]; intro i.
  - destruct i; cbn; lia.
  - cbn [forallb] in H. apply andb_true_iff in H as [Hx Hb]. destruct i as [|i]; cbn [nth].
    + unfold is_byte in Hx. lia.
    + apply IH. exact Hb.
Qed.

Lemma rd_ok b i : 0 <= i < Z.of_nat (length b) -> rd b i = Ok (nth (Z.to_nat i) b 0%N).
Proof. intro H. unfold rd. replace ((0 <=? i) && (i <? Z.of_nat (length b))) with true by lia. reflexivity. Qed.

Lemma rd_n_ok b : forall n off, 0 <= off -> off + Z.of_nat n <= Z.of_nat (length b) ->
  exists s, rd_n b off n = Ok s /\ length s = n.
Proof.
  induction n as [|n IH]; intros off H0 H.
  - exists []. split; reflexivity.
  - cbn [rd_n]. rewrite rd_ok by lia. cbn [bind].
    destruct (IH (off + 1)) as (s & -> & L); [lia | lia |]. cbn [bind]. eexists. split; [reflexivity | cbn [length]; lia].
Qed.

(* dnsreadcharstring never reads outside the record, for every record and every starting offset >= 0;
   what it returns lies inside the record and is shorter than 256 octets (the destination holds 256) *)
Theorem readcharstring_safe rdata offset : wf_bytes rdata = true -> 0 <= offset ->
  match readcharstring rdata offset with
  | Fault _ => False
  | Ok None => True
  | Ok (Some (s, consumed)) =>
      consumed = Z.of_nat (length s) + 1 /\ offset + consumed <= Z.of_nat (length rdata) /\ (length s < 256)%nat
  end.
Proof.
  intros W H0. unfold readcharstring. cbv zeta.
  destruct (Z.of_nat (length rdata) <=? offset) eqn:E; [exact I|].
  rewrite rd_ok by lia. cbn [bind].
  pose proof (wf_nth rdata W (Z.to_nat offset)) as Hb.
  set (l := nth (Z.to_nat offset) rdata 0%N) in *.
  destruct (Z.of_nat (length rdata) <? offset + 1 + Z.of_N l) eqn:E2; [exact I|].
  destruct (rd_n_ok rdata (Z.to_nat (Z.of_N l)) (offset + 1)) as (s & Hs & L); [lia | lia |].
  rewrite Hs. cbn [bind]. lia.
Qed.

Lemma be16_ok b off : 0 <= off -> off + 2 <= Z.of_nat (length b) -> exists v, be16 b off = Ok v.
Proof. intros H0 H. unfold be16. rewrite !rd_ok by lia. cbn [bind]. eexists. reflexivity. Qed.

Section P.
  Variable dn : Z -> option (Z * bytes).

  (* parsenaptrrr: no read outside the record for ANY record data and ANY behaviour of the name expansion;
     an accepted record is tiled exactly by: order, preference, three character strings, the name *)
  Theorem parsenaptr_safe rdata : wf_bytes rdata = true ->
    match parsenaptr dn rdata with
    | Fault _ => False
    | Ok None => True
    | Ok (Some r) =>
        exists l4, dn (4 + (Z.of_nat (length (na_flags r)) + 1) + (Z.of_nat (length (na_services r)) + 1) + (Z.of_nat (length (na_regexp r)) + 1)) = Some (l4, na_replacement r) /\
          4 + (Z.of_nat (length (na_flags r)) + 1) + (Z.of_nat (length (na_services r)) + 1) + (Z.of_nat (length (na_regexp r)) + 1) + l4 = Z.of_nat (length rdata) /\
          (length (na_flags r) < 256 /\ length (na_services r) < 256 /\ length (na_regexp r) < 256)%nat
    end.
  Proof.
    intro W. unfold parsenaptr. cbv zeta.
    destruct (Z.of_nat (length rdata) <? 4) eqn:E; [exact I|].
    destruct (be16_ok rdata 0) as [order ->]; [lia | lia |]. cbn [bind].
    destruct (be16_ok rdata 2) as [pref ->]; [lia | lia |]. cbn [bind].
    pose proof (readcharstring_safe rdata 4 W ltac:(lia)) as S1.
    destruct (readcharstring rdata 4) as [[[flags l1]|]|]; [|exact I|exact S1]. cbn [bind].
    destruct S1 as (C1 & B1 & F1).
    pose proof (readcharstring_safe rdata (4 + l1) W ltac:(lia)) as S2.
    destruct (readcharstring rdata (4 + l1)) as [[[services l2]|]|]; [|exact I|exact S2]. cbn [bind].
    destruct S2 as (C2 & B2 & F2).
    pose proof (readcharstring_safe rdata (4 + l1 + l2) W ltac:(lia)) as S3.
    destruct (readcharstring rdata (4 + l1 + l2)) as [[[regexp l3]|]|]; [|exact I|exact S3]. cbn [bind].
    destruct S3 as (C3 & B3 & F3).
    destruct (dn (4 + l1 + l2 + l3)) as [[l4 repl]|] eqn:D; [|exact I].
    destruct (4 + l1 + l2 + l3 + l4 =? Z.of_nat (length rdata)) eqn:T; [|exact I].
    cbn [na_flags na_services na_regexp na_replacement]. exists l4. subst l1 l2 l3.
    split; [exact D|]. split; [lia|]. repeat split; assumption.
  Qed.

  Theorem parsesrv_safe rdata : match parsesrv dn rdata with Fault _ => False | _ => True end.
  Proof.
    unfold parsesrv. cbv zeta. destruct (Z.of_nat (length rdata) <? 6) eqn:E; [exact I|].
    destruct (be16_ok rdata 0) as [a ->]; [lia | lia |]. cbn [bind].
    destruct (be16_ok rdata 2) as [b ->]; [lia | lia |]. cbn [bind].
    destruct (be16_ok rdata 4) as [c ->]; [lia | lia |]. cbn [bind].
    destruct (dn 6) as [[l h]|]; [|exact I]. destruct (beq_bytes h [46%N]); exact I.
  Qed.
End P.
