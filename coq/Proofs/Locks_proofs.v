(* Deadlock freedom from a rank discipline (C17).  Generic in the type of locks and the rank function. *)
From RSP Require Import Base Locks.
From Coq Require Import Lia.

Lemma last_cons_default {A} : forall (l : list A) (a b : A), last (b :: l) a = last l b.
Proof.
  induction l as [|c r IH]; intros a b; [reflexivity|].
  change (last (b :: c :: r) a) with (last (c :: r) a). rewrite (IH a c), (IH b c). reflexivity.
Qed.

Section DL.
  Variable L : Type.
  Variable rk : L -> nat.

  (* the discipline every acquisition obeys: the wanted lock outranks everything the thread holds *)
  Definition disciplined (t : thr L) : Prop :=
    forall w l, want t = Some w -> In l (held t) -> rk l < rk w.

  (* a waits for a lock that b holds *)
  Definition waits_on (a b : thr L) : Prop := exists l, want a = Some l /\ In l (held b).

  (* a chain t0 -> t1 -> ... -> tn of blocked threads *)
  Fixpoint chain (a : thr L) (rest : list (thr L)) : Prop :=
    match rest with
    | [] => True
    | b :: rest' => waits_on a b /\ chain b rest'
    end.

  Definition wrank (t : thr L) : nat := match want t with Some l => rk l | None => 0 end.

  Lemma waits_rank a b : disciplined b -> waits_on a b -> (exists w, want b = Some w) -> wrank a < wrank b.
  Proof.
    intros D (l & Wa & Hb) (w & Wb). unfold wrank. rewrite Wa, Wb. apply (D w l Wb Hb).
  Qed.

  (* along a chain of disciplined, blocked threads the rank of the wanted lock strictly increases *)
  Lemma chain_rank : forall rest a, chain a rest ->
    Forall disciplined rest -> Forall (fun t => exists w, want t = Some w) rest ->
    wrank a <= wrank (last rest a) /\ (rest <> [] -> wrank a < wrank (last rest a)).
  Proof.
    induction rest as [|b rest IH]; intros a C D W.
    - split; [cbn; lia | intro H; congruence].
    - cbn [chain] in C. destruct C as [Hab C].
      inversion D as [|? ? Db Dr]; subst. inversion W as [|? ? Wb Wr]; subst.
      pose proof (waits_rank a b Db Hab Wb) as Lt.
      destruct (IH b C Dr Wr) as [Le _].
      assert (E : last (b :: rest) a = last rest b) by apply last_cons_default.
      rewrite E. split; [lia | intros _; lia].
  Qed.

  (* no cycle of waiting threads: t0 waits on t1 ... waits on tn waits on t0 is impossible *)
  Theorem no_deadlock_cycle : forall t0 rest,
    Forall disciplined (t0 :: rest) ->
    Forall (fun t => exists w, want t = Some w) (t0 :: rest) ->
    chain t0 rest -> waits_on (last rest t0) t0 -> False.
  Proof.
    intros t0 rest D W C Back.
    inversion D as [|? ? D0 Dr]; subst. inversion W as [|? ? W0 Wr]; subst.
    destruct (chain_rank rest t0 C Dr Wr) as [Le Lt].
    destruct rest as [|b rest].
    - (* self-wait: a thread waiting for a lock it holds itself *)
      cbn [last] in Back. pose proof (waits_rank t0 t0 D0 Back W0). lia.
    - assert (Dl : disciplined (last (b :: rest) t0) /\ exists w, want (last (b :: rest) t0) = Some w).
      { clear -Dr Wr. revert b Dr Wr. induction rest as [|c r IH]; intros b Dr Wr.
        - inversion Dr; inversion Wr; subst. split; assumption.
        - inversion Dr as [|? ? _ Dr']; inversion Wr as [|? ? _ Wr']; subst.
          change (last (b :: c :: r) t0) with (last (c :: r) t0). apply IH; assumption. }
      pose proof (waits_rank (last (b :: rest) t0) t0 D0 Back W0) as Lt2.
      assert (b :: rest <> []) as NE by discriminate. specialize (Lt NE). lia.
  Qed.
End DL.

(* the concrete discipline: every recorded edge satisfies edge_ok  =>  threads are disciplined w.r.t. rank *)
Lemma edges_give_discipline (t : thr lclass) :
  (forall w l, want t = Some w -> In l (held t) -> edge_ok l w = true) -> disciplined lclass rank t.
Proof.
  intros H w l Hw Hl. specialize (H w l Hw Hl). unfold edge_ok in H. apply PeanoNat.Nat.ltb_lt in H. exact H.
Qed.

(* the innermost classes: nothing may be acquired while one of them is held *)
Lemma leaf_is_innermost a b : rank a = 7 -> edge_ok a b = false.
Proof. intro H. unfold edge_ok. rewrite H. destruct b; reflexivity. Qed.
