(* Inversion of the request handler: what must have held for radsrv to place a request in a server's table.
   From it: C05 (admission), C13 (loop prevention), C08 (routing to the first matching realm), C01 (what the
   forwarded packet is made of). *)
From RSP Require Import Base Consts Ttl Crypt Packet Rewrite Choose Proxy Slots_proofs Dup_proofs Reply_proofs.
From Coq Require Import ZifyBool ZifyNat ZifyN.
Local Open Scope N_scope.

Section F.
  Variable md5 : bytes -> bytes.
  Variable rx : N -> bytes -> option (list (Z * Z)).
  Variable cfg : config.
  Variable fs : N -> bool.

  Definition is_enq (x : out) : bool := match x with OEnq _ _ _ => true | _ => false end.

  Lemma sendreply_no_enq st h : forall x, In x (snd (sendreply md5 cfg fs st h)) -> is_enq x = false.
  Proof.
    intros x H. destruct (sendreply md5 cfg fs st h) as [st' o] eqn:S. cbn [snd] in H.
    destruct (sendreply_out _ _ _ _ _ _ _ S) as [-> | (r & c & b & _ & _ & -> & _)]; [destruct H|].
    destruct H as [<- | []]. reflexivity.
  Qed.

  Lemma respond_no_enq st h code extra ma : forall x, In x (snd (respond md5 cfg fs st h code extra ma)) -> is_enq x = false.
  Proof.
    intros x. unfold respond. destruct (get_rq st h) as [r|]; [|intros []].
    destruct (rq_msg r) as [m|]; [|intros []].
    match goal with |- context [match ?e with Some _ => _ | None => _ end] => destruct e as [a1|] end; [|intros []].
    apply sendreply_no_enq.
  Qed.

  Lemma addclientrq_no_enq st h c now isnew st' o : addclientrq md5 cfg fs st h c now = (isnew, st', o) ->
    forall x, In x o -> is_enq x = false.
  Proof.
    unfold addclientrq. destruct (get_rq st h) as [rq|]; [|intro H; injection H as <- <- <-; intros x []].
    cbv zeta. destruct (nth _ _ None) as [h'|]; [|intro H; injection H as <- <- <-; intros x []].
    destruct (get_rq st h') as [r|]; [|intro H; injection H as <- <- <-; intros x []].
    match goal with |- context [if ?c then _ else _] => destruct c end; [|intro H; injection H as <- <- <-; intros x []].
    destruct (rq_replybuf r); [|intro H; injection H as <- <- <-; intros x []].
    destruct (sendreply md5 cfg fs (newrqref st h') h') as [st1 o1] eqn:S. intro H; injection H as <- <- <-.
    intros x Hx. apply (sendreply_no_enq (newrqref st h') h'). rewrite S. exact Hx.
  Qed.

  (* what sendrq places in a table is the request's current message, serialised under the target server's secret
     with the allocated identifier *)
  Lemma sendrq_enq st h s i b : In (OEnq s i b) (snd (sendrq md5 cfg fs st h)) ->
    exists r m a, get_rq st h = Some r /\ rq_to r = Some s /\ rq_msg r = Some m /\
      radmsg2buf md5 (set_id m i) (sc_secret (srvconf_of cfg s)) = Ok (Some (b, a)).
  Proof.
    unfold sendrq. destruct (get_rq st h) as [r|] eqn:Hr; [|intros []]. cbv zeta.
    assert (Inv : forall stx s' k st1 o1, internal_sendrq md5 cfg fs stx s' k h = Some (st1, o1) -> get_rq stx h = Some r ->
              In (OEnq s i b) o1 -> s' = s /\ k = i /\ exists m a, rq_msg r = Some m /\ radmsg2buf md5 (set_id m i) (sc_secret (srvconf_of cfg s)) = Ok (Some (b, a))).
    { intros stx s' k st1 o1 E Hx Hin. unfold internal_sendrq in E. rewrite Hx in E.
      destruct (sl_rq _); [discriminate|]. destruct (rq_msg r) as [m|]; [|discriminate].
      destruct (fs (100 + k)); [discriminate|].
      destruct (radmsg2buf md5 (set_id m k) (sc_secret (srvconf_of cfg s'))) as [[[b' a]|]|] eqn:R; try discriminate.
      injection E as <- <-. destruct Hin as [E | []]. injection E as -> -> ->.
      split; [reflexivity|]. split; [reflexivity|]. exists m, a. split; [reflexivity | exact R]. }
    destruct (rq_to r) as [s'|] eqn:Ht; [|intros []].
    match goal with |- context [if ?c then _ else _] => destruct c end.
    - destruct (internal_sendrq md5 cfg fs st s' 0 h) as [[st1 o1]|] eqn:E; [|intros []].
      cbn [snd]. intro Hin. destruct (Inv _ _ _ _ _ E Hr Hin) as (-> & _ & m & a & Hm & R).
      exists r, m, a. repeat split; assumption.
    - match goal with |- context [scan_ids md5 cfg fs 257 ?st0 s' ?a Consts.MAX_REQUESTS h] =>
        destruct (scan_ids md5 cfg fs 257 st0 s' a Consts.MAX_REQUESTS h) as [[[k st1] o1]|] eqn:S1 end.
      + cbn [snd]. intro Hin. destruct (scan_ids_some _ _ _ _ _ _ _ _ _ _ _ _ S1) as [_ E].
        destruct (Inv _ _ _ _ _ E Hr Hin) as (-> & _ & m & a & Hm & R). exists r, m, a. repeat split; assumption.
      + match goal with |- context [scan_ids md5 cfg fs 257 ?st0 s' ?a ?b' h] =>
          destruct (scan_ids md5 cfg fs 257 st0 s' a b' h) as [[[k st1] o1]|] eqn:S2 end; [|intros []].
        cbn [snd]. intro Hin. destruct (scan_ids_some _ _ _ _ _ _ _ _ _ _ _ _ S2) as [_ E].
        destruct (Inv _ _ _ _ _ E Hr Hin) as (-> & _ & m & a & Hm & R). exists r, m, a. repeat split; assumption.
  Qed.
End F.

Section G.
  Variable md5 : bytes -> bytes.
  Variable rx : N -> bytes -> option (list (Z * Z)).
  Variable cfg : config.
  Variable fs : N -> bool.

  Lemma exit_no_enq (stx : state) (o : list out) (x : out) :
    (forall y, In y o -> is_enq y = false) -> In x (o ++ [ORet 1]) -> is_enq x = false.
  Proof. intros Ho H. apply in_app_or in H. destruct H as [H | [<- | []]]; [apply Ho; exact H | reflexivity]. Qed.

  (* the admission test of radsrv (RequireMessageAuthenticator / ...Proxy) *)
  Definition ma_policy_rejects (cc : clconf) (msg : radmsg) : bool :=
    (cc_reqma cc || cc_reqmap cc) && ((cc_type cc =? Consts.RAD_UDP) || (cc_type cc =? Consts.RAD_TCP)) &&
    (m_code msg =? Consts.RAD_Access_Request) &&
    (match gettype Consts.RAD_Attr_Message_Authenticator (m_attrs msg) with None => true | Some _ => false end) &&
    (cc_reqma cc || (cc_reqmap cc && match gettype Consts.RAD_Attr_Proxy_State (m_attrs msg) with Some _ => true | None => false end)).

  Definition loop_prevented (cc : clconf) (sc : srvconf) : bool :=
    ((sc_loopprev sc =? 1) || ((sc_loopprev sc =? 255) && o_loopprev (cf_opt cfg))) &&
    beq_bytes (cstr (cc_name cc)) (cstr (sc_name sc)).

  (* everything that must have held for radsrv to place a request in the table of server s *)
  Inductive forwarded (st : state) (h c : nat) (rnd : bytes) (s : nat) (i : N) (b : bytes) : Prop := mkFwd
    (fw_r0 : request)
    (fw_msg : radmsg)
    (fw_a1 : list tlv)
    (fw_ttlres : N)
    (fw_a2 : list tlv)
    (fw_ua : tlv)
    (fw_uname : bytes)
    (fw_orig : option bytes)
    (fw_rl : realm)
    (fw_a4 : list tlv)
    (fw_a5 : list tlv)
    (fw_a6 : list tlv)
    (fw_a8 : list tlv)
    (fw_auth : bytes)
    (fw_ser : bytes)
    (fw_live : get_rq st h = Some fw_r0)
    (fw_parsed : buf2radmsg md5 (match rq_buf fw_r0 with Some x => x | None => [] end) (cc_secret (clconf_of cfg c)) None = Some fw_msg)
    (fw_valid : m_mainvalid fw_msg = false)
    (fw_code : (m_code fw_msg =? Consts.RAD_Access_Request) || (m_code fw_msg =? Consts.RAD_Accounting_Request) = true)
    (fw_accepted : ma_policy_rejects (clconf_of cfg c) fw_msg = false)
    (fw_eap : o_verifyeap (cf_opt cfg) && (m_code fw_msg =? Consts.RAD_Access_Request) && negb (verifyeapformat (m_attrs fw_msg)) = false)
    (fw_rwin : dorewrite rx (m_attrs fw_msg) (cc_rwin (clconf_of cfg c)) = Some fw_a1)
    (fw_ttl : checkttl (o_ttl0 (cf_opt cfg)) (o_ttl1 (cf_opt cfg)) fw_a1 = (fw_ttlres, fw_a2) /\ fw_ttlres <> 0)
    (fw_user : gettype Consts.RAD_Attr_User_Name fw_a2 = Some fw_ua)
    (fw_user_rw : match cc_rwuser (clconf_of cfg c) with
                 | Some m => rewriteusername rx (tlv_v fw_ua) m
                 | None => Some (tlv_v fw_ua, None)
                 end = Some (fw_uname, fw_orig))
    (fw_user_ok : nlen fw_uname <> 0 /\ existsb (N.eqb 0) fw_uname = false)
    (fw_realm : id2realm rx (cf_realms cfg) (cstr fw_uname) = Some fw_rl)
    (fw_server : In s (if m_code fw_msg =? Consts.RAD_Accounting_Request then rl_acc fw_rl else rl_srv fw_rl))
    (fw_noloop : loop_prevented (clconf_of cfg c) (srvconf_of cfg s) = false)
    (fw_chap : fw_a4 = match gettype Consts.RAD_Attr_CHAP_Password (replace_first Consts.RAD_Attr_User_Name fw_uname fw_a2),
                            gettype Consts.RAD_Attr_CHAP_Challenge (replace_first Consts.RAD_Attr_User_Name fw_uname fw_a2) with
                      | Some _, None => replace_first Consts.RAD_Attr_User_Name fw_uname fw_a2 ++ [mkTlv Consts.RAD_Attr_CHAP_Challenge (m_auth fw_msg)]
                      | _, _ => replace_first Consts.RAD_Attr_User_Name fw_uname fw_a2
                      end)
    (fw_newauth : fw_auth = if m_code fw_msg =? Consts.RAD_Accounting_Request then zeros 16 else fst (take_rand rnd 16))
    (fw_pwd : match gettype Consts.RAD_Attr_User_Password fw_a4 with
             | Some pa => match pwdrecrypt md5 (tlv_v pa) (cc_secret (clconf_of cfg c)) (sc_secret (srvconf_of cfg s)) (m_auth fw_msg) fw_auth [] [] with
                          | Some v' => Some (replace_first Consts.RAD_Attr_User_Password v' fw_a4)
                          | None => None
                          end
             | None => Some fw_a4
             end = Some fw_a5)
    (fw_rwout : dorewrite rx fw_a5 (sc_rwout (srvconf_of cfg s)) = Some fw_a6)
    (fw_final : fw_a8 = (let a7 := if m_code fw_msg =? Consts.RAD_Access_Request then ensuremsgauthfront fw_a6 else fw_a6 in
                        if fs 10 then a7 else ttl_stage_add (o_ttl0 (cf_opt cfg)) (o_ttl1 (cf_opt cfg)) (o_addttl (cf_opt cfg)) (sc_addttl (srvconf_of cfg s)) fw_ttlres a7))
    (fw_bytes : radmsg2buf md5 (set_id (set_auth (set_attrs fw_msg fw_a8) fw_auth) i) (sc_secret (srvconf_of cfg s)) = Ok (Some (b, fw_ser))).
End G.

Section H.
  Variable md5 : bytes -> bytes.
  Variable rx : N -> bytes -> option (list (Z * Z)).
  Variable cfg : config.
  Variable fs : N -> bool.

  Ltac dead H := exfalso; cbn [snd app] in H; destruct H as [H | []]; discriminate H.

  Theorem radsrv_forward st h c now rnd s i b :
    In (OEnq s i b) (snd (radsrv md5 rx cfg fs st h c now rnd)) -> forwarded md5 rx cfg fs st h c rnd s i b.
  Proof.
    unfold radsrv. destruct (get_rq st h) as [r0|] eqn:H0; [|cbn; intuition discriminate].
    cbv zeta.
    destruct (fs 1) eqn:F1; [cbn; intuition discriminate|].
    destruct (buf2radmsg md5 _ (cc_secret (clconf_of cfg c)) None) as [msg|] eqn:Hp; [|cbn; intuition discriminate].
    destruct (m_mainvalid msg) eqn:Hv; [cbn; intuition discriminate|].
    set (cc := clconf_of cfg c) in *.
    (* Disconnect / CoA *)
    destruct ((m_code msg =? Consts.RAD_Disconnect_Request) || (m_code msg =? Consts.RAD_CoA_Request)) eqn:C1.
    { destruct (respond md5 cfg fs _ h _ _ true) as [st1 o] eqn:R. intro Hin. exfalso. cbn [snd] in Hin.
      pose proof (exit_no_enq st _ _ (fun y Hy => respond_no_enq md5 cfg fs _ _ _ _ _ y ltac:(rewrite R; exact Hy)) Hin) as K. discriminate K. }
    destruct (negb _) eqn:C2; [intro Hin; dead Hin|].
    destruct (addclientrq md5 cfg fs _ h c now) as [[isnew st1] o0] eqn:A.
    destruct (negb isnew) eqn:NI.
    { intro Hin. exfalso. cbn [snd] in Hin.
      pose proof (exit_no_enq st _ _ (addclientrq_no_enq md5 cfg fs _ _ _ _ _ _ _ A) Hin) as K. discriminate K. }
    destruct (m_code msg =? Consts.RAD_Status_Server) eqn:C3.
    { destruct (respond md5 cfg fs st1 h _ None true) as [st2 o] eqn:R. intro Hin. exfalso. cbn [snd] in Hin.
      pose proof (exit_no_enq st _ _ (fun y Hy => respond_no_enq md5 cfg fs _ _ _ _ _ y ltac:(rewrite R; exact Hy)) Hin) as K. discriminate K. }
    match goal with |- context [if ?g then (freerq st1 h, [] ++ [ORet 1]) else _] => destruct g eqn:Pol end; [intro Hin; dead Hin|].
    destruct (o_verifyeap (cf_opt cfg) && (m_code msg =? Consts.RAD_Access_Request) && negb (verifyeapformat (m_attrs msg))) eqn:Eap.
    { destruct (respond md5 cfg fs st1 h _ None true) as [st2 o] eqn:R. intro Hin. exfalso. cbn [snd] in Hin.
      pose proof (exit_no_enq st _ _ (fun y Hy => respond_no_enq md5 cfg fs _ _ _ _ _ y ltac:(rewrite R; exact Hy)) Hin) as K. discriminate K. }
    (* rewriteIn *)
    match goal with |- context [match ?e with Some a1 => _ | None => (freerq _ h, [] ++ [ORet 1]) end] => destruct e as [a1|] eqn:Rw end;
      [|intro Hin; dead Hin].
    assert (Rw' : dorewrite rx (m_attrs msg) (cc_rwin cc) = Some a1)
      by (revert Rw; destruct (cc_rwin cc); [destruct (fs 4); [discriminate|]|]; exact (fun x => x)).
    destruct (checkttl (o_ttl0 (cf_opt cfg)) (o_ttl1 (cf_opt cfg)) a1) as [ttlres a2] eqn:Ttl.
    destruct (ttlres =? 0) eqn:T0; [intro Hin; dead Hin|].
    destruct (gettype Consts.RAD_Attr_User_Name a2) as [ua|] eqn:Ua.
    2:{ destruct (m_code msg =? Consts.RAD_Accounting_Request); [|intro Hin; dead Hin].
        destruct (respond md5 cfg fs _ h _ None false) as [st2 o] eqn:R. intro Hin. exfalso. cbn [snd] in Hin.
        pose proof (exit_no_enq st _ _ (fun y Hy => respond_no_enq md5 cfg fs _ _ _ _ _ y ltac:(rewrite R; exact Hy)) Hin) as K. discriminate K. }
    match goal with |- context [match ?e with Some p => _ | None => (freerq _ h, [] ++ [ORet 1]) end] => destruct e as [[uname orig]|] eqn:Un end;
      [|intro Hin; dead Hin].
    assert (Un' : match cc_rwuser cc with Some m => rewriteusername rx (tlv_v ua) m | None => Some (tlv_v ua, None) end = Some (uname, orig))
      by (revert Un; destruct (cc_rwuser cc); [destruct (fs 5); [discriminate|]|]; exact (fun x => x)).
    destruct ((nlen uname =? 0) || fs 6) eqn:U0; [intro Hin; dead Hin|].
    destruct (existsb (N.eqb 0) uname) eqn:Nul; [intro Hin; dead Hin|].
    destruct (fs 15); [intro Hin; dead Hin|].
    destruct (id2realm rx (cf_realms cfg) (cstr uname)) as [rl|] eqn:Rl; [|intro Hin; dead Hin].
    match goal with |- context [choose ?stc ?l] => destruct (choose stc l) as [to stc'] eqn:Ch end.
    destruct to as [s'|].
    2:{ (* no server: local answers only *)
        assert (Resp : forall stx code extra ma, In (OEnq s i b) (snd (let '(st1, o) := respond md5 cfg fs stx h code extra ma in (freerq st1 h, o ++ [ORet 1]))) -> False).
        { intros stx code extra ma Hin. destruct (respond md5 cfg fs stx h code extra ma) as [st2 o] eqn:R. cbn [snd] in Hin.
          pose proof (exit_no_enq st _ _ (fun y Hy => respond_no_enq md5 cfg fs _ _ _ _ _ y ltac:(rewrite R; exact Hy)) Hin) as K. discriminate K. }
        destruct (rl_msg rl) as [txt|].
        - destruct (m_code msg =? Consts.RAD_Access_Request); [intro Hin; exfalso; exact (Resp _ _ _ _ Hin)|].
          destruct (rl_accresp rl && (m_code msg =? Consts.RAD_Accounting_Request)); [intro Hin; exfalso; exact (Resp _ _ _ _ Hin) | intro Hin; dead Hin].
        - destruct (rl_accresp rl && (m_code msg =? Consts.RAD_Accounting_Request)); [intro Hin; exfalso; exact (Resp _ _ _ _ Hin) | intro Hin; dead Hin]. }
    (* a server was chosen: it is one of the realm's servers *)
    assert (Hs' : In s' (if m_code msg =? Consts.RAD_Accounting_Request then rl_acc rl else rl_srv rl)).
    { unfold choose in Ch. destruct (choosesrvconf _) as [cidx l'] in Ch. injection Ch as Hc _.
      destruct cidx as [k|]; [|discriminate]. eapply nth_error_In. exact Hc. }
    destruct (((sc_loopprev (srvconf_of cfg s') =? 1) || (sc_loopprev (srvconf_of cfg s') =? 255) && o_loopprev (cf_opt cfg)) &&
              beq_bytes (cstr (cc_name cc)) (cstr (sc_name (srvconf_of cfg s')))) eqn:Lp; [intro Hin; dead Hin|].
    set (a3 := replace_first Consts.RAD_Attr_User_Name uname a2) in *.
    match goal with |- context [match ?e with Some a4 => _ | None => (freerq _ h, [] ++ [ORet 1]) end] => destruct e as [a4|] eqn:Chap end;
      [|intro Hin; dead Hin].
    assert (Chap' : a4 = match gettype Consts.RAD_Attr_CHAP_Password a3, gettype Consts.RAD_Attr_CHAP_Challenge a3 with
                         | Some _, None => a3 ++ [mkTlv Consts.RAD_Attr_CHAP_Challenge (m_auth msg)]
                         | _, _ => a3
                         end).
    { revert Chap. destruct (gettype Consts.RAD_Attr_CHAP_Password a3); [destruct (gettype Consts.RAD_Attr_CHAP_Challenge a3); [|destruct (fs 7); [discriminate|]]|];
        intro X; injection X as <-; reflexivity. }
    set (newauth := if m_code msg =? Consts.RAD_Accounting_Request then zeros 16 else fst (take_rand rnd 16)) in *.
    match goal with |- context [match ?e with Some a5 => _ | None => (freerq _ h, [] ++ [ORet 1]) end] => destruct e as [a5|] eqn:Pw end;
      [|intro Hin; dead Hin].
    match goal with |- context [match ?e with Some a6 => _ | None => (freerq _ h, [] ++ [ORet 1]) end] => destruct e as [a6|] eqn:Rwo end;
      [|intro Hin; dead Hin].
    assert (Rwo' : dorewrite rx a5 (sc_rwout (srvconf_of cfg s')) = Some a6)
      by (revert Rwo; destruct (sc_rwout (srvconf_of cfg s')); [destruct (fs 8); [discriminate|]|]; exact (fun x => x)).
    destruct ((m_code msg =? Consts.RAD_Access_Request) && fs 9); [intro Hin; dead Hin|].
    match goal with |- context [sendrq md5 cfg fs ?stf h] => set (stF := stf) end.
    destruct (sendrq md5 cfg fs stF h) as [stZ oZ] eqn:Sq. cbn [snd]. intro Hin.
    apply in_app_or in Hin. destruct Hin as [Hin | [E | []]]; [|discriminate].
    assert (HinS : In (OEnq s i b) (snd (sendrq md5 cfg fs stF h))) by (rewrite Sq; exact Hin).
    destruct (sendrq_enq _ _ _ _ _ _ _ _ HinS) as (rF & mF & aF & GF & TF & MF & RF).
    (* the request sendrq saw carries the message and target written just before *)
    subst stF. unfold upd_rq in GF at 1.
    match type of GF with get_rq (match get_rq ?stE h with _ => _ end) h = _ => destruct (get_rq stE h) as [rE|] eqn:GE end.
    2:{ rewrite GE in GF. discriminate. }
    rewrite (get_rq_set_rq _ _ _ _ GE) in GF. injection GF as <-.
    cbn [rq_to rq_set_to rq_msg rq_set_msg] in TF, MF. injection TF as <-. injection MF as <-.
    eapply (mkFwd md5 rx cfg fs st h c rnd s' i b r0 msg a1 ttlres a2 ua uname orig rl a4 a5 a6 _ newauth aF); try eassumption; try reflexivity.
    - (* code *) revert C2 C3. clear. intros C2 C3. apply negb_false_iff in C2.
      unfold Consts.RAD_Access_Request, Consts.RAD_Status_Server, Consts.RAD_Accounting_Request in *. lia.
    - split; [exact Ttl | apply N.eqb_neq; exact T0].
    - split; [apply orb_false_iff in U0 as [U0 _]; apply N.eqb_neq; exact U0 | exact Nul].
  Qed.
End H.

Section C.
  Variable md5 : bytes -> bytes.
  Variable rx : N -> bytes -> option (list (Z * Z)).
  Variable cfg : config.
  Variable fs : N -> bool.

  (* id2realm returns the FIRST realm, in configuration order, whose expression matches *)
  Lemma id2realm_first : forall realms id r, id2realm rx realms id = Some r ->
    exists pre post, realms = pre ++ r :: post /\ (forall q, In q pre -> rx (rl_rx q) id = None) /\ rx (rl_rx r) id <> None.
  Proof.
    induction realms as [|q realms IH]; intros id r H; [discriminate|].
    cbn [id2realm] in H. destruct (rx (rl_rx q) id) eqn:E.
    - injection H as <-. exists [], realms. split; [reflexivity|]. split; [intros ? []|]. rewrite E. discriminate.
    - destruct (IH _ _ H) as (pre & post & -> & Hpre & Hr). exists (q :: pre), post. split; [reflexivity|].
      split; [|exact Hr]. intros q' [<-|Hq]; [exact E | apply Hpre; exact Hq].
  Qed.

  (* C05: only authentic, acceptable requests are placed in a server table *)
  Theorem forward_only_if_acceptable st h c now rnd s i b :
    In (OEnq s i b) (snd (radsrv md5 rx cfg fs st h c now rnd)) ->
    exists r0 msg, get_rq st h = Some r0 /\
      buf2radmsg md5 (match rq_buf r0 with Some x => x | None => [] end) (cc_secret (clconf_of cfg c)) None = Some msg /\
      m_mainvalid msg = false /\
      ((m_code msg =? Consts.RAD_Access_Request) || (m_code msg =? Consts.RAD_Accounting_Request) = true) /\
      ma_policy_rejects (clconf_of cfg c) msg = false /\
      (o_verifyeap (cf_opt cfg) && (m_code msg =? Consts.RAD_Access_Request) && negb (verifyeapformat (m_attrs msg)) = false).
  Proof.
    intro H. destruct (radsrv_forward md5 rx cfg fs _ _ _ _ _ _ _ _ H).
    eexists. eexists. repeat split; eassumption.
  Qed.

  (* C13: loop prevention *)
  Theorem forward_not_looped st h c now rnd s i b :
    In (OEnq s i b) (snd (radsrv md5 rx cfg fs st h c now rnd)) ->
    loop_prevented cfg (clconf_of cfg c) (srvconf_of cfg s) = false.
  Proof. intro H. destruct (radsrv_forward md5 rx cfg fs _ _ _ _ _ _ _ _ H). assumption. Qed.

  (* C08: the request goes to a server of the first realm, in configuration order, that matches the (rewritten)
     User-Name -- accounting servers for Accounting-Request, authentication servers otherwise *)
  Theorem forward_first_realm st h c now rnd s i b :
    In (OEnq s i b) (snd (radsrv md5 rx cfg fs st h c now rnd)) ->
    exists uname rl pre post acct,
      cf_realms cfg = pre ++ rl :: post /\
      (forall q, In q pre -> rx (rl_rx q) (cstr uname) = None) /\ rx (rl_rx rl) (cstr uname) <> None /\
      In s (if acct : bool then rl_acc rl else rl_srv rl) /\ existsb (N.eqb 0) uname = false.
  Proof.
    intro H. destruct (radsrv_forward md5 rx cfg fs _ _ _ _ _ _ _ _ H).
    destruct (id2realm_first _ _ _ fw_realm) as (pre & post & E & Hp & Hr).
    exists fw_uname, fw_rl, pre, post, (m_code fw_msg =? Consts.RAD_Accounting_Request).
    repeat split; try assumption. apply fw_user_ok.
  Qed.

  (* C01: what the forwarded packet is -- the client's message after exactly these stages, serialised under
     the chosen server's secret with the allocated identifier *)
  Theorem forward_composition st h c now rnd s i b :
    In (OEnq s i b) (snd (radsrv md5 rx cfg fs st h c now rnd)) -> forwarded md5 rx cfg fs st h c rnd s i b.
  Proof. apply radsrv_forward. Qed.
End C.

Section T.
  Variable md5 : bytes -> bytes.
  Variable rx : N -> bytes -> option (list (Z * Z)).
  Variable cfg : config.
  Variable fs : N -> bool.

  (* C13: a request is placed in a server table only if its TTL (looked up after the client's rewriteIn) is not
     exceeded: absent, or non-zero after the decrement *)
  Theorem forward_ttl_alive st h c now rnd s i b :
    In (OEnq s i b) (snd (radsrv md5 rx cfg fs st h c now rnd)) ->
    exists r0 msg a1 ttlres a2,
      get_rq st h = Some r0 /\
      buf2radmsg md5 (match rq_buf r0 with Some x => x | None => [] end) (cc_secret (clconf_of cfg c)) None = Some msg /\
      dorewrite rx (m_attrs msg) (cc_rwin (clconf_of cfg c)) = Some a1 /\
      checkttl (o_ttl0 (cf_opt cfg)) (o_ttl1 (cf_opt cfg)) a1 = (ttlres, a2) /\ ttlres <> 0.
  Proof.
    intro H. destruct (radsrv_forward md5 rx cfg fs _ _ _ _ _ _ _ _ H).
    exists fw_r0, fw_msg, fw_a1, fw_ttlres, fw_a2. destruct fw_ttl as [T1 T2]. repeat split; assumption.
  Qed.
End T.

Section O.
  Variable md5 : bytes -> bytes.
  Variable rx : N -> bytes -> option (list (Z * Z)).
  Variable cfg : config.
  Variable fs : N -> bool.

  Lemma filter_no_enq (o : list out) : (forall x, In x o -> is_enq x = false) -> filter is_enq (o ++ [ORet 1]) = [].
  Proof.
    intro H. rewrite filter_app. cbn [filter is_enq]. rewrite app_nil_r.
    induction o as [|x o IH]; [reflexivity|]. cbn [filter]. rewrite (H x (or_introl eq_refl)). apply IH. intros y Hy. apply H. right. exact Hy.
  Qed.

  Lemma internal_sendrq_one st s id h st1 o : internal_sendrq md5 cfg fs st s id h = Some (st1, o) -> exists b, o = [OEnq s id b].
  Proof.
    unfold internal_sendrq. cbv zeta. intro I.
    destruct (sl_rq _); [discriminate|]. destruct (get_rq st h) as [r|]; [|discriminate].
    destruct (rq_msg r) as [m|]; [|discriminate]. destruct (fs (100 + id)); [discriminate|].
    destruct (radmsg2buf md5 (set_id m id) (sc_secret (srvconf_of cfg s))) as [[[b a]|]|]; try discriminate.
    injection I as _ <-. exists b. reflexivity.
  Qed.

  Lemma sendrq_at_most_one st h : (length (filter is_enq (snd (sendrq md5 cfg fs st h))) <= 1)%nat.
  Proof.
    unfold sendrq. destruct (get_rq st h) as [r|]; [|cbn; lia]. cbv zeta.
    destruct (rq_to r) as [s|]; [|cbn; lia].
    match goal with |- context [if ?c then _ else _] => destruct c end.
    - destruct (internal_sendrq md5 cfg fs st s 0 h) as [[st1 o1]|] eqn:I; [|cbn; lia].
      destruct (internal_sendrq_one _ _ _ _ _ _ I) as [b ->]. cbn. lia.
    - match goal with |- context [scan_ids md5 cfg fs 257 ?st0 s ?a Consts.MAX_REQUESTS h] =>
        destruct (scan_ids md5 cfg fs 257 st0 s a Consts.MAX_REQUESTS h) as [[[k st1] o1]|] eqn:S1 end.
      + destruct (scan_ids_some _ _ _ _ _ _ _ _ _ _ _ _ S1) as [_ E]. destruct (internal_sendrq_one _ _ _ _ _ _ E) as [b ->]. cbn. lia.
      + match goal with |- context [scan_ids md5 cfg fs 257 ?st0 s ?a ?b' h] =>
          destruct (scan_ids md5 cfg fs 257 st0 s a b' h) as [[[k st1] o1]|] eqn:S2 end; [|cbn; lia].
        destruct (scan_ids_some _ _ _ _ _ _ _ _ _ _ _ _ S2) as [_ E]. destruct (internal_sendrq_one _ _ _ _ _ _ E) as [b ->]. cbn. lia.
  Qed.

  (* C01 "exactly once": one invocation of radsrv places at most one packet in a server table *)
  Theorem radsrv_at_most_one st h c now rnd :
    (length (filter is_enq (snd (radsrv md5 rx cfg fs st h c now rnd))) <= 1)%nat.
  Proof.
    unfold radsrv. destruct (get_rq st h) as [r0|]; [|cbn; lia]. cbv zeta.
    assert (Ex : forall (stX : state) (o : list out), (forall x, In x o -> is_enq x = false) ->
              (length (filter is_enq (snd (freerq stX h, o ++ [ORet 1]))) <= 1)%nat)
      by (intros stX o Ho; cbn [snd]; rewrite (filter_no_enq o Ho); cbn; lia).
    assert (Ex0 : forall stX : state, (length (filter is_enq (snd (freerq stX h, [] ++ [ORet 1]))) <= 1)%nat)
      by (intro stX; cbn; lia).
    assert (Re : forall stX code extra ma,
              (length (filter is_enq (snd (let '(st1, o) := respond md5 cfg fs stX h code extra ma in (freerq st1 h, o ++ [ORet 1])))) <= 1)%nat).
    { intros stX code extra ma. destruct (respond md5 cfg fs stX h code extra ma) as [st1 o] eqn:R. apply Ex.
      intros y Hy. apply (respond_no_enq md5 cfg fs stX h code extra ma). rewrite R. exact Hy. }
    destruct (fs 1); [cbn; lia|].
    destruct (buf2radmsg md5 _ (cc_secret (clconf_of cfg c)) None) as [msg|]; [|cbn; lia].
    destruct (m_mainvalid msg); [cbn; lia|].
    destruct ((m_code msg =? Consts.RAD_Disconnect_Request) || (m_code msg =? Consts.RAD_CoA_Request)); [apply Re|].
    destruct (negb _); [apply Ex0|].
    destruct (addclientrq md5 cfg fs _ h c now) as [[isnew st1] o0] eqn:A.
    destruct (negb isnew); [apply Ex; exact (addclientrq_no_enq md5 cfg fs _ _ _ _ _ _ _ A)|].
    destruct (m_code msg =? Consts.RAD_Status_Server); [apply Re|].
    match goal with |- context [if ?g then (freerq st1 h, [] ++ [ORet 1]) else _] => destruct g end; [apply Ex0|].
    destruct (o_verifyeap (cf_opt cfg) && (m_code msg =? Consts.RAD_Access_Request) && negb (verifyeapformat (m_attrs msg))); [apply Re|].
    match goal with |- context [match ?e with Some a1 => _ | None => (freerq _ h, [] ++ [ORet 1]) end] => destruct e as [a1|] end; [|apply Ex0].
    destruct (checkttl (o_ttl0 (cf_opt cfg)) (o_ttl1 (cf_opt cfg)) a1) as [ttlres a2].
    destruct (ttlres =? 0); [apply Ex0|].
    destruct (gettype Consts.RAD_Attr_User_Name a2) as [ua|].
    2:{ destruct (m_code msg =? Consts.RAD_Accounting_Request); [apply Re | apply Ex0]. }
    match goal with |- context [match ?e with Some p => _ | None => (freerq _ h, [] ++ [ORet 1]) end] => destruct e as [[uname orig]|] end; [|apply Ex0].
    destruct ((nlen uname =? 0) || fs 6); [apply Ex0|].
    match goal with |- context [match ?e with Some rl => _ | None => (freerq _ h, [] ++ [ORet 1]) end] => destruct e as [rl|] end; [|apply Ex0].
    match goal with |- context [choose ?stc ?l] => destruct (choose stc l) as [to stc'] end.
    destruct to as [s'|].
    2:{ destruct (rl_msg rl) as [txt|].
        - destruct (m_code msg =? Consts.RAD_Access_Request); [apply Re|].
          destruct (rl_accresp rl && (m_code msg =? Consts.RAD_Accounting_Request)); [apply Re | apply Ex0].
        - destruct (rl_accresp rl && (m_code msg =? Consts.RAD_Accounting_Request)); [apply Re | apply Ex0]. }
    match goal with |- context [if ?g then (freerq stc' h, [] ++ [ORet 1]) else _] => destruct g end; [apply Ex0|].
    match goal with |- context [match ?e with Some a4 => _ | None => (freerq _ h, [] ++ [ORet 1]) end] => destruct e as [a4|] end; [|apply Ex0].
    match goal with |- context [match ?e with Some a5 => _ | None => (freerq _ h, [] ++ [ORet 1]) end] => destruct e as [a5|] end; [|apply Ex0].
    match goal with |- context [match ?e with Some a6 => _ | None => (freerq _ h, [] ++ [ORet 1]) end] => destruct e as [a6|] end; [|apply Ex0].
    match goal with |- context [if ?g then (freerq _ h, [] ++ [ORet 1]) else _] => destruct g end; [apply Ex0|].
    match goal with |- context [sendrq md5 cfg fs ?stf h] =>
      pose proof (sendrq_at_most_one stf h) as K; destruct (sendrq md5 cfg fs stf h) as [stZ oZ] end.
    cbn [snd] in *. rewrite filter_app. cbn [filter is_enq]. rewrite app_nil_r. exact K.
  Qed.
End O.
