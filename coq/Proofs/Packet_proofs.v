From RSP Require Import Base Consts Ttl Crypt Packet Spec_Packet BaseLemmas.
From Coq Require Import ZifyBool ZifyNat ZifyN.
Local Open Scope N_scope.
Ltac Zify.zify_post_hook ::= Z.div_mod_to_equations.

(* ------------------------------------------------------------------ small list facts *)
Lemma nlen_app {A} (a b : list A) : nlen (a ++ b) = nlen a + nlen b.
Proof. unfold nlen. rewrite app_length. lia. Qed.

Lemma zeros_length n : length (zeros n) = n.
Proof. apply repeat_length. Qed.

Lemma splice_length buf off new : (off + length new <= length buf)%nat -> length (splice buf off new) = length buf.
Proof.
  intro H. unfold splice. rewrite !app_length, firstn_length_le by lia. rewrite skipn_length. lia.
Qed.

(* ------------------------------------------------------------------ the attribute walk *)
Definition proj3 (p : tlv * nat) : N * nat * bytes := (tlv_t (fst p), snd p, tlv_v (fst p)).

(* a successful parse is the same walk as the specification's attrs_of, and the area tiles *)
Lemma parse_attrs_attrs_of : forall fuel rest pos al,
  parse_attrs fuel rest pos = Some al ->
  forall f', (length rest <= f')%nat -> attrs_of_f f' rest pos = map proj3 al.
Proof.
  induction fuel as [|fuel IH]; intros rest pos al H f' Hf; [discriminate|].
  cbn [parse_attrs] in H.
  destruct rest as [|t [|l rest']].
  - injection H as <-. destruct f'; reflexivity.
  - discriminate.
  - destruct (l <? 2) eqn:L2; [discriminate|].
    destruct (length rest' <? N.to_nat (l - 2))%nat eqn:LV; [discriminate|].
    destruct (parse_attrs fuel (skipn (N.to_nat (l - 2)) rest') (pos + 2 + N.to_nat (l - 2))) as [r|] eqn:E; [|discriminate].
    injection H as <-.
    destruct f' as [|f']; [simpl in Hf; lia|].
    cbn [attrs_of_f map]. unfold proj3 at 1. cbn [fst snd tlv_t tlv_v]. f_equal.
    apply (IH _ _ _ E). rewrite skipn_length. simpl in Hf. lia.
Qed.

Lemma parse_attrs_tiles : forall fuel rest pos al, wf_bytes rest = true ->
  parse_attrs fuel rest pos = Some al ->
  forall f', (length rest < f')%nat -> tiles_f f' rest = true.
Proof.
  induction fuel as [|fuel IH]; intros rest pos al W H f' Hf; [discriminate|].
  cbn [parse_attrs] in H.
  destruct rest as [|t [|l rest']].
  - destruct f'; [lia|reflexivity].
  - discriminate.
  - destruct (l <? 2) eqn:L2; [discriminate|].
    destruct (length rest' <? N.to_nat (l - 2))%nat eqn:LV; [discriminate|].
    destruct (parse_attrs fuel (skipn (N.to_nat (l - 2)) rest') (pos + 2 + N.to_nat (l - 2))) as [r|] eqn:E; [|discriminate].
    destruct f' as [|f']; [lia|].
    cbn [tiles_f].
    assert (Wl : l < 256).
    { simpl in W. apply andb_true_iff in W as [_ W]. apply andb_true_iff in W as [W _]. unfold is_byte in W. lia. }
    assert (W' : wf_bytes (skipn (N.to_nat (l - 2)) rest') = true).
    { apply wf_bytes_skipn. simpl in W. apply andb_true_iff in W as [_ W]. apply andb_true_iff in W as [_ W]. exact W. }
    rewrite (IH _ _ _ W' E) by (rewrite skipn_length; simpl in Hf; lia).
    apply N.ltb_ge in L2. apply Nat.ltb_ge in LV.
    replace (2 <=? l) with true by lia. replace (l <=? 255) with true by lia.
    replace (N.to_nat (l - 2) <=? length rest')%nat with true by lia. reflexivity.
Qed.

(* the parsed attributes re-encode to exactly the bytes that were parsed (tiling, value <= 253) *)
Lemma parse_attrs_concat : forall fuel rest pos al, wf_bytes rest = true ->
  parse_attrs fuel rest pos = Some al ->
  rest = concat (map tlv2buf (map fst al)) /\ forallb (fun a => tlv_l a <=? 253) (map fst al) = true.
Proof.
  induction fuel as [|fuel IH]; intros rest pos al W H; [discriminate|].
  cbn [parse_attrs] in H.
  destruct rest as [|t [|l rest']].
  - injection H as <-. split; reflexivity.
  - discriminate.
  - destruct (l <? 2) eqn:L2; [discriminate|].
    destruct (length rest' <? N.to_nat (l - 2))%nat eqn:LV; [discriminate|].
    destruct (parse_attrs fuel (skipn (N.to_nat (l - 2)) rest') (pos + 2 + N.to_nat (l - 2))) as [r|] eqn:E; [|discriminate].
    injection H as <-.
    assert (Wl : l < 256).
    { simpl in W. apply andb_true_iff in W as [_ W]. apply andb_true_iff in W as [W _]. unfold is_byte in W. lia. }
    assert (W' : wf_bytes (skipn (N.to_nat (l - 2)) rest') = true).
    { apply wf_bytes_skipn. simpl in W. apply andb_true_iff in W as [_ W]. apply andb_true_iff in W as [_ W]. exact W. }
    destruct (IH _ _ _ W' E) as [Hc Hl].
    apply N.ltb_ge in L2. apply Nat.ltb_ge in LV.
    assert (Hvl : length (firstn (N.to_nat (l - 2)) rest') = N.to_nat (l - 2)) by (apply firstn_length_le; lia).
    cbn [map fst concat forallb]. split.
    + unfold tlv2buf at 1. cbn [tlv_t tlv_v]. unfold tlv_l, nlen. cbn [tlv_v]. rewrite Hvl.
      replace (u8 (N.of_nat (N.to_nat (l - 2)) + 2)) with l by (unfold u8; lia).
      cbn [app]. f_equal. f_equal. rewrite <- Hc. symmetry. apply firstn_skipn.
    + rewrite Hl. unfold tlv_l, nlen. cbn [tlv_v]. rewrite Hvl.
      replace (N.of_nat (N.to_nat (l - 2)) <=? 253) with true by lia. reflexivity.
Qed.

(* ------------------------------------------------------------------ HMAC: model = RFC 2104 text *)
Section Auth.
  Variable md5 : bytes -> bytes.

  Lemma hmac_is_rfc key msg : hmac_md5 md5 key msg = rfc_hmac_md5 md5 key msg.
  Proof.
    unfold hmac_md5, rfc_hmac_md5, pad64, zeros, nlen.
    replace (64 <? N.of_nat (length key)) with (64 <? length key)%nat by lia. reflexivity.
  Qed.

  Lemma splice_zero buf off : splice buf off (zeros 16) = zero_at buf off.
  Proof. reflexivity. Qed.

  Lemma splice_auth buf ra : length ra = 16%nat -> splice buf 4 ra = with_auth buf ra.
  Proof. intro H. unfold splice, with_auth. rewrite H. reflexivity. Qed.

  Lemma validauth_is_response buf ra secret : validauth md5 buf ra secret = response_auth_ok md5 buf ra secret.
  Proof.
    unfold validauth, response_auth_ok.
    destruct (beq_bytes (md5 _) (firstn 16 (skipn 4 buf))) eqn:E.
    - apply beq_bytes_eq in E. rewrite E. symmetry. apply beq_bytes_refl.
    - destruct (beq_bytes (firstn 16 (skipn 4 buf)) (md5 _)) eqn:E2; [|reflexivity].
      apply beq_bytes_eq in E2. rewrite E2, beq_bytes_refl in E. discriminate.
  Qed.

  (* what a successful, unflagged parse guarantees -- the codec part of C04 and C05 *)
  Definition authfield_for (code : N) (rq : option bytes) : option bytes :=
    if reply_code code then rq else None.

  Theorem buf2radmsg_sound b secret rq m :
    wf_bytes b = true ->
    (forall ra, rq = Some ra -> length ra = 16%nat) ->
    buf2radmsg md5 b secret rq = Some m ->
    length_field b = nlen b /\
    tiles (skipn 20 b) = true /\
    skipn 20 b = concat (map tlv2buf (m_attrs m)) /\
    forallb (fun a => tlv_l a <=? 253) (m_attrs m) = true /\
    m_code m = nth 0 b 0 /\ m_id m = nth 1 b 0 /\ m_auth m = firstn 16 (skipn 4 b) /\
    (m_code m = Consts.RAD_Accounting_Request -> acct_request_auth_ok md5 b secret = true) /\
    (forall ra, rq = Some ra -> response_auth_ok md5 b ra secret = true) /\
    (m_mainvalid m = false ->
       all_msgauth_ok md5 b (authfield_for (m_code m) rq) secret = true /\
       (reply_code (m_code m) = true -> rq = None -> has_msgauth b = false)).
  Proof.
    intros W Hrq H. unfold buf2radmsg in H. revert H.
    destruct (nlen b =? be_value (firstn 2 (skipn 2 b))) eqn:EL; [|discriminate]. cbn [negb].
    destruct ((nth 0 b 0 =? Consts.RAD_Accounting_Request) && negb (validauth md5 b (zeros 16) secret)) eqn:EA; [discriminate|].
    match goal with |- (if ?c then _ else _) = _ -> _ => destruct c eqn:ER; [discriminate|] end.
    destruct (parse_attrs (length b) (skipn 20 b) 20) as [al|] eqn:EP; [|discriminate].
    cbv zeta. intro H.
    injection H as <-. cbn [m_code m_id m_auth m_attrs m_mainvalid].
    assert (W20 : wf_bytes (skipn 20 b) = true) by (apply wf_bytes_skipn; exact W).
    destruct (parse_attrs_concat _ _ _ _ W20 EP) as [Hc Hl].
    assert (Hao : attrs_of b = map proj3 al).
    { unfold attrs_of. apply (parse_attrs_attrs_of _ _ _ _ EP). rewrite skipn_length. lia. }
    split; [unfold length_field; apply N.eqb_eq in EL; symmetry; exact EL|].
    split; [unfold tiles; apply (parse_attrs_tiles _ _ _ _ W20 EP); lia|].
    split; [exact Hc|]. split; [exact Hl|].
    split; [reflexivity|]. split; [reflexivity|]. split; [reflexivity|].
    split.
    { intro Hc4. apply andb_false_iff in EA as [EA|EA].
      - apply N.eqb_neq in EA. contradiction.
      - apply negb_false_iff in EA. unfold acct_request_auth_ok. rewrite <- validauth_is_response. exact EA. }
    split.
    { intros ra ->. apply negb_false_iff in ER. rewrite <- validauth_is_response. exact ER. }
    intro HV. pose proof (existsb_false_forall _ _ HV) as HF. split.
    - (* every Message-Authenticator verifies *)
      unfold all_msgauth_ok. rewrite Hao. rewrite forallb_forall. intros x Hx.
      apply in_map_iff in Hx as ([a off] & <- & Hin).
      specialize (HF (a, off) Hin). cbn beta iota in HF.
      unfold is_msgauth, proj3. cbn [fst snd].
      destruct (tlv_t a =? Consts.RAD_Attr_Message_Authenticator) eqn:T; [|reflexivity]. cbn [negb orb andb] in *.
      apply orb_false_iff in HF as [HF H3]. apply orb_false_iff in HF as [H1 H2].
      apply negb_false_iff in H2, H3. unfold checkmsgauth in H3. apply beq_bytes_eq in H3.
      unfold msgauth_value_ok. unfold tlv_l, nlen in H2.
      replace (length (tlv_v a) =? 16)%nat with true by lia. cbn [andb].
      apply beq_bytes_eq. rewrite <- H3, hmac_is_rfc, splice_zero. f_equal. f_equal.
      unfold authfield_for. destruct (reply_code (nth 0 b 0)) eqn:RC.
      + destruct rq as [ra|]; [|discriminate]. rewrite splice_auth by (apply Hrq; reflexivity). reflexivity.
      + destruct rq; reflexivity.
    - (* a reply that cannot be verified for lack of the request carries no Message-Authenticator *)
      intros RC ->. unfold has_msgauth. rewrite Hao.
      destruct (existsb is_msgauth (map proj3 al)) eqn:EX; [|reflexivity].
      apply existsb_exists in EX as (x & Hx & Hm). apply in_map_iff in Hx as ([a off] & <- & Hin).
      specialize (HF (a, off) Hin). cbn beta iota in HF.
      unfold is_msgauth, proj3 in Hm. cbn [fst snd] in Hm. rewrite Hm, RC in HF. discriminate.
  Qed.
End Auth.

(* ================================================================== serializer *)
Lemma attrs_bytes_eq l : attrs_bytes l = concat (map tlv2buf l).
Proof. reflexivity. Qed.

Lemma attrs_bytes_cons a l : attrs_bytes (a :: l) = (tlv_t a :: u8 (nlen (tlv_v a) + 2) :: tlv_v a) ++ attrs_bytes l.
Proof. reflexivity. Qed.

Lemma attrs_bytes_app a b : attrs_bytes (a ++ b) = attrs_bytes a ++ attrs_bytes b.
Proof. unfold attrs_bytes. rewrite map_app, concat_app. reflexivity. Qed.

Lemma attrs_bytes_length l : N.of_nat (length (attrs_bytes l)) = attrs_size l.
Proof.
  induction l as [|a l IH]; [reflexivity|].
  change (attrs_bytes (a :: l)) with ((tlv_t a :: u8 (nlen (tlv_v a) + 2) :: tlv_v a) ++ attrs_bytes l).
  change (attrs_size (a :: l)) with (2 + tlv_l a + attrs_size l).
  rewrite app_length. cbn [length]. rewrite <- IH. unfold tlv_l, nlen. lia.
Qed.

Lemma last_ma_split_spec attrs b m af : last_ma_split attrs = Some (b, m, af) ->
  attrs = b ++ m :: af /\ tlv_t m = Consts.RAD_Attr_Message_Authenticator /\
  forallb (fun a => negb (tlv_t a =? Consts.RAD_Attr_Message_Authenticator)) af = true.
Proof.
  revert b m af. induction attrs as [|a r IH]; intros b m af H; [discriminate|].
  cbn [last_ma_split] in H. destruct (last_ma_split r) as [[[b' m'] af']|] eqn:E.
  - injection H as <- <- <-. destruct (IH _ _ _ eq_refl) as (-> & T & F). repeat split; assumption.
  - destruct (tlv_t a =? Consts.RAD_Attr_Message_Authenticator) eqn:T; [|discriminate].
    injection H as <- <- <-. apply N.eqb_eq in T. repeat split; [exact T|].
    clear -E. induction r as [|x r IH]; [reflexivity|]. cbn [last_ma_split] in E.
    destruct (last_ma_split r) as [[[? ?] ?]|]; [discriminate|].
    destruct (tlv_t x =? Consts.RAD_Attr_Message_Authenticator) eqn:Tx; [discriminate|].
    cbn [forallb]. rewrite Tx. cbn [negb andb]. apply IH. reflexivity.
Qed.

Lemma last_ma_split_none attrs : last_ma_split attrs = None ->
  forallb (fun a => negb (tlv_t a =? Consts.RAD_Attr_Message_Authenticator)) attrs = true.
Proof.
  induction attrs as [|x r IH]; [reflexivity|]. cbn [last_ma_split]. intro E.
  destruct (last_ma_split r) as [[[? ?] ?]|]; [discriminate|].
  destruct (tlv_t x =? Consts.RAD_Attr_Message_Authenticator) eqn:Tx; [discriminate|].
  cbn [forallb]. rewrite Tx. cbn [negb andb]. apply IH. reflexivity.
Qed.

Lemma splice_mid (p v q new : bytes) : length v = length new -> splice (p ++ v ++ q) (length p) new = p ++ new ++ q.
Proof.
  intro H. unfold splice. rewrite (firstn_app_exact_l p). f_equal. f_equal.
  rewrite <- H. rewrite app_assoc. rewrite <- app_length. apply skipn_app_exact_l.
Qed.

(* every attribute of <= 253 bytes re-encodes with its true length byte; the area tiles *)
Definition attrs_ok (l : list tlv) : bool := forallb (fun a => (tlv_l a <=? 253) && wf_bytes (tlv_v a) && is_byte (tlv_t a)) l.

Definition lens_ok (l : list tlv) : bool := forallb (fun a => tlv_l a <=? 253) l.

Lemma attrs_ok_lens l : attrs_ok l = true -> lens_ok l = true.
Proof.
  unfold attrs_ok, lens_ok. rewrite !forallb_forall. intros H x Hx. specialize (H x Hx).
  apply andb_true_iff in H as [H _]. apply andb_true_iff in H as [H _]. exact H.
Qed.

Lemma lens_ok_map l l' : map tlv_l l' = map tlv_l l -> lens_ok l = true -> lens_ok l' = true.
Proof.
  revert l. induction l' as [|a' l' IH]; intros [|a l] E H; try discriminate; [reflexivity|].
  cbn [map] in E. injection E as E1 E2. cbn [lens_ok forallb] in *. apply andb_true_iff in H as [Ha Hl].
  rewrite E1, Ha. cbn [andb]. apply (IH l E2 Hl).
Qed.

Lemma tiles_attrs_bytes l : lens_ok l = true -> forall f, (length (attrs_bytes l) < f)%nat -> tiles_f f (attrs_bytes l) = true.
Proof.
  induction l as [|a l IH]; intros H f Hf.
  - destruct f; [simpl in Hf; lia | reflexivity].
  - cbn [lens_ok forallb] in H. apply andb_true_iff in H as [Ha Hl].
    unfold attrs_bytes in *. cbn [map concat] in *. rewrite app_length in Hf. cbn [length] in Hf.
    destruct f as [|f]; [lia|]. cbn [app tiles_f].
    unfold tlv_l in Ha. unfold nlen in *.
    set (n := length (tlv_v a)) in *.
    assert (Hu : u8 (N.of_nat n + 2) = N.of_nat n + 2) by (unfold u8; lia).
    rewrite Hu. replace (N.to_nat (N.of_nat n + 2 - 2)) with n by lia.
    rewrite (skipn_app_exact_l (tlv_v a)). rewrite app_length. fold n.
    rewrite IH by (try exact Hl; lia).
    replace (2 <=? N.of_nat n + 2) with true by lia. replace (N.of_nat n + 2 <=? 255) with true by lia.
    replace (n <=? n + length (concat (map (fun a0 : tlv => tlv_t a0 :: u8 (N.of_nat (length (tlv_v a0)) + 2) :: tlv_v a0) l)))%nat with true by lia.
    reflexivity.
Qed.

(* the specification's walk over a serialised attribute list *)
Fixpoint attrs_with_off (l : list tlv) (pos : nat) : list (N * nat * bytes) :=
  match l with
  | [] => []
  | a :: r => (tlv_t a, (pos + 2)%nat, tlv_v a) :: attrs_with_off r (pos + 2 + length (tlv_v a))
  end.

Lemma attrs_of_f_attrs_bytes l : lens_ok l = true -> forall f pos, (length (attrs_bytes l) <= f)%nat ->
  attrs_of_f f (attrs_bytes l) pos = attrs_with_off l pos.
Proof.
  induction l as [|a l IH]; intros H f pos Hf.
  - destruct f; reflexivity.
  - cbn [lens_ok forallb] in H. apply andb_true_iff in H as [Ha Hl].
    unfold attrs_bytes in *. cbn [map concat] in *. rewrite app_length in Hf. cbn [length] in Hf.
    destruct f as [|f]; [lia|]. cbn [app attrs_of_f attrs_with_off].
    unfold tlv_l in Ha. unfold nlen in *.
    set (n := length (tlv_v a)) in *.
    assert (Hu : u8 (N.of_nat n + 2) = N.of_nat n + 2) by (unfold u8; lia).
    rewrite Hu. replace (N.to_nat (N.of_nat n + 2 - 2)) with n by lia.
    rewrite (skipn_app_exact_l (tlv_v a)), (firstn_app_exact_l (tlv_v a)).
    f_equal. apply IH; [exact Hl | lia].
Qed.

Lemma attrs_with_off_app a b pos : attrs_with_off (a ++ b) pos = attrs_with_off a pos ++ attrs_with_off b (pos + length (attrs_bytes a)).
Proof.
  revert pos. induction a as [|x a IH]; intro pos.
  - simpl. rewrite Nat.add_0_r. reflexivity.
  - cbn [app attrs_with_off]. rewrite IH. f_equal. f_equal. f_equal.
    unfold attrs_bytes. cbn [map concat]. rewrite app_length. cbn [length]. lia.
Qed.

Lemma attrs_with_off_noma l pos : forallb (fun a => negb (tlv_t a =? Consts.RAD_Attr_Message_Authenticator)) l = true ->
  forallb (fun x => negb (is_msgauth x)) (attrs_with_off l pos) = true.
Proof.
  revert pos. induction l as [|a l IH]; intros pos H; [reflexivity|].
  cbn [forallb] in H. apply andb_true_iff in H as [Ha Hl]. cbn [attrs_with_off forallb].
  unfold is_msgauth at 1. cbn [fst]. rewrite Ha. apply IH. exact Hl.
Qed.

Section Ser.
  Variable md5 : bytes -> bytes.
  Hypothesis md5_len : forall x, length (md5 x) = 16%nat.

  Lemma hmac_len k m : length (hmac_md5 md5 k m) = 16%nat.
  Proof. unfold hmac_md5. apply md5_len. Qed.

  (* Message-Authenticator attributes of a message about to be serialised are 16 bytes long *)
  Definition ma_ok (l : list tlv) : bool :=
    forallb (fun a => negb (tlv_t a =? Consts.RAD_Attr_Message_Authenticator) || (tlv_l a =? 16)) l.

  Lemma ma_ok_not_bad l : ma_ok l = true -> existsb bad_ma l = false.
  Proof.
    unfold ma_ok, bad_ma. induction l as [|a l IH]; [reflexivity|]. cbn [forallb existsb]. intro H.
    apply andb_true_iff in H as [Ha Hl]. rewrite (IH Hl).
    destruct (tlv_t a =? Consts.RAD_Attr_Message_Authenticator); cbn [negb orb andb] in *; [rewrite Ha|]; reflexivity.
  Qed.

  Definition msg_ok (m : radmsg) : bool :=
    attrs_ok (m_attrs m) && ma_ok (m_attrs m) && (length (m_auth m) =? 16)%nat && wf_bytes (m_auth m) &&
    is_byte (m_code m) && is_byte (m_id m).

  (* the packet radmsg2buf builds, described structurally *)
  Lemma radmsg2buf_shape m secret : msg_ok m = true ->
    match radmsg2buf md5 m secret with
    | Fault _ => False
    | Ok None => Consts.RADMSG2BUF_MAX < 20 + attrs_size (m_attrs m)
    | Ok (Some (b, a')) =>
        20 + attrs_size (m_attrs m) <= Consts.RADMSG2BUF_MAX /\
        exists auth' attrs',
          b = radius_header (m_code m) (m_id m) (20 + attrs_size (m_attrs m)) auth' ++ attrs_bytes attrs' /\
          length auth' = 16%nat /\
          attrs_size attrs' = attrs_size (m_attrs m) /\
          map tlv_t attrs' = map tlv_t (m_attrs m) /\ map tlv_l attrs' = map tlv_l (m_attrs m) /\
          (* values other than the last Message-Authenticator's are unchanged *)
          match last_ma_split (m_attrs m) with
          | None => attrs' = m_attrs m
          | Some (bef, ma, aft) =>
              exists v, length v = 16%nat /\ attrs' = bef ++ mkTlv (tlv_t ma) v :: aft /\
                v = hmac_md5 md5 secret (radius_header (m_code m) (m_id m) (20 + attrs_size (m_attrs m)) (m_auth m)
                                           ++ attrs_bytes (bef ++ mkTlv (tlv_t ma) (zeros 16) :: aft))
          end /\
          (if signed_code (m_code m)
           then auth' = md5 ((radius_header (m_code m) (m_id m) (20 + attrs_size (m_attrs m)) (m_auth m) ++ attrs_bytes attrs') ++ secret)
           else auth' = m_auth m) /\
          a' = (if m_code m =? Consts.RAD_Accounting_Request then auth' else m_auth m)
    end.
  Proof.
    intro OK. unfold msg_ok in OK.
    apply andb_true_iff in OK as [OK Hid]. apply andb_true_iff in OK as [OK Hcode].
    apply andb_true_iff in OK as [OK Hwa]. apply andb_true_iff in OK as [OK Hal].
    apply andb_true_iff in OK as [Hattrs Hma]. apply Nat.eqb_eq in Hal.
    unfold radmsg2buf. set (size := 20 + attrs_size (m_attrs m)).
    destruct (Consts.RADMSG2BUF_MAX <? size) eqn:SZ; [apply N.ltb_lt in SZ; exact SZ|].
    rewrite (ma_ok_not_bad _ Hma).
    apply N.ltb_ge in SZ. change (concat (map tlv2buf (m_attrs m))) with (attrs_bytes (m_attrs m)).
    set (hdr := radius_header (m_code m) (m_id m) size (m_auth m)).
    assert (Hhdr : length hdr = 20%nat).
    { unfold hdr, radius_header. rewrite !app_length, be_encode_length, Hal. reflexivity. }
    assert (Hsign : forall body, length (splice (hdr ++ body) 4 (md5 ((hdr ++ body) ++ secret))) = length (hdr ++ body)
                     /\ splice (hdr ++ body) 4 (md5 ((hdr ++ body) ++ secret)) =
                        radius_header (m_code m) (m_id m) size (md5 ((hdr ++ body) ++ secret)) ++ body).
    { intro body. split.
      - apply splice_length. rewrite md5_len, app_length, Hhdr. lia.
      - unfold hdr, radius_header.
        change ([m_code m; m_id m] ++ be_encode 2 size ++ m_auth m) with (([m_code m; m_id m] ++ be_encode 2 size) ++ m_auth m).
        rewrite <- !app_assoc.
        replace 4%nat with (length ([m_code m; m_id m] ++ be_encode 2 size)) at 1 by (rewrite app_length, be_encode_length; reflexivity).
        rewrite (app_assoc [m_code m; m_id m] (be_encode 2 size)).
        rewrite splice_mid by (rewrite md5_len; exact Hal). rewrite <- !app_assoc. reflexivity. }
    destruct (last_ma_split (m_attrs m)) as [[[bef ma] aft]|] eqn:LS.
    - destruct (last_ma_split_spec _ _ _ _ LS) as (Hsplit & Tma & _).
      (* the Message-Authenticator has 16 value bytes *)
      assert (Hmal : length (tlv_v ma) = 16%nat).
      { unfold ma_ok in Hma. rewrite Hsplit, forallb_app in Hma. apply andb_true_iff in Hma as [_ Hma].
        cbn [forallb] in Hma. apply andb_true_iff in Hma as [Hma _]. rewrite Tma, N.eqb_refl in Hma. cbn [negb orb] in Hma.
        unfold tlv_l, nlen in Hma. lia. }
      assert (Hbody : attrs_bytes (m_attrs m) = attrs_bytes bef ++ [tlv_t ma; u8 (nlen (tlv_v ma) + 2)] ++ tlv_v ma ++ attrs_bytes aft).
      { rewrite Hsplit, attrs_bytes_app. unfold attrs_bytes at 2. cbn [map concat]. reflexivity. }
      set (pre := hdr ++ attrs_bytes bef ++ [tlv_t ma; u8 (nlen (tlv_v ma) + 2)]).
      assert (Hbuf0 : hdr ++ attrs_bytes (m_attrs m) = pre ++ tlv_v ma ++ attrs_bytes aft).
      { rewrite Hbody. unfold pre. rewrite <- !app_assoc. reflexivity. }
      assert (Hoff : (20 + length (attrs_bytes bef) + 2)%nat = length pre).
      { unfold pre. rewrite !app_length, Hhdr. simpl. lia. }
      rewrite Hoff, Hbuf0.
      assert (Hfit : (length (pre ++ tlv_v ma ++ attrs_bytes aft) <? length pre + 16)%nat = false).
      { apply Nat.ltb_ge. rewrite !app_length, Hmal. lia. }
      rewrite Hfit.
      rewrite splice_mid by (rewrite zeros_length; exact Hmal).
      rewrite splice_mid by (rewrite hmac_len, zeros_length; reflexivity).
      set (v := hmac_md5 md5 secret (pre ++ zeros 16 ++ attrs_bytes aft)).
      set (attrs' := bef ++ mkTlv (tlv_t ma) v :: aft).
      assert (Hv : length v = 16%nat) by apply hmac_len.
      assert (Hb1 : pre ++ v ++ attrs_bytes aft = hdr ++ attrs_bytes attrs').
      { unfold pre, attrs'. rewrite attrs_bytes_app. unfold attrs_bytes at 4. cbn [map concat tlv_t tlv_v].
        unfold nlen. rewrite Hv, Hmal. rewrite <- !app_assoc. reflexivity. }
      assert (Hz : pre ++ zeros 16 ++ attrs_bytes aft = hdr ++ attrs_bytes (bef ++ mkTlv (tlv_t ma) (zeros 16) :: aft)).
      { unfold pre. rewrite attrs_bytes_app. unfold attrs_bytes at 4. cbn [map concat tlv_t tlv_v].
        unfold nlen. rewrite zeros_length, Hmal. rewrite <- !app_assoc. reflexivity. }
      assert (Hsz : attrs_size attrs' = attrs_size (m_attrs m)).
      { rewrite <- !attrs_bytes_length. f_equal. rewrite Hbody. unfold attrs'. rewrite attrs_bytes_app.
        unfold attrs_bytes at 2. cbn [map concat tlv_t tlv_v]. rewrite !app_length. cbn [length]. rewrite Hv, Hmal. reflexivity. }
      assert (Ht : map tlv_t attrs' = map tlv_t (m_attrs m)).
      { rewrite Hsplit. unfold attrs'. rewrite !map_app. reflexivity. }
      assert (Hl : map tlv_l attrs' = map tlv_l (m_attrs m)).
      { rewrite Hsplit. unfold attrs'. rewrite !map_app. cbn [map]. f_equal. f_equal.
        unfold tlv_l, nlen. cbn [tlv_v]. rewrite Hv, Hmal. reflexivity. }
      rewrite Hb1.
      destruct (signed_code (m_code m)) eqn:SC.
      + destruct (Hsign (attrs_bytes attrs')) as [_ ->].
        split; [exact SZ|].
        exists (md5 ((hdr ++ attrs_bytes attrs') ++ secret)), attrs'.
        repeat split; try assumption; try reflexivity.
        * apply md5_len.
        * exists v. repeat split; try assumption; try reflexivity. unfold v. rewrite Hz. reflexivity.
        * unfold radius_header. rewrite <- !app_assoc. cbn [app].
          destruct (m_code m =? Consts.RAD_Accounting_Request); [|reflexivity].
          rewrite firstn_app_exact_l0 by first [rewrite be_encode_length; reflexivity | apply md5_len | exact Hal]. reflexivity.
      + split; [exact SZ|]. exists (m_auth m), attrs'.
        repeat split; try assumption; try reflexivity.
        * exists v. repeat split; try assumption; try reflexivity. unfold v. rewrite Hz. reflexivity.
        * unfold hdr, radius_header. rewrite <- !app_assoc. cbn [app].
          destruct (m_code m =? Consts.RAD_Accounting_Request); [|reflexivity].
          rewrite firstn_app_exact_l0 by first [rewrite be_encode_length; reflexivity | apply md5_len | exact Hal]. reflexivity.
    - destruct (signed_code (m_code m)) eqn:SC.
      + destruct (Hsign (attrs_bytes (m_attrs m))) as [_ ->].
        split; [exact SZ|].
        exists (md5 ((hdr ++ attrs_bytes (m_attrs m)) ++ secret)), (m_attrs m).
        repeat split; try reflexivity.
        * apply md5_len.
        * unfold radius_header. rewrite <- !app_assoc. cbn [app].
          destruct (m_code m =? Consts.RAD_Accounting_Request); [|reflexivity].
          rewrite firstn_app_exact_l0 by first [rewrite be_encode_length; reflexivity | apply md5_len | exact Hal]. reflexivity.
      + split; [exact SZ|]. exists (m_auth m), (m_attrs m).
        repeat split; try assumption; try reflexivity.
        unfold hdr, radius_header. rewrite <- !app_assoc. cbn [app].
        destruct (m_code m =? Consts.RAD_Accounting_Request); [|reflexivity].
        rewrite firstn_app_exact_l0 by first [rewrite be_encode_length; reflexivity | apply md5_len | exact Hal]. reflexivity.
  Qed.

  (* ---- C06: well-formedness of everything radmsg2buf emits ---- *)
  Lemma header_fields code id size auth rest : length auth = 16%nat -> size < 65536 ->
    length (radius_header code id size auth) = 20%nat /\
    length_field (radius_header code id size auth ++ rest) = size /\
    firstn 4 (radius_header code id size auth ++ rest) = [code; id] ++ be_encode 2 size /\
    firstn 16 (skipn 4 (radius_header code id size auth ++ rest)) = auth /\
    skipn 20 (radius_header code id size auth ++ rest) = rest.
  Proof.
    intros Ha Hs. unfold radius_header, length_field.
    assert (Hbe : be_encode 2 size = [(size / 256) mod 256; size mod 256]) by reflexivity.
    rewrite Hbe. cbn [app]. repeat split.
    - cbn [length]. rewrite Ha. reflexivity.
    - cbn [skipn firstn]. unfold be_value. cbn [fold_left]. lia.
    - cbn [skipn]. rewrite <- Ha. apply firstn_app_exact_l.
    - destruct auth as [|a0 [|a1 [|a2 [|a3 [|a4 [|a5 [|a6 [|a7 [|a8 [|a9 [|a10 [|a11 [|a12 [|a13 [|a14 [|a15 [|]]]]]]]]]]]]]]]]];
        simpl in Ha; try lia. reflexivity.
  Qed.

  Theorem radmsg2buf_wf m secret b a' : msg_ok m = true -> Consts.RADMSG2BUF_MAX <= 4096 ->
    radmsg2buf md5 m secret = Ok (Some (b, a')) -> wf_packet b = true.
  Proof.
    intros OK MAX E. pose proof (radmsg2buf_shape m secret OK) as S. rewrite E in S.
    destruct S as (SZ & auth' & attrs' & -> & Hal & Hsz & Ht & Hl & _).
    assert (OK' := OK). unfold msg_ok in OK'. repeat (apply andb_true_iff in OK' as [OK' _]).
    assert (Hlens : lens_ok attrs' = true) by (eapply lens_ok_map; [exact Hl | apply attrs_ok_lens; exact OK']).
    set (size := 20 + attrs_size (m_attrs m)) in *.
    destruct (header_fields (m_code m) (m_id m) size auth' (attrs_bytes attrs') Hal) as (H20 & HLF & _ & _ & HSK); [lia|].
    unfold wf_packet. rewrite HLF, HSK.
    assert (Hn : nlen (radius_header (m_code m) (m_id m) size auth' ++ attrs_bytes attrs') = size).
    { unfold nlen. rewrite app_length, H20, Nat2N.inj_add, attrs_bytes_length, Hsz. reflexivity. }
    rewrite Hn, N.eqb_refl.
    unfold tiles. rewrite tiles_attrs_bytes by (try exact Hlens; lia).
    replace (20 <=? size) with true by (unfold size; lia). replace (size <=? 4096) with true by lia. reflexivity.
  Qed.

  Theorem radmsg2buf_no_fault m secret : msg_ok m = true -> is_fault (radmsg2buf md5 m secret) = false.
  Proof.
    intro OK. pose proof (radmsg2buf_shape m secret OK) as S. destruct (radmsg2buf md5 m secret); [reflexivity|contradiction].
  Qed.

  (* ---- C06: Response Authenticator / Accounting-Request authenticator ---- *)
  Theorem radmsg2buf_response_auth m secret b a' : msg_ok m = true -> Consts.RADMSG2BUF_MAX <= 4096 ->
    signed_code (m_code m) = true ->
    radmsg2buf md5 m secret = Ok (Some (b, a')) -> response_auth_ok md5 b (m_auth m) secret = true.
  Proof.
    intros OK MAX SC E. pose proof (radmsg2buf_shape m secret OK) as S. rewrite E in S.
    destruct S as (SZ & auth' & attrs' & -> & Hal & Hsz & Ht & Hl & _ & Hsig & _). rewrite SC in Hsig.
    set (size := 20 + attrs_size (m_attrs m)) in *.
    destruct (header_fields (m_code m) (m_id m) size auth' (attrs_bytes attrs') Hal) as (H20 & _ & HF4 & HAU & HSK); [lia|].
    unfold response_auth_ok. rewrite HAU, HF4, HSK. apply beq_bytes_eq. rewrite Hsig.
    unfold radius_header. rewrite <- !app_assoc. reflexivity.
  Qed.

  (* ---- C06: the (single) Message-Authenticator of an emitted packet verifies ---- *)
  Definition single_ma (l : list tlv) : bool :=
    match last_ma_split l with
    | Some (bef, _, _) => forallb (fun a => negb (tlv_t a =? Consts.RAD_Attr_Message_Authenticator)) bef
    | None => false
    end.

  Theorem radmsg2buf_msgauth m secret b a' : msg_ok m = true -> Consts.RADMSG2BUF_MAX <= 4096 ->
    single_ma (m_attrs m) = true ->
    radmsg2buf md5 m secret = Ok (Some (b, a')) ->
    all_msgauth_ok md5 b (Some (m_auth m)) secret = true /\ has_msgauth b = true /\
    (match m_attrs m with a :: _ => tlv_t a = Consts.RAD_Attr_Message_Authenticator -> first_is_msgauth b = true | [] => True end).
  Proof.
    intros OK MAX SM E. pose proof (radmsg2buf_shape m secret OK) as S. rewrite E in S.
    destruct S as (SZ & auth' & attrs' & -> & Hal & Hsz & Ht & Hl & Hma & _).
    assert (OK' := OK). unfold msg_ok in OK'.
    apply andb_true_iff in OK' as [OK' _]. apply andb_true_iff in OK' as [OK' _]. apply andb_true_iff in OK' as [OK' _].
    apply andb_true_iff in OK' as [OK' Hmal]. apply andb_true_iff in OK' as [Hattrs _]. apply Nat.eqb_eq in Hmal.
    assert (Hlens : lens_ok attrs' = true) by (eapply lens_ok_map; [exact Hl | apply attrs_ok_lens; exact Hattrs]).
    set (size := 20 + attrs_size (m_attrs m)) in *.
    destruct (header_fields (m_code m) (m_id m) size auth' (attrs_bytes attrs') Hal) as (H20 & _ & HF4 & _ & HSK); [lia|].
    unfold single_ma in SM.
    destruct (last_ma_split (m_attrs m)) as [[[bef ma] aft]|] eqn:LS; [|discriminate].
    destruct (last_ma_split_spec _ _ _ _ LS) as (Hsplit & Tma & Haft).
    destruct Hma as (v & Hv & -> & Hveq).
    set (b := radius_header (m_code m) (m_id m) size auth' ++ attrs_bytes (bef ++ mkTlv (tlv_t ma) v :: aft)) in *.
    assert (Hao : attrs_of b = attrs_with_off (bef ++ mkTlv (tlv_t ma) v :: aft) 20).
    { unfold attrs_of. rewrite HSK. apply attrs_of_f_attrs_bytes; [exact Hlens|].
      unfold b. rewrite app_length. lia. }
    rewrite attrs_with_off_app in Hao. cbn [attrs_with_off tlv_t tlv_v] in Hao.
    split; [|split].
    - unfold all_msgauth_ok. rewrite Hao, forallb_app. cbn [forallb].
      apply andb_true_iff. split; [|apply andb_true_iff; split].
      + pose proof (attrs_with_off_noma bef 20 SM) as H. rewrite forallb_forall in *. intros x Hx. rewrite (H x Hx). reflexivity.
      + unfold is_msgauth at 1. cbn [fst snd]. rewrite Tma, N.eqb_refl. cbn [negb orb].
        unfold msgauth_value_ok. rewrite Hv. cbn [Nat.eqb andb]. apply beq_bytes_eq.
        rewrite Hveq at 1. rewrite hmac_is_rfc. f_equal.
        (* zeroing the value in the emitted packet with the request authenticator restored gives the signed text *)
        unfold zero_at, with_auth. rewrite HF4, HSK.
        set (pre := (([m_code m; m_id m] ++ be_encode 2 size) ++ m_auth m) ++ attrs_bytes bef ++ [tlv_t ma; u8 (nlen v + 2)]).
        assert (Hw : ([m_code m; m_id m] ++ be_encode 2 size) ++ m_auth m ++ attrs_bytes (bef ++ mkTlv (tlv_t ma) v :: aft)
                     = pre ++ v ++ attrs_bytes aft).
        { unfold pre. rewrite attrs_bytes_app. unfold attrs_bytes at 2. cbn [map concat tlv_t tlv_v]. rewrite <- !app_assoc. reflexivity. }
        rewrite Hw.
        assert (Hpl : (20 + length (attrs_bytes bef) + 2)%nat = length pre).
        { unfold pre. rewrite !app_length, be_encode_length, Hmal. cbn [length]. lia. }
        rewrite Hpl, firstn_app_exact_l.
        replace (length pre + 16)%nat with (length (pre ++ v)) by (rewrite app_length, Hv; reflexivity).
        rewrite (app_assoc pre v (attrs_bytes aft)), skipn_app_exact_l.
        unfold pre, radius_header. rewrite attrs_bytes_app, attrs_bytes_cons. cbn [tlv_t tlv_v].
        unfold nlen, zeros. rewrite repeat_length, Hv. rewrite <- !app_assoc. cbn [app]. reflexivity.
      + pose proof (attrs_with_off_noma aft (20 + length (attrs_bytes bef) + 2 + length v) Haft) as H.
        rewrite forallb_forall in *. intros x Hx. rewrite (H x Hx). reflexivity.
    - unfold has_msgauth. rewrite Hao, existsb_app. cbn [existsb]. unfold is_msgauth at 2. cbn [fst].
      rewrite Tma, N.eqb_refl. cbn [orb]. apply orb_true_r.
    - rewrite Hsplit. destruct bef as [|x bef'].
      + cbn [app]. intros _. unfold first_is_msgauth. rewrite Hao. cbn [attrs_with_off app]. unfold is_msgauth. cbn [fst].
        rewrite Tma. apply N.eqb_refl.
      + cbn [app]. intro Tx. cbn [forallb] in SM. rewrite Tx, N.eqb_refl in SM. discriminate.
  Qed.
End Ser.
