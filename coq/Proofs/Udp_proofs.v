(* C10 (UDP association): a datagram is attributed to the client object that already stands for its source
   address and port, whatever else is in the table *)
From RSP Require Import Base Udp BaseLemmas.
From Coq Require Import ZifyBool ZifyNat ZifyN.
Local Open Scope Z_scope.

(* the first client of the table with this address and port *)
Fixpoint first_match (l : list uclient) (addr : bytes) (port : N) : option nat :=
  match l with
  | [] => None
  | c :: r => if uc_is c addr port then Some (uc_id c) else first_match r addr port
  end.

Lemma udp_scan_chosen : forall l addr port t id, snd (udp_scan l addr port t (Some id)) = Some id.
Proof.
  induction l as [|c r IH]; intros addr port t id; [reflexivity|].
  cbn [udp_scan]. destruct (udp_scan r addr port t (Some id)) as [r' ch] eqn:E.
  pose proof (IH addr port t id) as H. rewrite E in H. cbn [snd] in H. subst ch.
  destruct (uc_expiry c <? t); reflexivity.
Qed.

(* the scan finds the first matching client, whether or not its own idle timer ran out, and whatever expired
   clients come before it *)
Theorem udp_scan_finds : forall l addr port t, snd (udp_scan l addr port t None) = first_match l addr port.
Proof.
  induction l as [|c r IH]; intros addr port t; [reflexivity|].
  cbn [udp_scan first_match]. destruct (uc_is c addr port) eqn:M.
  - pose proof (udp_scan_chosen r addr port t (uc_id c)) as H.
    destruct (udp_scan r addr port t (Some (uc_id c))) as [r' ch]. cbn [snd] in H. subst ch.
    cbn [uc_expiry]. destruct (t + UDP_IDLE <? t); reflexivity.
  - specialize (IH addr port t). destruct (udp_scan r addr port t None) as [r' ch]. cbn [snd] in IH.
    destruct (uc_expiry c <? t); exact IH.
Qed.

(* C10: same source address and port => same association, as long as that client is in the table *)
Theorem udp_same_association l next addr port t id :
  first_match l addr port = Some id -> snd (fst (udp_arrival l next addr port t)) = id.
Proof.
  intro H. unfold udp_arrival. pose proof (udp_scan_finds l addr port t) as F.
  destruct (udp_scan l addr port t None) as [l' ch]. cbn [snd] in F. rewrite F, H. reflexivity.
Qed.

(* the chosen client stays in the table with its timer re-armed: the next datagram from the same source within
   60 s finds it again *)
Lemma udp_scan_keeps_chosen : forall l addr port t id, first_match l addr port = Some id ->
  first_match (fst (udp_scan l addr port t None)) addr port = Some id.
Proof.
  induction l as [|c r IH]; intros addr port t id H; [discriminate|].
  cbn [udp_scan first_match] in *. destruct (uc_is c addr port) eqn:M.
  - injection H as <-. destruct (udp_scan r addr port t (Some (uc_id c))) as [r' ch]. cbn [uc_expiry].
    replace (t + UDP_IDLE <? t) with false by (unfold UDP_IDLE; lia). cbn [fst first_match].
    unfold uc_is in *. cbn [uc_addr uc_port]. rewrite M. reflexivity.
  - specialize (IH addr port t id H). destruct (udp_scan r addr port t None) as [r' ch]. cbn [fst] in IH.
    destruct (uc_expiry c <? t); cbn [fst first_match]; [exact IH | rewrite M; exact IH].
Qed.

Theorem udp_retransmission_same_client l next addr port t t' :
  let '(l1, id1, next1) := udp_arrival l next addr port t in
  snd (fst (udp_arrival l1 next1 addr port t')) = id1.
Proof.
  unfold udp_arrival at 1. pose proof (udp_scan_finds l addr port t) as F.
  destruct (udp_scan l addr port t None) as [l' ch] eqn:E. cbn [snd] in F.
  destruct ch as [id|].
  - apply udp_same_association. pose proof (udp_scan_keeps_chosen l addr port t id (eq_sym F)) as K. rewrite E in K. exact K.
  - apply udp_same_association.
    assert (N0 : first_match l' addr port = None).
    { clear F. revert l' E. induction l as [|c r IH]; intros l' E.
      - injection E as <-. reflexivity.
      - cbn [udp_scan] in E. destruct (uc_is c addr port) eqn:M.
        + pose proof (udp_scan_chosen r addr port t (uc_id c)) as H.
          destruct (udp_scan r addr port t (Some (uc_id c))) as [r' ch']. cbn [snd] in H. subst ch'.
          destruct (_ <? _); discriminate.
        + destruct (udp_scan r addr port t None) as [r' ch'] eqn:Er.
          destruct (uc_expiry c <? t); injection E as <- ->; [apply IH; reflexivity | cbn [first_match]; rewrite M; apply IH; reflexivity]. }
    clear E F. induction l' as [|c r IH]; cbn [app first_match] in *.
    + unfold uc_is. cbn [uc_addr uc_port]. rewrite beq_bytes_refl, N.eqb_refl. reflexivity.
    + destruct (uc_is c addr port); [discriminate | apply IH; exact N0].
Qed.
