(* C07: the attribute walks never read outside the buffer *)
From RSP Require Import Base Dns Walk BaseLemmas Dns_proofs.
From Coq Require Import ZifyBool ZifyNat ZifyN.
Local Open Scope Z_scope.

Lemma rd_n_ok' b n off : 0 <= off -> off + Z.of_nat n <= Z.of_nat (length b) -> exists s, rd_n b off n = Ok s.
Proof. intros H0 H. destruct (rd_n_ok b n off H0 H) as (s & E & _). exists s. exact E. Qed.

(* the request/reply parser: for EVERY buffer (of any length) and every starting offset inside it, no octet
   outside the buffer is read; an accepted walk tiles [p, len) exactly *)
Fixpoint tiles_from (l : list (N * Z * Z)) (p : Z) (len : Z) : Prop :=
  match l with
  | [] => p = len
  | (_, off, vl) :: r => off = p + 2 /\ 0 <= vl /\ off + vl <= len /\ tiles_from r (off + vl) len
  end.

Theorem walk_idx_safe : forall fuel buf p, 0 <= p -> p <= Z.of_nat (length buf) ->
  match walk_idx fuel buf p with
  | Fault _ => False
  | Ok None => True
  | Ok (Some l) => tiles_from l p (Z.of_nat (length buf))
  end.
Proof.
  induction fuel as [|f IH]; intros buf p H0 Hp; [exact I|].
  cbn [walk_idx]. cbv zeta.
  destruct (p + 2 <=? Z.of_nat (length buf)) eqn:E.
  - rewrite !rd_ok by lia. cbn [bind].
    set (l := nth (Z.to_nat (p + 1)) buf 0%N).
    destruct (l <? 2)%N eqn:L2; [exact I|].
    destruct ((0 <? Z.of_N l - 2) && (Z.of_nat (length buf) <? p + 2 + (Z.of_N l - 2))) eqn:B; [exact I|].
    destruct (rd_n_ok' buf (Z.to_nat (Z.of_N l - 2)) (p + 2)) as [s ->]; [lia | lia |]. cbn [bind].
    specialize (IH buf (p + 2 + (Z.of_N l - 2)) ltac:(lia) ltac:(lia)).
    destruct (walk_idx f buf (p + 2 + (Z.of_N l - 2))) as [[r|]|]; cbn [bind]; [|exact I|exact IH].
    cbn [tiles_from]. repeat split; try lia. exact IH.
  - destruct (p <? Z.of_nat (length buf)) eqn:E2; [exact I|]. cbn [tiles_from]. lia.
Qed.

(* attrvalidate on the sub-attribute area [o, o + length) of a buffer: no read outside the AREA (hence none
   outside the buffer), for every content *)
Theorem attrvalidate_idx_safe : forall fuel buf o len, 0 <= o -> 0 <= len -> o + len <= Z.of_nat (length buf) ->
  match attrvalidate_idx fuel buf o len with Fault _ => False | Ok _ => True end.
Proof.
  induction fuel as [|f IH]; intros buf o len H0 Hl Hb; [exact I|].
  cbn [attrvalidate_idx]. destruct (1 <? len) eqn:E; [|exact I].
  rewrite rd_ok by lia. cbn [bind].
  set (alen := nth (Z.to_nat (o + 1)) buf 0%N).
  destruct (alen <? 2)%N; [exact I|]. cbv zeta.
  destruct (len - Z.of_N alen <? 0) eqn:E2; [exact I|].
  apply IH; lia.
Qed.

(* validated area: what attrvalidate = true guarantees, as a predicate on offsets *)
Fixpoint validated (fuel : nat) (buf : bytes) (o len : Z) : Prop :=
  match fuel with
  | O => True
  | S f => 1 < len -> let alen := Z.of_N (nth (Z.to_nat (o + 1)) buf 0%N) in
             2 <= alen /\ alen <= len /\ validated f buf (o + alen) (len - alen)
  end.

Lemma attrvalidate_idx_true : forall fuel buf o len, 0 <= o -> 0 <= len -> o + len <= Z.of_nat (length buf) ->
  attrvalidate_idx fuel buf o len = Ok true -> validated fuel buf o len.
Proof.
  induction fuel as [|f IH]; intros buf o len H0 Hl Hb H; [exact I|].
  cbn [attrvalidate_idx] in H. cbn [validated]. intro L1. cbv zeta.
  replace (1 <? len) with true in H by lia. rewrite rd_ok in H by lia. cbn [bind] in H.
  set (alen := nth (Z.to_nat (o + 1)) buf 0%N) in *.
  destruct (alen <? 2)%N eqn:A2; [discriminate|]. cbv zeta in H.
  destruct (len - Z.of_N alen <? 0) eqn:E2; [discriminate|].
  split; [lia|]. split; [lia|]. apply IH; try lia. exact H.
Qed.

(* the walks that follow a successful attrvalidate (dovendorrewriterm, checkttl, msmppe, supplement ...):
   inside a validated area no read leaves the area, including the value octets of every sub-attribute *)
Theorem subwalk_idx_safe : forall fuel buf o len, 0 <= o -> 0 <= len -> o + len <= Z.of_nat (length buf) ->
  validated fuel buf o len ->
  match subwalk_idx fuel buf o len with Fault _ => False | Ok _ => True end.
Proof.
  induction fuel as [|f IH]; intros buf o len H0 Hl Hb V; [exact I|].
  cbn [subwalk_idx]. destruct (1 <? len) eqn:E; [|exact I].
  cbn [validated] in V. specialize (V ltac:(lia)). cbv zeta in V. destruct V as (A2 & AL & V).
  rewrite !rd_ok by lia. cbn [bind].
  set (alen := nth (Z.to_nat (o + 1)) buf 0%N) in *.
  destruct (rd_n_ok' buf (Z.to_nat (Z.of_N alen - 2)) (o + 2)) as [s ->]; [lia | lia |]. cbn [bind].
  specialize (IH buf (o + Z.of_N alen) (len - Z.of_N alen) ltac:(lia) ltac:(lia) ltac:(lia) V).
  destruct (subwalk_idx f buf (o + Z.of_N alen) (len - Z.of_N alen)); [exact I | exact IH].
Qed.

Corollary validate_then_walk_safe fuel buf o len : 0 <= o -> 0 <= len -> o + len <= Z.of_nat (length buf) ->
  attrvalidate_idx fuel buf o len = Ok true ->
  match subwalk_idx fuel buf o len with Fault _ => False | Ok _ => True end.
Proof. intros H0 Hl Hb H. apply subwalk_idx_safe; try assumption. apply attrvalidate_idx_true; assumption. Qed.

(* ---- agreement with the list-level parser model (Packet.parse_attrs), which the correspondence run compares
   with the real buf2radmsg: same verdict, same attributes at the same offsets ---- *)
From RSP Require Import Consts Ttl Crypt Packet.

Lemma skipn_cons_nth {A} (d : A) : forall (l : list A) p, (p < length l)%nat -> skipn p l = nth p l d :: skipn (S p) l.
Proof.
  induction l as [|x l IH]; intros p H; [cbn in H; lia|].
  destruct p as [|p]; [reflexivity|]. cbn [skipn nth]. rewrite IH by (cbn in H; lia). reflexivity.
Qed.

Lemma skipn_skipn' {A} : forall (l : list A) a b, skipn a (skipn b l) = skipn (b + a) l.
Proof.
  induction l as [|x l IH]; intros a b; [rewrite !skipn_nil; reflexivity|].
  destruct b as [|b]; [reflexivity|]. cbn [skipn Nat.add]. apply IH.
Qed.

Definition conv (x : tlv * nat) : N * Z * Z := (tlv_t (fst x), Z.of_nat (snd x), Z.of_nat (length (tlv_v (fst x)))).

Theorem walk_idx_agrees : forall fuel buf p, (p <= length buf)%nat ->
  walk_idx fuel buf (Z.of_nat p) = Ok (option_map (map conv) (parse_attrs fuel (skipn p buf) p)).
Proof.
  induction fuel as [|f IH]; intros buf p Hp; [reflexivity|].
  cbn [walk_idx parse_attrs]. cbv zeta.
  destruct (Z.of_nat p + 2 <=? Z.of_nat (length buf)) eqn:E.
  - rewrite (skipn_cons_nth 0%N buf p) by lia. rewrite (skipn_cons_nth 0%N buf (S p)) by lia.
    rewrite !rd_ok by lia. cbn [bind].
    replace (Z.to_nat (Z.of_nat p)) with p by lia. replace (Z.to_nat (Z.of_nat p + 1)) with (S p) by lia.
    set (t := nth p buf 0%N). set (l := nth (S p) buf 0%N).
    destruct (l <? 2)%N eqn:L2; [reflexivity|].
    assert (Hlen : length (skipn (S (S p)) buf) = (length buf - S (S p))%nat) by apply skipn_length.
    destruct ((0 <? Z.of_N l - 2) && (Z.of_nat (length buf) <? Z.of_nat p + 2 + (Z.of_N l - 2))) eqn:B.
    + replace (length (skipn (S (S p)) buf) <? N.to_nat (l - 2))%nat with true by lia. reflexivity.
    + replace (length (skipn (S (S p)) buf) <? N.to_nat (l - 2))%nat with false by lia.
      destruct (rd_n_ok' buf (Z.to_nat (Z.of_N l - 2)) (Z.of_nat p + 2)) as [s ->]; [lia | lia |]. cbn [bind].
      rewrite skipn_skipn'.
      replace (Z.of_nat p + 2 + (Z.of_N l - 2)) with (Z.of_nat (p + 2 + N.to_nat (l - 2))) by lia.
      rewrite IH by lia.
      replace (S (S p) + N.to_nat (l - 2))%nat with (p + 2 + N.to_nat (l - 2))%nat by lia.
      destruct (parse_attrs f (skipn (p + 2 + N.to_nat (l - 2)) buf) (p + 2 + N.to_nat (l - 2))) as [r|]; cbn [bind option_map]; [|reflexivity].
      cbn [map]. unfold conv. cbn [fst snd tlv_t tlv_v].
      rewrite firstn_length. rewrite Hlen.
      do 3 f_equal. f_equal; [f_equal; lia | lia].
  - destruct (Z.of_nat p <? Z.of_nat (length buf)) eqn:E2.
    + (* exactly one octet left *)
      rewrite (skipn_cons_nth 0%N buf p) by lia.
      replace (skipn (S p) buf) with (@nil N); [reflexivity|].
      symmetry. apply skipn_all2. lia.
    + replace (skipn p buf) with (@nil N); [reflexivity|]. symmetry. apply skipn_all2. lia.
Qed.

(* ---- attribute resize: a value produced by a modify rule fits the one-octet length field ---- *)
From RSP Require Import Rewrite.
Lemma modattr_fits rx v m v' : (nlen v <= Consts.RAD_Max_Attr_Value_Length)%N ->
  dorewritemodattr rx v m = Some v' -> (nlen v' <= Consts.RAD_Max_Attr_Value_Length)%N.
Proof.
  intros H. unfold dorewritemodattr. destruct (rx (mod_rx m) (cstr v)) as [pm|].
  - destruct (Consts.RAD_Max_Attr_Value_Length <? nlen (expand (mod_repl m) (cstr v) pm))%N eqn:E; [discriminate|].
    intro X. injection X as <-. lia.
  - intro X. injection X as <-. exact H.
Qed.
