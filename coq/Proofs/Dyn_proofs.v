(* what applies to a dynamically discovered server after the block printed by the lookup command has been merged *)
From RSP Require Import Base Consts Dyn.
Local Open Scope N_scope.

Lemma merge_dyn_secret t l r : merge_dyn t l = Some r ->
  d_secret r = match l_secret l with Some s => s | None => d_secret t end /\ secret_len r = length (d_secret r).
Proof.
  unfold merge_dyn. destruct (negb _); [discriminate|]. intro H. injection H as <-. cbn [d_secret]. unfold orelse, secret_len.
  split; reflexivity.
Qed.

Lemma merge_dyn_ttl t l r : merge_dyn t l = Some r ->
  d_addttl r = match l_addttl l with Some x => x | None => d_addttl t end /\
  d_lp r = match l_lp l with Some x => x | None => d_lp t end.
Proof.
  unfold merge_dyn. destruct (negb _); [discriminate|]. intro H. injection H as <-. cbn [d_addttl d_lp]. unfold orelse.
  split; reflexivity.
Qed.
