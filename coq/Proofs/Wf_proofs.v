(* msg_ok through the request pipeline: the parser establishes it and every stage keeps it, so that the
   serializer theorems of C06 apply to what radsrv places in a server table.  This file: the stages that do
   not involve a rewrite block. *)
From RSP Require Import Base Consts Ttl Crypt Packet Rewrite Choose Proxy BaseLemmas Ttl_proofs Crypt_proofs Packet_proofs.
From Coq Require Import ZifyBool ZifyNat ZifyN.
Local Open Scope N_scope.

Definition aok (a : tlv) : bool := (tlv_l a <=? 253) && wf_bytes (tlv_v a) && is_byte (tlv_t a).
Lemma attrs_ok_forall l : attrs_ok l = forallb aok l.  Proof. reflexivity. Qed.
Lemma attrs_ok_cons a l : attrs_ok (a :: l) = aok a && attrs_ok l.  Proof. reflexivity. Qed.
Lemma attrs_ok_single x : attrs_ok [x] = aok x.  Proof. unfold attrs_ok, aok. cbn [forallb]. apply andb_true_r. Qed.
Lemma attrs_ok_app a b : attrs_ok (a ++ b) = attrs_ok a && attrs_ok b.  Proof. unfold attrs_ok. apply forallb_app. Qed.

Lemma wf_firstn n b : wf_bytes b = true -> wf_bytes (firstn n b) = true.
Proof.
  unfold wf_bytes. rewrite !forallb_forall. intros H x Hx. apply H.
  rewrite <- (firstn_skipn n b). apply in_or_app. left. exact Hx.
Qed.
Lemma wf_skipn n b : wf_bytes b = true -> wf_bytes (skipn n b) = true.
Proof.
  unfold wf_bytes. rewrite !forallb_forall. intros H x Hx. apply H.
  rewrite <- (firstn_skipn n b). apply in_or_app. right. exact Hx.
Qed.
Lemma wf_zeros n : wf_bytes (zeros n) = true.
Proof. unfold zeros. induction n; [reflexivity|]. cbn. exact IHn. Qed.
Lemma wf_cons x b : wf_bytes (x :: b) = is_byte x && wf_bytes b.  Proof. reflexivity. Qed.

(* ---- parser ---- *)
Lemma parse_attrs_ok : forall fuel rest pos al, wf_bytes rest = true ->
  parse_attrs fuel rest pos = Some al -> attrs_ok (map fst al) = true.
Proof.
  induction fuel as [|f IH]; intros rest pos al W H; [discriminate|].
  cbn [parse_attrs] in H. destruct rest as [|t [|l rest']]; [injection H as <-; reflexivity | discriminate |].
  rewrite !wf_cons in W. apply andb_true_iff in W as [Wt W]. apply andb_true_iff in W as [Wl W].
  destruct (l <? 2) eqn:L2; [discriminate|].
  destruct (length rest' <? N.to_nat (l - 2))%nat eqn:LL; [discriminate|].
  destruct (parse_attrs f (skipn (N.to_nat (l - 2)) rest') (pos + 2 + N.to_nat (l - 2))) as [r|] eqn:R; [|discriminate].
  injection H as <-. cbn [map fst]. rewrite attrs_ok_cons. apply andb_true_iff. split.
  - unfold aok. cbn [tlv_l tlv_v tlv_t Ttl.tlv_l]. unfold Ttl.tlv_l. cbn [tlv_v tlv_t].
    rewrite (wf_firstn _ _ W), Wt. unfold nlen. rewrite firstn_length.
    unfold is_byte in Wl. replace (N.of_nat (Nat.min (N.to_nat (l - 2)) (length rest')) <=? 253) with true by lia. reflexivity.
  - eapply IH; [|exact R]. apply wf_skipn. exact W.
Qed.

Section W.
  Variable md5 : bytes -> bytes.
  Hypothesis md5_len : forall x, length (md5 x) = 16%nat.
  Hypothesis md5_wf : forall x, wf_bytes (md5 x) = true.

  Lemma buf2radmsg_ok buf secret rq msg : wf_bytes buf = true -> (20 <= length buf)%nat ->
    buf2radmsg md5 buf secret rq = Some msg ->
    attrs_ok (m_attrs msg) = true /\ length (m_auth msg) = 16%nat /\ wf_bytes (m_auth msg) = true /\
    is_byte (m_code msg) = true /\ is_byte (m_id msg) = true.
  Proof.
    intros W L H. unfold buf2radmsg in H.
    destruct (negb _); [discriminate|]. destruct (_ && _); [discriminate|].
    destruct (match rq with Some ra => _ | None => false end); [discriminate|].
    destruct (parse_attrs (length buf) (skipn 20 buf) 20) as [al|] eqn:P; [|discriminate].
    remember (firstn 16 (skipn 4 buf)) as au eqn:Eau. remember (nth 0 buf 0) as co eqn:Eco. remember (nth 1 buf 0) as idn eqn:Eid.
    injection H as <-. cbn [m_attrs m_auth m_code m_id]. subst au co idn.
    split; [eapply parse_attrs_ok; [apply wf_skipn; exact W | exact P]|].
    split; [rewrite firstn_length, skipn_length; lia|].
    split; [apply wf_firstn, wf_skipn; exact W|].
    pose proof (wf_nth' := fun i => proj1 (forallb_forall _ _) W (nth i buf 0)).
    split; apply wf_nth'; apply nth_In; lia.
  Qed.
End W.

(* ---- TTL check ---- *)
Lemma aok_same_len a v' : aok a = true -> length v' = length (tlv_v a) -> wf_bytes v' = true -> aok (mkTlv (tlv_t a) v') = true.
Proof.
  unfold aok, Ttl.tlv_l, nlen. cbn [tlv_v tlv_t]. intros H L W. rewrite L, W.
  apply andb_true_iff in H as [H Ht]. apply andb_true_iff in H as [Hl _]. rewrite Hl, Ht. reflexivity.
Qed.

Lemma decttl_pair v : decttl v = (fst (decttl v), snd (decttl v)).  Proof. destruct (decttl v); reflexivity. Qed.

Lemma checkttl_plain_ok t0 : forall attrs, attrs_ok attrs = true -> attrs_ok (snd (checkttl_plain t0 attrs)) = true.
Proof.
  induction attrs as [|a r IH]; intro H; [reflexivity|].
  rewrite attrs_ok_cons in H. apply andb_true_iff in H as [Ha Hr]. cbn [checkttl_plain].
  destruct (tlv_t a =? t0).
  - rewrite (decttl_pair (tlv_v a)). cbn [snd]. rewrite attrs_ok_cons, Hr, andb_true_r.
    assert (W : wf_bytes (tlv_v a) = true) by (unfold aok in Ha; apply andb_true_iff in Ha as [Ha _]; apply andb_true_iff in Ha as [_ Ha]; exact Ha).
    apply aok_same_len; [exact Ha | apply decttl_length; exact W | apply decttl_wf; exact W].
  - specialize (IH Hr). destruct (checkttl_plain t0 r) as [res r']. cbn [snd] in *. rewrite attrs_ok_cons, Ha, IH. reflexivity.
Qed.

Lemma wf_app a b : wf_bytes (a ++ b) = wf_bytes a && wf_bytes b.  Proof. apply wf_bytes_app. Qed.

Lemma subttl_f_ok sub : forall fuel a r a', wf_bytes a = true -> subttl_f fuel sub a = Some (r, a') ->
  length a' = length a /\ wf_bytes a' = true.
Proof.
  induction fuel as [|f IH]; intros a r a' W H; [discriminate|].
  cbn [subttl_f] in H. destruct a as [|ty [|alen rest]]; try discriminate.
  rewrite !wf_cons in W. apply andb_true_iff in W as [Wt W]. apply andb_true_iff in W as [Wl W].
  destruct (ty =? sub).
  - rewrite (decttl_pair (firstn (N.to_nat (alen - 2)) rest)) in H. injection H as <- <-.
    pose proof (wf_firstn (N.to_nat (alen - 2)) rest W) as Wf.
    split.
    + cbn [length]. rewrite app_length, (decttl_length _ Wf), <- app_length, firstn_skipn. reflexivity.
    + rewrite !wf_cons, Wt, Wl, wf_app, (decttl_wf _ Wf), (wf_skipn _ _ W). reflexivity.
  - destruct (subttl_f f sub (skipn (N.to_nat (alen - 2)) rest)) as [[r0 a0]|] eqn:E; [|discriminate].
    injection H as <- <-. destruct (IH _ _ _ (wf_skipn _ _ W) E) as [L0 W0]. split.
    + cbn [length]. rewrite app_length, L0, <- app_length, firstn_skipn. reflexivity.
    + rewrite !wf_cons, Wt, Wl, wf_app, (wf_firstn _ _ W), W0. reflexivity.
Qed.

Lemma checkttl_vendor_ok t0 t1 : forall attrs, attrs_ok attrs = true -> attrs_ok (snd (checkttl_vendor t0 t1 attrs)) = true.
Proof.
  induction attrs as [|a r IH]; intro H; [reflexivity|].
  rewrite attrs_ok_cons in H. apply andb_true_iff in H as [Ha Hr]. specialize (IH Hr). cbn [checkttl_vendor].
  assert (Skip : attrs_ok (snd (let '(r0, rest') := checkttl_vendor t0 t1 r in (r0, a :: rest'))) = true).
  { destruct (checkttl_vendor t0 t1 r) as [r0 rest']. cbn [snd] in *. rewrite attrs_ok_cons, Ha, IH. reflexivity. }
  destruct (negb _ || _); [exact Skip|]. destruct (negb (vendor_of (tlv_v a) =? t0)); [exact Skip|].
  destruct (negb (attrvalidate (skipn 4 (tlv_v a)))); [exact Skip|].
  destruct (subttl t1 (skipn 4 (tlv_v a))) as [[r0 subs']|] eqn:E; [|exact Skip].
  cbn [snd]. rewrite attrs_ok_cons, Hr, andb_true_r.
  assert (W : wf_bytes (tlv_v a) = true) by (unfold aok in Ha; apply andb_true_iff in Ha as [Ha _]; apply andb_true_iff in Ha as [_ Ha]; exact Ha).
  destruct (subttl_f_ok _ _ _ _ _ (wf_skipn 4 _ W) E) as [L0 W0].
  apply aok_same_len; [exact Ha | | rewrite wf_app, (wf_firstn _ _ W), W0; reflexivity].
  rewrite app_length, L0, <- app_length, firstn_skipn. reflexivity.
Qed.

Lemma checkttl_ok t0 t1 attrs : attrs_ok attrs = true -> attrs_ok (snd (checkttl t0 t1 attrs)) = true.
Proof. unfold checkttl. destruct (t1 =? 256); [apply checkttl_plain_ok | apply checkttl_vendor_ok]. Qed.

(* ---- replace_first, CHAP, Message-Authenticator placeholder, TTL insertion ---- *)
Lemma replace_first_ok t v : forall attrs, attrs_ok attrs = true -> aok (mkTlv t v) = true -> attrs_ok (replace_first t v attrs) = true.
Proof.
  unfold replace_first. induction attrs as [|a r IH]; intros H Hn; [reflexivity|].
  rewrite attrs_ok_cons in H. apply andb_true_iff in H as [Ha Hr].
  destruct (tlv_t a =? t); rewrite attrs_ok_cons; [rewrite Hn, Hr | rewrite Ha, (IH Hr Hn)]; reflexivity.
Qed.

Lemma filter_ok p : forall attrs, attrs_ok attrs = true -> attrs_ok (filter p attrs) = true.
Proof.
  induction attrs as [|a r IH]; intro H; [reflexivity|]. rewrite attrs_ok_cons in H. apply andb_true_iff in H as [Ha Hr].
  cbn [filter]. destruct (p a); [rewrite attrs_ok_cons, Ha|]; apply IH; exact Hr.
Qed.

Lemma ensuremsgauthfront_ok attrs : attrs_ok attrs = true -> attrs_ok (ensuremsgauthfront attrs) = true.
Proof.
  intro H. unfold ensuremsgauthfront. rewrite attrs_ok_cons, (filter_ok _ _ H), andb_true_r.
  unfold aok, msgauth_placeholder, Ttl.tlv_l. cbn [tlv_v tlv_t]. rewrite wf_zeros. vm_compute. reflexivity.
Qed.

Lemma is_byte_mod x : is_byte (x mod 256) = true.
Proof. unfold is_byte. pose proof (N.mod_upper_bound x 256). lia. Qed.

Lemma wf_be_encode k : forall n, wf_bytes (be_encode k n) = true.
Proof.
  induction k as [|k IH]; intro n; [reflexivity|]. cbn [be_encode]. rewrite wf_app, IH, wf_cons, is_byte_mod. reflexivity.
Qed.

Lemma addttlattr_ok t0 t1 addttl attrs : is_byte addttl = true -> attrs_ok attrs = true -> attrs_ok (addttlattr t0 t1 addttl attrs) = true.
Proof.
  intros Hb H. unfold addttlattr, radmsg_add, makevendortlv, ttl_value, u8.
  destruct (t1 =? 256).
  - destruct (_ <? _); [exact H|]. rewrite attrs_ok_app, H, attrs_ok_single.
    unfold aok, Ttl.tlv_l. cbn [tlv_v tlv_t]. rewrite !wf_cons, Hb, is_byte_mod. vm_compute. reflexivity.
  - destruct (_ <? _); [exact H|].
    match goal with |- context [Some (attrs ++ [?x])] => set (va := x) end.
    assert (X : aok va = true).
    { subst va. unfold aok, Ttl.tlv_l, nlen. cbn [tlv_v tlv_t]. rewrite !app_length, be_encode_length. cbn [length].
      rewrite wf_app, wf_be_encode. cbn [app]. rewrite !wf_cons, Hb, !is_byte_mod. vm_compute. reflexivity. }
    destruct (_ <? _); [exact H|]. rewrite attrs_ok_app, H, attrs_ok_single, X. reflexivity.
Qed.

Lemma ttl_stage_add_ok t0 t1 g p ttlres attrs : is_byte g = true -> is_byte p = true -> attrs_ok attrs = true ->
  attrs_ok (ttl_stage_add t0 t1 g p ttlres attrs) = true.
Proof.
  intros Hg Hp H. unfold ttl_stage_add. destruct (_ && _); [|exact H].
  apply addttlattr_ok; [destruct (negb (p =? 0)); assumption | exact H].
Qed.

(* ---- User-Password re-encryption ---- *)
Definition bytes256 : list N := map N.of_nat (seq 0 256).
Lemma in_bytes256 x : x < 256 -> In x bytes256.
Proof. intro H. unfold bytes256. rewrite <- (N2Nat.id x). apply in_map. apply in_seq. lia. Qed.
Lemma lxor_sweep : forallb (fun x => forallb (fun y => N.lxor x y <? 256) bytes256) bytes256 = true.
Proof. vm_compute. reflexivity. Qed.
Lemma lxor_byte x y : is_byte x = true -> is_byte y = true -> is_byte (N.lxor x y) = true.
Proof.
  unfold is_byte. intros Hx Hy. pose proof lxor_sweep as S. rewrite forallb_forall in S.
  specialize (S x (in_bytes256 x ltac:(lia))). rewrite forallb_forall in S. exact (S y (in_bytes256 y ltac:(lia))).
Qed.

Lemma xor_wf : forall a b, wf_bytes a = true -> wf_bytes b = true -> wf_bytes (xor_bytes a b) = true.
Proof.
  induction a as [|x a IH]; intros b Wa Wb; [reflexivity|]. destruct b as [|y b]; [reflexivity|].
  rewrite wf_cons in Wa, Wb. apply andb_true_iff in Wa as [Hx Wa]. apply andb_true_iff in Wb as [Hy Wb].
  cbn [xor_bytes]. rewrite wf_cons, (lxor_byte _ _ Hx Hy), (IH _ Wa Wb). reflexivity.
Qed.

Lemma chunks_f_wf : forall fuel l, wf_bytes l = true -> forallb wf_bytes (chunks_f fuel l) = true.
Proof.
  induction fuel as [|f IH]; intros l W; [reflexivity|]. cbn [chunks_f]. destruct l as [|x l]; [reflexivity|].
  cbn [forallb]. rewrite (wf_firstn 16 _ W). apply IH. apply wf_skipn. exact W.
Qed.

Lemma wf_concat : forall bl, forallb wf_bytes bl = true -> wf_bytes (concat bl) = true.
Proof.
  induction bl as [|b bl IH]; intro H; [reflexivity|]. cbn [forallb] in H. apply andb_true_iff in H as [Hb H].
  cbn [concat]. rewrite wf_app, Hb, (IH H). reflexivity.
Qed.

Section P.
  Variable md5 : bytes -> bytes.
  Hypothesis md5_len : forall x, length (md5 x) = 16%nat.
  Hypothesis md5_wf : forall x, wf_bytes (md5 x) = true.

  Lemma pwd_blocks_wf enc S : forall blocks input salt, forallb wf_bytes blocks = true ->
    forallb wf_bytes (pwd_blocks md5 enc S input salt blocks) = true.
  Proof.
    induction blocks as [|b r IH]; intros input salt H; [reflexivity|]. cbn [forallb] in H. apply andb_true_iff in H as [Hb H].
    cbn [pwd_blocks forallb]. rewrite (xor_wf _ _ (md5_wf _) Hb). apply IH. exact H.
  Qed.

  Lemma pwdcrypt_wf enc v S auth salt : wf_bytes v = true -> wf_bytes (pwdcrypt md5 enc v S auth salt) = true.
  Proof. intro W. unfold pwdcrypt, chunks16. apply wf_concat, pwd_blocks_wf, chunks_f_wf. exact W. Qed.

  Lemma pwdrecrypt_ok v os ns oa na osalt nsalt v' : wf_bytes v = true ->
    pwdrecrypt md5 v os ns oa na osalt nsalt = Some v' -> length v' = length v /\ wf_bytes v' = true.
  Proof.
    intros W H. pose proof (pwdrecrypt_preserves md5 md5_len v os ns oa na osalt nsalt) as P. rewrite H in P.
    destruct P as (_ & L & _). split; [exact L|].
    unfold pwdrecrypt in H. destruct (pwd_len_ok (nlen v)); [|discriminate]. injection H as <-.
    apply pwdcrypt_wf, pwdcrypt_wf. exact W.
  Qed.
End P.

(* ---- the request pipeline without rewrite blocks: what radsrv places in a server table is a well-formed
   RADIUS packet (and a correctly signed Accounting-Request) ---- *)
From RSP Require Import Slots_proofs Dup_proofs Reply_proofs Forward_proofs Spec_Packet.

Lemma gettype_in t : forall l a, gettype t l = Some a -> In a l /\ tlv_t a = t.
Proof.
  induction l as [|x l IH]; intros a H; [discriminate|]. cbn [gettype] in H.
  destruct (tlv_t x =? t) eqn:E.
  - injection H as <-. split; [left; reflexivity | lia].
  - destruct (IH _ H) as [I T]. split; [right; exact I | exact T].
Qed.

Lemma attrs_ok_in l a : attrs_ok l = true -> In a l -> aok a = true.
Proof. unfold attrs_ok. rewrite forallb_forall. intros H I. exact (H a I). Qed.

Lemma aok_parts a : aok a = true -> tlv_l a <= 253 /\ wf_bytes (tlv_v a) = true /\ is_byte (tlv_t a) = true.
Proof. unfold aok. intro H. apply andb_true_iff in H as [H Ht]. apply andb_true_iff in H as [Hl Hw]. repeat split; try assumption. lia. Qed.

Lemma not_bad_ma_ok l : existsb bad_ma l = false -> ma_ok l = true.
Proof.
  unfold ma_ok, bad_ma. induction l as [|a l IH]; [reflexivity|]. cbn [existsb forallb]. intro H.
  apply orb_false_iff in H as [Ha Hl]. rewrite (IH Hl), andb_true_r.
  destruct (tlv_t a =? Consts.RAD_Attr_Message_Authenticator); cbn [andb negb orb] in *; [|reflexivity].
  apply negb_false_iff in Ha. exact Ha.
Qed.

Section PL.
  Variable md5 : bytes -> bytes.
  Hypothesis md5_len : forall x, length (md5 x) = 16%nat.
  Hypothesis md5_wf : forall x, wf_bytes (md5 x) = true.
  Variable rx : N -> bytes -> option (list (Z * Z)).
  Variable cfg : config.
  Variable fs : N -> bool.

  Theorem forwarded_plain_wf st h c rnd s i b :
    forwarded md5 rx cfg fs st h c rnd s i b ->
    (* no rewrite block on the way *)
    cc_rwin (clconf_of cfg c) = None -> cc_rwuser (clconf_of cfg c) = None -> sc_rwout (srvconf_of cfg s) = None ->
    (* well-formed inputs: the received packet is at least a header, octets are octets *)
    (forall r0, get_rq st h = Some r0 -> exists buf, rq_buf r0 = Some buf /\ wf_bytes buf = true /\ (20 <= length buf)%nat) ->
    wf_bytes rnd = true -> is_byte (o_addttl (cf_opt cfg)) = true -> is_byte (sc_addttl (srvconf_of cfg s)) = true -> i < 256 ->
    wf_packet b = true /\
    (nth 0 b 0 = Consts.RAD_Accounting_Request -> acct_request_auth_ok md5 b (sc_secret (srvconf_of cfg s)) = true).
  Proof.
    intros F Hrwin Hrwu Hrwout Hbuf Wrnd Bg Bp Hi. destruct F.
    destruct (Hbuf _ fw_live) as (buf & Eb & Wb & Lb). rewrite Eb in fw_parsed.
    destruct (buf2radmsg_ok md5 md5_len md5_wf _ _ _ _ Wb Lb fw_parsed) as (A0 & Lau & Wau & Bc & Bi).
    (* rewriteIn: none *)
    rewrite Hrwin in fw_rwin. cbn [dorewrite] in fw_rwin. injection fw_rwin as <-.
    (* TTL check *)
    destruct fw_ttl as [Ttl _].
    assert (A2 : attrs_ok fw_a2 = true).
    { pose proof (checkttl_ok (o_ttl0 (cf_opt cfg)) (o_ttl1 (cf_opt cfg)) _ A0) as X. rewrite Ttl in X. exact X. }
    (* User-Name unchanged *)
    rewrite Hrwu in fw_user_rw. injection fw_user_rw as <- _.
    destruct (gettype_in _ _ _ fw_user) as [Iua Tua].
    pose proof (attrs_ok_in _ _ A2 Iua) as Kua. destruct (aok_parts _ Kua) as (Lua & Wua & _).
    set (a3 := replace_first Consts.RAD_Attr_User_Name (tlv_v fw_ua) fw_a2) in *.
    assert (A3 : attrs_ok a3 = true).
    { apply replace_first_ok; [exact A2|]. unfold aok, Ttl.tlv_l. cbn [tlv_v tlv_t]. unfold Ttl.tlv_l in Lua.
      rewrite Wua. replace (nlen (tlv_v fw_ua) <=? 253) with true by (clear - Lua; lia). reflexivity. }
    (* CHAP-Challenge *)
    assert (A4 : attrs_ok fw_a4 = true).
    { subst fw_a4. destruct (gettype Consts.RAD_Attr_CHAP_Password a3); [|exact A3].
      destruct (gettype Consts.RAD_Attr_CHAP_Challenge a3); [exact A3|].
      rewrite attrs_ok_app, A3, attrs_ok_single. unfold aok, Ttl.tlv_l, nlen. cbn [tlv_v tlv_t]. rewrite Lau, Wau. reflexivity. }
    (* new authenticator *)
    assert (Nau : length fw_auth = 16%nat /\ wf_bytes fw_auth = true).
    { subst fw_auth. destruct (m_code fw_msg =? Consts.RAD_Accounting_Request).
      - split; [unfold zeros; apply repeat_length | apply wf_zeros].
      - unfold take_rand. cbn [fst]. split.
        + rewrite firstn_length, app_length. unfold zeros. rewrite repeat_length. clear. lia.
        + apply wf_firstn. rewrite wf_app, Wrnd, wf_zeros. reflexivity. }
    destruct Nau as [Lna Wna].
    (* User-Password *)
    assert (A5 : attrs_ok fw_a5 = true).
    { destruct (gettype Consts.RAD_Attr_User_Password fw_a4) as [pa|] eqn:Gp; [|injection fw_pwd as <-; exact A4].
      destruct (pwdrecrypt md5 (tlv_v pa) _ _ _ _ [] []) as [v'|] eqn:Pw; [|discriminate]. injection fw_pwd as <-.
      destruct (gettype_in _ _ _ Gp) as [Ipa Tpa]. destruct (aok_parts _ (attrs_ok_in _ _ A4 Ipa)) as (Lpa & Wpa & _).
      destruct (pwdrecrypt_ok md5 md5_len md5_wf _ _ _ _ _ _ _ _ Wpa Pw) as [Lv Wv].
      apply replace_first_ok; [exact A4|]. unfold aok, Ttl.tlv_l, nlen. cbn [tlv_v tlv_t]. unfold Ttl.tlv_l, nlen in Lpa.
      rewrite Lv, Wv. replace (N.of_nat (length (tlv_v pa)) <=? 253) with true by (clear - Lpa; lia). reflexivity. }
    (* rewriteOut: none *)
    rewrite Hrwout in fw_rwout. cbn [dorewrite] in fw_rwout. injection fw_rwout as <-.
    (* Message-Authenticator placeholder and TTL insertion *)
    assert (A8 : attrs_ok fw_a8 = true).
    { subst fw_a8. cbv zeta.
      assert (A7 : attrs_ok (if m_code fw_msg =? Consts.RAD_Access_Request then ensuremsgauthfront fw_a5 else fw_a5) = true)
        by (destruct (m_code fw_msg =? Consts.RAD_Access_Request); [apply ensuremsgauthfront_ok|]; exact A5).
      destruct (fs 10); [exact A7|]. apply ttl_stage_add_ok; assumption. }
    (* the message handed to the serializer satisfies msg_ok *)
    set (m8 := set_id (set_auth (set_attrs fw_msg fw_a8) fw_auth) i) in *.
    assert (NB : existsb bad_ma (m_attrs m8) = false).
    { unfold radmsg2buf in fw_bytes. destruct (_ <? _); [discriminate|]. destruct (existsb bad_ma (m_attrs m8)); [discriminate | reflexivity]. }
    assert (OK : msg_ok m8 = true).
    { unfold msg_ok. subst m8. cbn [m_attrs m_auth m_code m_id set_id set_auth set_attrs] in *.
      rewrite A8, (not_bad_ma_ok _ NB), Lna, Wna, Bc. unfold is_byte. replace (i <? 256) with true by (clear - Hi; lia). reflexivity. }
    assert (MAX : Consts.RADMSG2BUF_MAX <= 4096) by (vm_compute; discriminate).
    split; [exact (radmsg2buf_wf md5 md5_len m8 _ b fw_ser OK MAX fw_bytes)|].
    intro Hc.
    pose proof (radmsg2buf_shape md5 md5_len m8 (sc_secret (srvconf_of cfg s)) OK) as Sh. rewrite fw_bytes in Sh.
    destruct Sh as (_ & auth' & attrs' & Eb' & _).
    assert (Cm : m_code m8 = Consts.RAD_Accounting_Request).
    { rewrite Eb' in Hc. unfold radius_header in Hc. cbn [app nth] in Hc. exact Hc. }
    assert (SC : signed_code (m_code m8) = true) by (rewrite Cm; vm_compute; reflexivity).
    pose proof (radmsg2buf_response_auth md5 md5_len m8 _ b fw_ser OK MAX SC fw_bytes) as RA.
    unfold acct_request_auth_ok.
    replace (repeat 0 16) with (m_auth m8); [exact RA|].
    subst m8. cbn [m_auth set_id set_auth set_attrs m_code] in *. subst fw_auth. rewrite Cm. reflexivity.
  Qed.
End PL.

Section PL2.
  Variable md5 : bytes -> bytes.
  Hypothesis md5_len : forall x, length (md5 x) = 16%nat.
  Hypothesis md5_wf : forall x, wf_bytes (md5 x) = true.

  (* C06 through the handler, configurations without rewrite blocks on the path: whatever radsrv places in a
     server table is a well-formed RADIUS packet, and a correctly signed Accounting-Request when it is one *)
  Theorem radsrv_emits_wf rx cfg fs st h c now rnd s i b :
    In (OEnq s i b) (snd (radsrv md5 rx cfg fs st h c now rnd)) ->
    cc_rwin (clconf_of cfg c) = None -> cc_rwuser (clconf_of cfg c) = None -> sc_rwout (srvconf_of cfg s) = None ->
    (forall r0, get_rq st h = Some r0 -> exists buf, rq_buf r0 = Some buf /\ wf_bytes buf = true /\ (20 <= length buf)%nat) ->
    wf_bytes rnd = true -> is_byte (o_addttl (cf_opt cfg)) = true -> is_byte (sc_addttl (srvconf_of cfg s)) = true -> i < 256 ->
    wf_packet b = true /\
    (nth 0 b 0 = Consts.RAD_Accounting_Request -> acct_request_auth_ok md5 b (sc_secret (srvconf_of cfg s)) = true).
  Proof.
    intro H. apply (forwarded_plain_wf md5 md5_len md5_wf rx cfg fs st h c rnd s i b).
    apply (radsrv_forward md5 rx cfg fs _ _ _ _ _ _ _ _ H).
  Qed.
End PL2.

(* ================= the reply path ================= *)
Lemma lor128_byte x : is_byte x = true -> is_byte (N.lor x 128) = true.
Proof.
  unfold is_byte. intro Hx.
  assert (S : forallb (fun x => N.lor x 128 <? 256) bytes256 = true) by (vm_compute; reflexivity).
  rewrite forallb_forall in S. exact (S x (in_bytes256 x ltac:(lia))).
Qed.

Section RP.
  Variable md5 : bytes -> bytes.
  Hypothesis md5_len : forall x, length (md5 x) = 16%nat.
  Hypothesis md5_wf : forall x, wf_bytes (md5 x) = true.

  Lemma msmpprecrypt_ok v os ns oa na v' : wf_bytes v = true -> msmpprecrypt md5 v os ns oa na = Some v' ->
    length v' = length v /\ wf_bytes v' = true.
  Proof.
    intros W H. pose proof (msmpprecrypt_preserves md5 md5_len v os ns oa na) as P. rewrite H in P.
    destruct P as (_ & L & _). split; [exact L|].
    unfold msmpprecrypt in H. destruct (mppe_len_ok (nlen v)); [|discriminate]. cbv zeta in H.
    assert (X : wf_bytes (firstn 2 v ++ msmppencrypt md5 (msmppdecrypt md5 (skipn 2 v) os oa (firstn 2 v)) ns na (firstn 2 v)) = true).
    { rewrite wf_app, (wf_firstn 2 _ W). unfold msmppencrypt, msmppdecrypt.
      rewrite (pwdcrypt_wf md5 md5_wf); [reflexivity|]. apply (pwdcrypt_wf md5 md5_wf). apply wf_skipn. exact W. }
    congruence.
  Qed.

  Lemma msmppe_f_ok ty os ns oa na : forall fuel subs out, wf_bytes subs = true ->
    msmppe_f md5 fuel subs ty os ns oa na = Some out -> length out = length subs /\ wf_bytes out = true.
  Proof.
    induction fuel as [|f IH]; intros subs out W H; [injection H as <-; split; [reflexivity | exact W]|].
    cbn [msmppe_f] in H. destruct subs as [|t [|alen rest]]; try (injection H as <-; split; [reflexivity | exact W]).
    rewrite !wf_cons in W. apply andb_true_iff in W as [Wt W]. apply andb_true_iff in W as [Wl W].
    pose proof (wf_firstn (N.to_nat (alen - 2)) rest W) as Wf. pose proof (wf_skipn (N.to_nat (alen - 2)) rest W) as Ws.
    destruct (t =? ty).
    - destruct (msmpprecrypt md5 (firstn (N.to_nat (alen - 2)) rest) os ns oa na) as [v'|] eqn:M; [|discriminate].
      destruct (msmppe_f md5 f (skipn (N.to_nat (alen - 2)) rest) ty os ns oa na) as [x|] eqn:R; [|discriminate].
      injection H as <-. destruct (IH _ _ Ws R) as [Lx Wx]. destruct (msmpprecrypt_ok _ _ _ _ _ _ Wf M) as [Lv Wv].
      split.
      + cbn [length]. rewrite app_length, Lv, Lx, <- app_length, firstn_skipn. reflexivity.
      + rewrite !wf_cons, Wt, Wl, wf_app, Wv, Wx. reflexivity.
    - destruct (msmppe_f md5 f (skipn (N.to_nat (alen - 2)) rest) ty os ns oa na) as [x|] eqn:R; [|discriminate].
      injection H as <-. destruct (IH _ _ Ws R) as [Lx Wx]. split.
      + cbn [length]. rewrite app_length, Lx, <- app_length, firstn_skipn. reflexivity.
      + rewrite !wf_cons, Wt, Wl, wf_app, Wf, Wx. reflexivity.
  Qed.

  Lemma ms_loop_ok os ns oa na : forall attrs out, attrs_ok attrs = true ->
    ms_loop md5 attrs os ns oa na = Some out -> attrs_ok out = true.
  Proof.
    induction attrs as [|a r IH]; intros out H E; [injection E as <-; reflexivity|].
    rewrite attrs_ok_cons in H. apply andb_true_iff in H as [Ha Hr]. cbn [ms_loop] in E.
    assert (Keep : forall o, option_map (cons a) (ms_loop md5 r os ns oa na) = Some o -> attrs_ok o = true).
    { intros o X. destruct (ms_loop md5 r os ns oa na) as [r'|] eqn:R; [|discriminate]. injection X as <-.
      rewrite attrs_ok_cons, Ha, (IH _ Hr eq_refl). reflexivity. }
    destruct (negb (tlv_t a =? Consts.RAD_Attr_Vendor_Specific)); [exact (Keep _ E)|].
    destruct (tlv_l a <=? 4); [discriminate|].
    destruct (negb (beq_bytes (firstn 4 (tlv_v a)) [0; 0; 1; 55])); [exact (Keep _ E)|].
    destruct (negb (attrvalidate (skipn 4 (tlv_v a)))); [discriminate|].
    destruct (aok_parts _ Ha) as (La & Wa & Ta).
    destruct (msmppe_f md5 _ (skipn 4 (tlv_v a)) _ os ns oa na) as [s1|] eqn:M1; [|discriminate].
    destruct (msmppe_f md5 _ s1 _ os ns oa na) as [s2|] eqn:M2; [|discriminate].
    destruct (ms_loop md5 r os ns oa na) as [r'|] eqn:R; [|discriminate].
    set (hd4 := firstn 4 (tlv_v a)) in *. injection E as <-. subst hd4.
    destruct (msmppe_f_ok _ _ _ _ _ _ _ _ (wf_skipn 4 _ Wa) M1) as [L1 W1].
    destruct (msmppe_f_ok _ _ _ _ _ _ _ _ W1 M2) as [L2 W2].
    rewrite attrs_ok_cons, (IH _ Hr eq_refl), andb_true_r.
    apply aok_same_len; [exact Ha | | rewrite wf_app, (wf_firstn 4 _ Wa), W2; reflexivity].
    rewrite app_length, L2, L1, <- app_length, firstn_skipn. reflexivity.
  Qed.

  Lemma take_rand_wf rnd n : wf_bytes rnd = true -> wf_bytes (fst (take_rand rnd n)) = true /\ wf_bytes (snd (take_rand rnd n)) = true.
  Proof.
    intro W. unfold take_rand. cbn [fst snd]. split; [apply wf_firstn; rewrite wf_app, W, wf_zeros; reflexivity | apply wf_skipn; exact W].
  Qed.

  Lemma tunnelpwd_loop_ok os ns oa na : forall attrs rnd out, attrs_ok attrs = true -> wf_bytes rnd = true ->
    tunnelpwd_loop md5 attrs os ns oa na rnd = Some out -> attrs_ok out = true.
  Proof.
    induction attrs as [|a r IH]; intros rnd out H Wr E; [injection E as <-; reflexivity|].
    rewrite attrs_ok_cons in H. apply andb_true_iff in H as [Ha Hr]. cbn [tunnelpwd_loop] in E.
    destruct (negb (tlv_t a =? Consts.RAD_Attr_Tunnel_Password)).
    - destruct (tunnelpwd_loop md5 r os ns oa na rnd) as [r'|] eqn:R; [|discriminate]. injection E as <-.
      rewrite attrs_ok_cons, Ha, (IH _ _ Hr Wr R). reflexivity.
    - destruct (take_rand rnd 2) as [salt0 rnd'] eqn:TR.
      destruct (take_rand_wf rnd 2 Wr) as [Ws0 Wr']. rewrite TR in Ws0, Wr'. cbn [fst snd] in Ws0, Wr'.
      destruct (tlv_l a <? 3) eqn:L3; [discriminate|].
      destruct (aok_parts _ Ha) as (La & Wa & Ta).
      match type of E with context [pwdrecrypt md5 ?v ?a1 ?a2 ?a3 ?a4 ?a5 ?nsalt] => set (newsalt := nsalt) in *;
        destruct (pwdrecrypt md5 v a1 a2 a3 a4 a5 newsalt) as [v'|] eqn:P; [|discriminate] end.
      destruct (tunnelpwd_loop md5 r os ns oa na rnd') as [r'|] eqn:R; [|discriminate].
      set (tag := firstn 1 (tlv_v a)) in *. injection E as <-. subst tag.
      destruct (pwdrecrypt_ok md5 md5_len md5_wf _ _ _ _ _ _ _ _ (wf_skipn 3 _ Wa) P) as [Lv Wv].
      assert (Wns : wf_bytes newsalt = true /\ length newsalt = 2%nat).
      { subst newsalt. destruct salt0 as [|x [|y rest]]; [split; reflexivity | split; reflexivity |].
        rewrite !wf_cons in Ws0. apply andb_true_iff in Ws0 as [Hx Ws0]. apply andb_true_iff in Ws0 as [Hy _].
        split; [rewrite !wf_cons, (lor128_byte _ Hx), Hy; reflexivity | reflexivity]. }
      destruct Wns as [Wns Lns].
      rewrite attrs_ok_cons, (IH _ _ Hr Wr' R), andb_true_r.
      apply aok_same_len; [exact Ha | | rewrite !wf_app, (wf_firstn 1 _ Wa), Wns, Wv; reflexivity].
      unfold Ttl.tlv_l, nlen in L3. rewrite !app_length, Lns, Lv, skipn_length, firstn_length. clear - L3. lia.
  Qed.
End RP.

Lemma last_ma_split_none l : forallb (fun a => negb (tlv_t a =? Consts.RAD_Attr_Message_Authenticator)) l = true -> last_ma_split l = None.
Proof.
  induction l as [|a l IH]; intro H; [reflexivity|]. cbn [forallb] in H. apply andb_true_iff in H as [Ha H].
  cbn [last_ma_split]. rewrite (IH H). apply negb_true_iff in Ha. rewrite Ha. reflexivity.
Qed.

Lemma filter_no_ma l : forallb (fun a => negb (tlv_t a =? Consts.RAD_Attr_Message_Authenticator))
                         (filter (fun a => negb (tlv_t a =? Consts.RAD_Attr_Message_Authenticator)) l) = true.
Proof. apply forallb_forall. intros x Hx. apply filter_In in Hx. apply Hx. Qed.

Section RPL.
  Variable md5 : bytes -> bytes.
  Hypothesis md5_len : forall x, length (md5 x) = 16%nat.
  Hypothesis md5_wf : forall x, wf_bytes (md5 x) = true.
  Variable rx : N -> bytes -> option (list (Z * Z)).
  Variable cfg : config.
  Variable fs : N -> bool.

  Lemma single_ma_front l : single_ma (ensuremsgauthfront l) = true.
  Proof.
    unfold single_ma, ensuremsgauthfront. cbn [last_ma_split]. rewrite (last_ma_split_none _ (filter_no_ma l)).
    unfold msgauth_placeholder. cbn [tlv_t]. rewrite N.eqb_refl. reflexivity.
  Qed.

  (* C06/C02 for a freshly serialised reply, configurations without rewrite blocks on the reply path *)
  Theorem delivered_plain_wf st s buf rnd c p :
    delivered md5 rx cfg fs st s buf rnd c p ->
    sc_rwin (srvconf_of cfg s) = None -> cc_rwout (clconf_of cfg c) = None ->
    wf_bytes buf = true -> (20 <= length buf)%nat -> wf_bytes rnd = true ->
    (* what the request state must satisfy (established when the request was received) *)
    (forall h r, slot_of st s (nth 1 buf 0) = Some h -> get_rq st h = Some r ->
       length (rq_rqauth r) = 16%nat /\ wf_bytes (rq_rqauth r) = true /\ is_byte (rq_rqid r) = true /\
       match rq_origuser r with Some ou => wf_bytes ou = true | None => True end) ->
    is_byte (o_addttl (cf_opt cfg)) = true -> is_byte (cc_addttl (clconf_of cfg c)) = true ->
    exists r, (exists h, slot_of st s (nth 1 buf 0) = Some h /\ get_rq st h = Some r) /\
      wf_packet p = true /\
      response_auth_ok md5 p (rq_rqauth r) (cc_secret (clconf_of cfg c)) = true /\
      (o_addttl (cf_opt cfg) = 0 -> cc_addttl (clconf_of cfg c) = 0 -> reply_code (nth 0 p 0) = true ->
       first_is_msgauth p = true /\ all_msgauth_ok md5 p (Some (rq_rqauth r)) (cc_secret (clconf_of cfg c)) = true).
  Proof.
    intros D Hrwin Hrwout Wb Lb Wrnd Hst Bg Bp. destruct D.
    destruct (Hst _ _ dl_slot dl_live) as (Lau & Wau & Bid & Wou).
    exists dl_r. split; [exists dl_h; split; assumption|].
    destruct (buf2radmsg_ok md5 md5_len md5_wf _ _ _ _ Wb Lb dl_parsed) as (A0 & _ & _ & Bc & _).
    rewrite Hrwin in dl_rwin. cbn [dorewrite] in dl_rwin. injection dl_rwin as <-.
    destruct dl_ttl as [Ttl _].
    assert (A2 : attrs_ok dl_a2 = true).
    { pose proof (checkttl_ok (o_ttl0 (cf_opt cfg)) (o_ttl1 (cf_opt cfg)) _ A0) as X. rewrite Ttl in X. exact X. }
    pose proof (ms_loop_ok md5 md5_len md5_wf _ _ _ _ _ _ A2 dl_mppe) as A3.
    assert (A4 : attrs_ok dl_a4 = true).
    { destruct (m_code dl_msg =? Consts.RAD_Access_Accept); [|injection dl_tunnel as <-; exact A3].
      exact (tunnelpwd_loop_ok md5 md5_len md5_wf _ _ _ _ _ _ _ A3 Wrnd dl_tunnel). }
    assert (A5 : attrs_ok dl_a5 = true).
    { destruct (rq_origuser dl_r) as [ou|]; [|injection dl_user as <-; exact A4].
      destruct (gettype Consts.RAD_Attr_User_Name dl_a4); [|injection dl_user as <-; exact A4].
      destruct (Consts.RAD_Max_Attr_Value_Length <? nlen ou) eqn:Lo; [discriminate|]. injection dl_user as <-.
      apply replace_first_ok; [exact A4|]. unfold aok, Ttl.tlv_l. cbn [tlv_v tlv_t]. rewrite Wou.
      unfold Consts.RAD_Max_Attr_Value_Length in Lo. replace (nlen ou <=? 253) with true by (clear - Lo; lia). reflexivity. }
    rewrite Hrwout in dl_rwout. cbn [dorewrite] in dl_rwout. injection dl_rwout as <-.
    assert (A7 : attrs_ok (if reply_code (m_code dl_msg) then ensuremsgauthfront dl_a5 else dl_a5) = true)
      by (destruct (reply_code (m_code dl_msg)); [apply ensuremsgauthfront_ok|]; exact A5).
    assert (A8 : attrs_ok dl_a8 = true).
    { subst dl_a8. cbv zeta. destruct (fs 30); [exact A7|]. apply ttl_stage_add_ok; assumption. }
    set (m8 := mkMsg (m_code dl_msg) (rq_rqid dl_r) (rq_rqauth dl_r) dl_a8 false) in *.
    assert (NB : existsb bad_ma (m_attrs m8) = false).
    { unfold radmsg2buf in dl_bytes. destruct (_ <? _); [discriminate|]. destruct (existsb bad_ma (m_attrs m8)); [discriminate | reflexivity]. }
    assert (OK : msg_ok m8 = true).
    { unfold msg_ok. subst m8. cbn [m_attrs m_auth m_code m_id] in *. rewrite A8, (not_bad_ma_ok _ NB), Lau, Wau, Bc, Bid. reflexivity. }
    assert (MAX : Consts.RADMSG2BUF_MAX <= 4096) by (vm_compute; discriminate).
    assert (SC : signed_code (m_code m8) = true).
    { subst m8. cbn [m_code]. unfold reply_codes in dl_code. unfold signed_code.
      clear - dl_code. repeat (apply orb_true_iff in dl_code as [dl_code|dl_code]); rewrite dl_code; cbn; rewrite ?orb_true_r; reflexivity. }
    split; [exact (radmsg2buf_wf md5 md5_len m8 _ p dl_ser OK MAX dl_bytes)|].
    split; [exact (radmsg2buf_response_auth md5 md5_len m8 _ p dl_ser OK MAX SC dl_bytes)|].
    intros Z1 Z2 Hrc.
    pose proof (radmsg2buf_shape md5 md5_len m8 (cc_secret (clconf_of cfg c)) OK) as Sh. rewrite dl_bytes in Sh.
    destruct Sh as (_ & auth' & attrs' & Eb' & _).
    assert (Cm : reply_code (m_code dl_msg) = true).
    { rewrite Eb' in Hrc. unfold radius_header in Hrc. cbn [app nth] in Hrc. exact Hrc. }
    assert (E8 : dl_a8 = ensuremsgauthfront dl_a5).
    { subst dl_a8. cbv zeta. rewrite Cm. destruct (fs 30); [reflexivity|].
      unfold ttl_stage_add. rewrite Z1, Z2. cbn [N.eqb negb orb]. rewrite andb_false_r. reflexivity. }
    assert (SM : single_ma (m_attrs m8) = true) by (subst m8; cbn [m_attrs]; rewrite E8; apply single_ma_front).
    destruct (radmsg2buf_msgauth md5 md5_len m8 _ p dl_ser OK MAX SM dl_bytes) as (AM & _ & FM).
    split; [|exact AM].
    subst m8. cbn [m_attrs] in FM. rewrite E8 in FM. unfold ensuremsgauthfront in FM. apply FM. reflexivity.
  Qed.
End RPL.

Section RPL2.
  Variable md5 : bytes -> bytes.
  Hypothesis md5_len : forall x, length (md5 x) = 16%nat.
  Hypothesis md5_wf : forall x, wf_bytes (md5 x) = true.

  Theorem replyh_emits_wf rx cfg fs st s buf now rnd c p :
    In (OReply c p) (snd (replyh md5 rx cfg fs st s buf now rnd)) ->
    sc_rwin (srvconf_of cfg s) = None -> cc_rwout (clconf_of cfg c) = None ->
    wf_bytes buf = true -> (20 <= length buf)%nat -> wf_bytes rnd = true ->
    (forall h r, slot_of st s (nth 1 buf 0) = Some h -> get_rq st h = Some r ->
       rq_replybuf r = None /\
       length (rq_rqauth r) = 16%nat /\ wf_bytes (rq_rqauth r) = true /\ is_byte (rq_rqid r) = true /\
       match rq_origuser r with Some ou => wf_bytes ou = true | None => True end) ->
    is_byte (o_addttl (cf_opt cfg)) = true -> is_byte (cc_addttl (clconf_of cfg c)) = true ->
    exists r, (exists h, slot_of st s (nth 1 buf 0) = Some h /\ get_rq st h = Some r) /\
      wf_packet p = true /\
      response_auth_ok md5 p (rq_rqauth r) (cc_secret (clconf_of cfg c)) = true /\
      (o_addttl (cf_opt cfg) = 0 -> cc_addttl (clconf_of cfg c) = 0 -> reply_code (nth 0 p 0) = true ->
       first_is_msgauth p = true /\ all_msgauth_ok md5 p (Some (rq_rqauth r)) (cc_secret (clconf_of cfg c)) = true).
  Proof.
    intros H Hrwin Hrwout Wb Lb Wr Hst Bg Bp.
    destruct (replyh_delivered md5 rx cfg fs _ _ _ _ _ _ _ H) as [(h & r & Hs & Hr & _ & Hb) | D].
    - destruct (Hst _ _ Hs Hr) as [Hn _]. congruence.
    - apply (delivered_plain_wf md5 md5_len md5_wf rx cfg fs st s buf rnd c p D); try assumption.
      intros h r Hs Hr. destruct (Hst _ _ Hs Hr) as (_ & X). exact X.
  Qed.
End RPL2.
