From RSP Require Import Base BaseLemmas Cookie.
From Coq Require Import Lia.
Local Open Scope Z_scope.

Section P.
  Variable hash : Z -> bytes.
  Variable tstamp : bytes -> Z.

  (* accepted => the cookie is, octet for octet, time stamp ++ hash of that time, of exactly that length, and recent *)
  Lemma cookie_accept_only_whole now c : cookie_verify hash tstamp now c = true ->
    let t := tstamp (firstn TS c) in
    c = firstn TS c ++ hash t /\ length c = (TS + length (hash t))%nat /\ now - t <= COOKIE_MAX_AGE.
  Proof.
    unfold cookie_verify. intro H.
    destruct (length c <? TS)%nat eqn:L; [discriminate|].
    destruct (COOKIE_MAX_AGE <? now - tstamp (firstn TS c)) eqn:A; [discriminate|].
    destruct (Nat.eqb (length (hash (tstamp (firstn TS c))) + TS) (length c)) eqn:E; [|discriminate].
    cbn [negb] in H. apply beq_bytes_eq in H.
    apply Nat.eqb_eq in E. apply Z.ltb_ge in A.
    cbv zeta. split; [|split; [lia | exact A]].
    rewrite <- H. symmetry. apply firstn_skipn.
  Qed.

  (* a proper prefix of an acceptable cookie, or one with anything appended, is refused *)
  Lemma cookie_wrong_length now c : length c <> (TS + length (hash (tstamp (firstn TS c))))%nat -> cookie_verify hash tstamp now c = false.
  Proof.
    intro N. destruct (cookie_verify hash tstamp now c) eqn:V; [|reflexivity].
    apply cookie_accept_only_whole in V. cbv zeta in V. destruct V as (_ & L & _). contradiction.
  Qed.

  (* and the genuine cookie, while it is recent, is accepted (the check is not vacuous) *)
  Lemma cookie_genuine now ts t : length ts = TS -> tstamp ts = t -> now - t <= COOKIE_MAX_AGE ->
    cookie_verify hash tstamp now (ts ++ hash t) = true.
  Proof.
    intros L T A. unfold cookie_verify.
    assert (F : firstn TS (ts ++ hash t) = ts) by (rewrite <- L, firstn_app, Nat.sub_diag, firstn_all; cbn [firstn]; apply app_nil_r).
    assert (S : skipn TS (ts ++ hash t) = hash t) by (rewrite <- L, skipn_app, Nat.sub_diag, skipn_all; reflexivity).
    rewrite F, S, T, app_length, L.
    replace (TS + length (hash t) <? TS)%nat with false by (symmetry; apply Nat.ltb_ge; lia).
    replace (COOKIE_MAX_AGE <? now - t) with false by (symmetry; apply Z.ltb_ge; exact A).
    rewrite Nat.add_comm, Nat.eqb_refl. cbn [negb]. apply beq_bytes_refl.
  Qed.
End P.
