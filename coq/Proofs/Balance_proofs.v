(* C17: every history keeps the reference accounting exact.  Bal = safe (nothing referred to has been released)
   + tight (nothing unreferred-to is kept) + the shape of the tables + the registration invariant. *)
From RSP Require Import Base Consts Ttl Crypt Packet Rewrite Choose Proxy BaseLemmas Packet_proofs Slots_proofs Dup_proofs
  Keeps_proofs Wf_proofs Refs_proofs Tight_proofs Reg_proofs.
From Coq Require Import ZifyBool ZifyNat ZifyN.
Local Open Scope N_scope.

Definition Bal (nc ns : nat) (st : state) : Prop := safe st zero /\ T nc ns st zero /\ REG st.

(* what an operation must satisfy: client and server indices that exist, packets that are octet strings of at
   least a RADIUS header (what the transports hand over) *)
Definition op_ok (nc ns : nat) (op : hop) : Prop :=
  match op with
  | HRecv c _ _ pkt _ => (c < nc)%nat /\ wf_bytes pkt = true /\ (20 <= length pkt)%nat
  | HWriter s _ _ _ _ _ => (s < ns)%nat
  | _ => True
  end.

Lemma get_rq_alloc st r : get_rq (fst (alloc_rq st r)) (snd (alloc_rq st r)) = Some r.
Proof. unfold alloc_rq, get_rq. cbn [fst snd st_heap]. rewrite nth_error_app2 by lia. rewrite Nat.sub_diag. reflexivity. Qed.

Section B.
  Variable md5 : bytes -> bytes.
  Hypothesis md5_len : forall x, length (md5 x) = 16%nat.
  Hypothesis md5_wf : forall x, wf_bytes (md5 x) = true.
  Variable rx : N -> bytes -> option (list (Z * Z)).
  Variable cfg : config.
  Variables nc ns : nat.
  Hypothesis Hcfg : cfg_ok cfg ns.

  Theorem Bal_hstep st op : op_ok nc ns op -> Bal nc ns st -> Bal nc ns (hstep md5 rx cfg st op).
  Proof.
    intros Ok (S & Tt & Rg).
    destruct op as [c now rnd pkt fs | s buf now rnd fs | s now tick rnd putfail fs | c | c | s]; cbn [hstep].
    - destruct Ok as (Hc & Wp & Lp).
      pose proof (safe_alloc_rq st (new_request c now pkt) zero eq_refl S) as S1.
      pose proof (T_alloc_rq nc ns st (new_request c now pkt) zero eq_refl (conj Hc (conj I (N.le_refl 1))) Tt) as T1.
      pose proof (REG_alloc_rq st (new_request c now pkt) S Rg) as R1.
      pose proof (get_rq_alloc st (new_request c now pkt)) as G1.
      destruct (alloc_rq st (new_request c now pkt)) as [st1 h]. cbn [fst snd] in *.
      split; [apply safe_radsrv; exact S1|]. split.
      + apply (T_radsrv md5 md5_len md5_wf rx cfg fs nc ns Hcfg st1 h c now rnd zero Hc); [| |exact T1].
        * intros r0 G. rewrite G1 in G. injection G as <-. split; [discriminate|]. exists pkt. repeat split; assumption.
        * intros i h' r En G. destruct (R1 c i h' r En G) as [F _]. rewrite F. discriminate.
      + apply REG_radsrv; [| |exact R1].
        * intros r0 G. rewrite G1 in G. injection G as <-. reflexivity.
        * apply (safe_uncached st1 zero h S1). intros r G. rewrite G1 in G. injection G as <-. reflexivity.
    - split; [apply safe_replyh; exact S|]. split; [apply T_replyh; exact Tt|]. eapply REG_R2; [exact Rg | apply R2_replyh].
    - split; [apply safe_writer_release; exact S|]. split; [apply T_writer_release; [exact Ok | exact Tt]|].
      apply REG_writer_release; assumption.
    - split; [apply safe_drain_replyq; exact S|]. split; [apply T_drain_replyq; exact Tt|]. eapply REG_R2; [exact Rg | apply R2_drain_replyq].
    - split; [apply safe_removeclient; exact S|]. split; [apply T_removeclient; exact Tt|]. eapply REG_R2; [exact Rg | apply R2_removeclient].
    - split; [apply safe_freeserver; exact S|]. split; [apply T_freeserver; exact Tt|]. eapply REG_R2; [exact Rg | apply R2_freeserver].
  Qed.

  Theorem Bal_history : forall ops st, Forall (op_ok nc ns) ops -> Bal nc ns st -> Bal nc ns (fold_left (hstep md5 rx cfg) ops st).
  Proof.
    induction ops as [|op ops IH]; intros st Ok B; [exact B|]. cbn [fold_left]. inversion Ok; subst.
    apply IH; [assumption|]. apply Bal_hstep; assumption.
  Qed.
End B.

Lemma Bal_init nc ns : Bal nc ns (init_state nc ns).
Proof.
  split; [apply safe_init|]. split; [apply T_init|].
  intros c i h r E G. unfold get_rq, init_state in G. cbn [st_heap] in G. destruct h; discriminate G.
Qed.

(* the executable check the driver runs on every model state is implied *)
Theorem Bal_rc_ok nc ns st : Bal nc ns st -> rc_ok st = true.
Proof.
  intros (S & (Ti & _ & Hp) & _). unfold rc_ok. apply forallb_forall. intros h Hin. unfold rc_ok_at.
  specialize (S h). specialize (Ti h). unfold zero, rcount in *. 
  destruct (nth_error (st_heap st) h) as [[r|]|] eqn:E.
  - assert (G : get_rq st h = Some r) by (unfold get_rq; rewrite E; reflexivity). rewrite G in S, Ti.
    destruct (Hp _ _ G) as (_ & _ & P). apply andb_true_iff. split; lia.
  - assert (G : get_rq st h = None) by (unfold get_rq; rewrite E; reflexivity). rewrite G in S. lia.
  - assert (G : get_rq st h = None) by (unfold get_rq; rewrite E; reflexivity). rewrite G in S. lia.
Qed.

Theorem Bal_exact nc ns st : Bal nc ns st -> forall h, rcount st h = refs st h.
Proof. intros (S & (Ti & _) & _) h. specialize (S h). specialize (Ti h). unfold zero in *. lia. Qed.
