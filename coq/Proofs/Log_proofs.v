From RSP Require Import Base Consts Ttl Packet Log Spec_C18 BaseLemmas.
From Coq Require Import ZifyBool ZifyNat ZifyN.
Local Open Scope N_scope.
Ltac Zify.zify_post_hook ::= Z.div_mod_to_equations.

(* ------------------------------------------------------------------ finite facts about the tables *)
Definition nibbles : list N := map N.of_nat (seq 0 16).
Lemma nibbles_complete n : n < 16 -> In n nibbles.
Proof. intro H. unfold nibbles. apply in_map_iff. exists (N.to_nat n). split; [lia|]. apply in_seq. lia. Qed.

Lemma hexdigit_lower_hex n : n < 16 -> lower_hex (hexdigit n) = true.
Proof.
  intro H. assert (A : forallb (fun n => lower_hex (hexdigit n)) nibbles = true) by (vm_compute; reflexivity).
  rewrite forallb_forall in A. apply A. apply nibbles_complete. exact H.
Qed.

Lemma lower_hex_printable b : lower_hex b = true -> printable b = true.
Proof. unfold lower_hex, printable. lia. Qed.

Lemma esc_bounds : Consts.ESC_LOW = 32 /\ Consts.ESC_HIGH = 126.
Proof. split; reflexivity. Qed.

(* ------------------------------------------------------------------ escaping *)
Lemma esc_byte_printable b : b < 256 -> all_printable (esc_byte b) = true.
Proof.
  intro H. unfold esc_byte. destruct esc_bounds as [-> ->].
  destruct ((b <? 32) || (126 <? b)) eqn:E.
  - cbn [all_printable forallb]. rewrite (lower_hex_printable (hexdigit (b / 16))) by (apply hexdigit_lower_hex; lia).
    rewrite (lower_hex_printable (hexdigit (b mod 16))) by (apply hexdigit_lower_hex; lia). reflexivity.
  - cbn [all_printable forallb]. unfold printable. lia.
Qed.

Lemma all_printable_app a b : all_printable (a ++ b) = all_printable a && all_printable b.
Proof. apply forallb_app. Qed.

Theorem radattr2ascii_printable v : wf_bytes v = true -> all_printable (radattr2ascii v) = true.
Proof.
  induction v as [|b v IH]; intro W; [reflexivity|].
  rewrite wf_bytes_cons in W. apply andb_true_iff in W as [Hb W]. unfold is_byte in Hb.
  unfold radattr2ascii. cbn [map concat]. rewrite all_printable_app, esc_byte_printable by lia.
  apply IH. exact W.
Qed.

(* printable input is logged unchanged *)
Theorem radattr2ascii_id v : all_printable v = true -> radattr2ascii v = v.
Proof.
  induction v as [|b v IH]; intro P; [reflexivity|]. cbn [all_printable forallb] in P.
  apply andb_true_iff in P as [Pb P]. unfold radattr2ascii. cbn [map concat]. fold (radattr2ascii v).
  rewrite IH by exact P. unfold esc_byte. destruct esc_bounds as [-> ->]. unfold printable in Pb.
  replace ((b <? 32) || (126 <? b)) with false by lia. reflexivity.
Qed.

Lemma suffix_printable c s r : from_first c s = Some r -> all_printable s = true -> all_printable r = true.
Proof.
  revert r. induction s as [|x s IH]; intros r H P; [discriminate|]. cbn [from_first] in H.
  destruct (x =? c); [injection H as <-; exact P|].
  cbn [all_printable forallb] in P. apply andb_true_iff in P as [_ P]. apply (IH r H P).
Qed.

Lemma firstn_printable n s : all_printable s = true -> all_printable (firstn n s) = true.
Proof.
  revert n. induction s as [|x s IH]; intros [|n] P; try reflexivity.
  cbn [all_printable forallb firstn] in *. apply andb_true_iff in P as [Px P]. rewrite Px. apply IH. exact P.
Qed.

(* ------------------------------------------------------------------ hashing of the identifier *)
Theorem sanitise_normal_form s : sanitise s = normal_form s.
Proof.
  induction s as [|x s IH]; [reflexivity|]. cbn [sanitise normal_form]. rewrite IH. unfold lower.
  destruct (x =? 59); [reflexivity|].
  destruct ((48 <=? x) && (x <=? 57)) eqn:D; [reflexivity|].
  destruct ((97 <=? x) && (x <=? 102)) eqn:L.
  - replace ((65 <=? x) && (x <=? 90)) with false by lia. rewrite L. reflexivity.
  - destruct ((65 <=? x) && (x <=? 70)) eqn:U.
    + replace ((65 <=? x) && (x <=? 90)) with true by lia.
      replace ((97 <=? x + 32) && (x + 32 <=? 102)) with true by lia. reflexivity.
    + destruct ((65 <=? x) && (x <=? 90)) eqn:C.
      * replace ((97 <=? x + 32) && (x + 32 <=? 102)) with false by lia. reflexivity.
      * rewrite L. reflexivity.
Qed.

Lemma hex_of_byte_lower b : b < 256 -> all_lower_hex (hex_of_byte b) = true.
Proof.
  intro H. unfold hex_of_byte. cbn [all_lower_hex forallb].
  rewrite !hexdigit_lower_hex by lia. reflexivity.
Qed.

Lemma nth_lt256 h i : wf_bytes h = true -> nth i h 0 < 256.
Proof.
  revert i. induction h as [|x h IH]; intros i W; [destruct i; simpl; lia|].
  rewrite wf_bytes_cons in W. apply andb_true_iff in W as [Hx W]. unfold is_byte in Hx.
  destruct i; simpl; [lia | apply IH; exact W].
Qed.

Theorem format_hash_lower_hex h n : wf_bytes h = true -> all_lower_hex (format_hash h n) = true.
Proof.
  intro W. unfold format_hash. destruct (n <? 3)%nat; [reflexivity|].
  induction (seq 0 ((n - 1) / 2)) as [|i l IH]; [reflexivity|].
  cbn [map concat]. unfold all_lower_hex in *. rewrite forallb_app, IH, andb_true_r.
  apply hex_of_byte_lower. apply nth_lt256. exact W.
Qed.

Section L.
  Variable sha256 : bytes -> bytes.
  Variable hmac_sha256 : bytes -> bytes -> bytes.
  Hypothesis sha_wf : forall x, wf_bytes (sha256 x) = true.
  Hypothesis hmac_wf : forall k x, wf_bytes (hmac_sha256 k x) = true.

  Lemma hashmac_lower_hex id key n : all_lower_hex (hashmac sha256 hmac_sha256 id key n) = true.
  Proof. unfold hashmac. destruct key; apply format_hash_lower_hex; auto. Qed.

  (* the hashed text depends on the identifier only through its normal form, and is H / HMAC_key of it *)
  Theorem hashmac_normal id key n :
    hashmac sha256 hmac_sha256 id key n =
    format_hash (match key with None => sha256 (normal_form id) | Some k => hmac_sha256 k (normal_form id) end) n.
  Proof. unfold hashmac. rewrite sanitise_normal_form. reflexivity. Qed.

  (* ---------------- reply-log station field per LogMAC mode ---------------- *)
  Theorem station_static key sid :
    log_station_field sha256 hmac_sha256 Consts.RSP_MAC_STATIC key sid = [117;110;100;105;115;99;108;111;115;101;100].
  Proof. reflexivity. Qed.

  Theorem station_fully mode key sid :
    mode = Consts.RSP_MAC_FULLY_HASHED \/ mode = Consts.RSP_MAC_FULLY_KEY_HASHED ->
    log_station_field sha256 hmac_sha256 mode key sid =
      format_hash (match (if mode =? Consts.RSP_MAC_FULLY_KEY_HASHED then key else None) with
                   | None => sha256 (normal_form sid) | Some k => hmac_sha256 k (normal_form sid) end) 65 /\
    all_lower_hex (log_station_field sha256 hmac_sha256 mode key sid) = true.
  Proof.
    intros [-> | ->]; (split; [unfold log_station_field; cbn [N.eqb Pos.eqb orb]; apply hashmac_normal |
                               unfold log_station_field; cbn [N.eqb Pos.eqb orb]; apply hashmac_lower_hex]).
  Qed.

  Theorem station_vendor mode key sid :
    mode = Consts.RSP_MAC_VENDOR_HASHED \/ mode = Consts.RSP_MAC_VENDOR_KEY_HASHED ->
    exists clear hashed, log_station_field sha256 hmac_sha256 mode key sid = clear ++ hashed /\
      clear = firstn 9 sid /\ all_lower_hex hashed = true.
  Proof.
    intros [-> | ->]; unfold log_station_field; cbn [N.eqb Pos.eqb orb];
      (destruct (length sid <? 9)%nat eqn:L;
       [exists sid, []; rewrite app_nil_r; repeat split; symmetry; apply firstn_all2; lia
       | eexists; eexists; split; [reflexivity | split; [reflexivity | apply hashmac_lower_hex]]]).
  Qed.

  (* ---------------- every attribute-derived field of the reply log line is printable ---------------- *)
  Definition wf_attrs (l : list tlv) : bool := forallb (fun a => wf_bytes (tlv_v a)) l.

  Lemma gettype_wf t l a : wf_attrs l = true -> gettype t l = Some a -> wf_bytes (tlv_v a) = true.
  Proof.
    induction l as [|x l IH]; intros W H; [discriminate|]. cbn [gettype] in H. cbn [wf_attrs forallb] in W.
    apply andb_true_iff in W as [Wx W]. destruct (tlv_t x =? t); [injection H as <-; exact Wx | apply IH; assumption].
  Qed.

  Lemma opt_ascii_printable t l b : wf_attrs l = true -> opt_ascii (gettype t l) = Some b -> all_printable b = true.
  Proof.
    intros W H. unfold opt_ascii in H. destruct (gettype t l) as [a|] eqn:G; [|discriminate].
    pose proof (gettype_wf _ _ _ W G) as Wa. destruct (tlv_v a) as [|x v] eqn:V; [discriminate|].
    injection H as <-. apply radattr2ascii_printable. exact Wa.
  Qed.

  Lemma lower_hex_all_printable s : all_lower_hex s = true -> all_printable s = true.
  Proof.
    unfold all_lower_hex, all_printable. rewrite !forallb_forall. intros H x Hx. apply lower_hex_printable. apply H. exact Hx.
  Qed.

  Lemma station_field_printable mode key sid : all_printable sid = true ->
    all_printable (log_station_field sha256 hmac_sha256 mode key sid) = true.
  Proof.
    intro P. unfold log_station_field.
    destruct ((mode =? Consts.RSP_MAC_VENDOR_HASHED) || (mode =? Consts.RSP_MAC_VENDOR_KEY_HASHED)).
    - destruct (length sid <? 9)%nat; [exact P|].
      rewrite all_printable_app, firstn_printable by exact P. apply lower_hex_all_printable, hashmac_lower_hex.
    - destruct ((mode =? Consts.RSP_MAC_FULLY_HASHED) || (mode =? Consts.RSP_MAC_FULLY_KEY_HASHED)).
      + apply lower_hex_all_printable, hashmac_lower_hex.
      + destruct (mode =? Consts.RSP_MAC_STATIC); [reflexivity | apply firstn_printable; exact P].
  Qed.

  Theorem replylog_fields_printable rq rp full mode key : wf_attrs rq = true -> wf_attrs rp = true ->
    let f := replylog_fields_of sha256 hmac_sha256 rq rp full mode key in
    (match rl_user f with Some u => all_printable u | None => true end) = true /\
    all_printable (rl_station f) = true /\ all_printable (rl_cui f) = true /\
    all_printable (rl_operator f) = true /\ all_printable (rl_replymsg f) = true.
  Proof.
    intros Wq Wp. unfold replylog_fields_of. cbn [rl_user rl_station rl_cui rl_operator rl_replymsg].
    repeat split.
    - destruct (opt_ascii (gettype Consts.RAD_Attr_User_Name rq)) as [u|] eqn:U; [|reflexivity].
      pose proof (opt_ascii_printable _ _ _ Wq U) as P.
      destruct full; [exact P|]. destruct (from_first 64 u) as [r|] eqn:F; [|reflexivity].
      eapply suffix_printable; eassumption.
    - destruct (opt_ascii (gettype Consts.RAD_Attr_Calling_Station_Id rq)) as [sid|] eqn:S; [|reflexivity].
      rewrite all_printable_app. rewrite station_field_printable by exact (opt_ascii_printable _ _ _ Wq S). reflexivity.
    - destruct (opt_ascii (gettype Consts.RAD_Attr_CUI rp)) as [b|] eqn:E; [|reflexivity].
      rewrite !all_printable_app, (opt_ascii_printable _ _ _ Wp E). reflexivity.
    - destruct (opt_ascii (gettype Consts.RAD_Attr_Operator_Name rq)) as [b|] eqn:E; [|reflexivity].
      rewrite !all_printable_app, (opt_ascii_printable _ _ _ Wq E). reflexivity.
    - destruct (opt_ascii (gettype Consts.RAD_Attr_Reply_Message rp)) as [b|] eqn:E; [|reflexivity].
      rewrite !all_printable_app, (opt_ascii_printable _ _ _ Wp E). reflexivity.
  Qed.

  (* with LogFullUsername off only the part from the first '@' on is logged *)
  Theorem username_from_at rq rp mode key u : wf_attrs rq = true ->
    rl_user (replylog_fields_of sha256 hmac_sha256 rq rp false mode key) = Some u ->
    exists full, opt_ascii (gettype Consts.RAD_Attr_User_Name rq) = Some full /\ from_first 64 full = Some u /\
                 match u with x :: _ => x = 64 | [] => False end.
  Proof.
    intros W H. unfold replylog_fields_of in H. cbn [rl_user] in H.
    destruct (opt_ascii (gettype Consts.RAD_Attr_User_Name rq)) as [full|] eqn:U; [|discriminate].
    exists full. split; [reflexivity|]. split; [exact H|].
    clear -H. revert u H. induction full as [|x s IH]; intros u H; [discriminate|]. cbn [from_first] in H.
    destruct (N.eqb_spec x 64) as [->|]; [injection H as <-; reflexivity | apply IH; exact H].
  Qed.

  (* F-Ticks fields *)
  Theorem fticks_fields_printable rq mode key : wf_attrs rq = true ->
    all_printable (fticks_realm rq) = true /\ all_printable (fticks_csi sha256 hmac_sha256 rq mode key) = true.
  Proof.
    intro W. split.
    - unfold fticks_realm. destruct (opt_ascii (gettype Consts.RAD_Attr_User_Name rq)) as [u|] eqn:U; [|reflexivity].
      pose proof (opt_ascii_printable _ _ _ W U) as P.
      assert (G : forall s acc r, all_printable s = true -> (match acc with Some a => all_printable a | None => true end) = true ->
                   after_last_f 64 s acc = Some r -> all_printable r = true).
      { induction s as [|x s IH]; intros acc r Ps Pa H; [cbn in H; subst acc; exact Pa|].
        cbn [after_last_f] in H. cbn [all_printable forallb] in Ps. apply andb_true_iff in Ps as [_ Ps].
        apply (IH _ _ Ps) in H; [exact H|]. destruct (x =? 64); [exact Ps | exact Pa]. }
      destruct (after_last_f 64 u None) as [r|] eqn:A; [|reflexivity]. apply (G u None r P eq_refl A).
    - unfold fticks_csi. destruct (mode =? Consts.RSP_MAC_STATIC); [reflexivity|].
      destruct (opt_ascii (gettype Consts.RAD_Attr_Calling_Station_Id rq)) as [sid|] eqn:S; [|reflexivity].
      pose proof (opt_ascii_printable _ _ _ W S) as P.
      destruct (mode =? Consts.RSP_MAC_ORIGINAL); [apply firstn_printable; exact P|].
      destruct ((mode =? Consts.RSP_MAC_VENDOR_HASHED) || (mode =? Consts.RSP_MAC_VENDOR_KEY_HASHED)).
      + destruct (length sid <? 9)%nat; [exact P|].
        rewrite all_printable_app, firstn_printable by exact P. apply lower_hex_all_printable, hashmac_lower_hex.
      + apply lower_hex_all_printable, hashmac_lower_hex.
  Qed.
End L.
