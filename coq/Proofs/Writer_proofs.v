(* C12: the retry/abandon logic of the writer, proved on the per-slot decision function that
   Proxy.slots_pass applies to every occupied slot it visits. *)
From RSP Require Import Base Consts Ttl Crypt Packet Rewrite Choose Proxy.
From Coq Require Import ZifyBool ZifyNat ZifyN.
Local Open Scope N_scope.

Section W.
  Variable ri rc : N.          (* RetryInterval, RetryCount *)
  Variable isprobe : bool.
  Definition limit : N := if isprobe then 1 else rc + 1.

  (* the life of one outstanding request: the writer's successive visits (time, resend?) until the
     slot is released *)
  Fixpoint life (visits : list (Z * bool)) (tries : N) (expiry : Z) : list (Z * action) :=
    match visits with
    | [] => []
    | (now, rs) :: rest =>
        let '(a, t', e') := slot_action ri rc isprobe rs now tries expiry in
        match a with
        | ASkip => (now, a) :: life rest tries expiry
        | ASend => (now, a) :: life rest t' e'
        | _ => [(now, a)]
        end
    end.

  Definition sends (l : list (Z * action)) : list Z :=
    flat_map (fun p => match snd p with ASend => [fst p] | _ => [] end) l.

  Definition no_resend (visits : list (Z * bool)) : bool := forallb (fun v => negb (snd v)) visits.

  (* at most limit - tries transmissions remain *)
  Lemma sends_bound visits : forall tries expiry, no_resend visits = true -> tries <= limit ->
    N.of_nat (length (sends (life visits tries expiry))) <= limit - tries.
  Proof.
    induction visits as [|[now rs] rest IH]; intros tries expiry NR Ht; [simpl; lia|].
    cbn [no_resend forallb snd] in NR. apply andb_true_iff in NR as [Hrs NR]. apply negb_true_iff in Hrs. subst rs.
    cbn [life]. unfold slot_action. cbn [negb andb].
    destruct (now <? expiry)%Z eqn:SK.
    - cbn [sends flat_map snd app]. apply IH; assumption.
    - fold limit. destruct (tries =? limit) eqn:AB.
      + cbn [sends flat_map snd app length]. lia.
      + cbn [sends flat_map snd fst app length]. fold (sends (life rest (tries + 1) (now + Z.of_N ri)%Z)).
        specialize (IH (tries + 1) (now + Z.of_N ri)%Z NR). lia.
  Qed.

  (* C12_count: a request that gets no reply and no reconnect is transmitted at most RetryCount+1 times
     (a Status-Server probe at most once) *)
  Theorem count_bound visits : no_resend visits = true ->
    N.of_nat (length (sends (life visits 0 0%Z))) <= limit.
  Proof. intro NR. pose proof (sends_bound visits 0 0%Z NR). unfold limit in *. destruct isprobe; lia. Qed.

  (* successive transmissions are at least RetryInterval apart (visit times non-decreasing) *)
  Fixpoint sorted_from (t : Z) (l : list Z) : bool :=
    match l with [] => true | x :: r => (t <=? x)%Z && sorted_from x r end.

  Lemma sends_after visits : forall tries expiry, no_resend visits = true ->
    forallb (fun t => (expiry <=? t)%Z) (sends (life visits tries expiry)) = true /\
    (forall t0, sorted_from t0 (map fst visits) = true -> True).
  Proof.
    induction visits as [|[now rs] rest IH]; intros tries expiry NR; [split; [reflexivity|auto]|].
    split; [|auto].
    cbn [no_resend forallb snd] in NR. apply andb_true_iff in NR as [Hrs NR]. apply negb_true_iff in Hrs. subst rs.
    cbn [life]. unfold slot_action. cbn [negb andb].
    destruct (now <? expiry)%Z eqn:SK.
    - cbn [sends flat_map snd app]. apply (IH tries expiry NR).
    - destruct (tries =? (if isprobe then 1 else rc + 1)); [reflexivity|].
      cbn [sends flat_map snd fst app forallb]. fold (sends (life rest (tries + 1) (now + Z.of_N ri)%Z)).
      destruct (IH (tries + 1) (now + Z.of_N ri)%Z NR) as [H _].
      apply andb_true_iff. split; [lia|].
      rewrite forallb_forall in *. intros t Ht. specialize (H t Ht). lia.
  Qed.

  (* every transmission after the first comes no earlier than the expiry set by the previous one *)
  Theorem spacing visits tries expiry t rest' : no_resend visits = true ->
    sends (life visits tries expiry) = t :: rest' ->
    forallb (fun t' => (t + Z.of_N ri <=? t')%Z) rest' = true.
  Proof.
    revert tries expiry. induction visits as [|[now rs] rest IH]; intros tries expiry NR H; [discriminate|].
    cbn [no_resend forallb snd] in NR. apply andb_true_iff in NR as [Hrs NR]. apply negb_true_iff in Hrs. subst rs.
    cbn [life] in H. unfold slot_action in H. cbn [negb andb] in H.
    destruct (now <? expiry)%Z eqn:SK.
    - cbn [sends flat_map snd app] in H. apply (IH tries expiry NR H).
    - destruct (tries =? (if isprobe then 1 else rc + 1)); [discriminate|].
      cbn [sends flat_map snd fst app] in H. fold (sends (life rest (tries + 1) (now + Z.of_N ri)%Z)) in H.
      injection H as <- <-. apply (sends_after rest (tries + 1) (now + Z.of_N ri)%Z NR).
  Qed.

  (* once all transmissions are used up, the next visit at or after the expiry abandons the request *)
  Theorem abandon now expiry : (expiry <= now)%Z ->
    slot_action ri rc isprobe false now limit expiry = (AAbandon, limit, expiry).
  Proof.
    intro H. unfold slot_action. cbn [negb andb]. replace (now <? expiry)%Z with false by lia.
    fold limit. rewrite N.eqb_refl. reflexivity.
  Qed.

  (* C12_reconnect: after a connection reset an outstanding request is transmitted again without
     consuming a retry; a pending probe is discarded *)
  Theorem resend_keeps_tries now tries expiry : isprobe = false -> 0 < tries -> tries <= rc + 1 ->
    slot_action ri rc isprobe true now tries expiry = (ASend, tries, (now + Z.of_N ri)%Z).
  Proof.
    intros P H0 H1. unfold slot_action. subst isprobe. cbn [negb andb].
    replace (0 <? tries) with true by lia. replace (tries - 1 =? rc + 1) with false by lia.
    f_equal. f_equal. lia.
  Qed.

  Theorem resend_purges_probe now tries expiry : isprobe = true ->
    fst (fst (slot_action ri rc isprobe true now tries expiry)) = APurgeProbe.
  Proof. intro P. unfold slot_action. subst isprobe. reflexivity. Qed.
End W.

(* ---- loss accounting when a request is abandoned ---- *)
From RSP Require Import Packet Rewrite Choose.
Section L.
  Definition lost_after (mode lost : N) (isprobe : bool) : N :=
    let inc := if lost <? Consts.MAX_LOSTRQS then lost + 1 else lost in
    if (mode =? Consts.RSP_STATSRV_ON) || (mode =? Consts.RSP_STATSRV_MINIMAL) then (if isprobe then inc else lost)
    else if (mode =? Consts.RSP_STATSRV_AUTO) && isprobe then lost
    else inc.

  Lemma abandon_lost sv isprobe : s_lostrqs (abandon_server sv isprobe) = lost_after (s_statsrv sv) (s_lostrqs sv) isprobe.
  Proof.
    unfold abandon_server, lost_after, incrementlostrqs. cbv zeta.
    destruct ((s_statsrv sv =? Consts.RSP_STATSRV_ON) || (s_statsrv sv =? Consts.RSP_STATSRV_MINIMAL)).
    - destruct isprobe; [|reflexivity]. destruct (s_lostrqs sv <? Consts.MAX_LOSTRQS); reflexivity.
    - destruct ((s_statsrv sv =? Consts.RSP_STATSRV_AUTO) && isprobe).
      + destruct (_ <=? _)%Z; reflexivity.
      + destruct (s_lostrqs sv <? Consts.MAX_LOSTRQS); reflexivity.
  Qed.

  (* the table itself is not touched by the accounting *)
  Lemma abandon_slots sv isprobe : s_slots (abandon_server sv isprobe) = s_slots sv.
  Proof.
    unfold abandon_server, incrementlostrqs. cbv zeta.
    repeat match goal with |- context [if ?c then _ else _] => destruct c end; reflexivity.
  Qed.
End L.
