(* C17 over histories: a request that sits in a server's table is also registered in the duplicate cache of the
   client it came from (at its Identifier).  With REG, SLOT and RQI this gives: once a client is gone, every request
   that came from it has been released. *)
From RSP Require Import Base Consts Ttl Crypt Packet Rewrite Choose Proxy BaseLemmas Packet_proofs Slots_proofs Dup_proofs
  Keeps_proofs Wf_proofs Refs_proofs Tight_proofs Reg_proofs Balance_proofs Slotinv_proofs Rqi_proofs.
From Coq Require Import ZifyBool ZifyNat ZifyN.
Local Open Scope N_scope.

Definition INV3 (st : state) : Prop := forall s i h r c, slot_of st s i = Some h -> get_rq st h = Some r ->
  rq_from r = Some c -> entry st c (N.to_nat (rq_rqid r)) = Some h.

(* b's occupied slots are slots of a; the cache entries of a are kept in b; surviving requests keep originator and
   identifier *)
Definition R6 (a b : state) : Prop :=
  (forall s i h, slot_of b s i = Some h -> slot_of a s i = Some h) /\
  (forall c i h, entry a c i = Some h -> entry b c i = Some h) /\
  (forall h r', get_rq b h = Some r' -> exists r, get_rq a h = Some r /\ rq_from r' = rq_from r /\ rq_rqid r' = rq_rqid r).

Lemma R6_refl a : R6 a a.
Proof. split; [intros s i h E; exact E|]. split; [intros c i h E; exact E|]. intros h r G. exists r. repeat split; exact G. Qed.

Lemma R6_trans a b c : R6 a b -> R6 b c -> R6 a c.
Proof.
  intros (S1 & E1 & H1) (S2 & E2 & H2). split; [intros s i h E; apply S1; apply S2; exact E|].
  split; [intros x i h E; apply E2; apply E1; exact E|].
  intros h r G. destruct (H2 _ _ G) as (r1 & G1 & F1 & I1). destruct (H1 _ _ G1) as (r0 & G0 & F0 & I0).
  exists r0. split; [exact G0|]. split; congruence.
Qed.

Lemma INV3_R6 a b : INV3 a -> R6 a b -> INV3 b.
Proof.
  intros Ia (SS & EE & HH) s i h r c E G F. destruct (HH _ _ G) as (r0 & G0 & F0 & I0).
  rewrite I0. apply EE. apply (Ia s i h r0 c (SS _ _ _ E) G0). congruence.
Qed.

(* ---- primitives ---- *)
Lemma R6_set_rq st h r r' : get_rq st h = Some r -> rq_from r' = rq_from r -> rq_rqid r' = rq_rqid r -> R6 st (set_rq st h r').
Proof.
  intros G F I. split; [intros s i x E; exact E|]. split; [intros c i x E; exact E|].
  intros x r1 H. destruct (get_rq_set_rq_inv _ _ _ _ _ H) as [[-> ->] | H1]; [exists r; repeat split; assumption | exists r1; repeat split; exact H1].
Qed.
Lemma R6_upd_rq st h f : (forall r, rq_from (f r) = rq_from r /\ rq_rqid (f r) = rq_rqid r) -> R6 st (upd_rq st h f).
Proof. intro Hf. unfold upd_rq. destruct (get_rq st h) as [r|] eqn:G; [|apply R6_refl]. destruct (Hf r). eapply R6_set_rq; eassumption. Qed.
Lemma R6_del_rq st h : R6 st (del_rq st h).
Proof. split; [intros s i x E; exact E|]. split; [intros c i x E; exact E|]. intros x r H. exists r. repeat split. exact (get_rq_del_rq_inv _ _ _ _ H). Qed.
Lemma R6_newrqref st h : R6 st (newrqref st h).
Proof. unfold newrqref. destruct (get_rq st h) as [r|] eqn:G; [|apply R6_refl]. eapply R6_set_rq; [exact G | reflexivity | reflexivity]. Qed.
Lemma R6_freerq st h : R6 st (freerq st h).
Proof.
  unfold freerq. destruct (get_rq st h) as [r|] eqn:G; [|apply R6_refl].
  destruct (rq_refcount r <=? 1); [apply R6_del_rq | eapply R6_set_rq; [exact G | reflexivity | reflexivity]].
Qed.

(* a server record whose occupied slots are occupied slots of the old one *)
Lemma R6_set_server st s sv' : (forall i h, sl_rq (get_slot sv' i) = Some h -> slot_of st s i = Some h) -> R6 st (set_server st s sv').
Proof.
  intro H. split.
  - intros s' i h E. rewrite slot_of_set_server in E. destruct (Nat.eqb_spec s' s) as [->|_]; [|exact E].
    destruct (_ <? _)%nat; [apply H; exact E | exact E].
  - split; [intros c i h E; exact E|]. intros h r G. exists r. repeat split. exact G.
Qed.
Lemma R6_set_server_same st s sv' : s_slots sv' = s_slots (get_server st s) -> R6 st (set_server st s sv').
Proof. intro H. apply R6_set_server. intros i h E. unfold slot_of, get_slot in *. rewrite H in E. exact E. Qed.

(* a client record that keeps every cache entry *)
Lemma R6_set_client st c cl' : (forall i h, entry st c i = Some h -> nth i (c_rqs cl') None = Some h) -> R6 st (set_client st c cl').
Proof.
  intro H. split; [intros s i h E; exact E|]. split; [|intros h r G; exists r; repeat split; exact G].
  intros c' i h E. unfold entry in *.
  destruct (Nat.lt_ge_cases c (length (st_clients st))) as [L|L].
  - rewrite get_client_set_client by exact L. destruct (Nat.eqb_spec c' c) as [->|_]; [apply H; exact E | exact E].
  - rewrite set_client_out by exact L. exact E.
Qed.

Lemma R6_freerqoutdata st s i : R6 st (freerqoutdata st s i).
Proof.
  unfold freerqoutdata. cbv zeta.
  set (st1 := match sl_rq (get_slot (get_server st s) i) with Some h => _ | None => st end).
  assert (K1 : R6 st st1).
  { subst st1. destruct (sl_rq (get_slot (get_server st s) i)) as [h|]; [|apply R6_refl].
    destruct (get_rq st h) as [r|] eqn:G; [|apply R6_refl].
    eapply R6_trans; [|apply R6_freerq]. eapply R6_set_rq; [exact G | reflexivity | reflexivity]. }
  assert (Sv : get_server st1 s = get_server st s).
  { subst st1. destruct (sl_rq (get_slot (get_server st s) i)) as [h|]; [|reflexivity].
    destruct (get_rq st h) as [r|]; [|reflexivity]. rewrite get_server_freerq. reflexivity. }
  eapply R6_trans; [exact K1|]. apply R6_set_server. intros j x Ex. rewrite Sv in Ex.
  destruct (get_slot_set_slot_cases (get_server st s) i empty_slot j) as [K | [-> K]]; rewrite K in Ex; [|discriminate Ex].
  unfold slot_of. rewrite Sv. exact Ex.
Qed.

Lemma slot_server_in_range st s i h : slot_of st s i = Some h -> (s < length (st_servers st))%nat.
Proof.
  intro E. unfold slot_of in E. destruct (Nat.lt_ge_cases s (length (st_servers st))) as [L|L]; [exact L|].
  rewrite (get_server_out st s L) in E. unfold get_slot in E. cbn [s_slots dummy_server] in E. destruct (N.to_nat i); discriminate E.
Qed.

Lemma entry_clear_cache st c i c' j x :
  entry (set_client st c (mkClient (upd (c_rqs (get_client st c)) i None) (c_replyq (get_client st c)))) c' j = Some x ->
  entry st c' j = Some x /\ ~ (c' = c /\ j = i).
Proof.
  unfold entry. intro E. destruct (Nat.lt_ge_cases c (length (st_clients st))) as [L|L].
  - rewrite get_client_set_client in E by exact L. destruct (Nat.eqb_spec c' c) as [->|Hn].
    + cbn [c_rqs] in E. split; [exact (nth_upd_none_sub _ _ _ _ E)|]. intros [_ ->].
      destruct (Nat.lt_ge_cases i (length (c_rqs (get_client st c)))) as [Li|Li].
      * rewrite nth_upd_same in E by exact Li. discriminate E.
      * rewrite upd_out in E by exact Li. rewrite nth_overflow in E by exact Li. discriminate E.
    + split; [exact E | intros [X _]; contradiction].
  - rewrite set_client_out in E by exact L. split; [exact E|]. intros [-> ->].
    rewrite (get_client_out st c L) in E. cbn [c_rqs] in E. destruct i; discriminate E.
Qed.

Lemma entry_kept_clear_cache st c i c' j x : entry st c' j = Some x -> ~ (c' = c /\ j = i) ->
  entry (set_client st c (mkClient (upd (c_rqs (get_client st c)) i None) (c_replyq (get_client st c)))) c' j = Some x.
Proof.
  unfold entry. intros E Ne. destruct (Nat.lt_ge_cases c (length (st_clients st))) as [L|L].
  - rewrite get_client_set_client by exact L. destruct (Nat.eqb_spec c' c) as [->|Hn]; [|exact E].
    cbn [c_rqs]. rewrite nth_upd_other; [exact E|]. intro X. apply Ne. split; [reflexivity | symmetry; exact X].
  - rewrite set_client_out by exact L. exact E.
Qed.

(* removeclientrq: the cache entry goes, and with it the slot that held the same request *)
Lemma INV3_removeclientrq st c i : SLOT st -> INV3 st -> INV3 (removeclientrq st c i).
Proof.
  intros Sl I3. unfold removeclientrq. cbv zeta.
  destruct (nth (N.to_nat i) (c_rqs (get_client st c)) None) as [h|] eqn:En; [|exact I3].
  destruct (get_rq st h) as [r|] eqn:G; [|exact I3].
  set (st1 := match rq_to r with Some s => _ | None => st end).
  assert (K1 : R6 st st1).
  { subst st1. destruct (rq_to r) as [s|]; [|apply R6_refl]. destruct (sl_rq _) as [h'|]; [|apply R6_refl].
    destruct (Nat.eqb h' h); [apply R6_freerqoutdata | apply R6_refl]. }
  assert (C1 : get_client st1 c = get_client st c).
  { subst st1. destruct (rq_to r) as [s|]; [|reflexivity]. destruct (sl_rq _) as [h2|]; [|reflexivity].
    destruct (Nat.eqb h2 h); [apply get_client_freerqoutdata | reflexivity]. }
  (* h is in no slot of st1 *)
  assert (U1 : unslotted st1 h).
  { intros s' i' E1. pose proof (proj1 K1 _ _ _ E1) as E0. destruct (Sl _ _ _ _ E0 G) as [To Ni].
    subst st1. rewrite To in E1. unfold slot_of in E0. rewrite <- Ni in E0. rewrite E0 in E1. rewrite Nat.eqb_refl in E1.
    rewrite <- Ni in E1.
    pose proof (freerqoutdata_releases st s' (rq_newid r) (slot_server_in_range _ _ _ _ ltac:(unfold slot_of; exact E0)) (get_slot_in_range _ _ _ E0)) as Rl.
    rewrite Rl in E1. discriminate E1. }
  set (st2 := set_client st1 c (mkClient (upd (c_rqs (get_client st1 c)) (N.to_nat i) None) (c_replyq (get_client st1 c)))).
  intros s' i' x rx c' E Gx F.
  (* back to st2, st1, st *)
  assert (E2 : slot_of st2 s' i' = Some x) by (unfold slot_of in *; rewrite get_server_freerq in E; exact E).
  assert (E1 : slot_of st1 s' i' = Some x) by exact E2.
  assert (Nx : x <> h) by (intro X; subst x; exact (U1 _ _ E1)).
  destruct (proj2 (proj2 (R6_freerq st2 h)) _ _ Gx) as (r2 & G2 & F2 & J2).
  change (get_rq st1 x = Some r2) in G2.
  destruct (proj2 (proj2 K1) _ _ G2) as (r0 & G0 & F0 & J0).
  pose proof (I3 s' i' x r0 c' (proj1 K1 _ _ _ E1) G0 ltac:(congruence)) as E0.
  unfold entry. rewrite get_client_freerq. fold (entry st2 c' (N.to_nat (rq_rqid rx))).
  subst st2. rewrite C1. rewrite J2, J0.
  assert (E1' : entry st1 c' (N.to_nat (rq_rqid r0)) = Some x) by exact (proj1 (proj2 K1) _ _ _ E0).
  pose proof (entry_kept_clear_cache st1 c (N.to_nat i) c' (N.to_nat (rq_rqid r0)) x E1') as Kc. rewrite C1 in Kc. apply Kc.
  intros [-> Ej]. unfold entry in E0. rewrite Ej, En in E0. injection E0 as X. exact (Nx (eq_sym X)).
Qed.

Definition cached (st : state) (h : nat) : Prop := forall r c, get_rq st h = Some r -> rq_from r = Some c ->
  entry st c (N.to_nat (rq_rqid r)) = Some h.

Lemma cached_R6 a b h : R6 a b -> cached a h -> cached b h.
Proof.
  intros (_ & EE & HH) Ca r c G F. destruct (HH _ _ G) as (r0 & G0 & F0 & I0). rewrite I0. apply EE. apply (Ca r0 c G0). congruence.
Qed.

(* rmclientrq: the request's own entry is cleared and the request detached; it sits in no table *)
Lemma INV3_rmclientrq st h : unslotted st h -> cached st h -> INV3 st ->
  forall id, (forall r, get_rq st h = Some r -> N.to_nat (rq_rqid r) = N.to_nat id) -> INV3 (rmclientrq st h id).
Proof.
  intros U Ca I3 id Hid. unfold rmclientrq. destruct (get_rq st h) as [r|] eqn:G; [|exact I3].
  destruct (rq_from r) as [c|] eqn:F; [|exact I3].
  destruct (nth (N.to_nat id) (c_rqs (get_client st c)) None) as [h'|] eqn:En; [|exact I3].
  assert (Eh : h' = h).
  { pose proof (Ca r c G F) as E. unfold entry in E. rewrite (Hid r eq_refl), En in E. congruence. }
  subst h'.
  set (stc := set_client st c (mkClient (upd (c_rqs (get_client st c)) (N.to_nat id) None) (c_replyq (get_client st c)))).
  set (st2 := set_rq stc h (rq_set_from r None)).
  intros s' i' x rx c' E Gx Fx.
  assert (E0 : slot_of st s' i' = Some x) by (unfold slot_of in *; rewrite get_server_freerq in E; exact E).
  assert (Nx : x <> h) by (intro X; subst x; exact (U _ _ E0)).
  destruct (proj2 (proj2 (R6_freerq st2 h)) _ _ Gx) as (r2 & G2 & F2 & J2).
  destruct (get_rq_set_rq_inv _ _ _ _ _ G2) as [[X _] | G0]; [contradiction|].
  change (get_rq st x = Some r2) in G0.
  pose proof (I3 s' i' x r2 c' E0 G0 ltac:(congruence)) as Ee.
  unfold entry. rewrite get_client_freerq. change (get_client st2 c') with (get_client stc c'). fold (entry stc c' (N.to_nat (rq_rqid rx))).
  rewrite J2. subst stc. apply entry_kept_clear_cache; [exact Ee|].
  intros [-> Ej]. unfold entry in Ee. rewrite Ej, En in Ee. injection Ee as X. exact (Nx (eq_sym X)).
Qed.

(* registration at (c, i): the entry overwritten is empty, or refers to a released object, or to one in no table *)
Lemma INV3_register st c i h : INV3 st ->
  (entry st c i = None \/ exists h', entry st c i = Some h' /\ (get_rq st h' = None \/ unslotted st h')) ->
  INV3 (set_client st c (mkClient (upd (c_rqs (get_client st c)) i (Some h)) (c_replyq (get_client st c)))).
Proof.
  intros I3 Hold s' i' x rx c' E Gx Fx. change (slot_of st s' i' = Some x) in E. change (get_rq st x = Some rx) in Gx.
  pose proof (I3 _ _ _ _ _ E Gx Fx) as Ee. unfold entry in *.
  destruct (Nat.lt_ge_cases c (length (st_clients st))) as [L|L].
  - rewrite get_client_set_client by exact L. destruct (Nat.eqb_spec c' c) as [->|_]; [|exact Ee].
    cbn [c_rqs]. destruct (Nat.eq_dec i (N.to_nat (rq_rqid rx))) as [Ei|Hn]; [|rewrite nth_upd_other by exact Hn; exact Ee].
    exfalso. rewrite <- Ei in Ee. destruct Hold as [Hn | (h' & Hh & [Hd | Hu])].
    + rewrite Hn in Ee. discriminate Ee.
    + rewrite Hh in Ee. injection Ee as ->. rewrite Gx in Hd. discriminate Hd.
    + rewrite Hh in Ee. injection Ee as ->. exact (Hu _ _ E).
  - rewrite set_client_out by exact L. exact Ee.
Qed.

Section H.
  Variable md5 : bytes -> bytes.
  Variable cfg : config.
  Variable fs : N -> bool.

  Lemma R6_sendreply st h : R6 st (fst (sendreply md5 cfg fs st h)).
  Proof.
    unfold sendreply. destruct (get_rq st h) as [r|] eqn:G; [|apply R6_refl].
    destruct (rq_from r) as [c|]; [|apply R6_refl]. cbv zeta.
    match goal with |- context [set_rq st h ?r1] => set (R1 := r1) end.
    assert (K1 : R6 st (set_rq st h R1)) by (eapply R6_set_rq; [exact G | reflexivity | reflexivity]).
    match goal with |- context [if fs 14 then None else ?rb] => destruct (if fs 14 then None else rb) as [b|] end; cbn [fst].
    - eapply R6_trans; [exact K1|]. apply R6_set_client. intros i x E. exact E.
    - eapply R6_trans; [exact K1 | apply R6_freerq].
  Qed.

  Lemma R6_respond st h code extra ma : R6 st (fst (respond md5 cfg fs st h code extra ma)).
  Proof.
    unfold respond. destruct (get_rq st h) as [r|] eqn:G; [|apply R6_refl].
    destruct (rq_msg r) as [m|]; [|apply R6_refl]. cbv zeta.
    match goal with |- context [match ?x with Some a1 => _ | None => (st, []) end] => destruct x as [a1|] end; [|apply R6_refl].
    match goal with |- context [set_rq st h ?r1] => set (R1 := r1) end.
    eapply R6_trans; [|apply R6_sendreply]. eapply R6_trans; [|apply R6_newrqref].
    eapply R6_set_rq; [exact G | reflexivity | reflexivity].
  Qed.

  Lemma INV3_purge_f c now : forall fuel st i, SLOT st -> INV3 st -> SLOT (purge_f cfg fuel st c i now) /\ INV3 (purge_f cfg fuel st c i now).
  Proof.
    induction fuel as [|f IH]; intros st i Sl I3; [split; assumption|]. cbn [purge_f]. cbv zeta. apply IH.
    - destruct (nth i (c_rqs (get_client st c)) None) as [h|]; [|exact Sl].
      destruct (get_rq st h) as [r|]; [|exact Sl].
      match goal with |- context [if ?g then _ else _] => destruct g end; [eapply SLOT_R4; [exact Sl | apply Q_removeclientrq; exact Sl] | exact Sl].
    - destruct (nth i (c_rqs (get_client st c)) None) as [h|]; [|exact I3].
      destruct (get_rq st h) as [r|]; [|exact I3].
      match goal with |- context [if ?g then _ else _] => destruct g end; [apply INV3_removeclientrq; assumption | exact I3].
  Qed.

  Lemma INV3_purgedupcache st c now : SLOT st -> INV3 st -> SLOT (purgedupcache cfg st c now) /\ INV3 (purgedupcache cfg st c now).
  Proof. unfold purgedupcache. generalize 256%nat. intro n. apply INV3_purge_f. Qed.

  (* addclientrq: INV3 is kept; a registered request (in range) is then found in its client's cache *)
  Lemma INV3_addclientrq nc ns st h c now e isnew st' o : addclientrq md5 cfg fs st h c now = (isnew, st', o) ->
    T nc ns st e -> (c < nc)%nat -> (forall rq, get_rq st h = Some rq -> rq_from rq = Some c /\ rq_rqid rq < 256) ->
    SLOT st -> INV3 st -> INV3 st' /\ (isnew = true -> cached st' h).
  Proof.
    unfold addclientrq. intros A Tt Hc Hrq Sl I3.
    destruct (get_rq st h) as [rq|] eqn:G; [|injection A as <- <- _; split; [exact I3 | discriminate]]. cbv zeta in A.
    destruct (Hrq rq eq_refl) as [Fq Iq].
    assert (Reg : forall stx, R2 st stx -> T nc ns stx e -> INV3 stx ->
              (entry stx c (N.to_nat (rq_rqid rq)) = None \/ exists h', entry stx c (N.to_nat (rq_rqid rq)) = Some h' /\ (get_rq stx h' = None \/ unslotted stx h')) ->
              let stR := newrqref (set_client stx c (mkClient (upd (c_rqs (get_client stx c)) (N.to_nat (rq_rqid rq)) (Some h)) (c_replyq (get_client stx c)))) h in
              INV3 stR /\ cached stR h).
    { intros stx [Kh _] Tx Ix Hold stR. subst stR. split.
      - eapply INV3_R6; [|apply R6_newrqref]. apply INV3_register; assumption.
      - intros r c0 Gr Fr.
        destruct (proj2 (proj2 (R6_newrqref (set_client stx c (mkClient (upd (c_rqs (get_client stx c)) (N.to_nat (rq_rqid rq)) (Some h)) (c_replyq (get_client stx c)))) h)) _ _ Gr) as (r1 & G1 & F1 & J1).
        change (get_rq stx h = Some r1) in G1. destruct (Kh _ _ G1) as (r0 & G0 & F0 & J0). rewrite G in G0. injection G0 as <-.
        assert (c0 = c) by congruence. subst c0. rewrite J1, J0.
        unfold entry. rewrite get_client_newrqref.
        destruct Tx as (_ & (Lc & _ & Sc & _) & _).
        rewrite get_client_set_client by (rewrite Lc; exact Hc). rewrite Nat.eqb_refl. cbn [c_rqs].
        apply nth_upd_same. rewrite (Sc c Hc). clear - Iq. lia. }
    destruct (nth (N.to_nat (rq_rqid rq)) (c_rqs (get_client st c)) None) as [h'|] eqn:En.
    2:{ injection A as _ <- _. destruct (Reg st (R2_refl st) Tt I3 (or_introl En)) as [X Y]. split; [exact X | intros _; exact Y]. }
    destruct (get_rq st h') as [r|] eqn:G'.
    2:{ injection A as _ <- _. destruct (Reg st (R2_refl st) Tt I3 (or_intror (ex_intro _ h' (conj En (or_introl G'))))) as [X Y]. split; [exact X | intros _; exact Y]. }
    match type of A with context [if ?g then _ else _] => destruct g end.
    - destruct (rq_replybuf r).
      + destruct (sendreply md5 cfg fs (newrqref st h') h') as [st1 o1] eqn:SR. injection A as <- <- _.
        split; [|discriminate]. change st1 with (fst (st1, o1)). rewrite <- SR.
        eapply INV3_R6; [exact I3|]. eapply R6_trans; [apply R6_newrqref | apply R6_sendreply].
      + injection A as <- <- _. split; [exact I3 | discriminate].
    - injection A as _ <- _.
      destruct (Reg (removeclientrq st c (rq_rqid rq)) (R2_removeclientrq st c (rq_rqid rq)) (T_removeclientrq nc ns st c (rq_rqid rq) e Tt)
                  (INV3_removeclientrq st c (rq_rqid rq) Sl I3)
                  (or_introl (removeclientrq_entry_cleared st c (rq_rqid rq) h' r En G'))) as [X Y].
      split; [exact X | intros _; exact Y].
  Qed.
End H.

Section H2.
  Variable md5 : bytes -> bytes.
  Variable cfg : config.
  Variable fs : N -> bool.

  (* _internal_sendrq puts a request into a table: it must be registered with its client (or have none) *)
  Lemma INV3_internal_sendrq st s id h st1 o : internal_sendrq md5 cfg fs st s id h = Some (st1, o) ->
    cached st h -> INV3 st -> INV3 st1.
  Proof.
    unfold internal_sendrq. cbv zeta. intros I Ca I3.
    destruct (sl_rq (get_slot (get_server st s) id)) eqn:E0; [discriminate|].
    destruct (get_rq st h) as [r|] eqn:G; [|discriminate].
    destruct (rq_msg r) as [m|]; [|discriminate].
    destruct (fs (100 + id)); [discriminate|].
    destruct (radmsg2buf md5 (set_id m id) (sc_secret (srvconf_of cfg s))) as [[[b a]|]|]; try discriminate.
    injection I as <- _.
    match goal with |- context [set_rq st h ?r1] => set (R1 := r1) end.
    intros s' j x rx c' Ex Gx Fx. change (get_rq (set_rq st h R1) x = Some rx) in Gx.
    change (entry st c' (N.to_nat (rq_rqid rx)) = Some x).
    rewrite slot_of_set_server in Ex. change (get_server (set_rq st h R1) s) with (get_server st s) in Ex.
    change (length (st_servers (set_rq st h R1))) with (length (st_servers st)) in Ex.
    change (slot_of (set_rq st h R1) s' j) with (slot_of st s' j) in Ex.
    (* what is known of x in st *)
    assert (Hx : exists r0, get_rq st x = Some r0 /\ rq_from r0 = rq_from rx /\ rq_rqid r0 = rq_rqid rx).
    { destruct (get_rq_set_rq_inv _ _ _ _ _ Gx) as [[-> ->] | G1]; [exists r; split; [exact G|]; split; reflexivity | exists rx; repeat split; exact G1]. }
    destruct Hx as (r0 & G0 & F0 & J0).
    assert (Old : slot_of st s' j = Some x -> entry st c' (N.to_nat (rq_rqid rx)) = Some x).
    { intro Eo. rewrite <- J0. apply (I3 _ _ _ _ _ Eo G0). congruence. }
    destruct (Nat.eqb_spec s' s) as [->|_]; [|exact (Old Ex)].
    destruct (_ <? _)%nat; [|exact (Old Ex)].
    destruct (get_slot_set_slot_cases (get_server st s) id (mkSlot (Some h) (sl_tries (get_slot (get_server st s) id)) (sl_expiry (get_slot (get_server st s) id))) j) as [K | [-> K]];
      rewrite K in Ex; [exact (Old Ex)|].
    cbn [sl_rq] in Ex. injection Ex as <-. rewrite G in G0. injection G0 as <-.
    rewrite <- J0. apply (Ca r c' G). congruence.
  Qed.

  Lemma cached_internal_sendrq st s id h st1 o x : internal_sendrq md5 cfg fs st s id h = Some (st1, o) -> cached st x -> cached st1 x.
  Proof.
    unfold internal_sendrq. cbv zeta. intros I Ca.
    destruct (sl_rq (get_slot (get_server st s) id)); [discriminate|].
    destruct (get_rq st h) as [r|] eqn:G; [|discriminate].
    destruct (rq_msg r) as [m|]; [|discriminate].
    destruct (fs (100 + id)); [discriminate|].
    destruct (radmsg2buf md5 (set_id m id) (sc_secret (srvconf_of cfg s))) as [[[b a]|]|]; try discriminate.
    injection I as <- _. intros rx c Gx Fx. change (entry st c (N.to_nat (rq_rqid rx)) = Some x).
    match type of Gx with get_rq (set_server (set_rq st h ?r1) _ _) x = _ => change (get_rq (set_rq st h r1) x = Some rx) in Gx end.
    destruct (get_rq_set_rq_inv _ _ _ _ _ Gx) as [[-> ->] | G1]; [exact (Ca r c G Fx) | exact (Ca rx c G1 Fx)].
  Qed.

  Lemma INV3_scan_ids s h : forall fuel st i limit k st1 o, scan_ids md5 cfg fs fuel st s i limit h = Some (k, st1, o) ->
    cached st h -> INV3 st -> INV3 st1.
  Proof.
    induction fuel as [|f IH]; intros st i limit k st1 o Sc Ca I3; [discriminate|]. cbn [scan_ids] in Sc.
    destruct (limit <=? i); [discriminate|].
    destruct (internal_sendrq md5 cfg fs st s i h) as [[st2 o2]|] eqn:I.
    - injection Sc as _ <- _. eapply INV3_internal_sendrq; eassumption.
    - eapply IH; eassumption.
  Qed.

  Lemma INV3_sendrq st h : unslotted st h -> cached st h -> INV3 st -> INV3 (fst (sendrq md5 cfg fs st h)).
  Proof.
    intros U Ca I3.
    assert (Fail : forall stx, unslotted stx h -> cached stx h -> INV3 stx ->
              INV3 (freerq (match get_rq stx h with
                            | Some r' => match rq_from r' with Some _ => rmclientrq stx h (rq_rqid r') | None => stx end
                            | None => stx end) h)).
    { intros stx Ux Cx Ix. eapply INV3_R6; [|apply R6_freerq]. destruct (get_rq stx h) as [r'|] eqn:Gx; [|exact Ix].
      destruct (rq_from r'); [|exact Ix]. apply INV3_rmclientrq; try assumption. intros r2 G2. rewrite Gx in G2. injection G2 as <-. reflexivity. }
    pose proof (Fail st U Ca I3) as F0.
    unfold sendrq. destruct (get_rq st h) as [r|] eqn:G; [|exact I3]. cbv zeta.
    destruct (rq_to r) as [s|]; [|cbn [fst]; exact F0].
    assert (Same : forall stx sv', s_slots sv' = s_slots (get_server stx s) -> INV3 stx -> INV3 (set_server stx s sv'))
      by (intros stx sv' Hs Ix; eapply INV3_R6; [exact Ix | apply R6_set_server_same; exact Hs]).
    match goal with |- context [if ?c then _ else _] => destruct c end.
    - destruct (internal_sendrq md5 cfg fs st s 0 h) as [[st1 o1]|] eqn:I; cbn [fst]; [|exact F0].
      apply Same; [reflexivity|]. eapply INV3_internal_sendrq; eassumption.
    - match goal with |- context [scan_ids md5 cfg fs 257 ?st0 s ?a Consts.MAX_REQUESTS h] => set (ST0 := st0) end.
      assert (K0 : R6 st ST0) by (subst ST0; apply R6_set_server_same; reflexivity).
      assert (I0 : INV3 ST0) by exact (INV3_R6 _ _ I3 K0).
      assert (C0 : cached ST0 h) by exact (cached_R6 _ _ _ K0 Ca).
      assert (U0 : unslotted ST0 h) by (intros a b E; exact (U _ _ (proj1 K0 _ _ _ E))).
      match goal with |- context [scan_ids md5 cfg fs 257 ST0 s ?a Consts.MAX_REQUESTS h] =>
        destruct (scan_ids md5 cfg fs 257 ST0 s a Consts.MAX_REQUESTS h) as [[[k st1] o1]|] eqn:S1 end.
      + cbn [fst]. apply Same; [reflexivity|]. pose proof (INV3_scan_ids _ _ _ _ _ _ _ _ _ S1 C0 I0) as K.
        destruct (_ <=? k); [apply Same; [reflexivity | exact K] | exact K].
      + match goal with |- context [scan_ids md5 cfg fs 257 ST0 s ?a ?b' h] =>
          destruct (scan_ids md5 cfg fs 257 ST0 s a b' h) as [[[k st1] o1]|] eqn:S2 end; cbn [fst].
        * apply Same; [reflexivity|]. pose proof (INV3_scan_ids _ _ _ _ _ _ _ _ _ S2 C0 I0) as K.
          destruct (_ <=? k); [apply Same; [reflexivity | exact K] | exact K].
        * apply Fail; assumption.
  Qed.

  Lemma R6_choose st idxs to st' : choose st idxs = (to, st') -> R6 st st'.
  Proof.
    unfold choose. destruct (choosesrvconf _) as [cidx l']. intro H. injection H as _ <-.
    generalize (combine idxs l'). intro l. revert st. induction l as [|p l IH]; intro st; [apply R6_refl|].
    cbn [fold_left]. eapply R6_trans; [|apply IH]. apply R6_set_server_same. reflexivity.
  Qed.
End H2.

Lemma INV3_set_rq_unslotted st h r' : unslotted st h -> INV3 st -> INV3 (set_rq st h r').
Proof.
  intros U I3 s i x rx c E Gx F. change (slot_of st s i = Some x) in E. change (entry st c (N.to_nat (rq_rqid rx)) = Some x).
  destruct (get_rq_set_rq_inv _ _ _ _ _ Gx) as [[-> _] | G1]; [exfalso; exact (U _ _ E) | exact (I3 _ _ _ _ _ E G1 F)].
Qed.

Lemma INV3_alloc_rq st r : safe st zero -> INV3 st -> INV3 (fst (alloc_rq st r)).
Proof.
  intros S I3 s i x rx c E Gx F. unfold alloc_rq in *. cbn [fst] in *. change (slot_of st s i = Some x) in E.
  change (entry st c (N.to_nat (rq_rqid rx)) = Some x).
  unfold get_rq in Gx. cbn [st_heap] in Gx.
  destruct (Nat.lt_ge_cases x (length (st_heap st))) as [L|L].
  - rewrite (nth_error_app1 _ _ L) in Gx. exact (I3 _ _ _ _ _ E Gx F).
  - exfalso. pose proof (slot_refs _ _ _ _ E) as K. specialize (S x). unfold zero, rcount, get_rq in S.
    rewrite (proj2 (nth_error_None _ _) L) in S. lia.
Qed.

Section R.
  Variable md5 : bytes -> bytes.
  Hypothesis md5_len : forall x, length (md5 x) = 16%nat.
  Hypothesis md5_wf : forall x, wf_bytes (md5 x) = true.
  Variable rx : N -> bytes -> option (list (Z * Z)).
  Variable cfg : config.
  Variable fs : N -> bool.
  Variables nc ns : nat.

  Theorem INV3_radsrv st h c now rnd e : (c < nc)%nat -> T nc ns st (add1 e h) ->
    (forall r0, get_rq st h = Some r0 -> rq_from r0 = Some c /\
       exists buf, rq_buf r0 = Some buf /\ wf_bytes buf = true /\ (20 <= length buf)%nat) ->
    unslotted st h -> SLOT st -> INV3 st -> INV3 (fst (radsrv md5 rx cfg fs st h c now rnd)).
  Proof.
    intros Hc T0 Hr0 U0 Sl0 I0. unfold radsrv. destruct (get_rq st h) as [r0|] eqn:H0; [|exact I0]. cbv zeta.
    destruct (Hr0 _ eq_refl) as (F0 & buf & Eb & Wb & Lb). clear Hr0.
    assert (Ok0 : rq_ok nc ns r0) by (destruct T0 as (_ & _ & Hp); exact (Hp _ _ H0)).
    set (stB := set_rq st h (rq_set_buf r0 None)).
    assert (KB : R6 st stB) by (eapply R6_set_rq; [exact H0 | reflexivity | reflexivity]).
    assert (GB : get_rq stB h = Some (rq_set_buf r0 None)) by (eapply get_rq_set_rq; exact H0).
    assert (TB : T nc ns stB (add1 e h)) by (eapply T_set_rq; [exact H0 | reflexivity | exact Ok0 | exact T0]).
    assert (IB : INV3 stB) by exact (INV3_R6 _ _ I0 KB).
    destruct (fs 1); [cbn [fst]; eapply INV3_R6; [exact IB | apply R6_freerq]|].
    destruct (buf2radmsg md5 _ (cc_secret (clconf_of cfg c)) None) as [msg|] eqn:Hp; [|cbn [fst]; eapply INV3_R6; [exact IB | apply R6_freerq]].
    rewrite Eb in Hp. destruct (buf2radmsg_ok md5 md5_len md5_wf _ _ _ _ Wb Lb Hp) as (_ & _ & _ & _ & Bi).
    destruct (m_mainvalid msg); [cbn [fst]; eapply INV3_R6; [exact IB | apply R6_freerq]|].
    match goal with |- context [set_rq stB h ?r1] => set (R1 := r1) end.
    set (stA := set_rq stB h R1).
    assert (UB : unslotted stB h) by (intros a b E; exact (U0 a b E)).
    assert (IA : INV3 stA) by (apply INV3_set_rq_unslotted; assumption).
    assert (TA : T nc ns stA (add1 e h)) by (eapply T_set_rq; [exact GB | reflexivity | exact Ok0 | exact TB]).
    assert (SA : SLOT stA) by (apply SLOT_set_rq_unslotted; [exact UB | apply SLOT_set_rq_unslotted; assumption]).
    assert (UA : unslotted stA h) by (intros a b E; exact (U0 a b E)).
    assert (GA : get_rq stA h = Some R1) by (eapply get_rq_set_rq; exact GB).
    (* exits *)
    assert (Ex : forall stX (o : list out), INV3 stX -> INV3 (fst (freerq stX h, o ++ [ORet 1])))
      by (intros stX o Ix; cbn [fst]; eapply INV3_R6; [exact Ix | apply R6_freerq]).
    assert (Re : forall stX code extra ma, INV3 stX ->
              INV3 (fst (let '(st1, o) := respond md5 cfg fs stX h code extra ma in (freerq st1 h, o ++ [ORet 1])))).
    { intros stX code extra ma Ix. pose proof (R6_respond md5 cfg fs stX h code extra ma) as K.
      destruct (respond md5 cfg fs stX h code extra ma) as [st1 o]. cbn [fst] in *. eapply INV3_R6; [exact Ix|]. eapply R6_trans; [exact K | apply R6_freerq]. }
    destruct ((m_code msg =? Consts.RAD_Disconnect_Request) || (m_code msg =? Consts.RAD_CoA_Request)); [apply Re; exact IA|].
    destruct (negb _); [apply Ex; exact IA|].
    set (stP := purgedupcache cfg stA c now) in *.
    destruct (INV3_purgedupcache cfg stA c now SA IA) as [SP IP]. fold stP in SP, IP.
    assert (TP : T nc ns stP (add1 e h)) by (apply T_purgedupcache; exact TA).
    assert (KPk : keeps stA stP) by apply keeps_purgedupcache.
    assert (UP : unslotted stP h) by (eapply unslotted_R4; [apply Q_purgedupcache; exact SA | exact UA]).
    destruct (addclientrq md5 cfg fs stP h c now) as [[isnew st1] o0] eqn:A.
    assert (HrqP : forall rq, get_rq stP h = Some rq -> rq_from rq = Some c /\ rq_rqid rq < 256).
    { intros rq G. destruct (KPk _ _ G) as (ra & Ga & (_ & _ & Sf & Si & _)). rewrite GA in Ga. injection Ga as <-.
      split; [rewrite Sf; exact F0|]. rewrite Si. subst R1. cbn [rq_rqid rq_set_ids]. unfold is_byte in Bi. lia. }
    destruct (INV3_addclientrq md5 cfg fs nc ns stP h c now _ _ _ _ A TP Hc HrqP SP IP) as [I1 C1'].
    destruct (negb isnew) eqn:NI; [apply Ex; exact I1|].
    assert (isnew = true) as -> by (destruct isnew; [reflexivity | discriminate NI]).
    assert (C1 : cached st1 h) by exact (C1' eq_refl).
    assert (U1 : unslotted st1 h) by (eapply unslotted_R4; [eapply Q_addclientrq; [exact A | exact SP] | exact UP]).
    (* the identifier of h from here on *)
    pose (PI := fun stX : state => forall rX, get_rq stX h = Some rX -> N.to_nat (rq_rqid rX) = N.to_nat (m_id msg)).
    assert (P1 : PI st1).
    { intros rX G. pose proof (keeps_addclientrq md5 cfg fs _ _ _ _ _ _ A _ _ G) as (r & Ga & (_ & _ & _ & Si & _)).
      destruct (KPk _ _ Ga) as (ra & Gaa & (_ & _ & _ & Sj & _)). rewrite GA in Gaa. injection Gaa as <-. rewrite Si, Sj. reflexivity. }
    (* from st1 on everything before sendrq/rmclientrq is R6 *)
    assert (Carry : forall stX, R6 st1 stX -> INV3 stX /\ cached stX h /\ unslotted stX h /\ PI stX).
    { intros stX KX. split; [exact (INV3_R6 _ _ I1 KX)|]. split; [exact (cached_R6 _ _ _ KX C1)|].
      split; [intros a b E; exact (U1 _ _ (proj1 KX _ _ _ E))|].
      intros rX G. destruct (proj2 (proj2 KX) _ _ G) as (r & Ga & _ & Sj). rewrite Sj. exact (P1 _ Ga). }
    assert (Rm : forall stX (o : list out), R6 st1 stX -> INV3 (fst (freerq (rmclientrq stX h (m_id msg)) h, o ++ [ORet 1]))).
    { intros stX o KX. destruct (Carry _ KX) as (Ix & Cx & Ux & Px). cbn [fst]. eapply INV3_R6; [|apply R6_freerq].
      apply INV3_rmclientrq; assumption. }
    assert (UpK : forall stX f, (forall r, rq_from (f r) = rq_from r /\ rq_rqid (f r) = rq_rqid r) -> R6 st1 stX -> R6 st1 (upd_rq stX h f))
      by (intros stX f Hf KX; eapply R6_trans; [exact KX | apply R6_upd_rq; exact Hf]).
    assert (K1 : R6 st1 st1) by apply R6_refl.
    destruct (m_code msg =? Consts.RAD_Status_Server); [apply Re; exact I1|].
    match goal with |- context [if ?g then (freerq st1 h, [] ++ [ORet 1]) else _] => destruct g end; [apply Ex; exact I1|].
    destruct (o_verifyeap (cf_opt cfg) && (m_code msg =? Consts.RAD_Access_Request) && negb (verifyeapformat (m_attrs msg))); [apply Re; exact I1|].
    match goal with |- context [match ?x with Some a1 => _ | None => (freerq _ h, [] ++ [ORet 1]) end] => destruct x as [a1|] end;
      [|apply Rm; exact K1].
    destruct (checkttl (o_ttl0 (cf_opt cfg)) (o_ttl1 (cf_opt cfg)) a1) as [ttlres a2].
    match goal with |- context [if ttlres =? 0 then (freerq ?stx h, _) else _] => set (st2 := stx) end.
    assert (K2 : R6 st1 st2) by (subst st2; apply UpK; [intro r; split; reflexivity|]; apply UpK; [intro r; split; reflexivity | exact K1]).
    destruct (ttlres =? 0); [apply Ex; exact (proj1 (Carry _ K2))|].
    destruct (gettype Consts.RAD_Attr_User_Name a2) as [ua|].
    2:{ destruct (m_code msg =? Consts.RAD_Accounting_Request); [apply Re | apply Ex]; exact (proj1 (Carry _ K2)). }
    match goal with |- context [match ?x with Some p => _ | None => (freerq _ h, [] ++ [ORet 1]) end] => destruct x as [[uname orig]|] end;
      [|apply Rm; exact K2].
    match goal with |- context [if (nlen uname =? 0) || fs 6 then (freerq (rmclientrq ?stx h _) h, _) else _] => set (st3 := stx) end.
    assert (K3 : R6 st1 st3) by (subst st3; apply UpK; [intro r; split; reflexivity | exact K2]).
    destruct ((nlen uname =? 0) || fs 6); [apply Rm; exact K3|].
    match goal with |- context [match ?x with Some rl => _ | None => (freerq st3 h, [] ++ [ORet 1]) end] => destruct x as [rl|] end;
      [|apply Ex; exact (proj1 (Carry _ K3))].
    match goal with |- context [choose ?stc ?l] => destruct (choose stc l) as [to stc'] eqn:Ch end.
    assert (K4 : R6 st1 stc') by (eapply R6_trans; [exact K3 | eapply R6_choose; exact Ch]).
    destruct to as [s'|].
    2:{ destruct (rl_msg rl) as [txt|].
        - destruct (m_code msg =? Consts.RAD_Access_Request); [apply Re; exact (proj1 (Carry _ K4))|].
          destruct (rl_accresp rl && (m_code msg =? Consts.RAD_Accounting_Request)); [apply Re | apply Ex]; exact (proj1 (Carry _ K4)).
        - destruct (rl_accresp rl && (m_code msg =? Consts.RAD_Accounting_Request)); [apply Re | apply Ex]; exact (proj1 (Carry _ K4)). }
    match goal with |- context [if ?g then (freerq stc' h, [] ++ [ORet 1]) else _] => destruct g end; [apply Ex; exact (proj1 (Carry _ K4))|].
    match goal with |- context [match ?x with Some a4 => _ | None => (freerq _ h, [] ++ [ORet 1]) end] => destruct x as [a4|] end;
      [|apply Rm; exact K4].
    match goal with |- context [match ?x with Some a5 => _ | None => (freerq _ h, [] ++ [ORet 1]) end] => destruct x as [a5|] end;
      [|apply Rm; apply UpK; [intro r; split; reflexivity | exact K4]].
    match goal with |- context [match ?x with Some a6 => _ | None => (freerq _ h, [] ++ [ORet 1]) end] => destruct x as [a6|] end;
      [|apply Rm; apply UpK; [intro r; split; reflexivity | exact K4]].
    match goal with |- context [if ?g then (freerq _ h, [] ++ [ORet 1]) else _] => destruct g end;
      [apply Rm; apply UpK; [intro r; split; reflexivity | exact K4]|].
    match goal with |- context [sendrq md5 cfg fs ?stf h] =>
      assert (KF : R6 st1 stf) by (apply UpK; [intro r; split; reflexivity | exact K4]);
      destruct (Carry _ KF) as (IF' & CF & UF & _);
      pose proof (INV3_sendrq md5 cfg fs stf h UF CF IF') as K; destruct (sendrq md5 cfg fs stf h) as [stZ oZ] end.
    cbn [fst] in *. exact K.
  Qed.
End R.

Section W.
  Variable md5 : bytes -> bytes.
  Variable rx : N -> bytes -> option (list (Z * Z)).
  Variable cfg : config.
  Variable fs : N -> bool.

  Theorem R6_replyh st s buf now rnd : R6 st (fst (replyh md5 rx cfg fs st s buf now rnd)).
  Proof.
    unfold replyh. cbv zeta.
    set (stL := set_server st s (set_lost (get_server st s) 0)).
    assert (KL : R6 st stL) by (apply R6_set_server_same; reflexivity).
    assert (Same : forall stX sv', s_slots sv' = s_slots (get_server stX s) -> R6 stX (set_server stX s sv'))
      by (intros; apply R6_set_server_same; assumption).
    destruct (sl_rq (get_slot (get_server stL s) (nth 1 buf 0))) as [h|] eqn:Sl.
    2:{ match goal with |- context [match ?x with Some msg => _ | None => (stL, [ORet 0]) end] => destruct x as [msg|] end; [|exact KL].
        destruct (negb (reply_codes (m_code msg))); exact KL. }
    destruct (get_rq stL h) as [r|] eqn:G.
    2:{ match goal with |- context [match ?x with Some msg => _ | None => (stL, [ORet 0]) end] => destruct x as [msg|] end; [|exact KL].
        destruct (negb (reply_codes (m_code msg))); exact KL. }
    match goal with |- context [match ?x with Some msg => _ | None => (stL, [ORet 0]) end] => destruct x as [msg|] end; [|exact KL].
    destruct (negb (reply_codes (m_code msg))); [exact KL|].
    destruct (sl_tries _ =? 0); [exact KL|].
    destruct (m_mainvalid msg); [exact KL|].
    match goal with |- context [if ?g then (stL, [ORet 1]) else _] => destruct g end; [exact KL|].
    match goal with |- context [if ?g =? Consts.RAD_Status_Server then _ else _] => destruct (g =? Consts.RAD_Status_Server) end.
    { cbn [fst].
      match goal with |- context [freerqoutdata ?stx s ?i] => set (stM := stx); set (stF := freerqoutdata stM s i) end.
      assert (KM : R6 st stM) by (subst stM; eapply R6_trans; [exact KL | apply Same; reflexivity]).
      assert (KF : R6 st stF) by (subst stF; eapply R6_trans; [exact KM | apply R6_freerqoutdata]).
      destruct (s_statsrv (get_server stF s) =? Consts.RSP_STATSRV_AUTO); [eapply R6_trans; [exact KF | apply Same; reflexivity] | exact KF]. }
    match goal with |- context [match ?x with Some a1 => _ | None => (?stx, [ORet 1]) end] => set (stT := stx) end.
    assert (KT : R6 st stT).
    { subst stT. match goal with |- R6 st (set_server ?stx s _) => assert (KX : R6 st stx) by (eapply R6_trans; [exact KL | apply Same; reflexivity]) end.
      eapply R6_trans; [exact KX | apply Same; reflexivity]. }
    match goal with |- context [match ?x with Some a1 => _ | None => (stT, [ORet 1]) end] => destruct x as [a1|] end; [|exact KT].
    assert (GT : get_rq stT h = Some r) by exact G.
    destruct (checkttl (o_ttl0 (cf_opt cfg)) (o_ttl1 (cf_opt cfg)) a1) as [ttlres a2].
    destruct (ttlres =? 0); [exact KT|].
    destruct (rq_from r) as [c|]; [|exact KT].
    match goal with |- context [match ?x with Some a3 => _ | None => (stT, [ORet 1]) end] => destruct x as [a3|] end; [|exact KT].
    match goal with |- context [match ?x with Some a4 => _ | None => (stT, [ORet 1]) end] => destruct x as [a4|] end; [|exact KT].
    match goal with |- context [match ?x with Some a5 => _ | None => (stT, [ORet 1]) end] => destruct x as [a5|] end; [|exact KT].
    match goal with |- context [match ?x with Some a6 => _ | None => (stT, [ORet 1]) end] => destruct x as [a6|] end; [|exact KT].
    match goal with |- context [if ?g then (stT, [ORet 1]) else _] => destruct g end; [exact KT|].
    match goal with |- context [set_rq stT h ?r1] => set (R1 := r1) end.
    pose proof (R6_sendreply md5 cfg fs (newrqref (set_rq stT h R1) h) h) as K.
    destruct (sendreply md5 cfg fs (newrqref (set_rq stT h R1) h) h) as [st2 o2]. cbn [fst] in *.
    eapply R6_trans; [exact KT|]. apply (R6_trans _ (set_rq stT h R1)); [apply (R6_set_rq stT h r R1 GT); reflexivity|].
    apply (R6_trans _ (newrqref (set_rq stT h R1) h)); [apply R6_newrqref|]. eapply R6_trans; [exact K | apply R6_freerqoutdata].
  Qed.

  Lemma R6_slots_pass s tick do_resend putfail : forall fuel st i now, R6 st (fst (slots_pass cfg fuel st s i now tick do_resend putfail)).
  Proof.
    induction fuel as [|f IH]; intros st i now; [apply R6_refl|]. cbn [slots_pass]. cbv zeta.
    assert (Nx : forall stX nowX (o : list out), R6 st stX ->
              R6 st (fst (let '(st', o') := slots_pass cfg f stX s (S i) nowX tick do_resend putfail in (st', o ++ o')))).
    { intros stX nowX o Kx. pose proof (IH stX (S i) nowX) as K. destruct (slots_pass cfg f stX s (S i) nowX tick do_resend putfail).
      cbn [fst] in *. eapply R6_trans; eassumption. }
    destruct (sl_rq (get_slot (get_server st s) (N.of_nat i))) as [h|] eqn:Sl; [|apply Nx; apply R6_refl].
    destruct (get_rq st h) as [r|]; [|apply Nx; apply R6_refl].
    destruct (slot_action _ _ _ _ _ _ _) as [[act tries] expiry].
    set (sv := get_server st s) in *.
    assert (Keep : forall svw t x, s_slots svw = s_slots sv ->
              forall j y, sl_rq (get_slot (set_slot svw (N.of_nat i) (mkSlot (Some h) t x)) j) = Some y -> slot_of st s j = Some y).
    { intros svw t x Hs j y Ey. unfold slot_of. fold sv.
      destruct (get_slot_set_slot_cases svw (N.of_nat i) (mkSlot (Some h) t x) j) as [K | [-> K]]; rewrite K in Ey.
      - unfold get_slot in *. rewrite Hs in Ey. exact Ey.
      - cbn [sl_rq] in Ey. injection Ey as <-. exact Sl. }
    match goal with |- context [set_slot ?svw (N.of_nat i) (mkSlot (Some h) ?t1 (sl_expiry (get_slot sv (N.of_nat i))))] =>
      set (SV1 := set_slot svw (N.of_nat i) (mkSlot (Some h) t1 (sl_expiry (get_slot sv (N.of_nat i))))) end.
    assert (K1 : forall j y, sl_rq (get_slot SV1 j) = Some y -> slot_of st s j = Some y) by (subst SV1; apply Keep; reflexivity).
    destruct act; apply Nx.
    - apply R6_set_server_same. reflexivity.
    - eapply R6_trans; [apply R6_set_server; exact K1 | apply R6_freerqoutdata].
    - eapply R6_trans; [|apply R6_freerqoutdata]. rewrite set_server_set_server. apply R6_set_server.
      intros j y Ey. apply K1. unfold get_slot in *. rewrite slots_abandon in Ey. exact Ey.
    - rewrite set_server_set_server. apply R6_set_server. intros j y Ey.
      assert (E2 : forall sv2, s_slots (if putfail then incrementlostrqs sv2 else sv2) = s_slots sv2) by (intro sv2; destruct putfail; [apply slots_incr | reflexivity]).
      unfold get_slot in Ey. rewrite E2 in Ey. fold (get_slot (set_slot (set_wr SV1 (s_laststatsrv SV1) (min_timeout (s_timeout SV1) expiry) (s_newrq SV1) (s_conreset SV1) (s_statsrv_requested SV1)) (N.of_nat i) (mkSlot (Some h) tries expiry)) j) in Ey.
      destruct (get_slot_set_slot_cases (set_wr SV1 (s_laststatsrv SV1) (min_timeout (s_timeout SV1) expiry) (s_newrq SV1) (s_conreset SV1) (s_statsrv_requested SV1)) (N.of_nat i) (mkSlot (Some h) tries expiry) j) as [K | [-> K]]; rewrite K in Ey.
      + apply K1. exact Ey.
      + cbn [sl_rq] in Ey. injection Ey as <-. exact Sl.
  Qed.

  Lemma INV3_writer_iteration st s now tick rnd putfail : safe st zero -> INV3 st ->
    INV3 (fst (fst (writer_iteration md5 cfg fs st s now tick rnd putfail))).
  Proof.
    intros Hs I3. unfold writer_iteration. cbv zeta.
    match goal with |- context [slots_pass cfg 256 ?stw s 0 now tick ?dr putfail] =>
      assert (Kw : R6 st stw) by (apply R6_set_server_same; destruct (s_conreset (get_server st s)); reflexivity);
      pose proof (R6_slots_pass s tick dr putfail 256 stw 0%nat now) as K;
      pose proof (safe_slots_pass cfg s tick dr putfail zero 256 stw 0%nat now
                    ltac:(apply safe_set_server_sle; [apply sle_same; destruct (s_conreset (get_server st s)); reflexivity | exact Hs])) as KS;
      destruct (slots_pass cfg 256 stw s 0 now tick dr putfail) as [st1 o1] end.
    cbn [fst] in K, KS. assert (I1 : INV3 st1) by (eapply INV3_R6; [exact I3 | eapply R6_trans; eassumption]).
    match goal with |- context [if ?g then _ else (st1, o1, rnd)] => destruct g end; [|exact I1].
    assert (K2 : forall x, INV3 (set_server st1 s (set_wr (get_server st1 s) x (s_timeout (get_server st1 s)) (s_newrq (get_server st1 s)) (s_conreset (get_server st1 s)) false)))
      by (intro x; eapply INV3_R6; [exact I1 | apply R6_set_server_same; reflexivity]).
    destruct (fs 40); [apply K2|]. destruct (fs 41); [apply K2|].
    match goal with |- context [createstatsrvrq ?stc s ?nw rnd] =>
      assert (Sc : safe stc zero) by (apply safe_set_server_sle; [apply sle_same; reflexivity | exact KS]);
      pose proof (INV3_alloc_rq stc (mkRq nw 1 None None (Some (mkMsg Consts.RAD_Status_Server 0 (fst (take_rand rnd 16)) [msgauth_placeholder] false)) None (Some s) None 0 (zeros 16) 0) Sc (K2 _)) as KA;
      pose proof (safe_alloc_rq stc (mkRq nw 1 None None (Some (mkMsg Consts.RAD_Status_Server 0 (fst (take_rand rnd 16)) [msgauth_placeholder] false)) None (Some s) None 0 (zeros 16) 0) zero eq_refl Sc) as KF;
      pose proof (get_rq_alloc stc (mkRq nw 1 None None (Some (mkMsg Consts.RAD_Status_Server 0 (fst (take_rand rnd 16)) [msgauth_placeholder] false)) None (Some s) None 0 (zeros 16) 0)) as KG;
      unfold createstatsrvrq; destruct (alloc_rq stc _) as [st2 hn] end.
    cbn [fst snd] in *.
    assert (U2 : unslotted st2 hn) by (apply (unslotted_fresh st2 zero hn KF); intros r G; rewrite KG in G; injection G as <-; reflexivity).
    assert (C2 : cached st2 hn) by (intros r c G F; rewrite KG in G; injection G as <-; discriminate F).
    pose proof (INV3_sendrq md5 cfg fs st2 hn U2 C2 KA) as KQ.
    destruct (sendrq md5 cfg fs st2 hn) as [st3 o2]. exact KQ.
  Qed.

  Lemma INV3_writer_release s tick putfail : forall fuel st now rnd, safe st zero -> INV3 st ->
    INV3 (fst (writer_release md5 cfg fs fuel st s now tick rnd putfail)).
  Proof.
    induction fuel as [|f IH]; intros st now rnd Hs I3; [exact I3|]. cbn [writer_release].
    pose proof (INV3_writer_iteration st s now tick rnd putfail Hs I3) as K.
    pose proof (safe_writer_iteration md5 cfg fs st s now tick rnd putfail zero Hs) as KS.
    destruct (writer_iteration md5 cfg fs st s now tick rnd putfail) as [[st1 o1] rnd']. cbn [fst] in K, KS.
    destruct (s_newrq (get_server st1 s)).
    - pose proof (IH st1 (now + tick * count_tx o1)%Z rnd' KS K) as K2.
      destruct (writer_release md5 cfg fs f st1 s _ tick rnd' putfail). exact K2.
    - unfold prewait. cbv zeta. cbn [fst]. eapply INV3_R6; [exact K | apply R6_set_server_same; reflexivity].
  Qed.
End W.

Lemma R6_fold_freerq : forall q st, R6 st (fold_left freerq q st).
Proof. induction q as [|x q IH]; intro st; [apply R6_refl|]. cbn [fold_left]. eapply R6_trans; [apply R6_freerq | apply IH]. Qed.

Lemma R6_drain_replyq st c : R6 st (drain_replyq st c).
Proof. unfold drain_replyq. cbv zeta. eapply R6_trans; [|apply R6_fold_freerq]. apply R6_set_client. intros i h E. exact E. Qed.

Lemma INV3_removeclient st c : SLOT st -> INV3 st -> INV3 (removeclient st c).
Proof.
  intros Sl I3. unfold removeclient. eapply INV3_R6; [|apply R6_drain_replyq].
  generalize (seq 0 256). intro l. revert st Sl I3. induction l as [|i l IH]; intros st Sl I3; [exact I3|].
  cbn [fold_left]. apply IH; [eapply SLOT_R4; [exact Sl | apply Q_removeclientrq; exact Sl] | apply INV3_removeclientrq; assumption].
Qed.

Lemma R6_freeserver st s : R6 st (freeserver st s).
Proof.
  unfold freeserver. generalize (seq 0 256). intro l. revert st. induction l as [|i l IH]; intro st; [apply R6_refl|].
  cbn [fold_left]. eapply R6_trans; [apply R6_freerqoutdata | apply IH].
Qed.

(* ---- all invariants together, over histories ---- *)
Definition Full (nc ns : nat) (st : state) : Prop := Bal nc ns st /\ SLOT st /\ RQI st /\ INV3 st.

Section Hist.
  Variable md5 : bytes -> bytes.
  Hypothesis md5_len : forall x, length (md5 x) = 16%nat.
  Hypothesis md5_wf : forall x, wf_bytes (md5 x) = true.
  Variable rx : N -> bytes -> option (list (Z * Z)).
  Variable cfg : config.
  Variables nc ns : nat.
  Hypothesis Hcfg : cfg_ok cfg ns.

  Theorem Full_hstep st op : op_ok nc ns op -> Full nc ns st -> Full nc ns (hstep md5 rx cfg st op).
  Proof.
    intros Ok (B & Sl & Rq & I3). assert (B' := Bal_hstep md5 md5_len md5_wf rx cfg nc ns Hcfg st op Ok B).
    destruct B as (S & Tt & Rg).
    split; [exact B'|]. split; [apply SLOT_hstep; assumption|]. split; [apply RQI_hstep; assumption|].
    destruct op as [c now rnd pkt fs | s buf now rnd fs | s now tick rnd putfail fs | c | c | s]; cbn [hstep].
    - destruct Ok as (Hc & Wp & Lp).
      pose proof (safe_alloc_rq st (new_request c now pkt) zero eq_refl S) as S1.
      pose proof (T_alloc_rq nc ns st (new_request c now pkt) zero eq_refl (conj Hc (conj I (N.le_refl 1))) Tt) as T1.
      pose proof (SLOT_alloc_rq st (new_request c now pkt) S Sl) as L1.
      pose proof (INV3_alloc_rq st (new_request c now pkt) S I3) as J1.
      pose proof (get_rq_alloc st (new_request c now pkt)) as G1.
      destruct (alloc_rq st (new_request c now pkt)) as [st1 h]. cbn [fst snd] in *.
      apply (INV3_radsrv md5 md5_len md5_wf rx cfg fs nc ns st1 h c now rnd zero Hc T1); [| |exact L1 | exact J1].
      + intros r0 G. rewrite G1 in G. injection G as <-. split; [reflexivity|]. exists pkt. repeat split; assumption.
      + apply (unslotted_fresh st1 zero h S1). intros r G. rewrite G1 in G. injection G as <-. reflexivity.
    - eapply INV3_R6; [exact I3 | apply R6_replyh].
    - apply INV3_writer_release; assumption.
    - eapply INV3_R6; [exact I3 | apply R6_drain_replyq].
    - apply INV3_removeclient; assumption.
    - eapply INV3_R6; [exact I3 | apply R6_freeserver].
  Qed.

  Lemma Full_removeclient st c : Full nc ns st -> Full nc ns (removeclient st c).
  Proof.
    intros ((S & Tt & Rg) & Sl & Rq & I3).
    split; [split; [apply safe_removeclient; exact S | split; [apply T_removeclient; exact Tt | eapply REG_R2; [exact Rg | apply R2_removeclient]]]|].
    split; [eapply SLOT_R4; [exact Sl | apply Q_removeclient; exact Sl]|].
    split; [eapply RQI_R5; [exact Rq | apply R5_removeclient] | apply INV3_removeclient; assumption].
  Qed.

  Theorem Full_history : forall ops st, Forall (op_ok nc ns) ops -> Full nc ns st -> Full nc ns (fold_left (hstep md5 rx cfg) ops st).
  Proof.
    induction ops as [|op ops IH]; intros st Ok F; [exact F|]. cbn [fold_left]. inversion Ok; subst.
    apply IH; [assumption|]. apply Full_hstep; assumption.
  Qed.
End Hist.

Lemma Full_init nc ns : Full nc ns (init_state nc ns).
Proof.
  split; [apply Bal_init|]. split; [apply SLOT_init|]. split; [apply RQI_init|].
  intros s i h r c E G. unfold get_rq, init_state in G. cbn [st_heap] in G. destruct h; discriminate G.
Qed.

(* ---- nothing refers to h: its holder count is zero ---- *)
Lemma occ_opt_zero h : forall l, (forall i, nth i l None <> Some h) -> occ_opt h l = 0.
Proof.
  induction l as [|o l IH]; intro H; [reflexivity|]. rewrite occ_opt_cons.
  rewrite IH by (intro i; exact (H (S i))). specialize (H 0%nat). cbn [nth] in H.
  destruct o as [x|]; [|reflexivity]. cbn [oind]. rewrite ind_diff; [reflexivity | congruence].
Qed.

Lemma occ_zero h : forall q, ~ In h q -> occ h q = 0.
Proof.
  induction q as [|x q IH]; intro H; [reflexivity|]. rewrite occ_cons. rewrite IH by (intro X; apply H; right; exact X).
  rewrite ind_diff; [reflexivity|]. intro X. apply H. left. exact X.
Qed.

Lemma in_nth_default {A} (l : list A) (x d : A) : In x l -> exists i, (i < length l)%nat /\ nth i l d = x.
Proof. intro H. destruct (In_nth l x d H) as (i & Hi & E). exists i. split; assumption. Qed.

Lemma refs_zero st h : (forall c i, entry st c i <> Some h) -> unqueued st h -> unslotted st h -> refs st h = 0.
Proof.
  intros He Hq Hs. rewrite refs_eq. rewrite !sumN_zero; [reflexivity | |].
  - intros sv Hin. destruct (in_nth_default _ _ dummy_server Hin) as (s & _ & <-). fold (get_server st s).
    unfold sf. apply occ_opt_zero. intros i E.
    destruct (Nat.lt_ge_cases i (length (s_slots (get_server st s)))) as [L|L].
    + apply (Hs s (N.of_nat i)). unfold slot_of, get_slot. rewrite Nat2N.id.
      change None with (sl_rq empty_slot) in E. rewrite map_nth in E. exact E.
    + rewrite nth_overflow in E by (rewrite map_length; exact L). discriminate E.
  - intros cl Hin. destruct (in_nth_default _ _ (mkClient [] []) Hin) as (c & _ & <-). fold (get_client st c).
    unfold cf. rewrite occ_opt_zero by (intro i; exact (He c i)). rewrite occ_zero by (exact (Hq c)). reflexivity.
Qed.

Lemma no_entry_when_cleared st c n h : (forall j, (j < n)%nat -> entry st c j = None) -> length (c_rqs (get_client st c)) = n ->
  forall i, entry st c i <> Some h.
Proof.
  intros Ee Ln i E. pose proof (nth_some_in_range _ _ _ E) as Li. rewrite Ln in Li. rewrite (Ee i Li) in E. discriminate E.
Qed.

Lemma no_entry_256 st c h : (forall j, (j < 256)%nat -> entry st c j = None) -> length (c_rqs (get_client st c)) = 256%nat ->
  forall i, entry st c i <> Some h.
Proof. generalize 256%nat. intro n. apply no_entry_when_cleared. Qed.

(* "not retained once its client is gone": in a state where all invariants hold (every reachable state), after
   removeclient no request that came from that client is left *)
Lemma client_gone_releases_gen nc ns st' c h r :
  (forall j, (j < 256)%nat -> entry st' c j = None) -> c_replyq (get_client st' c) = [] ->
  Full nc ns st' -> get_rq st' h = Some r -> rq_from r <> Some c.
Proof.
  intros Ee Eq (B' & Sl' & Rq' & I3') G F.
  assert (B2 := B'). destruct B2 as (S' & (Ti' & (Lc & _ & Sc & _) & Hp') & Rg').
  assert (NoE : forall c' i, entry st' c' i <> Some h).
  { intros c' i E. destruct (Rg' _ _ _ _ E G) as [Fc _]. rewrite F in Fc. injection Fc as <-.
    pose proof (cache_entry_client_in_range _ _ _ _ E) as Lcc. rewrite Lc in Lcc.
    exact (no_entry_256 st' c h Ee (Sc c Lcc) i E). }
  assert (NoQ : unqueued st' h).
  { intros c' Q. pose proof (Rq' _ _ _ Q G) as Fc. rewrite F in Fc. injection Fc as <-. unfold queued in Q. rewrite Eq in Q. destruct Q. }
  assert (NoS : unslotted st' h).
  { intros s i E. exact (NoE _ _ (I3' _ _ _ _ _ E G F)). }
  pose proof (refs_zero st' h NoE NoQ NoS) as R0.
  pose proof (Bal_exact nc ns st' B' h) as Ex. rewrite R0 in Ex. unfold rcount in Ex. rewrite G in Ex.
  destruct (Hp' _ _ G) as (_ & _ & P). clear - Ex P. lia.
Qed.

Theorem client_gone_releases nc ns st c : Full nc ns st -> Full nc ns (removeclient st c) ->
  forall h r, get_rq (removeclient st c) h = Some r -> rq_from r <> Some c.
Proof.
  intros ((S0 & _) & _) F' h r G.
  destruct (removeclient_empties st c S0) as [Ee Eq].
  exact (client_gone_releases_gen nc ns (removeclient st c) c h r Ee Eq F' G).
Qed.
