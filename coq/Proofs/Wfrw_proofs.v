(* msg_ok through a rewrite block: dorewrite keeps every attribute within 253 value octets and octets octets,
   for every block whose configured attributes and replacement texts are themselves well-formed *)
From RSP Require Import Base Consts Ttl Crypt Packet Rewrite BaseLemmas Packet_proofs Wf_proofs.
From Coq Require Import ZifyBool ZifyNat ZifyN.
Local Open Scope N_scope.

Definition rw_wf (w : rewrite) : bool :=
  attrs_ok (rw_add w) && attrs_ok (rw_sup w) && forallb (fun m => wf_bytes (mod_repl m)) (rw_mod w) &&
  forallb (fun m => wf_bytes (mod_repl m) && is_byte (mod_t m)) (rw_modv w).

(* ---- remove ---- *)
Lemma vendor_filter_f_ok rmv vendor inv : forall fuel a, wf_bytes a = true ->
  wf_bytes (vendor_filter_f fuel rmv vendor inv a) = true /\ (length (vendor_filter_f fuel rmv vendor inv a) <= length a)%nat.
Proof.
  induction fuel as [|f IH]; intros a W; [cbn [vendor_filter_f]; split; [exact W | lia]|].
  cbn [vendor_filter_f]. destruct a as [|ty [|alen rest]]; try (split; [exact W | lia]).
  rewrite !wf_cons in W. apply andb_true_iff in W as [Wt W]. apply andb_true_iff in W as [Wl W].
  destruct (IH (skipn (N.to_nat (alen - 2)) rest) (wf_skipn _ _ W)) as [Wr Lr].
  pose proof (skipn_length (N.to_nat (alen - 2)) rest) as SL.
  destruct (negb _).
  - split; [exact Wr | cbn [length]; lia].
  - split.
    + rewrite !wf_cons, Wt, Wl, wf_app, (wf_firstn _ _ W), Wr. reflexivity.
    + cbn [length]. rewrite app_length, firstn_length. lia.
Qed.

Lemma aok_shrink a v' : aok a = true -> (length v' <= length (tlv_v a))%nat -> wf_bytes v' = true -> aok (mkTlv (tlv_t a) v') = true.
Proof.
  unfold aok, Ttl.tlv_l, nlen. cbn [tlv_v tlv_t]. intros H L W. rewrite W.
  apply andb_true_iff in H as [H Ht]. apply andb_true_iff in H as [Hl _]. rewrite Ht.
  replace (N.of_nat (length v') <=? 253) with true by lia. reflexivity.
Qed.

Lemma dovendorrewriterm_ok a rmv inv : aok a = true -> aok (snd (dovendorrewriterm a rmv inv)) = true.
Proof.
  intro H. unfold dovendorrewriterm. destruct (tlv_l a <=? 4); [exact H|].
  destruct (drop_until_vendor rmv (vendor_of (tlv_v a))) as [|p r] eqn:D; [exact H|].
  destruct (findvendorsubattr _ _ 256); [exact H|].
  destruct (negb (attrvalidate (skipn 4 (tlv_v a)))); [exact H|]. cbn [snd].
  destruct (aok_parts _ H) as (_ & W & _).
  destruct (vendor_filter_f_ok (p :: r) (vendor_of (tlv_v a)) inv (length (skipn 4 (tlv_v a))) _ (wf_skipn 4 _ W)) as [Wf Lf].
  apply aok_shrink; [exact H | | rewrite wf_app, (wf_firstn 4 _ W), Wf; reflexivity].
  rewrite app_length.
  assert (E : length (tlv_v a) = (length (firstn 4 (tlv_v a)) + length (skipn 4 (tlv_v a)))%nat) by (rewrite <- app_length, firstn_skipn; reflexivity).
  lia.
Qed.

Lemma dorewriterm_ok rm rmv inv : forall attrs, attrs_ok attrs = true -> attrs_ok (dorewriterm attrs rm rmv inv) = true.
Proof.
  induction attrs as [|a r IH]; intro H; [reflexivity|].
  rewrite attrs_ok_cons in H. apply andb_true_iff in H as [Ha Hr]. specialize (IH Hr). cbn [dorewriterm].
  assert (K : attrs_ok (a :: dorewriterm r rm rmv inv) = true) by (rewrite attrs_ok_cons, Ha, IH; reflexivity).
  destruct (in_rmlist rm (tlv_t a)); [destruct (negb _); assumption|].
  destruct rmv as [vl|]; [|destruct (negb _); assumption].
  destruct (tlv_t a =? Consts.RAD_Attr_Vendor_Specific); [|destruct (negb _); assumption].
  pose proof (dovendorrewriterm_ok a vl inv Ha) as V. destruct (dovendorrewriterm a vl inv) as [whole a']. cbn [snd] in V.
  destruct (negb _); [exact IH | rewrite attrs_ok_cons, V, IH; reflexivity].
Qed.

(* ---- modify ---- *)
Lemma wf_cstr v : wf_bytes v = true -> wf_bytes (cstr v) = true.
Proof.
  induction v as [|x v IH]; intro W; [reflexivity|]. rewrite wf_cons in W. apply andb_true_iff in W as [Hx W].
  cbn [cstr]. destruct (x =? 0); [reflexivity|]. rewrite wf_cons, Hx, (IH W). reflexivity.
Qed.

Section M.
  Variable rx : N -> bytes -> option (list (Z * Z)).

  Lemma wf_expand_n subject pm : wf_bytes subject = true -> forall n out, (length out <= n)%nat -> wf_bytes out = true ->
    wf_bytes (expand out subject pm) = true.
  Proof.
    intros Ws. induction n as [|n IH]; intros out Ln Wo.
    - destruct out; [reflexivity | cbn in Ln; lia].
    - destruct out as [|c rest]; [reflexivity|]. cbn [length] in Ln.
      rewrite wf_cons in Wo. apply andb_true_iff in Wo as [Hc Wr]. cbn [expand].
      destruct (c =? 92).
      + destruct rest as [|d rest']; [rewrite wf_cons, Hc; reflexivity|].
        pose proof Wr as Wr2. rewrite wf_cons in Wr2. apply andb_true_iff in Wr2 as [Hd Wr']. cbn [length] in Ln.
        destruct (is_digit19 d).
        * destruct (group_of pm d) as [[so eo]|].
          -- rewrite wf_app, (wf_firstn _ _ (wf_skipn _ _ Ws)). apply IH; [lia | exact Wr'].
          -- rewrite !wf_cons, Hc, Hd. apply IH; [lia | exact Wr'].
        * rewrite wf_cons, Hc. apply IH; [cbn [length]; lia | exact Wr].
      + rewrite wf_cons, Hc. apply IH; [lia | exact Wr].
  Qed.
  Lemma wf_expand subject pm out : wf_bytes subject = true -> wf_bytes out = true -> wf_bytes (expand out subject pm) = true.
  Proof. intros Ws Wo. exact (wf_expand_n subject pm Ws (length out) out (le_n _) Wo). Qed.

  Lemma dorewritemodattr_ok v m v' : wf_bytes v = true -> nlen v <= 253 -> wf_bytes (mod_repl m) = true ->
    dorewritemodattr rx v m = Some v' -> wf_bytes v' = true /\ nlen v' <= 253.
  Proof.
    intros W L Wm H.
    unfold dorewritemodattr in H. destruct (rx (mod_rx m) (cstr v)) as [pm|]; [|injection H as <-; split; assumption].
    destruct (Consts.RAD_Max_Attr_Value_Length <? nlen (expand (mod_repl m) (cstr v) pm)) eqn:E; [discriminate|]. injection H as <-.
    split; [apply wf_expand; [apply wf_cstr; exact W | exact Wm] | unfold Consts.RAD_Max_Attr_Value_Length in E; lia].
  Qed.

  Lemma modattr_all_ok t : forall mods v v', wf_bytes v = true -> nlen v <= 253 ->
    forallb (fun m => wf_bytes (mod_repl m)) mods = true ->
    modattr_all rx v t mods = Some v' -> wf_bytes v' = true /\ nlen v' <= 253.
  Proof.
    induction mods as [|m r IH]; intros v v' W L Wm H; [injection H as <-; split; assumption|].
    cbn [forallb] in Wm. apply andb_true_iff in Wm as [Wm1 Wm]. cbn [modattr_all] in H.
    destruct (mod_t m =? t); [|exact (IH _ _ W L Wm H)].
    destruct (dorewritemodattr rx v m) as [v1|] eqn:D; [|discriminate].
    destruct (dorewritemodattr_ok _ _ _ W L Wm1 D) as [W1 L1]. exact (IH _ _ W1 L1 Wm H).
  Qed.
End M.

Section MV.
  Variable rx : N -> bytes -> option (list (Z * Z)).

  Lemma nlen_app (a b : bytes) : nlen (a ++ b) = nlen a + nlen b.
  Proof. unfold nlen. rewrite app_length. lia. Qed.
  Lemma nlen_cons (x : N) (b : bytes) : nlen (x :: b) = 1 + nlen b.
  Proof. unfold nlen. cbn [length]. lia. Qed.
  Lemma nlen_split n (b : bytes) : nlen b = nlen (firstn n b) + nlen (skipn n b).
  Proof. rewrite <- nlen_app, firstn_skipn. reflexivity. Qed.

  Lemma modvattr_f_ok m : wf_bytes (mod_repl m) = true -> forall fuel done rest out,
    wf_bytes done = true -> wf_bytes rest = true -> nlen done + nlen rest <= 253 ->
    modvattr_f rx fuel done rest m = Some out -> wf_bytes out = true /\ nlen out <= 253.
  Proof.
    intros Wm. induction fuel as [|f IH]; intros done rest out Wd Wr L H.
    - injection H as <-. rewrite wf_app, Wd, Wr, nlen_app. split; [reflexivity | exact L].
    - cbn [modvattr_f] in H.
      destruct rest as [|ty [|alen rest']];
        try (injection H as <-; rewrite wf_app, Wd, Wr, nlen_app; split; [reflexivity | exact L]).
      pose proof Wr as Wr0. rewrite !wf_cons in Wr0. apply andb_true_iff in Wr0 as [Wt Wr0]. apply andb_true_iff in Wr0 as [Wl Wr'].
      set (vl := N.to_nat (alen - 2)) in *.
      pose proof (wf_firstn vl rest' Wr') as Wv. pose proof (wf_skipn vl rest' Wr') as Wtl.
      pose proof (nlen_split vl rest') as Sp. rewrite !nlen_cons in L.
      destruct (ty =? mod_t m).
      + destruct (dorewritemodattr rx (firstn vl rest') m) as [v'|] eqn:D; [|discriminate].
        destruct (dorewritemodattr_ok rx _ _ _ Wv ltac:(lia) Wm D) as [Wv' Lv'].
        destruct ((nlen (firstn vl rest') <? nlen v') && (Consts.RAD_Max_Attr_Value_Length <? nlen done + 2 + nlen v' + nlen (skipn vl rest'))) eqn:G; [discriminate|].
        apply (IH _ _ _) in H; [exact H | | exact Wtl |].
        * rewrite wf_app, Wd, !wf_cons, Wt, Wv'. unfold u8, is_byte. pose proof (N.mod_upper_bound (nlen v' + 2) 256). replace ((nlen v' + 2) mod 256 <? 256) with true by lia. reflexivity.
        * rewrite nlen_app, !nlen_cons. unfold Consts.RAD_Max_Attr_Value_Length in G. lia.
      + apply (IH _ _ _) in H; [exact H | | exact Wtl |].
        * rewrite wf_app, Wd, !wf_cons, Wt, Wl, Wv. reflexivity.
        * rewrite nlen_app, !nlen_cons. lia.
  Qed.

  Lemma dorewritemodvattr_ok v m v' : wf_bytes (mod_repl m) = true -> wf_bytes v = true -> nlen v <= 253 ->
    dorewritemodvattr rx v m = Some v' -> wf_bytes v' = true /\ nlen v' <= 253.
  Proof.
    intros Wm W L H. unfold dorewritemodvattr in H. destruct (_ || _); [discriminate|].
    eapply modvattr_f_ok; [exact Wm | apply wf_firstn; exact W | apply wf_skipn; exact W | | exact H].
    rewrite <- nlen_split. exact L.
  Qed.

  Lemma modvattr_all_ok vendor : forall mods v v', wf_bytes v = true -> nlen v <= 253 ->
    forallb (fun m => wf_bytes (mod_repl m) && is_byte (mod_t m)) mods = true ->
    modvattr_all rx v vendor mods = Some v' -> wf_bytes v' = true /\ nlen v' <= 253.
  Proof.
    induction mods as [|m r IH]; intros v v' W L Wm H; [injection H as <-; split; assumption|].
    cbn [forallb] in Wm. apply andb_true_iff in Wm as [Wm1 Wm]. apply andb_true_iff in Wm1 as [Wm1 _]. cbn [modvattr_all] in H.
    destruct (mod_vendor m =? vendor); [|exact (IH _ _ W L Wm H)].
    destruct (dorewritemodvattr rx v m) as [v1|] eqn:D; [|discriminate].
    destruct (dorewritemodvattr_ok _ _ _ Wm1 W L D) as [W1 L1]. exact (IH _ _ W1 L1 Wm H).
  Qed.

  Lemma dorewritemod_ok mods modvs : forallb (fun m => wf_bytes (mod_repl m)) mods = true ->
    forallb (fun m => wf_bytes (mod_repl m) && is_byte (mod_t m)) modvs = true ->
    forall attrs out, attrs_ok attrs = true -> dorewritemod rx attrs mods modvs = Some out -> attrs_ok out = true.
  Proof.
    intros Wm Wmv. induction attrs as [|a r IH]; intros out H E; [injection E as <-; reflexivity|].
    rewrite attrs_ok_cons in H. apply andb_true_iff in H as [Ha Hr]. cbn [dorewritemod] in E.
    destruct (aok_parts _ Ha) as (La & Wa & Ta). unfold Ttl.tlv_l in La.
    match type of E with match ?x with _ => _ end = _ => destruct x as [x'|] eqn:X; [|discriminate] end.
    destruct (dorewritemod rx r mods modvs) as [r'|] eqn:R; [|discriminate]. injection E as <-.
    rewrite attrs_ok_cons, (IH _ Hr eq_refl), andb_true_r.
    destruct (tlv_t a =? Consts.RAD_Attr_Vendor_Specific).
    - destruct (tlv_l a <? 4); [injection X as <-; exact Ha|].
      destruct (modvattr_all rx (tlv_v a) (vendor_of (tlv_v a)) modvs) as [v'|] eqn:V; [|discriminate].
      injection X as <-. destruct (modvattr_all_ok _ _ _ _ Wa La Wmv V) as [W' L'].
      unfold aok, Ttl.tlv_l. cbn [tlv_v tlv_t]. rewrite W', Ta. replace (nlen v' <=? 253) with true by lia. reflexivity.
    - destruct (modattr_all rx (tlv_v a) (tlv_t a) mods) as [v'|] eqn:V; [|discriminate].
      injection X as <-. destruct (modattr_all_ok rx _ _ _ _ Wa La Wm V) as [W' L'].
      unfold aok, Ttl.tlv_l. cbn [tlv_v tlv_t]. rewrite W', Ta. replace (nlen v' <=? 253) with true by lia. reflexivity.
  Qed.
End MV.

(* ---- supplement / add ---- *)
Lemma radmsg_add_ok attrs a out : attrs_ok attrs = true -> aok a = true -> radmsg_add attrs a = Some out -> attrs_ok out = true.
Proof.
  intros H Ha E. unfold radmsg_add in E. destruct (_ <? _); [discriminate|]. injection E as <-.
  rewrite attrs_ok_app, H, attrs_ok_single, Ha. reflexivity.
Qed.

Lemma dorewritesup_ok : forall sups attrs out, attrs_ok sups = true -> attrs_ok attrs = true ->
  dorewritesup attrs sups = Some out -> attrs_ok out = true.
Proof.
  induction sups as [|s r IH]; intros attrs out Hs H E; [injection E as <-; exact H|].
  rewrite attrs_ok_cons in Hs. apply andb_true_iff in Hs as [Hs1 Hs]. cbn [dorewritesup] in E.
  destruct (sup_exists attrs s) as [[|]|]; [exact (IH _ _ Hs H E) | | discriminate].
  destruct (radmsg_add attrs s) as [attrs'|] eqn:A; [|discriminate].
  exact (IH _ _ Hs (radmsg_add_ok _ _ _ H Hs1 A) E).
Qed.

Lemma dorewriteadd_ok : forall adds attrs out, attrs_ok adds = true -> attrs_ok attrs = true ->
  dorewriteadd attrs adds = Some out -> attrs_ok out = true.
Proof.
  induction adds as [|a r IH]; intros attrs out Hs H E; [injection E as <-; exact H|].
  rewrite attrs_ok_cons in Hs. apply andb_true_iff in Hs as [Hs1 Hs]. cbn [dorewriteadd] in E.
  destruct (radmsg_add attrs a) as [attrs'|] eqn:A; [|discriminate].
  exact (IH _ _ Hs (radmsg_add_ok _ _ _ H Hs1 A) E).
Qed.

(* ---- the whole block ---- *)
Theorem dorewrite_ok rx attrs rw out : match rw with Some w => rw_wf w = true | None => True end ->
  attrs_ok attrs = true -> dorewrite rx attrs rw = Some out -> attrs_ok out = true.
Proof.
  intros Hw H E. destruct rw as [w|]; [|injection E as <-; exact H].
  unfold rw_wf in Hw. apply andb_true_iff in Hw as [Hw Wmv]. apply andb_true_iff in Hw as [Hw Wm]. apply andb_true_iff in Hw as [Wadd Wsup].
  cbn [dorewrite] in E.
  match type of E with match dorewritemod rx ?a1 _ _ with _ => _ end = _ => assert (A1 : attrs_ok a1 = true) end.
  { destruct (rw_rm w), (rw_rmv w); try exact H; apply dorewriterm_ok; exact H. }
  match type of E with match ?x with _ => _ end = _ => destruct x as [a2|] eqn:M; [|discriminate] end.
  pose proof (dorewritemod_ok rx _ _ Wm Wmv _ _ A1 M) as A2.
  destruct (dorewritesup a2 (rw_sup w)) as [a3|] eqn:S; [|discriminate].
  exact (dorewriteadd_ok _ _ _ Wadd (dorewritesup_ok _ _ _ Wsup A2 S) E).
Qed.

(* ================= the handlers with rewrite blocks ================= *)
From RSP Require Import Choose Proxy Slots_proofs Dup_proofs Reply_proofs Forward_proofs Spec_Packet.

Definition rwo_wf (rw : option rewrite) : Prop := match rw with Some w => rw_wf w = true | None => True end.

Section G.
  Variable md5 : bytes -> bytes.
  Hypothesis md5_len : forall x, length (md5 x) = 16%nat.
  Hypothesis md5_wf : forall x, wf_bytes (md5 x) = true.
  Variable rx : N -> bytes -> option (list (Z * Z)).
  Variable cfg : config.
  Variable fs : N -> bool.

  (* C06 for forwarded requests, every configuration whose rewrite blocks are well-formed *)
  Theorem forwarded_wf st h c rnd s i b :
    forwarded md5 rx cfg fs st h c rnd s i b ->
    rwo_wf (cc_rwin (clconf_of cfg c)) -> rwo_wf (sc_rwout (srvconf_of cfg s)) ->
    match cc_rwuser (clconf_of cfg c) with Some m => wf_bytes (mod_repl m) = true | None => True end ->
    (forall r0, get_rq st h = Some r0 -> exists buf, rq_buf r0 = Some buf /\ wf_bytes buf = true /\ (20 <= length buf)%nat) ->
    wf_bytes rnd = true -> is_byte (o_addttl (cf_opt cfg)) = true -> is_byte (sc_addttl (srvconf_of cfg s)) = true -> i < 256 ->
    wf_packet b = true /\
    (nth 0 b 0 = Consts.RAD_Accounting_Request -> acct_request_auth_ok md5 b (sc_secret (srvconf_of cfg s)) = true) /\
    (* a forwarded Access-Request (no TTL insertion configured): the authenticator field is the fresh random one,
       the Message-Authenticator is the first attribute and verifies under the server's secret *)
    (nth 0 b 0 = Consts.RAD_Access_Request -> o_addttl (cf_opt cfg) = 0 -> sc_addttl (srvconf_of cfg s) = 0 ->
     firstn 16 (skipn 4 b) = fst (take_rand rnd 16) /\
     first_is_msgauth b = true /\
     all_msgauth_ok md5 b (Some (fst (take_rand rnd 16))) (sc_secret (srvconf_of cfg s)) = true).
  Proof.
    intros F Hrwin Hrwout Hrwu Hbuf Wrnd Bg Bp Hi. destruct F.
    destruct (Hbuf _ fw_live) as (buf & Eb & Wb & Lb). rewrite Eb in fw_parsed.
    destruct (buf2radmsg_ok md5 md5_len md5_wf _ _ _ _ Wb Lb fw_parsed) as (A0 & Lau & Wau & Bc & Bi).
    pose proof (dorewrite_ok rx _ _ _ Hrwin A0 fw_rwin) as A1.
    destruct fw_ttl as [Ttl _].
    assert (A2 : attrs_ok fw_a2 = true).
    { pose proof (checkttl_ok (o_ttl0 (cf_opt cfg)) (o_ttl1 (cf_opt cfg)) _ A1) as X. rewrite Ttl in X. exact X. }
    destruct (gettype_in _ _ _ fw_user) as [Iua Tua].
    destruct (aok_parts _ (attrs_ok_in _ _ A2 Iua)) as (Lua & Wua & _). unfold Ttl.tlv_l in Lua.
    assert (Un : wf_bytes fw_uname = true /\ nlen fw_uname <= 253).
    { destruct (cc_rwuser (clconf_of cfg c)) as [m|]; [|injection fw_user_rw as <- _; split; assumption].
      unfold rewriteusername in fw_user_rw. destruct (dorewritemodattr rx (tlv_v fw_ua) m) as [v'|] eqn:D; [|discriminate].
      destruct (dorewritemodattr_ok rx _ _ _ Wua Lua Hrwu D) as [W' L'].
      destruct (negb _ || negb _); injection fw_user_rw as <- _; split; assumption. }
    destruct Un as [Wun Lun].
    set (a3 := replace_first Consts.RAD_Attr_User_Name fw_uname fw_a2) in *.
    assert (A3 : attrs_ok a3 = true).
    { apply replace_first_ok; [exact A2|]. unfold aok, Ttl.tlv_l. cbn [tlv_v tlv_t].
      rewrite Wun. replace (nlen fw_uname <=? 253) with true by (clear - Lun; lia). reflexivity. }
    assert (A4 : attrs_ok fw_a4 = true).
    { subst fw_a4. destruct (gettype Consts.RAD_Attr_CHAP_Password a3); [|exact A3].
      destruct (gettype Consts.RAD_Attr_CHAP_Challenge a3); [exact A3|].
      rewrite attrs_ok_app, A3, attrs_ok_single. unfold aok, Ttl.tlv_l, nlen. cbn [tlv_v tlv_t]. rewrite Lau, Wau. reflexivity. }
    assert (Nau : length fw_auth = 16%nat /\ wf_bytes fw_auth = true).
    { subst fw_auth. destruct (m_code fw_msg =? Consts.RAD_Accounting_Request).
      - split; [unfold zeros; apply repeat_length | apply wf_zeros].
      - unfold take_rand. cbn [fst]. split.
        + rewrite firstn_length, app_length. unfold zeros. rewrite repeat_length. clear. lia.
        + apply wf_firstn. rewrite wf_app, Wrnd, wf_zeros. reflexivity. }
    destruct Nau as [Lna Wna].
    assert (A5 : attrs_ok fw_a5 = true).
    { destruct (gettype Consts.RAD_Attr_User_Password fw_a4) as [pa|] eqn:Gp; [|injection fw_pwd as <-; exact A4].
      destruct (pwdrecrypt md5 (tlv_v pa) _ _ _ _ [] []) as [v'|] eqn:Pw; [|discriminate]. injection fw_pwd as <-.
      destruct (gettype_in _ _ _ Gp) as [Ipa Tpa]. destruct (aok_parts _ (attrs_ok_in _ _ A4 Ipa)) as (Lpa & Wpa & _).
      destruct (pwdrecrypt_ok md5 md5_len md5_wf _ _ _ _ _ _ _ _ Wpa Pw) as [Lv Wv].
      apply replace_first_ok; [exact A4|]. unfold aok, Ttl.tlv_l, nlen. cbn [tlv_v tlv_t]. unfold Ttl.tlv_l, nlen in Lpa.
      rewrite Lv, Wv. replace (N.of_nat (length (tlv_v pa)) <=? 253) with true by (clear - Lpa; lia). reflexivity. }
    pose proof (dorewrite_ok rx _ _ _ Hrwout A5 fw_rwout) as A6.
    assert (A8 : attrs_ok fw_a8 = true).
    { subst fw_a8. cbv zeta.
      assert (A7 : attrs_ok (if m_code fw_msg =? Consts.RAD_Access_Request then ensuremsgauthfront fw_a6 else fw_a6) = true)
        by (destruct (m_code fw_msg =? Consts.RAD_Access_Request); [apply ensuremsgauthfront_ok|]; exact A6).
      destruct (fs 10); [exact A7|]. apply ttl_stage_add_ok; assumption. }
    set (m8 := set_id (set_auth (set_attrs fw_msg fw_a8) fw_auth) i) in *.
    assert (NB : existsb bad_ma (m_attrs m8) = false).
    { unfold radmsg2buf in fw_bytes. destruct (_ <? _); [discriminate|]. destruct (existsb bad_ma (m_attrs m8)); [discriminate | reflexivity]. }
    assert (OK : msg_ok m8 = true).
    { unfold msg_ok. subst m8. cbn [m_attrs m_auth m_code m_id set_id set_auth set_attrs] in *.
      rewrite A8, (not_bad_ma_ok _ NB), Lna, Wna, Bc. unfold is_byte. replace (i <? 256) with true by (clear - Hi; lia). reflexivity. }
    assert (MAX : Consts.RADMSG2BUF_MAX <= 4096) by (vm_compute; discriminate).
    split; [exact (radmsg2buf_wf md5 md5_len m8 _ b fw_ser OK MAX fw_bytes)|].
    pose proof (radmsg2buf_shape md5 md5_len m8 (sc_secret (srvconf_of cfg s)) OK) as Sh. rewrite fw_bytes in Sh.
    destruct Sh as (_ & auth' & attrs' & Eb' & Lau' & _ & _ & _ & _ & Hsig & _).
    split.
    - intro Hc.
      assert (Cm : m_code m8 = Consts.RAD_Accounting_Request).
      { rewrite Eb' in Hc. unfold radius_header in Hc. cbn [app nth] in Hc. exact Hc. }
      assert (SC : signed_code (m_code m8) = true) by (rewrite Cm; vm_compute; reflexivity).
      pose proof (radmsg2buf_response_auth md5 md5_len m8 _ b fw_ser OK MAX SC fw_bytes) as RA.
      unfold acct_request_auth_ok.
      replace (repeat 0 16) with (m_auth m8); [exact RA|].
      subst m8. cbn [m_auth set_id set_auth set_attrs m_code] in *. subst fw_auth. rewrite Cm. reflexivity.
    - intros Hc Z1 Z2.
      assert (Cm : m_code fw_msg = Consts.RAD_Access_Request).
      { rewrite Eb' in Hc. unfold radius_header in Hc. cbn [app nth] in Hc. exact Hc. }
      assert (Ea : fw_auth = fst (take_rand rnd 16)).
      { rewrite fw_newauth, Cm. reflexivity. }
      assert (E8 : fw_a8 = ensuremsgauthfront fw_a6).
      { rewrite fw_final. cbv zeta. rewrite Cm. rewrite N.eqb_refl. destruct (fs 10); [reflexivity|].
        unfold ttl_stage_add. rewrite Z1, Z2. cbn [N.eqb negb orb]. rewrite andb_false_r. reflexivity. }
      assert (SM : single_ma (m_attrs m8) = true).
      { subst m8; cbn [m_attrs set_id set_auth set_attrs]; rewrite E8; apply single_ma_front. }
      destruct (radmsg2buf_msgauth md5 md5_len m8 _ b fw_ser OK MAX SM fw_bytes) as (AM & _ & FM).
      assert (Am : m_auth m8 = fst (take_rand rnd 16)) by (subst m8; cbn [m_auth set_id set_auth]; exact Ea).
      split; [|split].
      + assert (NS : signed_code (m_code m8) = false).
        { subst m8. cbn [m_code set_id set_auth set_attrs]. rewrite Cm. vm_compute. reflexivity. }
        rewrite NS in Hsig. rewrite Eb'. unfold radius_header. rewrite <- !app_assoc. cbn [app].
        rewrite <- Am, <- Hsig. apply firstn_app_exact_l0; [apply be_encode_length | exact Lau'].
      + subst m8. cbn [m_attrs set_id set_auth set_attrs] in FM. rewrite E8 in FM. unfold ensuremsgauthfront in FM. apply FM. reflexivity.
      + rewrite <- Am. exact AM.
  Qed.

  Theorem radsrv_emits_wf_rw st h c now rnd s i b :
    In (OEnq s i b) (snd (radsrv md5 rx cfg fs st h c now rnd)) ->
    rwo_wf (cc_rwin (clconf_of cfg c)) -> rwo_wf (sc_rwout (srvconf_of cfg s)) ->
    match cc_rwuser (clconf_of cfg c) with Some m => wf_bytes (mod_repl m) = true | None => True end ->
    (forall r0, get_rq st h = Some r0 -> exists buf, rq_buf r0 = Some buf /\ wf_bytes buf = true /\ (20 <= length buf)%nat) ->
    wf_bytes rnd = true -> is_byte (o_addttl (cf_opt cfg)) = true -> is_byte (sc_addttl (srvconf_of cfg s)) = true -> i < 256 ->
    wf_packet b = true /\
    (nth 0 b 0 = Consts.RAD_Accounting_Request -> acct_request_auth_ok md5 b (sc_secret (srvconf_of cfg s)) = true) /\
    (nth 0 b 0 = Consts.RAD_Access_Request -> o_addttl (cf_opt cfg) = 0 -> sc_addttl (srvconf_of cfg s) = 0 ->
     firstn 16 (skipn 4 b) = fst (take_rand rnd 16) /\
     first_is_msgauth b = true /\
     all_msgauth_ok md5 b (Some (fst (take_rand rnd 16))) (sc_secret (srvconf_of cfg s)) = true).
  Proof. intro H. apply forwarded_wf. apply (radsrv_forward md5 rx cfg fs _ _ _ _ _ _ _ _ H). Qed.
End G.

Section GR.
  Variable md5 : bytes -> bytes.
  Hypothesis md5_len : forall x, length (md5 x) = 16%nat.
  Hypothesis md5_wf : forall x, wf_bytes (md5 x) = true.
  Variable rx : N -> bytes -> option (list (Z * Z)).
  Variable cfg : config.
  Variable fs : N -> bool.

  (* C06 for delivered replies, every configuration whose rewrite blocks are well-formed.  The Message-
     Authenticator clause needs the client's rewriteOut not to be followed by a TTL insertion (none configured):
     the placeholder is then the first attribute and the only one of type 80 *)
  Theorem delivered_wf st s buf rnd c p :
    delivered md5 rx cfg fs st s buf rnd c p ->
    rwo_wf (sc_rwin (srvconf_of cfg s)) -> rwo_wf (cc_rwout (clconf_of cfg c)) ->
    wf_bytes buf = true -> (20 <= length buf)%nat -> wf_bytes rnd = true ->
    (forall h r, slot_of st s (nth 1 buf 0) = Some h -> get_rq st h = Some r ->
       length (rq_rqauth r) = 16%nat /\ wf_bytes (rq_rqauth r) = true /\ is_byte (rq_rqid r) = true /\
       match rq_origuser r with Some ou => wf_bytes ou = true | None => True end) ->
    is_byte (o_addttl (cf_opt cfg)) = true -> is_byte (cc_addttl (clconf_of cfg c)) = true ->
    exists r, (exists h, slot_of st s (nth 1 buf 0) = Some h /\ get_rq st h = Some r) /\
      wf_packet p = true /\
      response_auth_ok md5 p (rq_rqauth r) (cc_secret (clconf_of cfg c)) = true /\
      (o_addttl (cf_opt cfg) = 0 -> cc_addttl (clconf_of cfg c) = 0 -> reply_code (nth 0 p 0) = true ->
       first_is_msgauth p = true /\ all_msgauth_ok md5 p (Some (rq_rqauth r)) (cc_secret (clconf_of cfg c)) = true).
  Proof.
    intros D Hrwin Hrwout Wb Lb Wrnd Hst Bg Bp. destruct D.
    destruct (Hst _ _ dl_slot dl_live) as (Lau & Wau & Bid & Wou).
    exists dl_r. split; [exists dl_h; split; assumption|].
    destruct (buf2radmsg_ok md5 md5_len md5_wf _ _ _ _ Wb Lb dl_parsed) as (A0 & _ & _ & Bc & _).
    pose proof (dorewrite_ok rx _ _ _ Hrwin A0 dl_rwin) as A1.
    destruct dl_ttl as [Ttl _].
    assert (A2 : attrs_ok dl_a2 = true).
    { pose proof (checkttl_ok (o_ttl0 (cf_opt cfg)) (o_ttl1 (cf_opt cfg)) _ A1) as X. rewrite Ttl in X. exact X. }
    pose proof (ms_loop_ok md5 md5_len md5_wf _ _ _ _ _ _ A2 dl_mppe) as A3.
    assert (A4 : attrs_ok dl_a4 = true).
    { destruct (m_code dl_msg =? Consts.RAD_Access_Accept); [|injection dl_tunnel as <-; exact A3].
      exact (tunnelpwd_loop_ok md5 md5_len md5_wf _ _ _ _ _ _ _ A3 Wrnd dl_tunnel). }
    assert (A5 : attrs_ok dl_a5 = true).
    { destruct (rq_origuser dl_r) as [ou|]; [|injection dl_user as <-; exact A4].
      destruct (gettype Consts.RAD_Attr_User_Name dl_a4); [|injection dl_user as <-; exact A4].
      destruct (Consts.RAD_Max_Attr_Value_Length <? nlen ou) eqn:Lo; [discriminate|]. injection dl_user as <-.
      apply replace_first_ok; [exact A4|]. unfold aok, Ttl.tlv_l. cbn [tlv_v tlv_t]. rewrite Wou.
      unfold Consts.RAD_Max_Attr_Value_Length in Lo. replace (nlen ou <=? 253) with true by (clear - Lo; lia). reflexivity. }
    pose proof (dorewrite_ok rx _ _ _ Hrwout A5 dl_rwout) as A6.
    assert (A7 : attrs_ok (if reply_code (m_code dl_msg) then ensuremsgauthfront dl_a6 else dl_a6) = true)
      by (destruct (reply_code (m_code dl_msg)); [apply ensuremsgauthfront_ok|]; exact A6).
    assert (A8 : attrs_ok dl_a8 = true).
    { subst dl_a8. cbv zeta. destruct (fs 30); [exact A7|]. apply ttl_stage_add_ok; assumption. }
    set (m8 := mkMsg (m_code dl_msg) (rq_rqid dl_r) (rq_rqauth dl_r) dl_a8 false) in *.
    assert (NB : existsb bad_ma (m_attrs m8) = false).
    { unfold radmsg2buf in dl_bytes. destruct (_ <? _); [discriminate|]. destruct (existsb bad_ma (m_attrs m8)); [discriminate | reflexivity]. }
    assert (OK : msg_ok m8 = true).
    { unfold msg_ok. subst m8. cbn [m_attrs m_auth m_code m_id] in *. rewrite A8, (not_bad_ma_ok _ NB), Lau, Wau, Bc, Bid. reflexivity. }
    assert (MAX : Consts.RADMSG2BUF_MAX <= 4096) by (vm_compute; discriminate).
    assert (SC : signed_code (m_code m8) = true).
    { subst m8. cbn [m_code]. unfold reply_codes in dl_code. unfold signed_code.
      clear - dl_code. repeat (apply orb_true_iff in dl_code as [dl_code|dl_code]); rewrite dl_code; cbn; rewrite ?orb_true_r; reflexivity. }
    split; [exact (radmsg2buf_wf md5 md5_len m8 _ p dl_ser OK MAX dl_bytes)|].
    split; [exact (radmsg2buf_response_auth md5 md5_len m8 _ p dl_ser OK MAX SC dl_bytes)|].
    intros Z1 Z2 Hrc.
    pose proof (radmsg2buf_shape md5 md5_len m8 (cc_secret (clconf_of cfg c)) OK) as Sh. rewrite dl_bytes in Sh.
    destruct Sh as (_ & auth' & attrs' & Eb' & _).
    assert (Cm : reply_code (m_code dl_msg) = true).
    { rewrite Eb' in Hrc. unfold radius_header in Hrc. cbn [app nth] in Hrc. exact Hrc. }
    assert (E8 : dl_a8 = ensuremsgauthfront dl_a6).
    { subst dl_a8. cbv zeta. rewrite Cm. destruct (fs 30); [reflexivity|].
      unfold ttl_stage_add. rewrite Z1, Z2. cbn [N.eqb negb orb]. rewrite andb_false_r. reflexivity. }
    assert (SM : single_ma (m_attrs m8) = true) by (subst m8; cbn [m_attrs]; rewrite E8; apply single_ma_front).
    destruct (radmsg2buf_msgauth md5 md5_len m8 _ p dl_ser OK MAX SM dl_bytes) as (AM & _ & FM).
    split; [|exact AM].
    subst m8. cbn [m_attrs] in FM. rewrite E8 in FM. unfold ensuremsgauthfront in FM. apply FM. reflexivity.
  Qed.

  Theorem replyh_emits_wf_rw st s buf now rnd c p :
    In (OReply c p) (snd (replyh md5 rx cfg fs st s buf now rnd)) ->
    rwo_wf (sc_rwin (srvconf_of cfg s)) -> rwo_wf (cc_rwout (clconf_of cfg c)) ->
    wf_bytes buf = true -> (20 <= length buf)%nat -> wf_bytes rnd = true ->
    (forall h r, slot_of st s (nth 1 buf 0) = Some h -> get_rq st h = Some r ->
       rq_replybuf r = None /\
       length (rq_rqauth r) = 16%nat /\ wf_bytes (rq_rqauth r) = true /\ is_byte (rq_rqid r) = true /\
       match rq_origuser r with Some ou => wf_bytes ou = true | None => True end) ->
    is_byte (o_addttl (cf_opt cfg)) = true -> is_byte (cc_addttl (clconf_of cfg c)) = true ->
    exists r, (exists h, slot_of st s (nth 1 buf 0) = Some h /\ get_rq st h = Some r) /\
      wf_packet p = true /\
      response_auth_ok md5 p (rq_rqauth r) (cc_secret (clconf_of cfg c)) = true /\
      (o_addttl (cf_opt cfg) = 0 -> cc_addttl (clconf_of cfg c) = 0 -> reply_code (nth 0 p 0) = true ->
       first_is_msgauth p = true /\ all_msgauth_ok md5 p (Some (rq_rqauth r)) (cc_secret (clconf_of cfg c)) = true).
  Proof.
    intros H Hrwin Hrwout Wb Lb Wr Hst Bg Bp.
    destruct (replyh_delivered md5 rx cfg fs _ _ _ _ _ _ _ H) as [(h & r & Hs & Hr & _ & Hb) | D].
    - destruct (Hst _ _ Hs Hr) as [Hn _]. congruence.
    - apply (delivered_wf st s buf rnd c p D); try assumption.
      intros h r Hs Hr. destruct (Hst _ _ Hs Hr) as (_ & X). exact X.
  Qed.
End GR.
