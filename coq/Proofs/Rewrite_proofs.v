From RSP Require Import Base Consts Ttl Rewrite Spec_C01 BaseLemmas.
Local Open Scope N_scope.

(* ------------------------------------------------------------------ equality on attributes *)
Lemma tlv_eqb_refl a : tlv_eqb a a = true.
Proof. unfold tlv_eqb. rewrite N.eqb_refl, beq_bytes_refl. reflexivity. Qed.

Lemma tlv_eqb_eq a b : tlv_eqb a b = true -> a = b.
Proof.
  unfold tlv_eqb. intro H. apply andb_true_iff in H as [H1 H2]. apply N.eqb_eq in H1. apply beq_bytes_eq in H2.
  destruct a, b. simpl in *. subst. reflexivity.
Qed.

Lemma is_prefix_app p x : is_prefix p (p ++ x) = true.
Proof. induction p as [|a p IH]; [reflexivity|]. simpl. rewrite tlv_eqb_refl, IH. reflexivity. Qed.

Inductive subseq : list tlv -> list tlv -> Prop :=
| sub_nil : forall l, subseq [] l
| sub_both : forall x s l, subseq s l -> subseq (x :: s) (x :: l)
| sub_skip : forall y s l, subseq s l -> subseq s (y :: l).

Lemma subseq_tail x s l : subseq (x :: s) l -> subseq s l.
Proof.
  intro H. remember (x :: s) as xs eqn:E. revert x s E.
  induction H as [l | y s' l H IH | y s' l H IH]; intros x s E; [discriminate | |].
  - injection E as -> ->. apply sub_skip. exact H.
  - apply sub_skip. eapply IH. exact E.
Qed.

(* the greedy boolean test is complete *)
Lemma subseq_is_subseq : forall l s, subseq s l -> is_subseq s l = true.
Proof.
  induction l as [|y l IH]; intros s H.
  - inversion H; subst. reflexivity.
  - destruct s as [|x s]; [reflexivity|]. cbn [is_subseq]. inversion H; subst.
    + rewrite tlv_eqb_refl. apply IH. assumption.
    + destruct (tlv_eqb x y); [apply IH; eapply subseq_tail; eassumption | apply IH; assumption].
Qed.

Lemma subseq_refl l : subseq l l.
Proof. induction l; constructor; assumption. Qed.

Lemma subseq_app a b c d : subseq a b -> subseq c d -> subseq (a ++ c) (b ++ d).
Proof.
  intros H1 H2. induction H1 as [l | x s l H IH | y s l H IH]; cbn [app].
  - induction l as [|z l IHl]; [exact H2 | apply sub_skip; exact IHl].
  - apply sub_both. exact IH.
  - apply sub_skip. exact IH.
Qed.

Lemma subseq_filter p a b : subseq a b -> subseq (filter p a) (filter p b).
Proof.
  intro H. induction H as [l | x s l H IH | y s l H IH]; cbn [filter].
  - constructor.
  - destruct (p x); [apply sub_both|]; exact IH.
  - destruct (p y); [apply sub_skip|]; exact IH.
Qed.

(* ------------------------------------------------------------------ untouched depends on the type only *)
Definition untouched_t (w : rewrite) (t : N) : bool := untouched w (mkTlv t []).

Lemma untouched_type w a : untouched w a = untouched_t w (tlv_t a).
Proof. reflexivity. Qed.

Lemma untouched_same_type w a b : tlv_t a = tlv_t b -> untouched w a = untouched w b.
Proof. intro H. rewrite !untouched_type, H. reflexivity. Qed.

(* configuration well-formedness: the parser only admits types 1..255 in remove/whitelist lists *)
Definition rw_ok (w : rewrite) : bool :=
  match rw_rm w with Some l => forallb (fun t => negb (t =? 0)) l | None => true end.

Lemma in_rmlist_listed rm t : match rm with Some l => forallb (fun t => negb (t =? 0)) l | None => true end = true ->
  in_rmlist rm t = listed rm t.
Proof.
  destruct rm as [l|]; [|reflexivity]. intro H. unfold in_rmlist, listed.
  destruct (N.eqb_spec t 0) as [->|]; [|reflexivity]. cbn [negb andb]. symmetry.
  induction l as [|x l IH]; [reflexivity|]. cbn [forallb existsb] in *. apply andb_true_iff in H as [Hx Hl].
  rewrite (IH Hl). destruct (N.eqb_spec 0 x) as [<-|]; [discriminate|reflexivity].
Qed.

(* ------------------------------------------------------------------ step 1: remove / whitelist *)
Lemma dovendorrewriterm_type a rmv inv : tlv_t (snd (dovendorrewriterm a rmv inv)) = tlv_t a.
Proof.
  unfold dovendorrewriterm. destruct (tlv_l a <=? 4); [reflexivity|].
  destruct (drop_until_vendor rmv (vendor_of (tlv_v a))); [reflexivity|].
  destruct (findvendorsubattr _ _ 256); [reflexivity|].
  destruct (negb (attrvalidate _)); reflexivity.
Qed.

Lemma dorewriterm_untouched w attrs : rw_ok w = true ->
  (rw_rm w <> None \/ rw_rmv w <> None) ->
  filter (untouched w) (dorewriterm attrs (rw_rm w) (rw_rmv w) (rw_whitelist w)) = filter (untouched w) attrs.
Proof.
  intros OK NN. induction attrs as [|a r IH]; [reflexivity|]. cbn [dorewriterm filter].
  assert (Hun : untouched w a = true -> Bool.eqb (listed (rw_rm w) (tlv_t a)) (rw_whitelist w) = true /\
                                       (tlv_t a =? Consts.RAD_Attr_Vendor_Specific) = false).
  { unfold untouched. intro H. apply andb_true_iff in H as [H H3]. apply andb_true_iff in H as [H1 _].
    apply negb_true_iff in H1. split; [|exact H1].
    destruct (rw_rm w), (rw_rmv w); try exact H3. destruct NN as [N|N]; contradiction. }
  assert (Hnot : Bool.eqb (listed (rw_rm w) (tlv_t a)) (rw_whitelist w) = false -> untouched w a = false).
  { unfold untouched. intro H. destruct (rw_rm w), (rw_rmv w); rewrite ?H, ?andb_false_r; try reflexivity.
    destruct NN as [N|N]; contradiction. }
  rewrite (in_rmlist_listed _ _ OK).
  destruct (listed (rw_rm w) (tlv_t a)) eqn:L.
  - (* named by the list *)
    destruct (rw_whitelist w) eqn:WL; cbn [Bool.eqb negb].
    + cbn [filter]. rewrite IH. reflexivity.
    + rewrite IH. rewrite (Hnot eq_refl). reflexivity.
  - destruct (rw_rmv w) as [vl|] eqn:RV.
    + destruct (tlv_t a =? Consts.RAD_Attr_Vendor_Specific) eqn:T.
      * (* vendor attribute: never untouched, before or after *)
        assert (U : untouched w a = false) by (unfold untouched; rewrite T; reflexivity).
        rewrite U. destruct (dovendorrewriterm a vl (rw_whitelist w)) as [whole a'] eqn:D.
        assert (T' : tlv_t a' = tlv_t a) by (pose proof (dovendorrewriterm_type a vl (rw_whitelist w)) as X; rewrite D in X; exact X).
        destruct (negb (Bool.eqb whole (rw_whitelist w))); [exact IH|].
        cbn [filter]. rewrite (untouched_same_type w a' a T'), U. exact IH.
      * destruct (rw_whitelist w) eqn:WL; cbn [Bool.eqb negb].
        -- rewrite IH. rewrite (Hnot eq_refl). reflexivity.
        -- cbn [filter]. rewrite IH. reflexivity.
    + destruct (rw_whitelist w) eqn:WL; cbn [Bool.eqb negb].
      * rewrite IH. rewrite (Hnot eq_refl). reflexivity.
      * cbn [filter]. rewrite IH. reflexivity.
Qed.

(* ------------------------------------------------------------------ step 2: modify *)
Section M.
  Variable rx : N -> bytes -> option (list (Z * Z)).

  Lemma modattr_all_norule v t mods : existsb (fun m => mod_t m =? t) mods = false -> modattr_all rx v t mods = Some v.
  Proof.
    induction mods as [|m r IH]; [reflexivity|]. cbn [existsb modattr_all]. intro H.
    apply orb_false_iff in H as [H1 H2]. rewrite H1. apply IH. exact H2.
  Qed.

  Lemma dorewritemod_untouched w attrs out : dorewritemod rx attrs (rw_mod w) (rw_modv w) = Some out ->
    filter (untouched w) out = filter (untouched w) attrs.
  Proof.
    revert out. induction attrs as [|a r IH]; intros out H; [injection H as <-; reflexivity|].
    cbn [dorewritemod] in H.
    destruct (tlv_t a =? Consts.RAD_Attr_Vendor_Specific) eqn:T.
    - (* vendor attribute: type kept, never untouched *)
      assert (U : untouched w a = false) by (unfold untouched; rewrite T; reflexivity).
      destruct (if tlv_l a <? 4 then Some a else option_map (mkTlv (tlv_t a)) (modvattr_all rx (tlv_v a) (vendor_of (tlv_v a)) (rw_modv w))) as [x|] eqn:E; [|discriminate].
      destruct (dorewritemod rx r (rw_mod w) (rw_modv w)) as [r'|] eqn:R; [|discriminate]. injection H as <-.
      assert (Tx : tlv_t x = tlv_t a).
      { destruct (tlv_l a <? 4); [injection E as <-; reflexivity|].
        destruct (modvattr_all rx _ _ _); [injection E as <-; reflexivity | discriminate]. }
      cbn [filter]. rewrite (untouched_same_type w x a Tx), U. apply IH. reflexivity.
    - destruct (option_map (mkTlv (tlv_t a)) (modattr_all rx (tlv_v a) (tlv_t a) (rw_mod w))) as [x|] eqn:E; [|discriminate].
      destruct (dorewritemod rx r (rw_mod w) (rw_modv w)) as [r'|] eqn:R; [|discriminate]. injection H as <-.
      assert (Tx : tlv_t x = tlv_t a).
      { destruct (modattr_all rx _ _ _); [injection E as <-; reflexivity | discriminate]. }
      cbn [filter]. rewrite (untouched_same_type w x a Tx).
      destruct (untouched w a) eqn:U; [|apply IH; reflexivity].
      (* untouched: no modify rule names the type, so the value is unchanged *)
      assert (NR : existsb (fun m => mod_t m =? tlv_t a) (rw_mod w) = false).
      { unfold untouched in U. apply andb_true_iff in U as [U _]. apply andb_true_iff in U as [_ U]. apply negb_true_iff in U. exact U. }
      rewrite (modattr_all_norule _ _ _ NR) in E. injection E as <-.
      destruct a as [t v]. cbn [tlv_t tlv_v]. f_equal. apply IH. reflexivity.
  Qed.
End M.

(* ------------------------------------------------------------------ steps 3 and 4: supplement, add *)
Lemma radmsg_add_app attrs a l : radmsg_add attrs a = Some l -> l = attrs ++ [a].
Proof. unfold radmsg_add. destruct (_ <? _); [discriminate|]. intro H. injection H as <-. reflexivity. Qed.

Lemma dorewritesup_app sups : forall attrs out, dorewritesup attrs sups = Some out ->
  exists S, out = attrs ++ S /\ subseq S sups.
Proof.
  induction sups as [|s r IH]; intros attrs out H.
  - injection H as <-. exists []. rewrite app_nil_r. split; [reflexivity | constructor].
  - cbn [dorewritesup] in H. destruct (sup_exists attrs s) as [[|]|]; [| |discriminate].
    + destruct (IH _ _ H) as (S & -> & HS). exists S. split; [reflexivity | apply sub_skip; exact HS].
    + destruct (radmsg_add attrs s) as [attrs'|] eqn:A; [|discriminate].
      apply radmsg_add_app in A. subst attrs'. destruct (IH _ _ H) as (S & -> & HS).
      exists (s :: S). rewrite <- app_assoc. split; [reflexivity | apply sub_both; exact HS].
Qed.

Lemma dorewriteadd_app adds : forall attrs out, dorewriteadd attrs adds = Some out -> out = attrs ++ adds.
Proof.
  induction adds as [|a r IH]; intros attrs out H.
  - injection H as <-. symmetry. apply app_nil_r.
  - cbn [dorewriteadd] in H. destruct (radmsg_add attrs a) as [attrs'|] eqn:A; [|discriminate].
    apply radmsg_add_app in A. subst attrs'. rewrite (IH _ _ H), <- app_assoc. reflexivity.
Qed.

(* ------------------------------------------------------------------ the rewrite block as a whole *)
Theorem dorewrite_untouched rx attrs w out : rw_ok w = true ->
  dorewrite rx attrs (Some w) = Some out -> spec_rewrite_untouched w attrs out = true.
Proof.
  intros OK H. unfold dorewrite in H.
  set (a1 := match rw_rm w, rw_rmv w with None, None => attrs | _, _ => dorewriterm attrs (rw_rm w) (rw_rmv w) (rw_whitelist w) end) in H.
  assert (H1 : filter (untouched w) a1 = filter (untouched w) attrs).
  { subst a1. destruct (rw_rm w) as [l|] eqn:R1.
    - rewrite <- R1. apply dorewriterm_untouched; [exact OK | left; rewrite R1; discriminate].
    - destruct (rw_rmv w) as [vl|] eqn:R2; [|reflexivity].
      rewrite <- R1, <- R2. apply dorewriterm_untouched; [exact OK | right; rewrite R2; discriminate]. }
  destruct (dorewritemod rx a1 (rw_mod w) (rw_modv w)) as [a2|] eqn:M; [|discriminate].
  pose proof (dorewritemod_untouched rx w a1 a2 M) as H2.
  destruct (dorewritesup a2 (rw_sup w)) as [a3|] eqn:S; [|discriminate].
  destruct (dorewritesup_app _ _ _ S) as (SS & -> & HS).
  apply dorewriteadd_app in H. subst out.
  unfold spec_rewrite_untouched. rewrite <- app_assoc, !filter_app, H2, H1.
  rewrite is_prefix_app. cbn [andb].
  rewrite skipn_app, Nat.sub_diag, skipn_all. cbn [skipn app].
  apply subseq_is_subseq. apply subseq_app; [apply subseq_filter; exact HS | apply subseq_refl].
Qed.
