(* C19: what the model does when a stage of a handler runs out of memory (oracle fs of Proxy.v) *)
From RSP Require Import Base Consts Ttl Crypt Packet Rewrite Choose Proxy Slots_proofs.
From Coq Require Import ZifyBool ZifyNat ZifyN.
Local Open Scope N_scope.

Section F.
  Variable md5 : bytes -> bytes.
  Variable rx : N -> bytes -> option (list (Z * Z)).
  Variable cfg : config.
  Variable fs : N -> bool.

  Definition emits_nothing (o : list out) : Prop :=
    forall x, In x o -> match x with ORet _ => True | _ => False end.

  (* the request cannot be parsed for lack of memory: it is released, nothing is emitted *)
  Theorem radsrv_parse_failure st h c now rnd r0 : get_rq st h = Some r0 -> fs 1 = true ->
    radsrv md5 rx cfg fs st h c now rnd = (freerq (set_rq st h (rq_set_buf r0 None)) h, [ORet 0]).
  Proof. intros H F. unfold radsrv. rewrite H. cbv zeta. rewrite F. reflexivity. Qed.

  (* the reply cannot be parsed for lack of memory: nothing is delivered *)
  Theorem replyh_parse_failure st s buf now rnd : fs 20 = true ->
    snd (replyh md5 rx cfg fs st s buf now rnd) = [ORet 0].
  Proof. intro F. unfold replyh. cbv zeta. rewrite F. reflexivity. Qed.

  (* a local reply cannot be built: nothing is emitted and nothing changes *)
  Theorem respond_failure st h code extra add_ma : fs 2 = true ->
    respond md5 cfg fs st h code extra add_ma = (st, []).
  Proof.
    intro F. unfold respond. destruct (get_rq st h) as [r|]; [|reflexivity].
    destruct (rq_msg r) as [m|]; [|reflexivity]. rewrite F. reflexivity.
  Qed.

  (* a reply cannot be serialised (and none is stored): the reference handed to sendreply is released,
     nothing is queued *)
  Theorem sendreply_serialise_failure st h r c : get_rq st h = Some r -> rq_from r = Some c ->
    rq_replybuf r = None -> fs 3 = true ->
    sendreply md5 cfg fs st h = (freerq (set_rq st h (rq_set_msg (rq_set_replybuf r None) None)) h, []).
  Proof.
    intros H Hf Hb F. unfold sendreply. rewrite H, Hf, Hb. cbv zeta.
    destruct (rq_msg r) as [m|]; [rewrite F|]; destruct (fs 14); reflexivity.
  Qed.

  (* the reply queue cannot grow: the reply stays stored with the request (a repeat will get it), the
     reference is released, nothing is queued *)
  Theorem sendreply_queue_failure st h r c : get_rq st h = Some r -> rq_from r = Some c -> fs 14 = true ->
    snd (sendreply md5 cfg fs st h) = [].
  Proof.
    intros H Hf F. unfold sendreply. rewrite H, Hf. cbv zeta. rewrite F. reflexivity.
  Qed.

  (* the request cannot be serialised for identifier id: that identifier is skipped, nothing changes *)
  Theorem internal_sendrq_serialise_failure st s id h : fs (100 + id) = true ->
    internal_sendrq md5 cfg fs st s id h = None.
  Proof.
    intro F. unfold internal_sendrq. destruct (sl_rq _); [reflexivity|].
    destruct (get_rq st h) as [r|]; [|reflexivity]. destruct (rq_msg r); [|reflexivity]. rewrite F. reflexivity.
  Qed.
End F.
