From RSP Require Import Base Consts Ttl Spec_C13 BaseLemmas.
Local Open Scope N_scope.

Lemma borrow_none r : wf_bytes r = true -> (borrow r = None <-> le_value r = 0).
Proof.
  induction r as [|x r IH]; intro H; cbn [borrow le_value]; [tauto|].
  rewrite wf_bytes_cons in H. apply andb_true_iff in H as [_ Hr]. specialize (IH Hr).
  destruct (N.eqb_spec x 0) as [->|Hx].
  - destruct (borrow r); cbn [option_map].
    + split; [discriminate|]. intro E. assert (Z : le_value r = 0) by lia. apply IH in Z. discriminate.
    + split; [|reflexivity]. intros _. assert (Z : le_value r = 0) by (apply IH; reflexivity). lia.
  - split; [discriminate|lia].
Qed.

Lemma is_byte_lt x : is_byte x = true <-> x < 256.
Proof. unfold is_byte. apply N.ltb_lt. Qed.

Lemma borrow_some r r' : wf_bytes r = true -> borrow r = Some r' ->
  le_value r' + 1 = le_value r /\ length r' = length r /\ wf_bytes r' = true.
Proof.
  revert r'. induction r as [|x r IH]; intros r' H; cbn [borrow]; [discriminate|].
  rewrite wf_bytes_cons in H. apply andb_true_iff in H as [Hx Hr].
  apply is_byte_lt in Hx.
  destruct (N.eqb_spec x 0) as [->|Hnz].
  - destruct (borrow r) as [r''|] eqn:E; cbn [option_map]; [|discriminate].
    intros [= <-]. destruct (IH r'' Hr eq_refl) as (Hv & Hl & Hw). cbn [le_value length].
    repeat split; [lia|lia|]. rewrite wf_bytes_cons, Hw. reflexivity.
  - intros [= <-]. cbn [le_value length]. repeat split; [lia|].
    rewrite wf_bytes_cons, Hr. replace (is_byte (x - 1)) with true; [reflexivity|].
    symmetry. apply is_byte_lt. lia.
Qed.

(* The arithmetic content of decttl, on the model's own terms *)
Lemma decttl_arith v : wf_bytes v = true ->
  let '(r, v') := decttl v in
  if be_value v =? 0 then r = 0 /\ v' = v
  else be_value v' = be_value v - 1 /\ length v' = length v /\ wf_bytes v' = true /\
       r = (if be_value v - 1 =? 0 then 0 else 1).
Proof.
  intro H. unfold decttl. rewrite (be_le v).
  assert (Hr : wf_bytes (rev v) = true) by (rewrite wf_bytes_rev; exact H).
  assert (Hlen : length (rev v) = length v) by apply rev_length.
  destruct (rev v) as [|x r] eqn:E.
  - simpl. split; reflexivity.
  - rewrite wf_bytes_cons in Hr. apply andb_true_iff in Hr as [Hx Hr'].
    apply is_byte_lt in Hx. unfold nonzero.
    destruct (N.eqb_spec x 0) as [->|Hnz]; cbn [negb].
    + (* last byte zero: borrow *)
      destruct (borrow r) as [r'|] eqn:B.
      * destruct (borrow_some r r' Hr' B) as (Hv & Hl & Hw).
        cbn [le_value]. destruct (N.eqb_spec (0 + 256 * le_value r) 0) as [Z|NZ]; [lia|].
        rewrite be_le, rev_involutive. cbn [le_value].
        repeat split.
        -- lia.
        -- rewrite rev_length. simpl. simpl in Hlen. lia.
        -- rewrite wf_bytes_rev, wf_bytes_cons, Hw. reflexivity.
        -- destruct (N.eqb_spec (0 + 256 * le_value r - 1) 0); [lia|reflexivity].
      * apply borrow_none in B; [|assumption]. cbn [le_value]. rewrite B. simpl. split; reflexivity.
    + cbn [le_value]. destruct (N.eqb_spec (x + 256 * le_value r) 0) as [Z|NZ]; [lia|].
      assert (Hw : wf_bytes (rev ((x - 1) :: r)) = true).
      { rewrite wf_bytes_rev, wf_bytes_cons, Hr'. replace (is_byte (x - 1)) with true; [reflexivity|].
        symmetry. apply is_byte_lt. lia. }
      assert (Hl : length (rev ((x - 1) :: r)) = length v).
      { rewrite rev_length. simpl. simpl in Hlen. lia. }
      assert (Hv : be_value (rev ((x - 1) :: r)) = x + 256 * le_value r - 1).
      { rewrite be_le, rev_involutive. cbn [le_value]. lia. }
      destruct (N.eqb_spec (x - 1) 0) as [X1|X1]; cbn [negb].
      * repeat split; try assumption.
        pose proof (le_value_zero r Hr') as LZ.
        destruct (existsb (fun b : N => negb (b =? 0)) r) eqn:EX.
        -- destruct (N.eqb_spec (x + 256 * le_value r - 1) 0) as [Z2|Z2]; [|reflexivity].
           assert (Z3 : le_value r = 0) by lia. apply LZ in Z3. congruence.
        -- assert (le_value r = 0) by (apply LZ; reflexivity).
           destruct (N.eqb_spec (x + 256 * le_value r - 1) 0) as [Z2|Z2]; [reflexivity|lia].
      * repeat split; try assumption.
        destruct (N.eqb_spec (x + 256 * le_value r - 1) 0) as [Z2|Z2]; [lia|reflexivity].
Qed.

Theorem decttl_spec v : wf_bytes v = true -> spec_decttl v (decttl v) = true.
Proof.
  intro H. pose proof (decttl_arith v H) as A. unfold spec_decttl.
  destruct (decttl v) as [r v']. destruct (be_value v =? 0) eqn:Z.
  - destruct A as [-> ->]. rewrite beq_bytes_refl. reflexivity.
  - destruct A as (Hv & Hl & Hw & ->). rewrite N.eqb_refl, andb_true_r.
    apply beq_bytes_eq. rewrite <- Hl, <- Hv. symmetry. apply be_encode_value. exact Hw.
Qed.

(* decttl never changes the length *)
Lemma decttl_length v : wf_bytes v = true -> length (snd (decttl v)) = length v.
Proof.
  intro H. pose proof (decttl_arith v H) as A. destruct (decttl v) as [r v']. simpl.
  destruct (be_value v =? 0); [destruct A as [_ ->]; reflexivity | tauto].
Qed.

Lemma decttl_wf v : wf_bytes v = true -> wf_bytes (snd (decttl v)) = true.
Proof.
  intro H. pose proof (decttl_arith v H) as A. destruct (decttl v) as [r v']. simpl.
  destruct (be_value v =? 0); [destruct A as [_ ->]; exact H | tauto].
Qed.

Lemma decttl_res v : wf_bytes v = true -> fst (decttl v) = 0 \/ fst (decttl v) = 1.
Proof.
  intro H. pose proof (decttl_arith v H) as A. destruct (decttl v) as [r v']. simpl.
  destruct (be_value v =? 0); [left; tauto|]. destruct A as (_ & _ & _ & ->).
  destruct (_ =? 0); auto.
Qed.

(* ---- checkttl (plain): only the value of the first attribute of the type changes ------------ *)
Definition wf_attrs (l : list tlv) : bool := forallb (fun a => wf_bytes (tlv_v a)) l.

Lemma checkttl_plain_spec t0 attrs : wf_attrs attrs = true ->
  match first_of_type t0 attrs with
  | None => checkttl_plain t0 attrs = (ttl_none, attrs)
  | Some v => exists pre post a,
      attrs = pre ++ a :: post /\ tlv_t a = t0 /\ tlv_v a = v /\
      first_of_type t0 pre = None /\
      checkttl_plain t0 attrs = (fst (decttl v), pre ++ mkTlv t0 (snd (decttl v)) :: post)
  end.
Proof.
  induction attrs as [|a rest IH]; intro W; simpl; [reflexivity|].
  simpl in W. apply andb_true_iff in W as [Wa Wr]. specialize (IH Wr).
  destruct (N.eqb_spec (tlv_t a) t0) as [E|NE].
  - exists [], rest, a. simpl. repeat split; try assumption; try reflexivity.
    destruct (decttl (tlv_v a)) as [r v']. simpl. rewrite E. reflexivity.
  - destruct (first_of_type t0 rest) as [v|].
    + destruct IH as (pre & post & b & -> & Hb & Hv & Hp & Hc).
      exists (a :: pre), post, b. simpl. rewrite Hc.
      destruct (N.eqb_spec (tlv_t a) t0); [contradiction|].
      repeat split; try assumption; reflexivity.
    + rewrite IH. reflexivity.
Qed.
