(* C17: the registration invariant.  A request that sits in a client's duplicate cache came from that client and
   sits at the index of the Identifier the client used.  (sendreply relies on it: it dereferences rq->from;
   rmclientrq relies on it: it clears the entry named by rq->from and the Identifier.)  Needed for the "nothing
   leaks" half of the reference accounting. *)
From RSP Require Import Base Consts Ttl Crypt Packet Rewrite Choose Proxy BaseLemmas Packet_proofs Slots_proofs Dup_proofs
  Keeps_proofs Wf_proofs Refs_proofs Tight_proofs.
From Coq Require Import ZifyBool ZifyNat ZifyN.
Local Open Scope N_scope.

Definition entry (st : state) (c i : nat) : option nat := nth i (c_rqs (get_client st c)) None.

Definition REG (st : state) : Prop := forall c i h r, entry st c i = Some h -> get_rq st h = Some r ->
  rq_from r = Some c /\ N.to_nat (rq_rqid r) = i.

(* b's cache entries are entries of a; surviving requests keep originator and identifier *)
Definition R2 (a b : state) : Prop :=
  (forall h r', get_rq b h = Some r' -> exists r, get_rq a h = Some r /\ rq_from r' = rq_from r /\ rq_rqid r' = rq_rqid r) /\
  (forall c i h, entry b c i = Some h -> entry a c i = Some h).

Lemma R2_refl a : R2 a a.
Proof. split; [intros h r G; exists r; repeat split; exact G | intros c i h E; exact E]. Qed.

Lemma R2_trans a b c : R2 a b -> R2 b c -> R2 a c.
Proof.
  intros [H1 E1] [H2 E2]. split.
  - intros h r G. destruct (H2 _ _ G) as (r1 & G1 & F1 & I1). destruct (H1 _ _ G1) as (r0 & G0 & F0 & I0).
    exists r0. split; [exact G0|]. split; congruence.
  - intros x i h E. apply E1. apply E2. exact E.
Qed.

Lemma REG_R2 a b : REG a -> R2 a b -> REG b.
Proof.
  intros Ra [H E] c i h r En G. destruct (H _ _ G) as (r0 & G0 & F & I). specialize (Ra c i h r0 (E _ _ _ En) G0).
  rewrite F, I. exact Ra.
Qed.

(* ---- primitives ---- *)
Lemma R2_set_rq st h r r' : get_rq st h = Some r -> rq_from r' = rq_from r -> rq_rqid r' = rq_rqid r -> R2 st (set_rq st h r').
Proof.
  intros G F I. split; [|intros c i x E; exact E].
  intros x r1 H. destruct (get_rq_set_rq_inv _ _ _ _ _ H) as [[-> ->] | H1]; [exists r; repeat split; assumption | exists r1; repeat split; exact H1].
Qed.

Lemma R2_upd_rq st h f : (forall r, rq_from (f r) = rq_from r /\ rq_rqid (f r) = rq_rqid r) -> R2 st (upd_rq st h f).
Proof.
  intro Hf. unfold upd_rq. destruct (get_rq st h) as [r|] eqn:G; [|apply R2_refl].
  destruct (Hf r) as [A B]. eapply R2_set_rq; eassumption.
Qed.

Lemma R2_del_rq st h : R2 st (del_rq st h).
Proof. split; [|intros c i x E; exact E]. intros x r H. exists r. repeat split. exact (get_rq_del_rq_inv _ _ _ _ H). Qed.

Lemma R2_newrqref st h : R2 st (newrqref st h).
Proof. unfold newrqref. destruct (get_rq st h) as [r|] eqn:G; [|apply R2_refl]. eapply R2_set_rq; [exact G | reflexivity | reflexivity]. Qed.

Lemma R2_freerq st h : R2 st (freerq st h).
Proof.
  unfold freerq. destruct (get_rq st h) as [r|] eqn:G; [|apply R2_refl].
  destruct (rq_refcount r <=? 1); [apply R2_del_rq | eapply R2_set_rq; [exact G | reflexivity | reflexivity]].
Qed.

Lemma R2_set_server st s x : R2 st (set_server st s x).
Proof. split; [intros h r G; exists r; repeat split; exact G | intros c i h E; exact E]. Qed.

(* a client record whose cache entries are among the old ones *)
Lemma R2_set_client st c cl' : (forall i h, nth i (c_rqs cl') None = Some h -> entry st c i = Some h) -> R2 st (set_client st c cl').
Proof.
  intro H. split; [intros h r G; exists r; repeat split; exact G|].
  intros c' i h E. unfold entry in *.
  destruct (Nat.lt_ge_cases c (length (st_clients st))) as [L|L].
  - rewrite get_client_set_client in E by exact L. destruct (Nat.eqb_spec c' c) as [->|_]; [apply H; exact E | exact E].
  - rewrite set_client_out in E by exact L. exact E.
Qed.

Lemma nth_upd_none_sub (l : list (option nat)) i j h : nth j (upd l i None) None = Some h -> nth j l None = Some h.
Proof.
  intro H. destruct (Nat.eq_dec i j) as [<-|Hn].
  - destruct (Nat.lt_ge_cases i (length l)) as [L|L]; [rewrite nth_upd_same in H by exact L; discriminate H|].
    rewrite upd_out in H by exact L. exact H.
  - rewrite nth_upd_other in H by exact Hn. exact H.
Qed.

Lemma R2_clear_cache st c i : R2 st (set_client st c (mkClient (upd (c_rqs (get_client st c)) i None) (c_replyq (get_client st c)))).
Proof. apply R2_set_client. intros j h H. cbn [c_rqs] in H. exact (nth_upd_none_sub _ _ _ _ H). Qed.

Lemma R2_freerqoutdata st s i : R2 st (freerqoutdata st s i).
Proof.
  unfold freerqoutdata. cbv zeta. eapply R2_trans; [|apply R2_set_server].
  destruct (sl_rq (get_slot (get_server st s) i)) as [h|]; [|apply R2_refl].
  destruct (get_rq st h) as [r|] eqn:G; [|apply R2_refl].
  eapply R2_trans; [|apply R2_freerq]. eapply R2_set_rq; [exact G | reflexivity | reflexivity].
Qed.

Lemma R2_removeclientrq st c i : R2 st (removeclientrq st c i).
Proof.
  unfold removeclientrq. cbv zeta.
  destruct (nth (N.to_nat i) (c_rqs (get_client st c)) None) as [h|]; [|apply R2_refl].
  destruct (get_rq st h) as [r|]; [|apply R2_refl].
  eapply R2_trans; [|apply R2_freerq].
  set (st1 := match rq_to r with Some s => _ | None => st end).
  assert (K1 : R2 st st1).
  { subst st1. destruct (rq_to r) as [s|]; [|apply R2_refl]. destruct (sl_rq _) as [h'|]; [|apply R2_refl].
    destruct (Nat.eqb h' h); [apply R2_freerqoutdata | apply R2_refl]. }
  eapply R2_trans; [exact K1 | apply R2_clear_cache].
Qed.

Section H.
  Variable md5 : bytes -> bytes.
  Variable cfg : config.
  Variable fs : N -> bool.

  Lemma R2_sendreply st h : R2 st (fst (sendreply md5 cfg fs st h)).
  Proof.
    unfold sendreply. destruct (get_rq st h) as [r|] eqn:G; [|apply R2_refl].
    destruct (rq_from r) as [c|]; [|apply R2_refl]. cbv zeta.
    match goal with |- context [set_rq st h ?r1] => set (R1 := r1) end.
    assert (K1 : R2 st (set_rq st h R1)) by (eapply R2_set_rq; [exact G | reflexivity | reflexivity]).
    match goal with |- context [if fs 14 then None else ?rb] => destruct (if fs 14 then None else rb) as [b|] end; cbn [fst].
    - eapply R2_trans; [exact K1|]. apply R2_set_client. intros i x H. exact H.
    - eapply R2_trans; [exact K1 | apply R2_freerq].
  Qed.

  Lemma R2_respond st h code extra ma : R2 st (fst (respond md5 cfg fs st h code extra ma)).
  Proof.
    unfold respond. destruct (get_rq st h) as [r|] eqn:G; [|apply R2_refl].
    destruct (rq_msg r) as [m|]; [|apply R2_refl]. cbv zeta.
    match goal with |- context [match ?x with Some a1 => _ | None => (st, []) end] => destruct x as [a1|] end; [|apply R2_refl].
    match goal with |- context [set_rq st h ?r1] => set (R1 := r1) end.
    eapply R2_trans; [|apply R2_sendreply]. eapply R2_trans; [|apply R2_newrqref].
    eapply R2_set_rq; [exact G | reflexivity | reflexivity].
  Qed.

  Lemma R2_purge_f c now : forall fuel st i, R2 st (purge_f cfg fuel st c i now).
  Proof.
    induction fuel as [|f IH]; intros st i; [apply R2_refl|]. cbn [purge_f]. cbv zeta.
    eapply R2_trans; [|apply IH].
    destruct (nth i (c_rqs (get_client st c)) None) as [h|]; [|apply R2_refl].
    destruct (get_rq st h) as [r|]; [|apply R2_refl].
    match goal with |- context [if ?g then _ else _] => destruct g end; [apply R2_removeclientrq | apply R2_refl].
  Qed.

  Lemma R2_purgedupcache st c now : R2 st (purgedupcache cfg st c now).
  Proof. unfold purgedupcache. generalize 256%nat. intro n. apply R2_purge_f. Qed.
End H.

(* ---- the two operations that are not R2: forgetting a request's own entry, registering a request ---- *)
Lemma REG_rmclientrq st h r : get_rq st h = Some r -> REG st -> REG (rmclientrq st h (rq_rqid r)).
Proof.
  intros G Rg. unfold rmclientrq. rewrite G. destruct (rq_from r) as [c|] eqn:F; [|exact Rg].
  destruct (nth (N.to_nat (rq_rqid r)) (c_rqs (get_client st c)) None) as [h'|] eqn:En; [|exact Rg].
  eapply REG_R2; [|apply R2_freerq].
  set (stc := set_client st c _).
  intros c' i x rx0 E Gx. unfold entry in E.
  assert (Lc : (c < length (st_clients st))%nat) by exact (cache_entry_client_in_range _ _ _ _ En).
  (* the entries of stc are entries of st other than (c, rqid) *)
  assert (Esub : entry st c' i = Some x /\ ~ (c' = c /\ i = N.to_nat (rq_rqid r))).
  { change (get_client (set_rq stc h (rq_set_from r None)) c') with (get_client stc c') in E. subst stc.
    rewrite get_client_set_client in E by exact Lc. destruct (Nat.eqb_spec c' c) as [->|Hn].
    - cbn [c_rqs] in E. split; [exact (nth_upd_none_sub _ _ _ _ E)|]. intros [_ ->].
      rewrite nth_upd_same in E by exact (nth_some_in_range _ _ _ En). discriminate E.
    - split; [exact E | intros [X _]; contradiction]. }
  destruct Esub as [E0 Ne].
  destruct (get_rq_set_rq_inv _ _ _ _ _ Gx) as [[-> ->] | G1].
  - (* x = h: its registered entry is (c, rqid r), which has just been cleared *)
    exfalso. apply Ne. destruct (Rg _ _ _ _ E0 G) as [Fc Ic]. rewrite F in Fc. injection Fc as <-. split; [reflexivity | symmetry; exact Ic].
  - exact (Rg _ _ _ _ E0 G1).
Qed.

Lemma REG_register st c h i : (forall r, get_rq st h = Some r -> rq_from r = Some c /\ N.to_nat (rq_rqid r) = i) -> REG st ->
  REG (set_client st c (mkClient (upd (c_rqs (get_client st c)) i (Some h)) (c_replyq (get_client st c)))).
Proof.
  intros Hh Rg c' j x rx0 E Gx. unfold entry in E. change (get_rq st x = Some rx0) in Gx.
  destruct (Nat.lt_ge_cases c (length (st_clients st))) as [L|L].
  - rewrite get_client_set_client in E by exact L. destruct (Nat.eqb_spec c' c) as [->|_]; [|exact (Rg _ _ _ _ E Gx)].
    cbn [c_rqs] in E. destruct (Nat.eq_dec i j) as [<-|Hn].
    + destruct (Nat.lt_ge_cases i (length (c_rqs (get_client st c)))) as [Li|Li].
      * rewrite nth_upd_same in E by exact Li. injection E as <-. exact (Hh _ Gx).
      * rewrite upd_out in E by exact Li. exact (Rg _ _ _ _ E Gx).
    + rewrite nth_upd_other in E by exact Hn. exact (Rg _ _ _ _ E Gx).
  - rewrite set_client_out in E by exact L. exact (Rg _ _ _ _ E Gx).
Qed.

Section H2.
  Variable md5 : bytes -> bytes.
  Variable cfg : config.
  Variable fs : N -> bool.

  Lemma REG_addclientrq st h c now isnew st' o : addclientrq md5 cfg fs st h c now = (isnew, st', o) ->
    (forall rq, get_rq st h = Some rq -> rq_from rq = Some c) -> REG st -> REG st'.
  Proof.
    unfold addclientrq. intros A Hf Rg. destruct (get_rq st h) as [rq|] eqn:G; [|injection A as _ <- _; exact Rg].
    cbv zeta in A. specialize (Hf rq eq_refl).
    assert (Reg : forall stx, R2 st stx -> REG stx ->
              REG (newrqref (set_client stx c (mkClient (upd (c_rqs (get_client stx c)) (N.to_nat (rq_rqid rq)) (Some h)) (c_replyq (get_client stx c)))) h)).
    { intros stx [Kh _] Rx. eapply REG_R2; [|apply R2_newrqref]. apply REG_register; [|exact Rx].
      intros r Gr. destruct (Kh _ _ Gr) as (r0 & G0 & F0 & I0). rewrite G in G0. injection G0 as <-. rewrite F0, I0. split; [exact Hf | reflexivity]. }
    destruct (nth (N.to_nat (rq_rqid rq)) (c_rqs (get_client st c)) None) as [h'|] eqn:En.
    2:{ injection A as _ <- _. apply Reg; [apply R2_refl | exact Rg]. }
    destruct (get_rq st h') as [r|] eqn:G'.
    2:{ injection A as _ <- _. apply Reg; [apply R2_refl | exact Rg]. }
    match type of A with context [if ?g then _ else _] => destruct g end.
    - destruct (rq_replybuf r).
      + destruct (sendreply md5 cfg fs (newrqref st h') h') as [st1 o1] eqn:SR. injection A as _ <- _.
        change st1 with (fst (st1, o1)). rewrite <- SR. eapply REG_R2; [exact Rg|].
        eapply R2_trans; [apply R2_newrqref | apply R2_sendreply].
      + injection A as _ <- _. exact Rg.
    - injection A as _ <- _. apply Reg; [apply R2_removeclientrq | eapply REG_R2; [exact Rg | apply R2_removeclientrq]].
  Qed.

  Lemma R2_internal_sendrq st s id h st1 o : internal_sendrq md5 cfg fs st s id h = Some (st1, o) -> R2 st st1.
  Proof.
    unfold internal_sendrq. cbv zeta. intro I.
    destruct (sl_rq (get_slot (get_server st s) id)); [discriminate|].
    destruct (get_rq st h) as [r|] eqn:G; [|discriminate].
    destruct (rq_msg r) as [m|]; [|discriminate].
    destruct (fs (100 + id)); [discriminate|].
    destruct (radmsg2buf md5 (set_id m id) (sc_secret (srvconf_of cfg s))) as [[[b a]|]|]; try discriminate.
    injection I as <- _. eapply R2_trans; [|apply R2_set_server]. eapply R2_set_rq; [exact G | reflexivity | reflexivity].
  Qed.

  Lemma R2_scan_ids s h : forall fuel st i limit k st1 o, scan_ids md5 cfg fs fuel st s i limit h = Some (k, st1, o) -> R2 st st1.
  Proof.
    induction fuel as [|f IH]; intros st i limit k st1 o Sc; [discriminate|]. cbn [scan_ids] in Sc.
    destruct (limit <=? i); [discriminate|].
    destruct (internal_sendrq md5 cfg fs st s i h) as [[st2 o2]|] eqn:I.
    - injection Sc as _ <- _. eapply R2_internal_sendrq; eassumption.
    - eapply IH; eassumption.
  Qed.

  Lemma REG_sendrq st h : REG st -> REG (fst (sendrq md5 cfg fs st h)).
  Proof.
    intro Rg.
    assert (Fail : forall stx, REG stx ->
              REG (freerq (match get_rq stx h with
                           | Some r' => match rq_from r' with Some _ => rmclientrq stx h (rq_rqid r') | None => stx end
                           | None => stx end) h)).
    { intros stx Rx. eapply REG_R2; [|apply R2_freerq]. destruct (get_rq stx h) as [r'|] eqn:G; [|exact Rx].
      destruct (rq_from r'); [apply REG_rmclientrq; assumption | exact Rx]. }
    pose proof (Fail st Rg) as F0.
    unfold sendrq. destruct (get_rq st h) as [r|] eqn:G; [|exact Rg]. cbv zeta.
    destruct (rq_to r) as [s|]; [|cbn [fst]; exact F0].
    match goal with |- context [if ?c then _ else _] => destruct c end.
    - destruct (internal_sendrq md5 cfg fs st s 0 h) as [[st1 o1]|] eqn:I; cbn [fst]; [|exact F0].
      eapply REG_R2; [exact Rg|]. eapply R2_trans; [eapply R2_internal_sendrq; exact I | apply R2_set_server].
    - match goal with |- context [scan_ids md5 cfg fs 257 ?st0 s ?a Consts.MAX_REQUESTS h] => set (ST0 := st0) end.
      assert (K0 : R2 st ST0) by apply R2_set_server.
      match goal with |- context [scan_ids md5 cfg fs 257 ST0 s ?a Consts.MAX_REQUESTS h] =>
        destruct (scan_ids md5 cfg fs 257 ST0 s a Consts.MAX_REQUESTS h) as [[[k st1] o1]|] eqn:S1 end.
      + cbn [fst]. eapply REG_R2; [exact Rg|]. eapply R2_trans; [exact K0|]. eapply R2_trans; [eapply R2_scan_ids; exact S1|].
        eapply R2_trans; [|apply R2_set_server]. destruct (_ <=? k); [apply R2_set_server | apply R2_refl].
      + match goal with |- context [scan_ids md5 cfg fs 257 ST0 s ?a ?b' h] =>
          destruct (scan_ids md5 cfg fs 257 ST0 s a b' h) as [[[k st1] o1]|] eqn:S2 end; cbn [fst].
        * eapply REG_R2; [exact Rg|]. eapply R2_trans; [exact K0|]. eapply R2_trans; [eapply R2_scan_ids; exact S2|].
          eapply R2_trans; [|apply R2_set_server]. destruct (_ <=? k); [apply R2_set_server | apply R2_refl].
        * apply Fail. eapply REG_R2; [exact Rg | exact K0].
  Qed.

  Lemma R2_choose st idxs to st' : choose st idxs = (to, st') -> R2 st st'.
  Proof.
    unfold choose. destruct (choosesrvconf _) as [cidx l']. intro H. injection H as _ <-.
    generalize (combine idxs l'). intro l. revert st. induction l as [|p l IH]; intro st; [apply R2_refl|].
    cbn [fold_left]. eapply R2_trans; [apply R2_set_server | apply IH].
  Qed.
End H2.

Lemma REG_set_rq_uncached st h r' : (forall c i, entry st c i <> Some h) -> REG st -> REG (set_rq st h r').
Proof.
  intros Hu Rg c i x rx0 E Gx. change (entry st c i = Some x) in E.
  destruct (get_rq_set_rq_inv _ _ _ _ _ Gx) as [[-> _] | G1]; [exfalso; exact (Hu _ _ E) | exact (Rg _ _ _ _ E G1)].
Qed.

Lemma REG_rmclientrq_id st h id : (forall r, get_rq st h = Some r -> rq_rqid r = id) -> REG st -> REG (rmclientrq st h id).
Proof.
  intros Hid Rg. destruct (get_rq st h) as [r|] eqn:G.
  - rewrite <- (Hid r eq_refl). apply REG_rmclientrq; assumption.
  - unfold rmclientrq. rewrite G. exact Rg.
Qed.

Section R.
  Variable md5 : bytes -> bytes.
  Variable rx : N -> bytes -> option (list (Z * Z)).
  Variable cfg : config.
  Variable fs : N -> bool.

  Theorem REG_radsrv st h c now rnd :
    (forall r0, get_rq st h = Some r0 -> rq_from r0 = Some c) -> (forall c' i, entry st c' i <> Some h) ->
    REG st -> REG (fst (radsrv md5 rx cfg fs st h c now rnd)).
  Proof.
    intros Hr0 Hu Rg0. unfold radsrv. destruct (get_rq st h) as [r0|] eqn:H0; [|exact Rg0]. cbv zeta.
    specialize (Hr0 r0 eq_refl).
    set (stB := set_rq st h (rq_set_buf r0 None)).
    assert (RB : REG stB) by (eapply REG_R2; [exact Rg0 | eapply R2_set_rq; [exact H0 | reflexivity | reflexivity]]).
    assert (GB : get_rq stB h = Some (rq_set_buf r0 None)) by (eapply get_rq_set_rq; exact H0).
    match goal with |- context [match ?x with Some msg => _ | None => (freerq _ h, [ORet 0]) end] => destruct x as [msg|] end;
      [|cbn [fst]; eapply REG_R2; [exact RB | apply R2_freerq]].
    destruct (m_mainvalid msg); [cbn [fst]; eapply REG_R2; [exact RB | apply R2_freerq]|].
    match goal with |- context [set_rq stB h ?r1] => set (R1 := r1) end.
    set (stA := set_rq stB h R1).
    assert (RA : REG stA) by (apply REG_set_rq_uncached; [exact Hu | exact RB]).
    assert (GA : get_rq stA h = Some R1) by (eapply get_rq_set_rq; exact GB).
    pose (PF := fun stX : state => forall rX, get_rq stX h = Some rX -> rq_from rX = Some c /\ rq_rqid rX = m_id msg).
    assert (PA : PF stA) by (intros rX G; rewrite GA in G; injection G as <-; split; [exact Hr0 | reflexivity]).
    assert (PK : forall a b, PF a -> R2 a b -> PF b).
    { intros a b Pa [K _] rX G. destruct (K _ _ G) as (r & Ga & Sf & Si). destruct (Pa _ Ga) as [X Y]. split; congruence. }
    assert (Ex : forall stX (o : list out), REG stX -> REG (fst (freerq stX h, o ++ [ORet 1])))
      by (intros stX o Rx; cbn [fst]; eapply REG_R2; [exact Rx | apply R2_freerq]).
    assert (Rm : forall stX (o : list out), PF stX -> REG stX -> REG (fst (freerq (rmclientrq stX h (m_id msg)) h, o ++ [ORet 1]))).
    { intros stX o Px Rx. cbn [fst]. eapply REG_R2; [|apply R2_freerq]. apply REG_rmclientrq_id; [|exact Rx].
      intros r G. exact (proj2 (Px r G)). }
    assert (Re : forall stX code extra ma, REG stX ->
              REG (fst (let '(st1, o) := respond md5 cfg fs stX h code extra ma in (freerq st1 h, o ++ [ORet 1])))).
    { intros stX code extra ma Rx. pose proof (R2_respond md5 cfg fs stX h code extra ma) as K.
      destruct (respond md5 cfg fs stX h code extra ma) as [st1 o]. cbn [fst] in *. eapply REG_R2; [exact Rx|]. eapply R2_trans; [exact K | apply R2_freerq]. }
    assert (UpR : forall stX f, (forall r, rq_from (f r) = rq_from r /\ rq_rqid (f r) = rq_rqid r) -> R2 stX (upd_rq stX h f))
      by (intros; apply R2_upd_rq; assumption).
    destruct ((m_code msg =? Consts.RAD_Disconnect_Request) || (m_code msg =? Consts.RAD_CoA_Request)); [apply Re; exact RA|].
    destruct (negb _); [apply Ex; exact RA|].
    set (stP := purgedupcache cfg stA c now) in *.
    assert (KP : R2 stA stP) by apply R2_purgedupcache.
    assert (RP : REG stP) by (eapply REG_R2; [exact RA | exact KP]).
    assert (PP : PF stP) by (eapply PK; [exact PA | exact KP]).
    destruct (addclientrq md5 cfg fs stP h c now) as [[isnew st1] o0] eqn:A.
    assert (R1' : REG st1) by (eapply REG_addclientrq; [exact A | intros rq G; exact (proj1 (PP rq G)) | exact RP]).
    destruct (negb isnew) eqn:NI; [apply Ex; exact R1'|].
    assert (isnew = true) as -> by (destruct isnew; [reflexivity | discriminate NI]).
    (* from here on h's originator and identifier are those registered: a new registration kept them *)
    assert (P1 : PF st1).
    { intros rX G. pose proof (keeps_addclientrq md5 cfg fs _ _ _ _ _ _ A _ _ G) as (r & Ga & (_ & _ & Sf & Si & _)).
      destruct (PP _ Ga) as [X Y]. split; congruence. }
    destruct (m_code msg =? Consts.RAD_Status_Server); [apply Re; exact R1'|].
    match goal with |- context [if ?g then (freerq st1 h, [] ++ [ORet 1]) else _] => destruct g end; [apply Ex; exact R1'|].
    destruct (o_verifyeap (cf_opt cfg) && (m_code msg =? Consts.RAD_Access_Request) && negb (verifyeapformat (m_attrs msg))); [apply Re; exact R1'|].
    match goal with |- context [match ?x with Some a1 => _ | None => (freerq _ h, [] ++ [ORet 1]) end] => destruct x as [a1|] end;
      [|apply Rm; [exact P1 | exact R1']].
    destruct (checkttl (o_ttl0 (cf_opt cfg)) (o_ttl1 (cf_opt cfg)) a1) as [ttlres a2].
    match goal with |- context [if ttlres =? 0 then (freerq ?stx h, _) else _] => set (st2 := stx) end.
    assert (K2 : R2 st1 st2) by (subst st2; eapply R2_trans; apply UpR; intro r; split; reflexivity).
    assert (R2' : REG st2) by (eapply REG_R2; [exact R1' | exact K2]).
    assert (P2 : PF st2) by (eapply PK; [exact P1 | exact K2]).
    destruct (ttlres =? 0); [apply Ex; exact R2'|].
    destruct (gettype Consts.RAD_Attr_User_Name a2) as [ua|].
    2:{ destruct (m_code msg =? Consts.RAD_Accounting_Request); [apply Re | apply Ex]; exact R2'. }
    match goal with |- context [match ?x with Some p => _ | None => (freerq _ h, [] ++ [ORet 1]) end] => destruct x as [[uname orig]|] end;
      [|apply Rm; [exact P2 | exact R2']].
    match goal with |- context [if (nlen uname =? 0) || fs 6 then (freerq (rmclientrq ?stx h _) h, _) else _] => set (st3 := stx) end.
    assert (K3 : R2 st2 st3) by (subst st3; apply UpR; intro r; split; reflexivity).
    assert (R3 : REG st3) by (eapply REG_R2; [exact R2' | exact K3]).
    assert (P3 : PF st3) by (eapply PK; [exact P2 | exact K3]).
    destruct ((nlen uname =? 0) || fs 6); [apply Rm; [exact P3 | exact R3]|].
    match goal with |- context [match ?x with Some rl => _ | None => (freerq st3 h, [] ++ [ORet 1]) end] => destruct x as [rl|] end;
      [|apply Ex; exact R3].
    match goal with |- context [choose ?stc ?l] => destruct (choose stc l) as [to stc'] eqn:Ch end.
    assert (K4 : R2 st3 stc') by (eapply R2_choose; exact Ch).
    assert (R4 : REG stc') by (eapply REG_R2; [exact R3 | exact K4]).
    assert (P4 : PF stc') by (eapply PK; [exact P3 | exact K4]).
    destruct to as [s'|].
    2:{ destruct (rl_msg rl) as [txt|].
        - destruct (m_code msg =? Consts.RAD_Access_Request); [apply Re; exact R4|].
          destruct (rl_accresp rl && (m_code msg =? Consts.RAD_Accounting_Request)); [apply Re | apply Ex]; exact R4.
        - destruct (rl_accresp rl && (m_code msg =? Consts.RAD_Accounting_Request)); [apply Re | apply Ex]; exact R4. }
    match goal with |- context [if ?g then (freerq stc' h, [] ++ [ORet 1]) else _] => destruct g end; [apply Ex; exact R4|].
    assert (RmU : forall f (o : list out), (forall r, rq_from (f r) = rq_from r /\ rq_rqid (f r) = rq_rqid r) ->
              REG (fst (freerq (rmclientrq (upd_rq stc' h f) h (m_id msg)) h, o ++ [ORet 1]))).
    { intros f o Hf. apply Rm; [eapply PK; [exact P4 | apply UpR; exact Hf] | eapply REG_R2; [exact R4 | apply UpR; exact Hf]]. }
    match goal with |- context [match ?x with Some a4 => _ | None => (freerq _ h, [] ++ [ORet 1]) end] => destruct x as [a4|] end;
      [|apply Rm; [exact P4 | exact R4]].
    match goal with |- context [match ?x with Some a5 => _ | None => (freerq _ h, [] ++ [ORet 1]) end] => destruct x as [a5|] end;
      [|apply RmU; intro r; split; reflexivity].
    match goal with |- context [match ?x with Some a6 => _ | None => (freerq _ h, [] ++ [ORet 1]) end] => destruct x as [a6|] end;
      [|apply RmU; intro r; split; reflexivity].
    match goal with |- context [if ?g then (freerq _ h, [] ++ [ORet 1]) else _] => destruct g end;
      [apply RmU; intro r; split; reflexivity|].
    match goal with |- context [sendrq md5 cfg fs ?stf h] =>
      assert (RF : REG stf) by (eapply REG_R2; [exact R4 | apply UpR; intro r; split; reflexivity]);
      pose proof (REG_sendrq md5 cfg fs stf h RF) as K; destruct (sendrq md5 cfg fs stf h) as [stZ oZ] end.
    cbn [fst] in *. exact K.
  Qed.
End R.

(* ---- a cache entry is a holder ---- *)
Lemma occ_opt_pos h : forall l i, nth i l None = Some h -> 1 <= occ_opt h l.
Proof.
  induction l as [|o l IH]; intros i H; [destruct i; discriminate H|]. rewrite occ_opt_cons.
  destruct i as [|i]; cbn [nth] in H.
  - subst o. cbn [oind]. rewrite ind_same. lia.
  - specialize (IH i H). lia.
Qed.

Lemma sumN_ge {A} (f : A -> N) (d : A) : forall l i, (i < length l)%nat -> f (nth i l d) <= sumN (map f l).
Proof.
  induction l as [|y l IH]; intros i Hi; [cbn [length] in Hi; lia|].
  cbn [map sumN fold_right]. fold (sumN (map f l)). destruct i as [|i]; cbn [nth]; [lia|].
  cbn [length] in Hi. specialize (IH i ltac:(lia)). lia.
Qed.

Lemma entry_refs st c i h : entry st c i = Some h -> 1 <= refs st h.
Proof.
  intro E. pose proof (cache_entry_client_in_range _ _ _ _ E) as L. unfold entry in E.
  rewrite refs_eq. pose proof (sumN_ge (cf h) (mkClient [] []) (st_clients st) c L) as K.
  fold (get_client st c) in K. unfold cf in K at 1. pose proof (occ_opt_pos h _ _ E). lia.
Qed.

Lemma safe_uncached st e h : safe st (add1 e h) -> (forall r, get_rq st h = Some r -> rq_refcount r = 1) -> forall c i, entry st c i <> Some h.
Proof.
  intros S H1 c i E. pose proof (entry_refs _ _ _ _ E) as K. specialize (S h). unfold add1 in S. rewrite ind_same in S.
  unfold rcount in S. destruct (get_rq st h) as [r|]; [rewrite (H1 r eq_refl) in S|]; lia.
Qed.

Lemma REG_alloc_rq st r : safe st zero -> REG st -> REG (fst (alloc_rq st r)).
Proof.
  intros S Rg c i x rx0 E Gx. unfold alloc_rq in *. cbn [fst] in *. change (entry st c i = Some x) in E.
  unfold get_rq in Gx. cbn [st_heap] in Gx.
  destruct (Nat.lt_ge_cases x (length (st_heap st))) as [L|L].
  - rewrite (nth_error_app1 _ _ L) in Gx. exact (Rg _ _ _ _ E Gx).
  - exfalso. pose proof (entry_refs _ _ _ _ E) as K. specialize (S x). unfold zero, rcount, get_rq in S.
    rewrite (proj2 (nth_error_None _ _) L) in S. lia.
Qed.

Section W.
  Variable md5 : bytes -> bytes.
  Variable rx : N -> bytes -> option (list (Z * Z)).
  Variable cfg : config.
  Variable fs : N -> bool.

  Theorem R2_replyh st s buf now rnd : R2 st (fst (replyh md5 rx cfg fs st s buf now rnd)).
  Proof.
    unfold replyh. cbv zeta.
    set (stL := set_server st s (set_lost (get_server st s) 0)).
    assert (KL : R2 st stL) by apply R2_set_server.
    destruct (sl_rq (get_slot (get_server stL s) (nth 1 buf 0))) as [h|] eqn:Sl.
    2:{ match goal with |- context [match ?x with Some msg => _ | None => (stL, [ORet 0]) end] => destruct x as [msg|] end; [|exact KL].
        destruct (negb (reply_codes (m_code msg))); exact KL. }
    destruct (get_rq stL h) as [r|] eqn:G.
    2:{ match goal with |- context [match ?x with Some msg => _ | None => (stL, [ORet 0]) end] => destruct x as [msg|] end; [|exact KL].
        destruct (negb (reply_codes (m_code msg))); exact KL. }
    match goal with |- context [match ?x with Some msg => _ | None => (stL, [ORet 0]) end] => destruct x as [msg|] end; [|exact KL].
    destruct (negb (reply_codes (m_code msg))); [exact KL|].
    destruct (sl_tries _ =? 0); [exact KL|].
    destruct (m_mainvalid msg); [exact KL|].
    match goal with |- context [if ?g then (stL, [ORet 1]) else _] => destruct g end; [exact KL|].
    match goal with |- context [if ?g =? Consts.RAD_Status_Server then _ else _] => destruct (g =? Consts.RAD_Status_Server) end.
    { cbn [fst]. eapply R2_trans; [exact KL|]. eapply R2_trans; [apply R2_set_server|]. eapply R2_trans; [apply R2_freerqoutdata|].
      match goal with |- context [if ?g then _ else _] => destruct g end; [apply R2_set_server | apply R2_refl]. }
    match goal with |- context [match ?x with Some a1 => _ | None => (?stx, [ORet 1]) end] => set (stT := stx); destruct x as [a1|] end.
    2:{ cbn [fst]. subst stT. eapply R2_trans; [exact KL|]. eapply R2_trans; apply R2_set_server. }
    assert (KT : R2 st stT) by (subst stT; eapply R2_trans; [exact KL|]; eapply R2_trans; apply R2_set_server).
    assert (GT : get_rq stT h = Some r) by exact G.
    destruct (checkttl (o_ttl0 (cf_opt cfg)) (o_ttl1 (cf_opt cfg)) a1) as [ttlres a2].
    destruct (ttlres =? 0); [exact KT|].
    destruct (rq_from r) as [c|]; [|exact KT].
    match goal with |- context [match ?x with Some a3 => _ | None => (stT, [ORet 1]) end] => destruct x as [a3|] end; [|exact KT].
    match goal with |- context [match ?x with Some a4 => _ | None => (stT, [ORet 1]) end] => destruct x as [a4|] end; [|exact KT].
    match goal with |- context [match ?x with Some a5 => _ | None => (stT, [ORet 1]) end] => destruct x as [a5|] end; [|exact KT].
    match goal with |- context [match ?x with Some a6 => _ | None => (stT, [ORet 1]) end] => destruct x as [a6|] end; [|exact KT].
    match goal with |- context [if ?g then (stT, [ORet 1]) else _] => destruct g end; [exact KT|].
    match goal with |- context [set_rq stT h ?r1] => set (R1 := r1) end.
    pose proof (R2_sendreply md5 cfg fs (newrqref (set_rq stT h R1) h) h) as K.
    destruct (sendreply md5 cfg fs (newrqref (set_rq stT h R1) h) h) as [st2 o2]. cbn [fst] in *.
    eapply R2_trans; [exact KT|]. apply (R2_trans _ (set_rq stT h R1)); [apply (R2_set_rq stT h r R1 GT); reflexivity|].
    apply (R2_trans _ (newrqref (set_rq stT h R1) h)); [apply R2_newrqref|]. eapply R2_trans; [exact K | apply R2_freerqoutdata].
  Qed.

  Lemma R2_slots_pass s tick do_resend putfail : forall fuel st i now, R2 st (fst (slots_pass cfg fuel st s i now tick do_resend putfail)).
  Proof.
    induction fuel as [|f IH]; intros st i now; [apply R2_refl|]. cbn [slots_pass]. cbv zeta.
    assert (Nx : forall stX nowX (o : list out), R2 st stX ->
              R2 st (fst (let '(st', o') := slots_pass cfg f stX s (S i) nowX tick do_resend putfail in (st', o ++ o')))).
    { intros stX nowX o Kx. pose proof (IH stX (S i) nowX) as K. destruct (slots_pass cfg f stX s (S i) nowX tick do_resend putfail).
      cbn [fst] in *. eapply R2_trans; eassumption. }
    destruct (sl_rq (get_slot (get_server st s) (N.of_nat i))) as [h|]; [|apply Nx; apply R2_refl].
    destruct (get_rq st h) as [r|]; [|apply Nx; apply R2_refl].
    destruct (slot_action _ _ _ _ _ _ _) as [[act tries] expiry].
    destruct act; apply Nx.
    - apply R2_set_server.
    - eapply R2_trans; [apply R2_set_server | apply R2_freerqoutdata].
    - eapply R2_trans; [apply R2_set_server|]. eapply R2_trans; [apply R2_set_server | apply R2_freerqoutdata].
    - eapply R2_trans; apply R2_set_server.
  Qed.

  Lemma REG_writer_iteration st s now tick rnd putfail : safe st zero -> REG st ->
    REG (fst (fst (writer_iteration md5 cfg fs st s now tick rnd putfail))).
  Proof.
    intros S Rg. unfold writer_iteration. cbv zeta.
    match goal with |- context [slots_pass cfg 256 ?stw s 0 now tick ?dr putfail] =>
      pose proof (R2_slots_pass s tick dr putfail 256 stw 0%nat now) as K;
      pose proof (safe_slots_pass cfg s tick dr putfail zero 256 stw 0%nat now
                    ltac:(apply safe_set_server_sle; [apply sle_same; destruct (s_conreset (get_server st s)); reflexivity | exact S])) as KS;
      destruct (slots_pass cfg 256 stw s 0 now tick dr putfail) as [st1 o1] end.
    cbn [fst] in K, KS.
    assert (R1 : REG st1) by (eapply REG_R2; [exact Rg|]; eapply R2_trans; [apply R2_set_server | exact K]).
    match goal with |- context [if ?g then _ else (st1, o1, rnd)] => destruct g end; [|exact R1].
    assert (K2 : forall x, REG (set_server st1 s x)) by (intro x; eapply REG_R2; [exact R1 | apply R2_set_server]).
    destruct (fs 40); [apply K2|]. destruct (fs 41); [apply K2|].
    match goal with |- context [createstatsrvrq ?stc s ?nw rnd] =>
      assert (KA : REG (fst (createstatsrvrq stc s nw rnd))) end.
    { unfold createstatsrvrq. apply REG_alloc_rq; [|apply K2]. apply safe_set_server_sle; [apply sle_same; reflexivity | exact KS]. }
    match goal with |- context [createstatsrvrq ?stc s ?nw rnd] => destruct (createstatsrvrq stc s nw rnd) as [st2 hn] end.
    cbn [fst] in KA. pose proof (REG_sendrq md5 cfg fs st2 hn KA) as KQ.
    destruct (sendrq md5 cfg fs st2 hn) as [st3 o2]. exact KQ.
  Qed.

  Lemma REG_writer_release s tick putfail : forall fuel st now rnd, safe st zero -> REG st ->
    REG (fst (writer_release md5 cfg fs fuel st s now tick rnd putfail)).
  Proof.
    induction fuel as [|f IH]; intros st now rnd S Rg; [exact Rg|]. cbn [writer_release].
    pose proof (REG_writer_iteration st s now tick rnd putfail S Rg) as K.
    pose proof (safe_writer_iteration md5 cfg fs st s now tick rnd putfail zero S) as KS.
    destruct (writer_iteration md5 cfg fs st s now tick rnd putfail) as [[st1 o1] rnd']. cbn [fst] in K, KS.
    destruct (s_newrq (get_server st1 s)).
    - pose proof (IH st1 (now + tick * count_tx o1)%Z rnd' KS K) as K2.
      destruct (writer_release md5 cfg fs f st1 s _ tick rnd' putfail). exact K2.
    - unfold prewait. cbv zeta. cbn [fst]. eapply REG_R2; [exact K | apply R2_set_server].
  Qed.
End W.

Lemma R2_fold_freerq : forall q st, R2 st (fold_left freerq q st).
Proof. induction q as [|x q IH]; intro st; [apply R2_refl|]. cbn [fold_left]. eapply R2_trans; [apply R2_freerq | apply IH]. Qed.

Lemma R2_drain_replyq st c : R2 st (drain_replyq st c).
Proof.
  unfold drain_replyq. cbv zeta. eapply R2_trans; [|apply R2_fold_freerq]. apply R2_set_client. intros i h H. exact H.
Qed.

Lemma R2_removeclient st c : R2 st (removeclient st c).
Proof.
  unfold removeclient. eapply R2_trans; [|apply R2_drain_replyq].
  generalize (seq 0 256). intro l. revert st. induction l as [|i l IH]; intro st; [apply R2_refl|].
  cbn [fold_left]. eapply R2_trans; [apply R2_removeclientrq | apply IH].
Qed.

Lemma R2_freeserver st s : R2 st (freeserver st s).
Proof.
  unfold freeserver. generalize (seq 0 256). intro l. revert st. induction l as [|i l IH]; intro st; [apply R2_refl|].
  cbn [fold_left]. eapply R2_trans; [apply R2_freerqoutdata | apply IH].
Qed.
