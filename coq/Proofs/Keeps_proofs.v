(* What the bookkeeping operations leave alone: the message, the stored reply and the originating client of
   every request object.  The duplicate-cache purge, registration of a new request, server choice and the
   reference counting may release request objects; they never alter the content of one that survives. *)
From RSP Require Import Base Consts Ttl Crypt Packet Rewrite Choose Proxy Slots_proofs Dup_proofs.
From Coq Require Import ZifyBool ZifyNat ZifyN.
Local Open Scope N_scope.

Lemma nth_error_set_nth_cases {A} (l : list A) i x j :
  nth_error (set_nth l i x) j = nth_error l j \/ (j = i /\ nth_error (set_nth l i x) j = Some x).
Proof.
  revert i j. induction l as [|y l IH]; intros i j; [left; reflexivity|].
  destruct i as [|i], j as [|j]; cbn [set_nth nth_error].
  - right. split; reflexivity.
  - left. reflexivity.
  - left. reflexivity.
  - destruct (IH i j) as [H | [-> H]]; [left; exact H | right; split; [reflexivity | exact H]].
Qed.

Definition same_content (r' r : request) : Prop :=
  rq_msg r' = rq_msg r /\ rq_replybuf r' = rq_replybuf r /\ rq_from r' = rq_from r /\
  rq_rqid r' = rq_rqid r /\ rq_rqauth r' = rq_rqauth r.

Definition keeps (st st' : state) : Prop :=
  forall h r', get_rq st' h = Some r' -> exists r, get_rq st h = Some r /\ same_content r' r.

Lemma same_content_refl r : same_content r r.
Proof. repeat split. Qed.

Lemma same_content_trans a b c : same_content a b -> same_content b c -> same_content a c.
Proof. unfold same_content. intuition congruence. Qed.

Lemma keeps_refl st : keeps st st.
Proof. intros h r H. exists r. split; [exact H | apply same_content_refl]. Qed.

Lemma keeps_trans a b c : keeps a b -> keeps b c -> keeps a c.
Proof.
  intros H1 H2 h r H. destruct (H2 _ _ H) as (r1 & G1 & S1). destruct (H1 _ _ G1) as (r0 & G0 & S0).
  exists r0. split; [exact G0 | eapply same_content_trans; eassumption].
Qed.

Lemma keeps_set_rq st h r r1 : get_rq st h = Some r -> same_content r1 r -> keeps st (set_rq st h r1).
Proof.
  intros G S h' r' H. unfold get_rq, set_rq, upd in H. cbn [st_heap] in H.
  destruct (nth_error_set_nth_cases (st_heap st) h (Some r1) h') as [E | [-> E]]; rewrite E in H.
  - exists r'. split; [exact H | apply same_content_refl].
  - injection H as <-. exists r. split; assumption.
Qed.

Lemma keeps_del_rq st h : keeps st (del_rq st h).
Proof.
  intros h' r' H. unfold get_rq, del_rq, upd in H. cbn [st_heap] in H.
  destruct (nth_error_set_nth_cases (st_heap st) h None h') as [E | [-> E]]; rewrite E in H; [|discriminate].
  exists r'. split; [exact H | apply same_content_refl].
Qed.

Lemma keeps_set_client st c x : keeps st (set_client st c x).
Proof. intros h r H. exists r. split; [exact H | apply same_content_refl]. Qed.

Lemma keeps_set_server st s x : keeps st (set_server st s x).
Proof. intros h r H. exists r. split; [exact H | apply same_content_refl]. Qed.

Lemma keeps_upd_rq st h f : (forall r, same_content (f r) r) -> keeps st (upd_rq st h f).
Proof.
  intro Hf. unfold upd_rq. destruct (get_rq st h) as [r|] eqn:G; [|apply keeps_refl].
  eapply keeps_set_rq; [exact G | apply Hf].
Qed.

Lemma keeps_newrqref st h : keeps st (newrqref st h).
Proof.
  unfold newrqref. destruct (get_rq st h) as [r|] eqn:G; [|apply keeps_refl].
  eapply keeps_set_rq; [exact G | repeat split].
Qed.

Lemma keeps_freerq st h : keeps st (freerq st h).
Proof.
  unfold freerq. destruct (get_rq st h) as [r|] eqn:G; [|apply keeps_refl].
  destruct (rq_refcount r <=? 1); [apply keeps_del_rq|].
  eapply keeps_set_rq; [exact G | repeat split].
Qed.

Lemma keeps_freerqoutdata st s i : keeps st (freerqoutdata st s i).
Proof.
  unfold freerqoutdata. cbv zeta. eapply keeps_trans; [|apply keeps_set_server].
  destruct (sl_rq (get_slot (get_server st s) i)) as [h|]; [|apply keeps_refl].
  destruct (get_rq st h) as [r|] eqn:G; [|apply keeps_refl].
  eapply keeps_trans; [|apply keeps_freerq]. eapply keeps_set_rq; [exact G | repeat split].
Qed.

Lemma keeps_removeclientrq st c i : keeps st (removeclientrq st c i).
Proof.
  unfold removeclientrq. cbv zeta.
  destruct (nth (N.to_nat i) (c_rqs (get_client st c)) None) as [h|]; [|apply keeps_refl].
  destruct (get_rq st h) as [r|] eqn:G; [|apply keeps_refl].
  eapply keeps_trans; [|apply keeps_freerq]. eapply keeps_trans; [|apply keeps_set_client].
  destruct (rq_to r) as [s|]; [|apply keeps_refl].
  destruct (sl_rq (get_slot (get_server st s) (rq_newid r))) as [h'|]; [|apply keeps_refl].
  destruct (Nat.eqb h' h); [apply keeps_freerqoutdata | apply keeps_refl].
Qed.

Section K.
  Variable md5 : bytes -> bytes.
  Variable cfg : config.
  Variable fs : N -> bool.

  Lemma keeps_purge_f c now : forall fuel st i, keeps st (purge_f cfg fuel st c i now).
  Proof.
    induction fuel as [|f IH]; intros st i; [apply keeps_refl|]. cbn [purge_f]. cbv zeta.
    eapply keeps_trans; [|apply IH].
    destruct (nth i (c_rqs (get_client st c)) None) as [h|]; [|apply keeps_refl].
    destruct (get_rq st h) as [r|]; [|apply keeps_refl].
    match goal with |- context [if ?g then _ else _] => destruct g end; [apply keeps_removeclientrq | apply keeps_refl].
  Qed.

  Lemma keeps_purgedupcache st c now : keeps st (purgedupcache cfg st c now).
  Proof. unfold purgedupcache. generalize 256%nat. intro n. apply keeps_purge_f. Qed.

  (* registration of a new request (the answer `true`) *)
  Lemma keeps_addclientrq st h c now st' o : addclientrq md5 cfg fs st h c now = (true, st', o) -> keeps st st'.
  Proof.
    unfold addclientrq. destruct (get_rq st h) as [rq|]; [|discriminate]. cbv zeta.
    assert (Reg : forall stx, keeps stx (newrqref (set_client stx c (mkClient (upd (c_rqs (get_client stx c)) (N.to_nat (rq_rqid rq)) (Some h)) (c_replyq (get_client stx c)))) h)).
    { intro stx. eapply keeps_trans; [apply keeps_set_client | apply keeps_newrqref]. }
    destruct (nth (N.to_nat (rq_rqid rq)) (c_rqs (get_client st c)) None) as [h'|]; [|intro H; injection H as <- _; apply Reg].
    destruct (get_rq st h') as [r|]; [|intro H; injection H as <- _; apply Reg].
    match goal with |- context [if ?g then _ else _] => destruct g end.
    - destruct (rq_replybuf r); [destruct (sendreply md5 cfg fs _ h')|]; discriminate.
    - intro H; injection H as <- _. eapply keeps_trans; [apply keeps_removeclientrq | apply Reg].
  Qed.

  Lemma keeps_choose st idxs to st' : choose st idxs = (to, st') -> keeps st st'.
  Proof.
    unfold choose. destruct (choosesrvconf _) as [cidx l']. intro H. injection H as _ <-.
    generalize (combine idxs l'). intro l. revert st. induction l as [|p l IH]; intro st; [apply keeps_refl|].
    cbn [fold_left]. eapply keeps_trans; [apply keeps_set_server | apply IH].
  Qed.
End K.
