From RSP Require Import Base.
From Coq Require Import ZifyBool ZifyNat ZifyN.
Local Open Scope N_scope.
Ltac Zify.zify_post_hook ::= Z.div_mod_to_equations.

Lemma beq_bytes_refl a : beq_bytes a a = true.
Proof.
  unfold beq_bytes. rewrite Nat.eqb_refl. simpl.
  induction a as [|x a IH]; simpl; [reflexivity|]. rewrite N.eqb_refl. exact IH.
Qed.

Lemma beq_bytes_eq a b : beq_bytes a b = true <-> a = b.
Proof.
  split; [|intros ->; apply beq_bytes_refl].
  unfold beq_bytes. revert b. induction a as [|x a IH]; intros [|y b]; simpl; try discriminate; auto.
  intro H. apply andb_true_iff in H as [Hl H]. apply andb_true_iff in H as [Hx H].
  apply N.eqb_eq in Hx. subst y. f_equal. apply IH. rewrite Hl. exact H.
Qed.

Lemma wf_bytes_app a b : wf_bytes (a ++ b) = wf_bytes a && wf_bytes b.
Proof. unfold wf_bytes. apply forallb_app. Qed.

Lemma wf_bytes_rev a : wf_bytes (rev a) = wf_bytes a.
Proof.
  induction a as [|x a IH]; simpl; [reflexivity|].
  rewrite wf_bytes_app, IH. simpl. rewrite andb_true_r. apply andb_comm.
Qed.

Lemma wf_bytes_cons x a : wf_bytes (x :: a) = is_byte x && wf_bytes a.
Proof. reflexivity. Qed.

(* little-endian value, least significant byte first *)
Fixpoint le_value (r : bytes) : N :=
  match r with [] => 0 | b :: r' => b + 256 * le_value r' end.

Lemma be_value_snoc v x : be_value (v ++ [x]) = be_value v * 256 + x.
Proof. unfold be_value. rewrite fold_left_app. reflexivity. Qed.

Lemma be_le v : be_value v = le_value (rev v).
Proof.
  induction v as [|x v IH] using rev_ind; [reflexivity|].
  rewrite be_value_snoc, rev_app_distr. cbn [rev app le_value]. rewrite IH. lia.
Qed.

Lemma le_be r : le_value r = be_value (rev r).
Proof. rewrite be_le, rev_involutive. reflexivity. Qed.

Lemma be_encode_length k n : length (be_encode k n) = k.
Proof. revert n. induction k as [|k IH]; intro n; simpl; [reflexivity|]. rewrite app_length, IH. simpl. lia. Qed.

(* encode . decode = id on well-formed byte strings *)
Lemma be_encode_value v : wf_bytes v = true -> be_encode (length v) (be_value v) = v.
Proof.
  induction v as [|x v IH] using rev_ind; intro H; [reflexivity|].
  rewrite wf_bytes_app in H. apply andb_true_iff in H as [Hv Hx].
  simpl in Hx. rewrite andb_true_r in Hx. unfold is_byte in Hx. apply N.ltb_lt in Hx.
  rewrite app_length. simpl. rewrite Nat.add_1_r. simpl.
  rewrite be_value_snoc.
  set (b := be_value v).
  replace ((b * 256 + x) / 256) with b by lia.
  replace ((b * 256 + x) mod 256) with x by lia.
  subst b.
  rewrite IH by assumption. reflexivity.
Qed.

Lemma be_value_inj a b : wf_bytes a = true -> wf_bytes b = true -> length a = length b ->
  be_value a = be_value b -> a = b.
Proof.
  intros Ha Hb Hl Hv. rewrite <- (be_encode_value a Ha), <- (be_encode_value b Hb), Hl, Hv. reflexivity.
Qed.

Lemma le_value_zero r : wf_bytes r = true -> (le_value r = 0 <-> existsb (fun b => negb (b =? 0)) r = false).
Proof.
  induction r as [|x r IH]; intro H; cbn [le_value existsb]; [tauto|].
  rewrite wf_bytes_cons in H. apply andb_true_iff in H as [_ Hr]. specialize (IH Hr).
  destruct (N.eqb_spec x 0) as [->|Hx]; cbn [negb orb].
  - rewrite <- IH. lia.
  - split; [lia|discriminate].
Qed.

Lemma existsb_false_forall {A} (p : A -> bool) l : existsb p l = false -> forall x, In x l -> p x = false.
Proof.
  induction l as [|y l IH]; simpl; intros H x Hx; [contradiction|].
  apply orb_false_iff in H as [Hy Hl]. destruct Hx as [->|Hx]; [exact Hy | apply IH; assumption].
Qed.

Lemma firstn_app_exact_l {A} (b r : list A) : firstn (length b) (b ++ r) = b.
Proof. rewrite firstn_app, Nat.sub_diag, firstn_all. simpl. apply app_nil_r. Qed.

Lemma skipn_app_exact_l {A} (b r : list A) : skipn (length b) (b ++ r) = r.
Proof. rewrite skipn_app, Nat.sub_diag, skipn_all. reflexivity. Qed.

(* firstn 16 (skipn 4 (c :: i :: len2 ++ auth ++ rest)) = auth, for 2-byte len2 and 16-byte auth *)
Lemma firstn_app_exact_l0 (c i : N) (len2 auth rest : bytes) : length len2 = 2%nat -> length auth = 16%nat ->
  firstn 16 (skipn 4 (c :: i :: len2 ++ auth ++ rest)) = auth.
Proof.
  intros H2 H16. destruct len2 as [|a [|b [|]]]; simpl in H2; try lia. cbn [skipn app].
  rewrite <- H16. apply firstn_app_exact_l.
Qed.

Lemma wf_bytes_firstn n l : wf_bytes l = true -> wf_bytes (firstn n l) = true.
Proof.
  revert n. induction l as [|x l IH]; intros [|n] H; simpl; auto.
  simpl in H. apply andb_true_iff in H as [Hx Hl]. rewrite Hx. simpl. apply IH. exact Hl.
Qed.

Lemma wf_bytes_skipn n l : wf_bytes l = true -> wf_bytes (skipn n l) = true.
Proof.
  revert n. induction l as [|x l IH]; intros [|n] H; simpl; auto.
  simpl in H. apply andb_true_iff in H as [Hx Hl]. apply IH. exact Hl.
Qed.

